\* negative: sliding AddMulti returns nil on an error reply
SPECIFICATION Spec
CONSTANTS
  Kind = "sliding"
  Items = {a, b}
  Size = 3
  K = 2
  HSet <- AllHashes
  KeySeqs <- KeySeqs2
  Q <- NoQ
  MaxOps = 0
  Half = 2
  MaxNow = 6
  MaxTotal = 0
  ExpireInclusive = TRUE
  Defect = "add-swallows-error-reply"
  AllowBadConfig = FALSE
  Emit = FALSE
  Faults = {"errreply"}
  QS <- NoQ
  Ops <- AllOps
  Big = FALSE
VIEW MCView
INVARIANTS PresentForHalfWindow
CHECK_DEADLOCK FALSE
