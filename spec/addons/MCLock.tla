------------------------------- MODULE MCLock -------------------------------
(* Model values for the configurations of Lock.tla (TLC configuration files cannot contain tuples). *)
EXTENDS LockGen
C1 == <<1>>
MW == <<"with">>
C12 == <<1, 2>>
C112 == <<1, 1, 2>>
C123 == <<1, 2, 3>>
C11 == <<1, 1>>
MWW == <<"with", "with">>
MWT == <<"with", "try">>
MWF == <<"with", "force">>
MTF == <<"try", "force">>
MWWW == <<"with", "with", "with">>
MWWT == <<"with", "with", "try">>
MWWF == <<"with", "with", "force">>
=============================================================================
