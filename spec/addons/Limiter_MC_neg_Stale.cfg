SPECIFICATION Spec
CONSTANTS
  Callers = {1, 2}
  Ids = {1}
  Limit = 3
  W = 2
  OptLists <- OL_None
  Slack = 2
  Ns = {1}
  Jumps = {1}
  MaxClock = 6
  MaxCalls = 2
  MaxStale = 100
  BugIncrBeforeReset = FALSE
  BugAllowOneMore = FALSE
  BugNoZeroOnReset = FALSE
  BugVerdictFromDefault = FALSE
  BugRemainingFromDefault = FALSE
  BugWindowFromDefault = FALSE
  BugFirstOptionWins = FALSE
INVARIANTS ResetIdentifiesWindow
CHECK_DEADLOCK FALSE
