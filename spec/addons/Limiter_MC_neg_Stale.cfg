SPECIFICATION Spec
CONSTANTS
  Callers = {1, 2}
  Ids = {1}
  Limit = 3
  W = 2
  Slack = 2
  Ns = {1}
  Jumps = {1}
  MaxClock = 6
  MaxCalls = 2
  MaxStale = 100
  BugIncrBeforeReset = FALSE
  BugAllowOneMore = FALSE
  BugNoZeroOnReset = FALSE
INVARIANTS ResetIdentifiesWindow
CHECK_DEADLOCK FALSE
