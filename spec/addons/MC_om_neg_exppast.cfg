\* negative: an expiry that is not in the future is ignored instead of removing the key
SPECIFICATION Spec
CONSTANTS
  Repo = "hash"
  Savers = {"s1", "s2"}
  Keys = {"k1"}
  InitDocs <- InitDocs1
  Exps = {"zero", "past", "now", "future"}
  MaxNow = 3
  MaxBatch = 0
  MaxObtain = 1
  MaxSaves = 1
  MaxVer = 6
  Defect = "exp-past-ignored"
  Emit = FALSE
  MaxOps = 0
VIEW MCView
INVARIANTS TypeOK
PROPERTIES SavedIsFetchable
CHECK_DEADLOCK FALSE
