SPECIFICATION Spec
CONSTANTS
  Cmds = {"SETs", "GETs", "GETm", "INCRn", "INCRs", "DOinc", "DObad"}
  Kinds = {"pipe", "tx", "txwatch", "txconflict", "txstale"}
  Apis = {"exec", "fn", "oexec", "ofn"}
  MaxQueued = 2
  MaxExecs = 2
  MaxDiscards = 1
  BugMultiAfter = FALSE
  BugShift = FALSE
  BugNoTxFailed = FALSE
  BugDiscardKeeps = FALSE
  BugWatchLeaks = FALSE
INVARIANTS Emit
CHECK_DEADLOCK FALSE
