\* negative: the add script overwrites the item counter instead of incrementing it
SPECIFICATION Spec
CONSTANTS
  Kind = "bloom"
  Items = {a, b, c}
  Size = 3
  K = 2
  HSet <- AllHashes
  KeySeqs <- KeySeqs2
  Q <- NoQ
  MaxOps = 0
  Half = 0
  MaxNow = 0
  MaxTotal = 0
  ExpireInclusive = TRUE
  Defect = "count-set-not-incr"
  AllowBadConfig = FALSE
  Emit = FALSE
  Faults <- NoFaults
  QS <- NoQ
  Ops <- AllOps
  Big = FALSE
VIEW MCView
INVARIANTS TypeOK
PROPERTIES CountMonotone
CHECK_DEADLOCK FALSE
