SPECIFICATION Spec
CONSTANTS
  KindNames = {"std", "ro", "nosha", "ronosha", "retry", "noshartry", "stdload", "roload", "retryload"}
  MaxCalls = 3
  MaxMulti = 3
  Modes = {"exec", "multi"}
  Faults = {"err", "cutbefore", "execcut"}
  MaxFaults = 2
  MaxFlush = 1
  FailingOK = TRUE
  RetryOn = FALSE
  InitCached = {TRUE, FALSE}
  BugEvalAfterAnyError = FALSE
  BugEvalshaForNoSha = FALSE
  BugLoadEveryTime = FALSE
  BugRoFallbackRw = FALSE
INVARIANTS TypeOK Props
VIEW McView
CHECK_DEADLOCK FALSE
