\* negative: the script stores the version without incrementing it
SPECIFICATION Spec
CONSTANTS
  Repo = "json"
  Savers = {"s1", "s2", "s3"}
  InitDocs <- InitDocs3
  Keys = {"k1"}
  Exps = {"zero"}
  MaxNow = 1
  MaxBatch = 0
  MaxObtain = 2
  MaxSaves = 2
  MaxVer = 6
  Defect = "no-increment"
  Emit = FALSE
  MaxOps = 0
VIEW MCView
INVARIANTS TypeOK
PROPERTIES VersionPlusOne
CHECK_DEADLOCK FALSE
