SPECIFICATION Spec
CONSTANTS
  Procs = {1, 2}
  ClientOf <- C12
  ModeOf <- MWT
  K = 3
  Maj = 2
  MaxCalls = 1
  MaxIoErr = 0
  MaxAcqErr = 2
  MaxExtDel = 0
  MaxExpire = 0
  MaxDisc = 0
  MaxSrcCancel = 0
  NoLoop = TRUE
  AsyncPush = FALSE
  FixCancelFirst = TRUE
  FixRetryTimer = FALSE
  FixLocalHandoff = TRUE
  BugExtendNoToken = FALSE
  BugThreshold = FALSE
  BugIgnoreInval = FALSE
  BugLostByCause = FALSE
  BugNilNoGate = FALSE
  DiscParkedOnly = FALSE
  Record = FALSE
  GenLen = 0
INVARIANTS NoLostWakeup


CHECK_DEADLOCK FALSE
