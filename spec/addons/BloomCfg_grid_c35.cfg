SPECIFICATION Spec
CONSTANTS
  Kinds = {"bloom"}
  Mode = "grid"
INVARIANT Report
CHECK_DEADLOCK FALSE
