SPECIFICATION Spec
CONSTANTS
  NodeIds = {1, 2}
  MaxDepth = 2
  MaxDed = 2
  MaxOps = 5
  MaxCalls = 5
  FwdModes = {TRUE, FALSE}
  BugBypass <- BypassNone
  BugRewrap = TRUE
  Layers = {1}
  CtxStates = {"live"}
  BugStackCollapse = FALSE
  BugCtxOverride = FALSE
INVARIANTS TypeOK ExactlyOneHookCall ResultUnchanged UnderlyingAtMostOnce PassThroughUntouched DerivedWrapped
VIEW McView
CHECK_DEADLOCK FALSE
