------------------------------- MODULE Bloom -------------------------------
(***************************************************************************)
(* rueidisprob: Bloom filter (bloomfilter.go, C35), counting Bloom filter  *)
(* (countingbloomfilter.go, C36) and sliding-window Bloom filter           *)
(* (slidingbloomfilter.go, C37).                                           *)
(*                                                                         *)
(* Every Lua script is ONE atomic action, transcribed from its text loop   *)
(* by loop (AddLoop, ExLoop, Dec/Inc = the rollback of the remove script); *)
(* the Go side aggregation loops of the counting filter (CExLoop, MinLoop) *)
(* are transcribed as well.  The hash is abstract: H maps every item to a  *)
(* sequence of K indexes in 0..Size-1.  Model checking lets H range over   *)
(* ALL such functions for tiny sizes (collisions, shared and repeated      *)
(* indexes are covered); conformance fixes H to the function induced by    *)
(* the real murmur3 index computation, so the predictions become exact.    *)
(*                                                                         *)
(* Obligation(K, Size) is what the Go constructors must establish for      *)
(* every configuration they accept.                                        *)
(***************************************************************************)
EXTENDS BloomIface, Sequences, FiniteSets, TLC, Json

CONSTANTS
  Kind,            \* "bloom" | "counting" | "sliding"
  Items,           \* item names
  Size, K,         \* index space 0..Size-1 and number of hash iterations, as computed by the constructor
  HSet,            \* the hash functions explored (one is chosen in Init and never changes)
  KeySeqs,         \* the key sequences the operations are called with (length 1 = Add/Exists/Remove)
  Q,               \* sequence of items queried after every step of an emitted history
  MaxOps,          \* length of emitted histories (Emit only)
  Half,            \* sliding: half a window, in clock ticks
  MaxNow,          \* sliding: last clock value explored
  MaxTotal,        \* counting: bound on the item counter
  ExpireInclusive, \* TRUE: the rotation lock is gone when now >= set + Half (fakeredis); FALSE: now > set + Half (Redis)
  Defect,          \* "none" = the code as it is; a name re-introduces a defect (negative configs)
  AllowBadConfig,  \* TRUE drops the interface obligation (negative config with K = 0)
  Emit,            \* TRUE: keep the history and print it when it reaches MaxOps steps
  \* ---- round 2
  Faults,          \* reply classes of a script call explored besides "ok": subset of {"errreply", "lostbefore", "lostafter"}
  QS,              \* sequence of key sequences, each queried as ONE batch after every step of an emitted history
  Ops,             \* the operations enabled (directed generation runs restrict them; AllOps otherwise)
  Big              \* TRUE: batches of 10^4 keys -- the abstract per-key rule replaces the recursive loop transcriptions

\* Obligation(k, size) == k >= 1 /\ size >= 1 is defined in BloomIface
ASSUME AllowBadConfig \/ Obligation(K, Size)
ASSUME Kind \in {"bloom", "counting", "sliding"}
AllOps == {"AddMulti", "ExistsMulti", "RemoveMulti", "Reset", "Delete", "Tick", "NewHandle"}
AllFaults == {"errreply", "lostbefore", "lostafter"}
NoFaults == {}
ASSUME Faults \subseteq AllFaults /\ Ops \subseteq AllOps /\ Big \in BOOLEAN

(***************************************************************************)
(* Reply classes of one script call (EVALSHA/EVAL of the add, remove and   *)
(* sliding exists scripts):                                                *)
(*   ok         executed, reply delivered: the method returns nil          *)
(*   errreply   the server refuses the call with an error reply (-OOM,     *)
(*              -READONLY, -MISCONF ...): nothing executed, the method     *)
(*              returns that error                                         *)
(*   lostbefore connection lost before execution: nothing executed, error  *)
(*   lostafter  executed, reply lost: state changed, the method returns an *)
(*              error (the caller may not assume anything)                 *)
(* What the caller is told is `err`; the obligations of C35/C36/C37 arise  *)
(* from calls that returned nil, whatever happened on the wire.            *)
(***************************************************************************)
Classes == {"ok"} \cup Faults
Executed(cls) == cls \in {"ok", "lostafter"}
CallErr(cls) == cls # "ok"
AddErr(cls) == IF Defect = "add-swallows-error-reply" /\ cls = "errreply" THEN FALSE ELSE CallErr(cls)

Idx == 0 .. (Size - 1)
AllHashes == [Items -> [1..K -> Idx]]

VARIABLES
  H,          \* the hash function
  bits,       \* bloom: the bit set;  sliding: the current filter
  nbits,      \* sliding: the next filter
  cnt,        \* counting: index -> counter (hash field)
  count,      \* item counter key (bloom, counting, sliding current)
  ncount,     \* sliding: item counter of the next filter
  now,        \* sliding: server clock
  lockUntil,  \* sliding: expiry of the rotation lock key (-1 = key absent)
  nmiss,      \* sliding: the filter keys do not exist (after Delete)
  \* ---- history (what the properties talk about)
  added,      \* bloom: items added since the last Reset/Delete
  net,        \* counting: adds minus successful removals per item
  legit,      \* counting: so far only previously added items were removed
  lastAdd,    \* sliding: clock of the last successful add per item (-1: none, reset, or too old to matter)
  last,       \* the last operation and its result
  hist        \* emitted history

vars == <<H, bits, nbits, cnt, count, ncount, now, lockUntil, nmiss, added, net, legit, lastAdd, last, hist>>

NoOp == [op |-> "Init", keys |-> <<>>, ans |-> <<>>, removed |-> <<>>, err |-> FALSE, cls |-> "ok"]

\* indexes(keys): K indexes per input key, in input order, repeated keys included
\* (Defect "dedup-batch": a key repeated within one batch is hashed only once)
RECURSIVE FlatFrom(_, _)
FlatFrom(ks, seen) ==
  IF ks = <<>> THEN <<>>
  ELSE IF Defect = "dedup-batch" /\ Head(ks) \in seen THEN FlatFrom(Tail(ks), seen)
  ELSE H[Head(ks)] \o FlatFrom(Tail(ks), seen \cup {Head(ks)})
Flat(ks) == FlatFrom(ks, {})

SeqSet(s) == {s[i] : i \in DOMAIN s}
B2N(b) == IF b THEN 1 ELSE 0

(***************************************************************************)
(* bloomFilterAddMultiScript / slidingBloomFilterAddMultiScript: the loop. *)
(* BITFIELD SET returns the old bit; an item counts as new when not all of *)
(* its K bits were set before.                                             *)
(***************************************************************************)
RECURSIVE AddLoop(_, _, _, _, _)
AddLoop(fl, i, b, one, c) ==
  IF i > Len(fl) THEN [b |-> b, c |-> c]
  ELSE LET skip == Defect = "add-skips-last-index" /\ K > 1 /\ i % K = 0
           b2   == IF skip THEN b ELSE b \cup {fl[i]}
           one2 == one + B2N(fl[i] \in b)
       IN IF i % K = 0
          THEN AddLoop(fl, i + 1, b2, 0, IF one2 # K THEN c + 1 ELSE c)
          ELSE AddLoop(fl, i + 1, b2, one2, c)

(***************************************************************************)
(* bloomFilterExistsMultiScript (and the sliding one): one boolean per     *)
(* group of K indexes; then the Go loop `for i, el := range arr            *)
(* { result[i] = v }` over `make([]bool, len(keys))`.                      *)
(***************************************************************************)
RECURSIVE ExLoop(_, _, _, _, _)
ExLoop(fl, i, b, one, res) ==
  IF i > Len(fl) THEN res
  ELSE LET one2 == one + B2N(fl[i] \in b)
       IN IF i % K = 0
          THEN ExLoop(fl, i + 1, b, IF Defect = "exists-no-reset" THEN one2 ELSE 0, Append(res, one2 = K))
          ELSE ExLoop(fl, i + 1, b, one2, res)

GoAnswers(ks, arr) == [i \in 1..Len(ks) |-> IF i <= Len(arr) THEN arr[i] ELSE FALSE]
\* the code sends ALL indexes of a batch in ONE script call.  Defect "chunk-flat": the flat index list is cut into
\* calls of ChunkLen indexes regardless of key boundaries, the answers of the calls are concatenated
ChunkLen == K + 1
RECURSIVE ChunkAnswers(_, _)
ChunkAnswers(fl, b) ==
  IF Len(fl) <= ChunkLen THEN ExLoop(fl, 1, b, 0, <<>>)
  ELSE ExLoop(SubSeq(fl, 1, ChunkLen), 1, b, 0, <<>>) \o ChunkAnswers(SubSeq(fl, ChunkLen + 1, Len(fl)), b)
BitAnswers(ks, b) ==
  GoAnswers(ks, IF Defect = "chunk-flat" THEN ChunkAnswers(Flat(ks), b) ELSE ExLoop(Flat(ks), 1, b, 0, <<>>))

(***************************************************************************)
(* counting filter                                                         *)
(***************************************************************************)
Mult(x, i) == Cardinality({j \in 1..K : H[x][j] = i})
IdxOf(x) == {H[x][j] : j \in 1..K}
RECURSIVE Bump(_, _, _, _)   \* HINCRBY d on each of the K indexes of x (EXCEPT: Size may be large in generation runs)
Bump(c, x, j, d) == IF j > K THEN c ELSE Bump([c EXCEPT ![H[x][j]] = @ + d], x, j + 1, d)
\* Defect "add-once-per-slot": the add skips an index an earlier hash iteration of the same key already hit
RECURSIVE BumpOnce(_, _, _)
BumpOnce(c, x, j) ==
  IF j > K THEN c
  ELSE BumpOnce(IF \E jj \in 1..(j-1) : H[x][jj] = H[x][j] THEN c ELSE [c EXCEPT ![H[x][j]] = @ + 1], x, j + 1)
PlusItem(c, x)  == IF Defect = "add-once-per-slot" THEN BumpOnce(c, x, 1) ELSE Bump(c, x, 1, 1)
MinusItem(c, x) == Bump(c, x, 1, -1)

RECURSIVE PlusSeq(_, _)
PlusSeq(c, ks) == IF ks = <<>> THEN c ELSE PlusSeq(PlusItem(c, Head(ks)), Tail(ks))

\* ExistsMulti: HMGET, then the Go loop with isExist carried over a group of K replies
RECURSIVE CExLoop(_, _, _, _)
CExLoop(fl, i, isEx, res) ==
  IF i > Len(fl) THEN res
  ELSE LET e2 == isEx /\ cnt[fl[i]] > 0
       IN IF i % K = 0 THEN CExLoop(fl, i + 1, TRUE, Append(res, e2)) ELSE CExLoop(fl, i + 1, e2, res)

\* ItemMinCountMulti: the Go loop with minCount carried over a group (-1 stands for MaxUint64)
RECURSIVE MinLoop(_, _, _, _)
MinLoop(fl, i, m, res) ==
  IF i > Len(fl) THEN res
  ELSE LET m2 == IF m = -1 \/ cnt[fl[i]] < m THEN cnt[fl[i]] ELSE m
       IN IF i % K = 0 THEN MinLoop(fl, i + 1, -1, Append(res, m2)) ELSE MinLoop(fl, i + 1, m2, res)

\* countingBloomFilterRemoveMultiScript: local table indexCounter (lc), per item decrement until a value
\* drops below zero, then roll the decrements of this item back.
RECURSIVE Dec(_, _, _)
Dec(lc, x, j) ==
  IF j > K THEN [lc |-> lc, fail |-> 0]
  ELSE LET i  == H[x][j]
           l2 == [lc EXCEPT ![i] = @ - 1]
       IN IF l2[i] < 0 /\ Defect # "remove-unguarded" THEN [lc |-> l2, fail |-> j] ELSE Dec(l2, x, j + 1)

RECURSIVE Inc(_, _, _, _)
Inc(lc, x, j, upto) == IF j > upto THEN lc ELSE Inc([lc EXCEPT ![H[x][j]] = @ + 1], x, j + 1, upto)

RemoveItem(lc, x) ==
  LET d == Dec(lc, x, 1)
  IN IF d.fail = 0 THEN [lc |-> d.lc, ok |-> TRUE]
     ELSE [lc |-> CASE Defect = "remove-no-rollback"  -> d.lc
                    [] Defect = "remove-rollback-all" -> Inc(d.lc, x, 1, K)      \* also the counters never decremented
                    [] OTHER                          -> Inc(d.lc, x, 1, d.fail),
           ok |-> FALSE]

\* the loop over the items of one call: local table, per-item verdicts
RECURSIVE RemoveLoop(_, _, _)
RemoveLoop(lc, ks, oks) ==
  IF ks = <<>> THEN oks
  ELSE LET r == RemoveItem(lc, Head(ks)) IN RemoveLoop(r.lc, Tail(ks), Append(oks, r.ok))

\* `for i=1, #decreaseIndexes do HINCRBY -1`
RECURSIVE ApplyRemoved(_, _, _, _)
ApplyRemoved(c, ks, oks, i) ==
  IF i > Len(ks) THEN c
  ELSE ApplyRemoved(IF oks[i] THEN MinusItem(c, ks[i]) ELSE c, ks, oks, i + 1)

NumTrue(bs) == Cardinality({i \in DOMAIN bs : bs[i]})

\* the abstract rule the property states: an item is removable iff no counter would go negative;
\* a failed removal changes nothing, neither the counters nor the fate of the other keys of the call
CanRemove(c, x) == \A i \in IdxOf(x) : c[i] >= Mult(x, i)
RECURSIVE AbsRemove(_, _, _)
AbsRemove(c, ks, oks) ==
  IF ks = <<>> THEN [c |-> c, oks |-> oks]
  ELSE IF CanRemove(c, Head(ks)) THEN AbsRemove(MinusItem(c, Head(ks)), Tail(ks), Append(oks, TRUE))
       ELSE AbsRemove(c, Tail(ks), Append(oks, FALSE))

\* history bookkeeping of a RemoveMulti: <<net, legit>>.  Once an item that was not (any longer) added has been
\* removed successfully -- possible through collisions -- the premise of the property is gone until the next
\* Delete, and net is no longer tracked (kept at zero).
NoNet == [x \in Items |-> 0]
RECURSIVE NetAfter(_, _, _, _)
NetAfter(n, lg, ks, oks) ==
  IF ~lg THEN <<NoNet, FALSE>>
  ELSE IF ks = <<>> THEN <<n, lg>>
  ELSE LET x == Head(ks) IN
       IF ~Head(oks) THEN NetAfter(n, lg, Tail(ks), Tail(oks))
       ELSE IF n[x] > 0 THEN NetAfter([n EXCEPT ![x] = @ - 1], lg, Tail(ks), Tail(oks))
            ELSE <<NoNet, FALSE>>

RECURSIVE NetPlus(_, _)
NetPlus(n, ks) == IF ks = <<>> THEN n ELSE NetPlus([n EXCEPT ![Head(ks)] = @ + 1], Tail(ks))

(***************************************************************************)
(* sliding filter: the prologue of the add and exists scripts              *)
(***************************************************************************)
Expired == IF ExpireInclusive THEN now >= lockUntil ELSE now > lockUntil

\* bit set Exists looks at, at this instant
CurNow == IF Kind = "sliding" /\ Expired /\ ~nmiss THEN nbits ELSE bits

(***************************************************************************)
(* what the operations answer, what the property obliges                   *)
(***************************************************************************)
PresentNow(x) ==
  CASE Kind = "counting" -> \A j \in 1..K : cnt[H[x][j]] > 0
    [] OTHER -> K >= 1 /\ \A j \in 1..K : H[x][j] \in CurNow

\* what ExistsMulti(ks) / ItemMinCountMulti(ks) answer in this state (script loop, then the Go loop)
\* Big: one level of recursion per index is too deep for batches of 10^4 keys; AnswersPerKey (checked for all hash
\* functions of the tiny sizes) says the loops compute exactly the per-key rule, which is evaluated instead
ExistsAnswers(ks) ==
  IF Big THEN [i \in 1..Len(ks) |-> PresentNow(ks[i])]
  ELSE IF Kind = "counting" THEN CExLoop(Flat(ks), 1, TRUE, <<>>) ELSE BitAnswers(ks, CurNow)
MinAnswers(ks) == MinLoop(Flat(ks), 1, -1, <<>>)

MinCount(x) == IF K = 0 THEN 0 ELSE
  LET vs == {cnt[H[x][j]] : j \in 1..K} IN CHOOSE m \in vs : \A v \in vs : m <= v

Must(x) ==
  CASE Kind = "bloom"    -> x \in added
    [] Kind = "counting" -> legit /\ net[x] > 0
    [] Kind = "sliding"  -> lastAdd[x] >= 0 /\ now <= lastAdd[x] + Half

Snapshot ==
  [op |-> last.op, keys |-> last.keys, ans |-> last.ans, removed |-> last.removed, err |-> last.err, cls |-> last.cls,
   now |-> now, count |-> count,
   qsans  |-> IF Kind = "sliding" THEN <<>> ELSE [i \in 1..Len(QS) |-> ExistsAnswers(QS[i])],
   qsmins |-> IF Kind = "counting" THEN [i \in 1..Len(QS) |-> MinAnswers(QS[i])] ELSE <<>>,
   qsmust |-> [i \in 1..Len(QS) |-> [p \in 1..Len(QS[i]) |-> Must(QS[i][p])]],
   qsnet  |-> [i \in 1..Len(QS) |-> [p \in 1..Len(QS[i]) |-> IF Kind = "counting" /\ legit THEN net[QS[i][p]] ELSE 0]],
   present |-> [i \in 1..Len(Q) |-> IF Kind = "sliding" THEN FALSE ELSE ExistsAnswers(<<Q[i]>>)[1]],
   mincnt  |-> [i \in 1..Len(Q) |-> IF Kind = "counting" THEN MinAnswers(<<Q[i]>>)[1] ELSE 0],
   qans    |-> IF Kind = "sliding" THEN <<>> ELSE ExistsAnswers(Q),
   qmins   |-> IF Kind = "counting" THEN MinAnswers(Q) ELSE <<>>,
   must    |-> [i \in 1..Len(Q) |-> Must(Q[i])],
   netq    |-> [i \in 1..Len(Q) |-> IF Kind = "counting" /\ legit THEN net[Q[i]] ELSE 0],
   mustans |-> [i \in 1..Len(last.keys) |-> Must(last.keys[i])],
   cnt     |-> IF Kind = "counting" THEN {<<i, cnt[i]>> : i \in {j \in Idx : cnt[j] # 0}} ELSE {}]

Record == hist' = IF Emit THEN Append(hist, Snapshot') ELSE hist
CanStep == ~Emit \/ Len(hist) < MaxOps

(***************************************************************************)
(* Init: the constructor ran (the sliding filter's initialize script set   *)
(* the lock for half a window)                                             *)
(***************************************************************************)
Init ==
  /\ H \in HSet
  /\ bits = {} /\ nbits = {} /\ cnt = [i \in Idx |-> 0] /\ count = 0 /\ ncount = 0
  /\ now = 0 /\ lockUntil = (IF Kind = "sliding" THEN Half ELSE 0) /\ nmiss = FALSE
  /\ added = {} /\ net = [x \in Items |-> 0] /\ legit = TRUE /\ lastAdd = [x \in Items |-> -1]
  /\ last = NoOp /\ hist = <<>>

(***************************************************************************)
(* bloom                                                                   *)
(***************************************************************************)
\* the state the add script leaves (Big: the bits of all keys; the item counter is not predicted, -1)
BAdded(ks) ==
  IF Big THEN [b |-> bits \cup UNION {IdxOf(ks[i]) : i \in 1..Len(ks)}, c |-> -1]
  ELSE LET r == AddLoop(Flat(ks), 1, bits, 0, 0)
       IN [b |-> r.b, c |-> IF Defect = "count-set-not-incr" THEN r.c ELSE count + r.c]

BAddMulti(ks, cls) ==
  /\ Kind = "bloom" /\ CanStep /\ "AddMulti" \in Ops
  /\ IF Executed(cls)
     THEN LET r == BAdded(ks) IN bits' = r.b /\ count' = r.c
     ELSE UNCHANGED <<bits, count>>
  /\ added' = (IF AddErr(cls) THEN added ELSE added \cup SeqSet(ks))     \* obligations arise from calls that returned nil
  /\ last' = [NoOp EXCEPT !.op = "AddMulti", !.keys = ks, !.err = AddErr(cls), !.cls = cls]
  /\ UNCHANGED <<H, nbits, cnt, ncount, now, lockUntil, nmiss, net, legit, lastAdd>>
  /\ Record

\* Reset: SET filter "" / SET counter 0;  Delete: DEL both.  Same abstract state.
BClear(op) ==
  /\ Kind = "bloom" /\ CanStep /\ op \in Ops
  /\ bits' = {} /\ count' = 0 /\ added' = {}
  /\ last' = [NoOp EXCEPT !.op = op]
  /\ UNCHANGED <<H, nbits, cnt, ncount, now, lockUntil, nmiss, net, legit, lastAdd>>
  /\ Record

(***************************************************************************)
(* counting                                                                *)
(***************************************************************************)
CAddMulti(ks, cls) ==
  /\ Kind = "counting" /\ CanStep /\ "AddMulti" \in Ops
  /\ count + Len(ks) <= MaxTotal
  /\ IF Executed(cls)
     THEN cnt' = PlusSeq(cnt, ks) /\ count' = count + Len(ks)
     ELSE UNCHANGED <<cnt, count>>
  /\ net' = (IF legit /\ ~AddErr(cls) THEN NetPlus(net, ks) ELSE net)
  /\ last' = [NoOp EXCEPT !.op = "AddMulti", !.keys = ks, !.err = AddErr(cls), !.cls = cls]
  /\ UNCHANGED <<H, bits, nbits, ncount, now, lockUntil, nmiss, added, legit, lastAdd>>
  /\ Record

\* a removal that was executed counts as a removal even when its reply was lost (fewer obligations, never more)
CRemoveMulti(ks, cls) ==
  /\ Kind = "counting" /\ CanStep /\ "RemoveMulti" \in Ops
  /\ IF Executed(cls)
     THEN LET oks == RemoveLoop(cnt, ks, <<>>)
              na  == NetAfter(net, legit, ks, oks) IN
            /\ cnt' = ApplyRemoved(cnt, ks, oks, 1)
            /\ count' = count - NumTrue(oks)
            /\ net' = na[1] /\ legit' = na[2]
            /\ last' = [NoOp EXCEPT !.op = "RemoveMulti", !.keys = ks, !.removed = oks, !.err = CallErr(cls), !.cls = cls]
     ELSE /\ UNCHANGED <<cnt, count, net, legit>>
          /\ last' = [NoOp EXCEPT !.op = "RemoveMulti", !.keys = ks, !.removed = [i \in 1..Len(ks) |-> FALSE],
                                  !.err = TRUE, !.cls = cls]
  /\ UNCHANGED <<H, bits, nbits, ncount, now, lockUntil, nmiss, added, lastAdd>>
  /\ Record

CDelete ==
  /\ Kind = "counting" /\ CanStep /\ "Delete" \in Ops
  /\ cnt' = [i \in Idx |-> 0] /\ count' = 0
  /\ net' = [x \in Items |-> 0] /\ legit' = TRUE
  /\ last' = [NoOp EXCEPT !.op = "Delete"]
  /\ UNCHANGED <<H, bits, nbits, ncount, now, lockUntil, nmiss, added, lastAdd>>
  /\ Record

(***************************************************************************)
(* sliding                                                                 *)
(***************************************************************************)
\* the state after `SET lastRotationKey .. PX windowHalf NX` and, when acquired, the rotation
Rot ==
  IF ~Expired THEN [ok |-> TRUE, b |-> bits, nb |-> nbits, c |-> count, nc |-> ncount, lu |-> lockUntil]
  ELSE IF nmiss THEN [ok |-> FALSE, b |-> bits, nb |-> nbits, c |-> count, nc |-> ncount, lu |-> now + Half]  \* RENAME: no such key
  ELSE CASE Defect = "rotate-both"           -> [ok |-> TRUE, b |-> {}, nb |-> {}, c |-> 0, nc |-> 0, lu |-> now + Half]
         [] Defect = "rotate-clears-current" -> [ok |-> TRUE, b |-> {}, nb |-> nbits, c |-> 0, nc |-> ncount, lu |-> now + Half]
         [] OTHER                            -> [ok |-> TRUE, b |-> nbits, nb |-> {}, c |-> ncount, nc |-> 0, lu |-> now + Half]

SAddMulti(ks, cls) ==
  /\ Kind = "sliding" /\ CanStep /\ "AddMulti" \in Ops
  /\ IF ~Executed(cls)
     THEN /\ last' = [NoOp EXCEPT !.op = "AddMulti", !.keys = ks, !.err = AddErr(cls), !.cls = cls]
          /\ lastAdd' = [x \in Items |-> IF x \in SeqSet(ks) /\ ~AddErr(cls) THEN now ELSE lastAdd[x]]
          /\ UNCHANGED <<bits, nbits, count, ncount, nmiss, lockUntil>>
     ELSE LET r == Rot IN
       IF ~r.ok
       THEN /\ lockUntil' = r.lu
            /\ last' = [NoOp EXCEPT !.op = "AddMulti", !.keys = ks, !.err = TRUE, !.cls = cls]
            /\ UNCHANGED <<bits, nbits, count, ncount, nmiss, lastAdd>>
       ELSE LET a == AddLoop(Flat(ks), 1, r.b, 0, 0) IN
            /\ bits' = a.b
            /\ nbits' = r.nb \cup SeqSet(Flat(ks))
            /\ count' = r.c + a.c /\ ncount' = r.nc + a.c
            /\ lockUntil' = r.lu /\ nmiss' = FALSE
            /\ lastAdd' = [x \in Items |-> IF x \in SeqSet(ks) /\ ~AddErr(cls) THEN now ELSE lastAdd[x]]
            /\ last' = [NoOp EXCEPT !.op = "AddMulti", !.keys = ks, !.err = AddErr(cls), !.cls = cls]
  /\ UNCHANGED <<H, cnt, now, added, net, legit>>
  /\ Record

\* Defect "ro-reads-next": the exists script looks at the next generation instead of the current one
SExistsMulti(ks, cls) ==
  /\ Kind = "sliding" /\ CanStep /\ "ExistsMulti" \in Ops
  /\ IF ~Executed(cls)
     THEN /\ last' = [NoOp EXCEPT !.op = "ExistsMulti", !.keys = ks, !.err = TRUE, !.cls = cls]
          /\ UNCHANGED <<bits, nbits, count, ncount, lockUntil>>
     ELSE LET r == Rot IN
       IF ~r.ok
       THEN /\ lockUntil' = r.lu
            /\ last' = [NoOp EXCEPT !.op = "ExistsMulti", !.keys = ks, !.err = TRUE, !.cls = cls]
            /\ UNCHANGED <<bits, nbits, count, ncount>>
       ELSE /\ bits' = r.b /\ nbits' = r.nb /\ count' = r.c /\ ncount' = r.nc /\ lockUntil' = r.lu
            /\ last' = [NoOp EXCEPT !.op = "ExistsMulti", !.keys = ks, !.err = CallErr(cls), !.cls = cls,
                                    !.ans = IF CallErr(cls) THEN <<>>
                                            ELSE BitAnswers(ks, IF Defect = "ro-reads-next" THEN r.nb ELSE r.b)]
  /\ UNCHANGED <<H, cnt, now, nmiss, added, net, legit, lastAdd>>
  /\ Record

\* slidingBloomFilterResetScript: rotate without touching the lock
SReset ==
  /\ Kind = "sliding" /\ CanStep /\ "Reset" \in Ops
  /\ IF nmiss
     THEN /\ last' = [NoOp EXCEPT !.op = "Reset", !.err = TRUE]
          /\ UNCHANGED <<bits, nbits, count, ncount, lastAdd>>
     ELSE /\ bits' = nbits /\ nbits' = {} /\ count' = ncount /\ ncount' = 0
          /\ lastAdd' = [x \in Items |-> -1]
          /\ last' = [NoOp EXCEPT !.op = "Reset"]
  /\ UNCHANGED <<H, cnt, now, lockUntil, nmiss, added, net, legit>>
  /\ Record

\* DEL of all five keys
SDelete ==
  /\ Kind = "sliding" /\ CanStep /\ "Delete" \in Ops
  /\ bits' = {} /\ nbits' = {} /\ count' = 0 /\ ncount' = 0 /\ lockUntil' = -1 /\ nmiss' = TRUE
  /\ lastAdd' = [x \in Items |-> -1]
  /\ last' = [NoOp EXCEPT !.op = "Delete"]
  /\ UNCHANGED <<H, cnt, now, added, net, legit>>
  /\ Record

(***************************************************************************)
(* NewSlidingBloomFilter on the name of an existing filter (a second       *)
(* process, a restart): slidingBloomFilterInitializeScript.  It creates    *)
(* the two generations, the two counters (MSET) and the lock (SET PX NX)   *)
(* only when NONE of the five keys exists.  The lock key expires by itself *)
(* every half window, so "some key is missing" is the normal state of an   *)
(* idle filter and must not re-initialise it (Defect "init-any-missing").  *)
(* The obligations (lastAdd) are untouched: constructing a handle is       *)
(* neither a Reset nor a Delete.                                           *)
(***************************************************************************)
SNewHandle ==
  /\ Kind = "sliding" /\ CanStep /\ "NewHandle" \in Ops
  /\ LET init == IF Defect = "init-any-missing" THEN nmiss \/ Expired ELSE nmiss /\ Expired IN
     IF init
     THEN /\ bits' = {} /\ nbits' = {} /\ count' = 0 /\ ncount' = 0 /\ nmiss' = FALSE
          /\ lockUntil' = (IF Expired THEN now + Half ELSE lockUntil)
     ELSE UNCHANGED <<bits, nbits, count, ncount, nmiss, lockUntil>>
  /\ last' = [NoOp EXCEPT !.op = "NewHandle"]
  /\ UNCHANGED <<H, cnt, now, added, net, legit, lastAdd>>
  /\ Record

Tick ==
  /\ Kind = "sliding" /\ CanStep /\ "Tick" \in Ops
  /\ now < MaxNow
  /\ now' = now + 1
  /\ lastAdd' = [x \in Items |-> IF lastAdd[x] >= 0 /\ now + 1 > lastAdd[x] + Half THEN -1 ELSE lastAdd[x]]
  /\ last' = [NoOp EXCEPT !.op = "Tick"]
  /\ UNCHANGED <<H, bits, nbits, cnt, count, ncount, lockUntil, nmiss, added, net, legit>>
  /\ Record

(***************************************************************************)
(* The queries of the bloom and the counting filter change nothing: they   *)
(* are not actions; the properties below quantify over every key sequence  *)
(* in every reachable state (ExistsAnswers, MinAnswers), and an emitted    *)
(* history carries the predicted answers after every step.  Exists of the  *)
(* sliding filter may rotate and is an action.                             *)
(***************************************************************************)
Next ==
  \/ \E ks \in KeySeqs, cls \in Classes : BAddMulti(ks, cls)
  \/ BClear("Reset") \/ BClear("Delete")
  \/ \E ks \in KeySeqs, cls \in Classes : CAddMulti(ks, cls) \/ CRemoveMulti(ks, cls)
  \/ CDelete
  \/ \E ks \in KeySeqs, cls \in Classes : SAddMulti(ks, cls) \/ SExistsMulti(ks, cls)
  \/ SReset \/ SDelete \/ SNewHandle \/ Tick

Spec == Init /\ [][Next]_vars

\* model checking: the record of the last operation only serves the action properties
MCView == <<H, bits, nbits, cnt, count, ncount, now, lockUntil, nmiss, added, net, legit, lastAdd>>

(***************************************************************************)
(* Properties                                                              *)
(***************************************************************************)
TypeOK ==
  /\ H \in HSet
  /\ bits \subseteq Idx /\ nbits \subseteq Idx
  /\ count \in Int /\ ncount \in Int
  /\ added \subseteq Items /\ legit \in BOOLEAN

\* C35: no false negatives -- state form (what Exists would answer) and answer form (what it did answer)
NoFalseNegative == Kind = "bloom" => \A x \in Items : Must(x) => PresentNow(x)
AnswersHonourObligations ==
  Kind # "sliding" => \A ks \in KeySeqs : LET a == ExistsAnswers(ks) IN
     /\ Len(a) = Len(ks)
     /\ \A i \in 1..Len(ks) : Must(ks[i]) => a[i]
\* C35/C36: answers are per input key, in order
AnswersPerKey ==
  Kind # "sliding" => \A ks \in KeySeqs :
     /\ ExistsAnswers(ks) = [i \in 1..Len(ks) |-> PresentNow(ks[i])]
     /\ Kind = "counting" => MinAnswers(ks) = [i \in 1..Len(ks) |-> MinCount(ks[i])]
\* the same for the sliding filter, whose Exists is an action (the answer is about the state after the rotation)
SlidingAnswers ==
  [][\A ks \in KeySeqs : (last'.op = "ExistsMulti" /\ last'.keys = ks /\ ~last'.err) =>
       /\ last'.ans = [i \in 1..Len(ks) |-> PresentNow(ks[i])']
       /\ \A i \in 1..Len(ks) : Must(ks[i])' => last'.ans[i]]_vars
\* C35/C36/C37, for every reply class of the script call: an Add/AddMulti that returned nil has added its items
\* (Exists answers present right afterwards); a call answered with an error (reply or transport) creates no obligation
AddNilMeansPresent ==
  [][\A ks \in KeySeqs : (last'.op = "AddMulti" /\ last'.keys = ks /\ ~last'.err) =>
       \A i \in 1..Len(ks) : PresentNow(ks[i])']_vars
\* C35: Count never decreases except through Reset or Delete
CountMonotone == [][(Kind = "bloom" /\ last'.op \notin {"Reset", "Delete"}) => count' >= count]_vars

\* C36
NoNegativeCounter == (\A i \in Idx : cnt[i] >= 0) /\ count >= 0
MinCountAtLeastNet == Kind = "counting" => \A x \in Items : legit => MinCount(x) >= net[x]
PresentWhileNetPositive == Kind = "counting" => \A x \in Items : Must(x) => PresentNow(x)
FailedRemoveChangesNothing ==
  [][last'.op = "RemoveMulti" =>
       IF Executed(last'.cls)
       THEN LET a == AbsRemove(cnt, last'.keys, <<>>) IN
              /\ last'.removed = a.oks
              /\ cnt' = a.c
              /\ count' = count - NumTrue(a.oks)
       ELSE cnt' = cnt /\ count' = count]_vars

\* C37
PresentForHalfWindow == Kind = "sliding" => \A x \in Items : Must(x) => PresentNow(x)

(***************************************************************************)
(* Generation                                                              *)
(***************************************************************************)
EmitCase == (Emit /\ Len(hist) = MaxOps) => PrintT(<<"CASE", ToJson([steps |-> hist])>>)

\* helpers for configs
SeqsUpTo(S, n) == UNION {[1..m -> S] : m \in 1..n}
KeySeqs1 == SeqsUpTo(Items, 1)
KeySeqs2 == SeqsUpTo(Items, 2)
KeySeqs3 == SeqsUpTo(Items, 3)
NoQ == <<>>
=============================================================================
