\* negative: the rotation clears the current filter instead of promoting the next one
SPECIFICATION Spec
CONSTANTS
  Kind = "sliding"
  Items = {a, b}
  Size = 3
  K = 2
  HSet <- AllHashes
  KeySeqs <- KeySeqs2
  Q <- NoQ
  MaxOps = 0
  Half = 2
  MaxNow = 7
  MaxTotal = 0
  ExpireInclusive = TRUE
  Defect = "rotate-clears-current"
  AllowBadConfig = FALSE
  Emit = FALSE
  Faults <- NoFaults
  QS <- NoQ
  Ops <- AllOps
  Big = FALSE
VIEW MCView
INVARIANTS PresentForHalfWindow
CHECK_DEADLOCK FALSE
