\* generation, exhaustive: 3 savers, each obtains an entity once (NewEntity or Fetch, pointer fields nil or set) and saves once,
\* every interleaving, every initial document; every behaviour has 6 steps
SPECIFICATION Spec
CONSTANTS
  Repo = "hash"
  Savers = {"s1", "s2", "s3"}
  InitDocs <- InitDocs3
  Keys = {"k1"}
  Exps = {"zero"}
  MaxNow = 1
  MaxBatch = 0
  MaxObtain = 1
  MaxSaves = 1
  MaxVer = 8
  Defect = "none"
  Emit = TRUE
  MaxOps = 6
INVARIANT EmitCase
CHECK_DEADLOCK FALSE
