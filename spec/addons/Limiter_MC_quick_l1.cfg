SPECIFICATION Spec
CONSTANTS
  Callers = {1, 2, 3}
  Ids = {1}
  Limit = 1
  W = 2
  OptLists <- OL_None
  Slack = 2
  Ns = {0, 1, 2}
  Jumps = {1}
  MaxClock = 5
  MaxCalls = 3
  MaxStale = 3
  BugIncrBeforeReset = FALSE
  BugAllowOneMore = FALSE
  BugNoZeroOnReset = FALSE
  BugVerdictFromDefault = FALSE
  BugRemainingFromDefault = FALSE
  BugWindowFromDefault = FALSE
  BugFirstOptionWins = FALSE
INVARIANTS TypeOK AdmittedPerWindow AdmittedWithinCallLimit CheckConsumesNothing RemainingExact AllowedRule ResetIdentifiesWindow ResetIsNowPlusWindow
CHECK_DEADLOCK FALSE
