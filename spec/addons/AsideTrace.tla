----------------------------- MODULE AsideTrace -----------------------------
(* Observable specification of rueidisaside for trace validation (code -> spec, hook-free); recorded by
   harness/cmd/asidedrv.  Server-side records are written under the fake server's dispatcher mutex with the value of
   the key before (fk,fn) and after (tk,tn) the command:  kinds nil | ph (placeholder of liveness id fn/tn) |
   v (value of loader run fn/tn) | x (anything else).

     IdSet c,id             SET rueidisid:.. "" PX ttl (keepalive / refresh)      IdGone id   it expired / was deleted
     Lock  c,k,id           SET k id NX GET PX ttl  or the acquireLock script
     SetKey c,k,id          setkey script:  if GET k == id then SET k val
     DelKey c,k,id          delkey script:  if GET k == id then DEL k
     Del c,k / Expire k     a user's DEL / the key expired
     LibDel c,k             an unconditional DEL of a cache key that no user asked for (the library's own)
     Conn c                 the first command of client c on a new connection (the previous one is gone: c.id is reset)
     GetBegin c,k,n,id  GetEnd c,k,tk,tn,res,n    the n-th Get (id = 1: without a loader) and what it returned
                            (res: ok timeout loaderr nil err dead)
     LoadBegin c,k,n  LoadEnd c,k,n,res        the n-th loader run
     Die c                  the client is gone (connections cut, no final DEL)

   The scripts' effects must match their transcription against the reconstructed store; the C39 properties are
   evaluated on the way and printed at the End record of each scenario.                                           *)
EXTENDS Integers, FiniteSets, Sequences, TLC, Json, IOUtils

CONSTANTS ClientTTLms, SlackMs

VARIABLES l, val, alive, owner, everDead, dead, diedAt, locks, loading, stored, loadKey, loadBy, getAt, bad,
          ep,        \* ep[c]: connections client c has used so far (its registration epochs)
          idEp,      \* idEp[id]: epoch of the owner in which the liveness key id was written first
          used,      \* used[<<c, e>>]: ids written first in epoch e of client c and named by a lock command in that epoch
          nilGets,   \* Gets without a loader
          div,       \* the server clock runs div times slower than the wall clock (RESET.n)
          mono       \* every client has one connection (RESET.id = 1): Conn records are written and delimit the periods in
                     \* which c.id is not reset (onInvalidation(nil) runs once per lost connection)

TraceLog == ndJsonDeserialize(IOEnv.VERIF_TRACE)
tvars == <<l, val, alive, owner, everDead, dead, diedAt, locks, loading, stored, loadKey, loadBy, getAt, bad, ep, idEp, used, nilGets, div, mono>>
r2 == <<ep, idEp, used, nilGets, div, mono>>

Ev == TraceLog[l]
Is(e) == l <= Len(TraceLog) /\ TraceLog[l].ev = e
Step == l' = l + 1
NILV == <<"nil", 0>>
From == <<Ev.fk, Ev.fn>>
To == <<Ev.tk, Ev.tn>>
Val(k) == IF k \in DOMAIN val THEN val[k] ELSE NILV
SetVal(k, v) == [x \in DOMAIN val \cup {k} |-> IF x = k THEN v ELSE val[x]]
Put(f, x, y) == [z \in DOMAIN f \cup {x} |-> IF z = x THEN y ELSE f[z]]
Get(f, x, d) == IF x \in DOMAIN f THEN f[x] ELSE d

\* locks: records [c, k, id, lost]: lock taken by client c on key k with liveness id; lost = legitimately gone
LoseWhere(P(_)) == {IF P(r) THEN [r EXCEPT !.lost = TRUE] ELSE r : r \in locks}

TraceInit == /\ l = 1 /\ val = <<>> /\ alive = {} /\ owner = <<>> /\ everDead = {} /\ dead = {} /\ diedAt = <<>>
             /\ locks = {} /\ loading = {} /\ stored = <<>> /\ loadKey = <<>> /\ loadBy = <<>> /\ getAt = <<>> /\ bad = {}
             /\ ep = <<>> /\ idEp = <<>> /\ used = <<>> /\ nilGets = {} /\ div = 1 /\ mono = FALSE
             /\ TLCSet(1, 1)
Reset == /\ Is("RESET") /\ Step
         /\ val' = <<>> /\ alive' = {} /\ owner' = <<>> /\ everDead' = {} /\ dead' = {} /\ diedAt' = <<>>
         /\ locks' = {} /\ loading' = {} /\ stored' = <<>> /\ loadKey' = <<>> /\ loadBy' = <<>> /\ getAt' = <<>> /\ bad' = {}
         /\ ep' = <<>> /\ idEp' = <<>> /\ used' = <<>> /\ nilGets' = {} /\ div' = (IF Ev.n > 1 THEN Ev.n ELSE 1) /\ mono' = (Ev.id = 1)

Same(vs) == UNCHANGED vs

IdSet == /\ Is("IdSet") /\ Step
         /\ alive' = alive \cup {Ev.id}
         /\ owner' = IF Ev.id \in DOMAIN owner THEN owner ELSE Put(owner, Ev.id, Ev.c)
         /\ idEp' = IF Ev.id \in DOMAIN idEp THEN idEp ELSE Put(idEp, Ev.id, Get(ep, Ev.c, 0))
         /\ UNCHANGED <<val, everDead, dead, diedAt, locks, loading, stored, loadKey, loadBy, getAt, bad, ep, used, nilGets, div, mono>>
\* The liveness key disappears: the holders of locks that name it are excused from now on. Not so on a slow server clock
\* (div > 1: the key lives div * ClientTTL on the wall clock, the refresh comes every ClientTTL / 2): there an expiry while the
\* owner lives on the connection on which it registered the id means that nobody refreshes the id; a lock that names it
\* and whose loader is running is not excused.
IdGone == /\ Is("IdGone") /\ Step
          /\ alive' = alive \ {Ev.id} /\ everDead' = everDead \cup {Ev.id}
          /\ LET o == Get(owner, Ev.id, 0)
                 unserved == /\ div > 1 /\ mono /\ Ev.res = "expire" /\ o \notin dead /\ Get(idEp, Ev.id, -1) = Get(ep, o, 0)
                 held == \E r \in locks : r.id = Ev.id /\ ~r.lost /\ \E x \in loading : x.c = r.c /\ x.k = r.k
             IN /\ locks' = IF unserved THEN locks ELSE LoseWhere(LAMBDA r : r.id = Ev.id)
                /\ bad' = bad \cup (IF unserved /\ held THEN {"HolderMarkerKeptAlive"} ELSE {})
          /\ UNCHANGED <<val, owner, dead, diedAt, loading, stored, loadKey, loadBy, getAt>> /\ UNCHANGED r2

\* SET k id NX GET PX ttl
Lock == /\ Is("Lock") /\ Step /\ From = Val(Ev.k) /\ Ev.id > 0
        /\ IF From = NILV
             THEN /\ To = <<"ph", Ev.id>>
                  /\ locks' = {r \in locks : ~(r.c = Ev.c /\ r.k = Ev.k)}
                                 \cup {[c |-> Ev.c, k |-> Ev.k, id |-> Ev.id, lost |-> Ev.id \notin alive]}
             ELSE To = From /\ UNCHANGED locks
        /\ val' = SetVal(Ev.k, To)
        \* one registered id per client and connection: ids the client wrote first on its current connection and names in
        \* lock commands on that connection. Two of them: one is not the id the client's refresh goroutine serves.
        /\ LET e == Get(ep, Ev.c, 0)
               mine == Ev.id \in DOMAIN idEp /\ idEp[Ev.id] = e /\ Get(owner, Ev.id, 0) = Ev.c
               u == Get(used, <<Ev.c, e>>, {}) \cup (IF mine THEN {Ev.id} ELSE {})
           IN /\ used' = Put(used, <<Ev.c, e>>, u)
              /\ bad' = bad \cup (IF mono /\ Cardinality(u) > 1 THEN {"LockNamesRefreshedId"} ELSE {})
        /\ UNCHANGED <<alive, owner, everDead, dead, diedAt, loading, stored, loadKey, loadBy, getAt, ep, idEp, nilGets, div, mono>>
\* if GET k == id then SET k val PX ttl else 0
SetKey == /\ Is("SetKey") /\ Step /\ From = Val(Ev.k)
          /\ IF From = <<"ph", Ev.id>>
               THEN /\ Ev.tk = "v" /\ Ev.tn \in DOMAIN loadBy /\ loadBy[Ev.tn] = Ev.c /\ loadKey[Ev.tn] = Ev.k
                    /\ stored' = Put(stored, Ev.k, Get(stored, Ev.k, {}) \cup {Ev.tn})
               ELSE To = From /\ UNCHANGED stored
          /\ val' = SetVal(Ev.k, To)
          /\ UNCHANGED <<alive, owner, everDead, dead, diedAt, locks, loading, loadKey, loadBy, getAt, bad>> /\ UNCHANGED r2
\* if GET k == id then DEL k else 0
DelKey == /\ Is("DelKey") /\ Step /\ From = Val(Ev.k)
          /\ To = From \/ To = NILV
          /\ (From = <<"ph", Ev.id>>) => To = NILV
          /\ LET gone == To = NILV /\ From # NILV
                 foreign == gone /\ From[1] = "ph" /\ Get(owner, From[2], 0) # Ev.c
             IN /\ bad' = bad \cup (IF gone /\ From # <<"ph", Ev.id>> THEN {"DelOnlyOwn"} ELSE {})
                             \* a foreign lock may only be removed once the holder's liveness key has been seen absent
                             \cup (IF foreign /\ From[2] \notin everDead /\ Get(owner, From[2], 0) \notin dead
                                      /\ \E r \in locks : r.id = From[2] /\ r.k = Ev.k /\ ~r.lost
                                   THEN {"LockStolenFromLiveHolder"} ELSE {})
                /\ locks' = IF gone THEN LoseWhere(LAMBDA r : r.k = Ev.k) ELSE locks
          /\ val' = SetVal(Ev.k, To)
          /\ UNCHANGED <<alive, owner, everDead, dead, diedAt, loading, stored, loadKey, loadBy, getAt>> /\ UNCHANGED r2
\* DEL k sent by the library itself: a release without the comparison. Whatever it removes that is not the placeholder of
\* a holder whose liveness key has been seen absent was not the sender's to remove.
LibDel == /\ Is("LibDel") /\ Step /\ From = Val(Ev.k) /\ To = NILV
          /\ LET gone == From # NILV
                 deadph == From[1] = "ph" /\ (From[2] \in everDead \/ Get(owner, From[2], 0) \in dead)
                 foreign == gone /\ From[1] = "ph" /\ Get(owner, From[2], 0) # Ev.c
             IN /\ bad' = bad \cup (IF gone /\ ~deadph THEN {"DelOnlyOwn"} ELSE {})
                             \cup (IF foreign /\ ~deadph /\ \E r \in locks : r.id = From[2] /\ r.k = Ev.k /\ ~r.lost
                                   THEN {"LockStolenFromLiveHolder"} ELSE {})
                \* the holder of a lock removed this way is not excused: a second loader counts
                /\ locks' = IF gone /\ deadph THEN LoseWhere(LAMBDA r : r.k = Ev.k) ELSE locks
          /\ val' = SetVal(Ev.k, NILV)
          /\ UNCHANGED <<alive, owner, everDead, dead, diedAt, loading, stored, loadKey, loadBy, getAt>> /\ UNCHANGED r2
Conn == /\ Is("Conn") /\ Step /\ ep' = Put(ep, Ev.c, Get(ep, Ev.c, 0) + 1)
        /\ UNCHANGED <<val, alive, owner, everDead, dead, diedAt, locks, loading, stored, loadKey, loadBy, getAt, bad, idEp, used, nilGets, div, mono>>
Vanish(e) == /\ Is(e) /\ Step
             /\ val' = SetVal(Ev.k, NILV) /\ locks' = LoseWhere(LAMBDA r : r.k = Ev.k)
             /\ UNCHANGED <<alive, owner, everDead, dead, diedAt, loading, stored, loadKey, loadBy, getAt, bad>> /\ UNCHANGED r2

GetBegin == /\ Is("GetBegin") /\ Step /\ getAt' = Put(getAt, Ev.n, Ev.t)
            /\ nilGets' = IF Ev.id = 1 THEN nilGets \cup {Ev.n} ELSE nilGets
            /\ UNCHANGED <<val, alive, owner, everDead, dead, diedAt, locks, loading, stored, loadKey, loadBy, bad, ep, idEp, used, div, mono>>
\* the loader of client c starts: no other loader of this key may be running for a holder that is alive and whose lock
\* was never legitimately lost
LoadBegin == /\ Is("LoadBegin") /\ Step
             /\ bad' = bad \cup (IF \E x \in loading : /\ x.k = Ev.k /\ x.c # Ev.c /\ x.c \notin dead
                                                       /\ \E r \in locks : r.c = x.c /\ r.k = x.k /\ ~r.lost
                                 THEN {"LoaderOnceWhileHolderAlive"} ELSE {})
             /\ loading' = loading \cup {[c |-> Ev.c, k |-> Ev.k, n |-> Ev.n]}
             /\ loadKey' = Put(loadKey, Ev.n, Ev.k) /\ loadBy' = Put(loadBy, Ev.n, Ev.c)
             /\ UNCHANGED <<val, alive, owner, everDead, dead, diedAt, locks, stored, getAt>> /\ UNCHANGED r2
LoadEnd == /\ Is("LoadEnd") /\ Step
           /\ loading' = {x \in loading : x.n # Ev.n}
           /\ UNCHANGED <<val, alive, owner, everDead, dead, diedAt, locks, stored, loadKey, loadBy, getAt, bad>> /\ UNCHANGED r2
GetEnd ==
   LET k == Ev.k
       v == Val(k)
       holder == IF v[1] = "ph" THEN Get(owner, v[2], 0) ELSE 0
       since == IF holder \in DOMAIN diedAt /\ diedAt[holder] > Get(getAt, Ev.n, 0) THEN diedAt[holder] ELSE Get(getAt, Ev.n, 0)
   IN /\ Is("GetEnd") /\ Step
      /\ bad' = bad \cup (IF Ev.tk = "ph" THEN {"NeverReturnsPlaceholder"} ELSE {})
                    \cup (IF Ev.res = "ok" /\ ~(/\ Ev.tk = "v"
                                                /\ \/ Ev.tn \in Get(stored, k, {})
                                                   \/ (Ev.tn \in DOMAIN loadBy /\ loadBy[Ev.tn] = Ev.c /\ loadKey[Ev.tn] = k))
                          THEN {"ValueFromLoaderOrStore"} ELSE {})
                    \* the nil error is for Gets without a loader only; such a Get never runs a loader
                    \cup (IF Ev.res = "nil" /\ Ev.n \notin nilGets THEN {"ValueFromLoaderOrStore"} ELSE {})
                    \cup (IF Ev.res = "loaderr" /\ Ev.n \in nilGets THEN {"ValueFromLoaderOrStore"} ELSE {})
                    \* the Get gave up although the lock holder had been dead for longer than its liveness key lives
                    \cup (IF Ev.res = "timeout" /\ holder \in dead /\ Ev.t - since > ClientTTLms * div + SlackMs
                          THEN {"DeadLockReleased"} ELSE {})
      /\ UNCHANGED <<val, alive, owner, everDead, dead, diedAt, locks, loading, stored, loadKey, loadBy, getAt>> /\ UNCHANGED r2
Die == /\ Is("Die") /\ Step /\ dead' = dead \cup {Ev.c} /\ diedAt' = Put(diedAt, Ev.c, Ev.t)
       /\ UNCHANGED <<val, alive, owner, everDead, locks, loading, stored, loadKey, loadBy, getAt, bad>> /\ UNCHANGED r2
End == /\ Is("End") /\ Step /\ UNCHANGED <<val, alive, owner, everDead, dead, diedAt, locks, loading, stored, loadKey, loadBy, getAt, bad>> /\ UNCHANGED r2
       /\ \A b \in bad : PrintT(<<"BAD", l, {b}>>)      \* one short line per property (TLC wraps long tuples)

TraceNext == Reset \/ IdSet \/ IdGone \/ Lock \/ SetKey \/ DelKey \/ LibDel \/ Conn \/ Vanish("Del") \/ Vanish("Expire")
             \/ GetBegin \/ LoadBegin \/ LoadEnd \/ GetEnd \/ Die \/ End
TraceSpec == TraceInit /\ [][TraceNext]_tvars

NeverReturnsPlaceholder == "NeverReturnsPlaceholder" \notin bad
ValueFromLoaderOrStore == "ValueFromLoaderOrStore" \notin bad
LoaderOnceWhileHolderAlive == "LoaderOnceWhileHolderAlive" \notin bad
LockStolenOnlyFromDead == "LockStolenFromLiveHolder" \notin bad
DelOnlyOwn == "DelOnlyOwn" \notin bad
DeadLockReleased == "DeadLockReleased" \notin bad
LockNamesRefreshedId == "LockNamesRefreshedId" \notin bad
HolderMarkerKeptAlive == "HolderMarkerKeptAlive" \notin bad

HighWater == TLCSet(1, IF l > TLCGet(1) THEN l ELSE TLCGet(1))
TraceAccepted == \/ TLCGet(1) = Len(TraceLog) + 1
                 \/ PrintT(<<"REJECTED-AT", TLCGet(1), TraceLog[TLCGet(1)]>>) /\ FALSE
=============================================================================
