SPECIFICATION Spec
CONSTANTS
  Kinds = {}
  Mode = "check"
INVARIANTS Report Accepted
CHECK_DEADLOCK FALSE
