SPECIFICATION Spec
CONSTANTS
  Kinds = {"sliding"}
  Mode = "grid"
INVARIANT Report
CHECK_DEADLOCK FALSE
