---------------------------- MODULE LockTimeRule ----------------------------
(* What the server may see in the expiry argument of the extend script of rueidislock (shared by LockTime.tla, which
   shows that the rule follows from the protocol and keeps the key alive, and by LockTrace.tla, which holds every
   extend recorded from the real lockers to it).

   lock.go, monitoring: the timer is armed (NewTimer / Reset) after the previous fresh script of the key - the
   acquisition, or the previous timer extend - has returned, fires not earlier than one ExtendInterval later, and the
   extend then carries  now + KeyValidity.  Hence, with
        lastExec = the server time at which that previous fresh script executed  (<= the time its reply was received)
        recv     = the server time at which the extend arrives                   (>= the time it was sent)
   a fresh expiry x obeys   lastExec + Interval + Validity  <=  x  <=  recv + Validity.
   Both bounds are causal (same clock, no assumption on scheduling or latency); Eps only absorbs the truncation to
   milliseconds.  The csc branch of the select re-sends the previous deadline unchanged (re-verification after an
   invalidation): a repeat is only explained by an invalidation of that key for that locker.                         *)
EXTENDS Integers

FreshLow(lastExec, interval, validity) == lastExec + interval + validity
FreshHigh(recv, validity) == recv + validity
FreshOK(x, lastExec, recv, interval, validity, eps) ==
   /\ x >= FreshLow(lastExec, interval, validity) - eps
   /\ x <= FreshHigh(recv, validity) + eps
\* the acquisition carries (start of its try) + Validity; `began` = a time at which that try had not started yet
AcquireOK(x, began, recv, validity, eps) == x >= began + validity - eps /\ x <= FreshHigh(recv, validity) + eps
RepeatOK(x, lastX, invalidated) == x = lastX /\ invalidated
=============================================================================
