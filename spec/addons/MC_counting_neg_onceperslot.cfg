\* negative: AddMulti counts a key once per slot, RemoveMulti decrements once per hash iteration
SPECIFICATION Spec
CONSTANTS
  Kind = "counting"
  Items = {a, b, c}
  Size = 3
  K = 2
  HSet <- AllHashes
  KeySeqs <- KeySeqs2
  Q <- NoQ
  MaxOps = 0
  Half = 0
  MaxNow = 0
  MaxTotal = 2
  ExpireInclusive = TRUE
  Defect = "add-once-per-slot"
  AllowBadConfig = FALSE
  Emit = FALSE
  Faults = {"errreply"}
  QS <- NoQ
  Ops <- AllOps
  Big = FALSE
VIEW MCView
INVARIANTS MinCountAtLeastNet PresentWhileNetPositive
CHECK_DEADLOCK FALSE
