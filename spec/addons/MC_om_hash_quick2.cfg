\* C40 exhaustive: hash repository, 2 savers, each up to 2 NewEntity/Fetch and 2 Save calls (re-fetch and retry after a mismatch)
SPECIFICATION Spec
CONSTANTS
  Repo = "hash"
  Savers = {"s1", "s2"}
  InitDocs <- InitDocs3
  Keys = {"k1"}
  Exps = {"zero"}
  MaxNow = 1
  MaxBatch = 0
  MaxObtain = 2
  MaxSaves = 2
  MaxVer = 6
  Defect = "none"
  Emit = FALSE
  MaxOps = 0
VIEW MCView
INVARIANTS TypeOK AtMostOneWinner
PROPERTIES VersionPlusOne SavedIsFetchable AllFieldsStored FailedSaveChangesNothing FetchEqualsSavedButNil
CHECK_DEADLOCK FALSE
