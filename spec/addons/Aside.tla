------------------------------- MODULE Aside -------------------------------
(* rueidisaside/aside.go: CacheAsideClient.Get / Del / keepalive / refresh / onInvalidation over one Redis with
   client side caching (DoCache reads are tracked, invalidation pushes wake the waiters).

   Store:  val[k]  NIL | V(k,n) a value | PH(c,i) the placeholder "rueidisid:.." of incarnation i of client c
           alive   the liveness keys that exist (SET id "" PX ClientTTL, refreshed every ClientTTL/2)
   Callers Procs (goroutines) are mapped to clients by ClientOf: callers of one client share c.id, c.waits, the client
   side cache and the connection. One Get at a time per caller, with a loader (Begin) or without one (BeginNil: fn == nil),
   one step per server round trip / blocking point of Get:

     Start      register(key); DoCache GET key   (from the client side cache or from the server, then tracked);
                fn == nil and the key is absent: Get returns the nil error
     Keepalive  c.id != "" -> that id ; c.id == "" -> new id, SET id "" PX ttl   (registration is its own step:
     KaAdopt    under c.mu: c.id still "" -> c.id = id, go refresh(id) ; else the winner's id is adopted (the marker
                just written stays behind, nobody refreshes it)
     Lock       SET key id NX GET PX ttl   (or the acquireLock script: same effect)
     LoadOk / LoadFail   the loader returns
     SetKey     setkey script: if GET key == id then SET key val PX ttl   (Get returns val either way)
     Unlock     delkey script after a failed loader: if GET key == id then DEL
     PhCheck    register(ph); DoCache GET ph     (liveness key of the lock holder)
     Steal      holder gone: delkey(key, ph): if GET key == ph then DEL ; retry
     Woken      <-ph / <-wait : retry          Timeout   <-ctx.Done(): return the context error
   Environment: Del by a user, expiry of locks / values / liveness keys of dead clients (and, bounded, of live ones
   whose refresh is late), death of a client (no final DEL), disconnect (pushes in flight lost, tracking forgotten,
   cache flushed, onInvalidation(nil): all waiters woken, the client drops its id and deletes the old liveness key).

   Negative switches: BugReturnPh (the placeholder is returned when the wait times out), BugNoLiveness (a foreign lock is
   deleted without looking at the holder's liveness key), BugDelNoCompare (delkey without the value comparison), BugNoAdopt (the loser of a registration race keeps its own id,
   which nobody refreshes), BugNilFastPath (fn == nil returns whatever the first read shows), BugStealPlainDel (the lock of
   a dead holder is released with an unconditional DEL).      *)
EXTENDS Integers, FiniteSets, Sequences, TLC

CONSTANTS Clients, Procs, ClientOf, NilProcs, LoadProcs, Keys, MaxInc, MaxLoads,
          MaxDel, MaxLockExpire, MaxValExpire, MaxDie, MaxDisc, MaxTimeout, MaxLateRefresh, MaxLoadFail,
          AsyncPush,
          BugReturnPh, BugNoLiveness, BugDelNoCompare, BugNoAdopt, BugNilFastPath, BugStealPlainDel,
          Record

NIL == [t |-> "nil", a |-> 0, b |-> 0]
V(k, n) == [t |-> "v", a |-> k, b |-> n]
PH(c, i) == [t |-> "ph", a |-> c, b |-> i]
NK(k) == [t |-> "k", a |-> k, b |-> 0]              \* names the server tracks: cache keys ...
NI(c, i) == [t |-> "id", a |-> c, b |-> i]          \* ... and liveness keys
Incs == 1..MaxInc
Cl(p) == ClientOf[p]
Of(c) == {p \in Procs : ClientOf[p] = c}
Names == {NK(k) : k \in Keys} \cup {NI(c, i) : c \in Clients, i \in Incs}
NONE == [t |-> "none", a |-> 0, b |-> 0]
EXISTS == [t |-> "v", a |-> 0, b |-> 0]             \* what GET of a liveness key returns ("")

VARIABLES val, alive,
          pc,        \* per caller: idle start keepalive kaadopt lock load setkey unlock phcheck steal wait dead
          tgt,       \* key of the caller's current Get
          fnnil,     \* the current Get has no loader
          ph,        \* placeholder the Get is looking at
          inc,       \* per client: c.id, the current incarnation (0: c.id == ""); the refresh goroutine serves this id only
          lid,       \* the id the current Get obtained from keepalive (a local variable of Get)
          cand,      \* the id the caller generated and wrote in keepalive, not yet adopted
          nextInc,   \* per client: ids generated so far
          myv,       \* value the loader returned
          cache,     \* cache[c][name]: client side cache entry or NONE
          trk,       \* trk[name]: connections the server will notify
          regd,      \* regd[c]: names with an open channel in c.waits
          gotInv,    \* gotInv[p]: channels captured by the caller's current Get that have been closed
          inflight,  \* pushes on their way (AsyncPush)
          dead, nloads, stored,
          holderLost, \* holderLost[p]: the lock p took was legitimately lost (expiry, Del, its liveness key vanished)
          bad,        \* violated property names
          budget,     \* what the environment has spent
          hist

vars == <<val, alive, pc, tgt, fnnil, ph, inc, lid, cand, nextInc, myv, cache, trk, regd, gotInv, inflight, dead, nloads,
          stored, holderLost, bad, budget, hist>>

Rec(r) == hist' = IF Record THEN Append(hist, r) ELSE hist
R4(a, p, k, r, s) == Rec([a |-> a, c |-> Cl(p), k |-> k, p |-> p, r |-> r, s |-> s])   \* r: what the Get returns at this step
R(a, p, k) == R4(a, p, k, "", "")
RE4(a, c, k, s) == Rec([a |-> a, c |-> c, k |-> k, p |-> 0, r |-> "", s |-> s])
RE(a, c, k) == RE4(a, c, k, "")
Spend(what) == budget' = [budget EXCEPT ![what] = @ + 1]
Limit == [del |-> MaxDel, lockexp |-> MaxLockExpire, valexp |-> MaxValExpire, die |-> MaxDie, disc |-> MaxDisc,
          timeout |-> MaxTimeout, late |-> MaxLateRefresh, loadfail |-> MaxLoadFail]
Can(what) == budget[what] < Limit[what]
Holding == {"load", "setkey", "unlock"}

Init == /\ val = [k \in Keys |-> NIL] /\ alive = {}
        /\ pc = [p \in Procs |-> "idle"] /\ tgt = [p \in Procs |-> CHOOSE k \in Keys : TRUE]
        /\ fnnil = [p \in Procs |-> FALSE]
        /\ ph = [p \in Procs |-> NIL] /\ inc = [c \in Clients |-> 0] /\ lid = [p \in Procs |-> 0]
        /\ cand = [p \in Procs |-> 0]
        /\ nextInc = [c \in Clients |-> 0]
        /\ myv = [p \in Procs |-> NIL]
        /\ cache = [c \in Clients |-> [n \in Names |-> NONE]] /\ trk = [n \in Names |-> {}]
        /\ regd = [c \in Clients |-> {}] /\ gotInv = [p \in Procs |-> {}] /\ inflight = [c \in Clients |-> {}]
        /\ dead = {} /\ nloads = 0 /\ stored = [k \in Keys |-> {}]
        /\ holderLost = [p \in Procs |-> FALSE] /\ bad = {}
        /\ budget = [w \in DOMAIN Limit |-> 0] /\ hist = <<>>

\* ------------------------------------------------------------------------------------------------ server side
\* onInvalidation(name) at client c: the cache entry goes, a registered channel is closed (every caller of c that captured
\* it sees that) and forgotten
ArriveCache(ca, S, n) == [c \in Clients |-> IF c \in S THEN [ca[c] EXCEPT ![n] = NONE] ELSE ca[c]]
ArriveInv(gi, S, n) == [p \in Procs |-> IF Cl(p) \in S /\ n \in regd[Cl(p)] THEN gi[p] \cup {n} ELSE gi[p]]
ArriveReg(rg, S, n) == [c \in Clients |-> IF c \in S THEN rg[c] \ {n} ELSE rg[c]]
\* a write to name n: everybody who read it with DoCache is notified once and forgotten
Touch(n, ca, rg, gi) ==
   LET S == trk[n] \ dead IN
   /\ trk' = [trk EXCEPT ![n] = {}]
   /\ IF AsyncPush THEN /\ inflight' = [c \in Clients |-> IF c \in S THEN inflight[c] \cup {n} ELSE inflight[c]]
                        /\ cache' = ca /\ regd' = rg /\ gotInv' = gi
                   ELSE /\ cache' = ArriveCache(ca, S, n) /\ gotInv' = ArriveInv(gi, S, n) /\ regd' = ArriveReg(rg, S, n)
                        /\ UNCHANGED inflight
NoTouch == UNCHANGED <<trk, inflight, cache, regd, gotInv>>
Deliver(c, n) == /\ AsyncPush /\ n \in inflight[c] /\ c \notin dead
                 /\ inflight' = [inflight EXCEPT ![c] = @ \ {n}]
                 /\ cache' = ArriveCache(cache, {c}, n) /\ gotInv' = ArriveInv(gotInv, {c}, n)
                 /\ regd' = ArriveReg(regd, {c}, n)
                 /\ UNCHANGED <<val, alive, pc, tgt, fnnil, ph, inc, lid, cand, nextInc, myv, trk, dead, nloads, stored, holderLost, bad, budget, hist>>

\* the lock v on key k disappears / the liveness key of (c,i) disappears: the holder is excused from now on
LoseLock(k, v) == [p \in Procs |-> holderLost[p] \/ (v.t = "ph" /\ pc[p] \in Holding /\ tgt[p] = k /\ ph[p] = v)]
LoseId(c, i) == [p \in Procs |-> holderLost[p] \/ (Cl(p) = c /\ pc[p] \in Holding /\ ph[p] = PH(c, i))]

\* ------------------------------------------------------------------------------------------------ Get
Live(p) == Cl(p) \notin dead
Me(p) == PH(Cl(p), lid[p])

\* register(name): an existing open channel is reused, a closed one replaced; either way nothing has fired yet
Register(rg, gi, p, n) == <<[rg EXCEPT ![Cl(p)] = @ \cup {n}], [gi EXCEPT ![p] = @ \ {n}]>>

Finish(p, v, kind) ==        \* Get returns
   /\ pc' = [pc EXCEPT ![p] = "idle"]
   /\ bad' = bad \cup (IF kind = "val" /\ v.t = "ph" THEN {"NeverReturnsPlaceholder"} ELSE {})
                 \cup (IF kind = "val" /\ v.t = "v" /\ v \notin stored[tgt[p]] /\ v # myv[p] THEN {"ValueFromLoaderOrStore"} ELSE {})
                 \cup (IF kind = "val" /\ v.t = "v" /\ v.a # tgt[p] THEN {"ValueFromLoaderOrStore"} ELSE {})
                 \* without an error the caller holds a value; the nil error only without a loader
                 \cup (IF kind = "val" /\ v.t = "nil" THEN {"ValueFromLoaderOrStore"} ELSE {})
                 \cup (IF kind = "nil" /\ ~fnnil[p] THEN {"ValueFromLoaderOrStore"} ELSE {})

BeginAny(p, k, f) ==
               /\ Live(p) /\ pc[p] = "idle" /\ nloads < MaxLoads
               /\ pc' = [pc EXCEPT ![p] = "start"] /\ tgt' = [tgt EXCEPT ![p] = k] /\ fnnil' = [fnnil EXCEPT ![p] = f]
               /\ myv' = [myv EXCEPT ![p] = NIL] /\ ph' = [ph EXCEPT ![p] = NIL]
               /\ holderLost' = [holderLost EXCEPT ![p] = FALSE]
               /\ R(IF f THEN "GetNil" ELSE "Get", p, k)
               /\ UNCHANGED <<val, alive, inc, lid, cand, nextInc, cache, trk, regd, gotInv, inflight, dead, nloads, stored, bad, budget>>
Begin(p, k) == p \in LoadProcs /\ BeginAny(p, k, FALSE)
BeginNil(p, k) == p \in NilProcs /\ BeginAny(p, k, TRUE)

\* what the value v read for the key means for the Get
Route(p, v) == IF v.t = "nil" THEN (IF fnnil[p] THEN "retnil" ELSE "keepalive")
               ELSE IF v.t = "ph" THEN (IF fnnil[p] /\ BugNilFastPath THEN "ret" ELSE "phcheck") ELSE "ret"

Start(p) ==
   LET c == Cl(p)
       k == tgt[p]
       n == NK(k)
       r == Register(regd, gotInv, p, n)
       hit == cache[c][n] # NONE
       v == IF hit THEN cache[c][n] ELSE val[k]
   IN /\ Live(p) /\ pc[p] = "start"
      /\ regd' = r[1] /\ gotInv' = r[2]
      /\ IF hit THEN UNCHANGED <<cache, trk>>
                ELSE /\ cache' = [cache EXCEPT ![c][n] = v] /\ trk' = [trk EXCEPT ![n] = @ \cup {c}]
      /\ ph' = [ph EXCEPT ![p] = IF v.t = "ph" THEN v ELSE @]
      /\ CASE Route(p, v) = "ret" -> Finish(p, v, "val")
           [] Route(p, v) = "retnil" -> Finish(p, NIL, "nil")
           [] OTHER -> pc' = [pc EXCEPT ![p] = Route(p, v)] /\ UNCHANGED bad
      /\ R4("Read", p, k, CASE Route(p, v) = "ret" -> "val" [] Route(p, v) = "retnil" -> "nil" [] OTHER -> "",
            IF v.t = "ph" THEN (IF v.a \in dead THEN "phdead" ELSE "phlive") ELSE v.t)
      /\ UNCHANGED <<val, alive, tgt, fnnil, inc, lid, cand, nextInc, myv, inflight, dead, nloads, stored, holderLost, budget>>

\* keepalive(), first half: c.id read under c.mu; "" -> a fresh id is written with SET id "" PX ttl
Keepalive(p) ==
   LET c == Cl(p) IN
   /\ Live(p) /\ pc[p] = "keepalive"
   /\ IF inc[c] = 0
        THEN /\ nextInc[c] < MaxInc
             /\ nextInc' = [nextInc EXCEPT ![c] = @ + 1]
             /\ cand' = [cand EXCEPT ![p] = nextInc[c] + 1]
             /\ alive' = alive \cup {NI(c, nextInc[c] + 1)}
             /\ pc' = [pc EXCEPT ![p] = "kaadopt"]
             /\ UNCHANGED lid
        ELSE /\ lid' = [lid EXCEPT ![p] = inc[c]] /\ UNCHANGED <<nextInc, cand, alive>>
             /\ pc' = [pc EXCEPT ![p] = "lock"]
   /\ R("Keepalive", p, tgt[p])
   /\ UNCHANGED <<val, tgt, fnnil, ph, inc, myv, cache, trk, regd, gotInv, inflight, dead, nloads, stored, holderLost, bad, budget>>
\* second half, under c.mu again: the first caller's id becomes c.id and gets the refresh goroutine, a later one adopts it
KaAdopt(p) ==
   LET c == Cl(p) IN
   /\ Live(p) /\ pc[p] = "kaadopt"
   /\ IF inc[c] = 0 THEN inc' = [inc EXCEPT ![c] = cand[p]] /\ lid' = [lid EXCEPT ![p] = cand[p]]
                    ELSE UNCHANGED inc /\ lid' = [lid EXCEPT ![p] = IF BugNoAdopt THEN cand[p] ELSE inc[c]]
   /\ pc' = [pc EXCEPT ![p] = "lock"]
   /\ R("KaAdopt", p, tgt[p])
   /\ UNCHANGED <<val, alive, tgt, fnnil, ph, cand, nextInc, myv, cache, trk, regd, gotInv, inflight, dead, nloads, stored, holderLost, bad, budget>>

\* SET key id NX GET PX ttl
Lock(p) ==
   LET k == tgt[p]
       c == Cl(p)
       lost == NI(c, lid[p]) \notin alive
   IN
   /\ Live(p) /\ pc[p] = "lock"
   /\ IF val[k] = NIL
        THEN /\ val' = [val EXCEPT ![k] = Me(p)] /\ Touch(NK(k), cache, regd, gotInv)
             /\ pc' = [pc EXCEPT ![p] = "load"] /\ ph' = [ph EXCEPT ![p] = Me(p)]
             /\ nloads' = nloads + 1
             \* a second loader while the first holder is alive and its lock was never legitimately lost
             /\ bad' = bad \cup (IF \E d \in Procs \ {p} : pc[d] \in {"load", "setkey"} /\ tgt[d] = k /\ ~holderLost[d] /\ Live(d)
                                 THEN {"LoaderOnceWhileHolderAlive"} ELSE {})
                           \* the lock names an id that exists but is not the one the client's refresh goroutine serves
                           \cup (IF ~lost /\ lid[p] # inc[c] THEN {"LockNamesRefreshedId"} ELSE {})
             /\ R("Locked", p, k)
        ELSE /\ UNCHANGED <<val, nloads>> /\ NoTouch
             /\ ph' = [ph EXCEPT ![p] = IF val[k].t = "ph" THEN val[k] ELSE @]
             /\ IF val[k].t = "ph" THEN pc' = [pc EXCEPT ![p] = "phcheck"] /\ UNCHANGED bad
                                   ELSE Finish(p, val[k], "val")
             /\ R4("LockBusy", p, k, IF val[k].t = "ph" THEN "" ELSE "val", "")
   \* a lock taken with an id whose liveness key is already gone (disconnect between keepalive and lock) is free game
   /\ holderLost' = [holderLost EXCEPT ![p] = IF val[k] = NIL THEN lost ELSE @]
   /\ UNCHANGED <<alive, tgt, fnnil, inc, lid, cand, nextInc, myv, dead, stored, budget>>

LoadOk(p) == /\ Live(p) /\ pc[p] = "load"
             /\ myv' = [myv EXCEPT ![p] = V(tgt[p], nloads)] /\ pc' = [pc EXCEPT ![p] = "setkey"]
             /\ R("LoadOk", p, tgt[p])
             /\ UNCHANGED <<val, alive, tgt, fnnil, ph, inc, lid, cand, nextInc, cache, trk, regd, gotInv, inflight, dead, nloads, stored, holderLost, bad, budget>>
LoadFail(p) == /\ Live(p) /\ pc[p] = "load" /\ Can("loadfail") /\ Spend("loadfail")
               /\ pc' = [pc EXCEPT ![p] = "unlock"]
               /\ R("LoadFail", p, tgt[p])
               /\ UNCHANGED <<val, alive, tgt, fnnil, ph, inc, lid, cand, nextInc, myv, cache, trk, regd, gotInv, inflight, dead, nloads, stored, holderLost, bad>>

\* if GET key == id then SET key val PX ttl else 0 ; Get returns the loaded value in both cases
SetKey(p) ==
   LET k == tgt[p] IN
   /\ Live(p) /\ pc[p] = "setkey"
   /\ IF val[k] = ph[p] THEN /\ val' = [val EXCEPT ![k] = myv[p]] /\ Touch(NK(k), cache, regd, gotInv)
                             /\ stored' = [stored EXCEPT ![k] = @ \cup {myv[p]}]
                        ELSE UNCHANGED <<val, stored>> /\ NoTouch
   /\ Finish(p, myv[p], "val")
   /\ R4("SetKey", p, k, "val", "")
   /\ UNCHANGED <<alive, tgt, fnnil, ph, inc, lid, cand, nextInc, myv, dead, nloads, holderLost, budget>>

\* delkey script: if GET key == arg then DEL ; uncond: the comparison is missing
DelIf(k, arg, uncond) ==
                 IF val[k] = arg \/ (uncond /\ val[k] # NIL)
                   THEN /\ val' = [val EXCEPT ![k] = NIL] /\ Touch(NK(k), cache, regd, gotInv)
                        /\ UNCHANGED holderLost        \* a lock removed by a missing comparison does not excuse its holder
                   ELSE UNCHANGED <<val, holderLost>> /\ NoTouch
Unlock(p) == /\ Live(p) /\ pc[p] = "unlock"
             /\ DelIf(tgt[p], ph[p], BugDelNoCompare)
             /\ pc' = [pc EXCEPT ![p] = "idle"]
             /\ bad' = bad \cup (IF val[tgt[p]] # ph[p] /\ val[tgt[p]] # NIL /\ BugDelNoCompare THEN {"DelOnlyOwn"} ELSE {})
             /\ R("Unlock", p, tgt[p])
             /\ UNCHANGED <<alive, tgt, fnnil, ph, inc, lid, cand, nextInc, myv, dead, nloads, stored, budget>>

\* register(ph); DoCache GET ph
PhCheck(p) ==
   LET c == Cl(p)
       n == NI(ph[p].a, ph[p].b)
       r == Register(regd, gotInv, p, n)
       hit == cache[c][n] # NONE
       v == IF hit THEN cache[c][n] ELSE (IF n \in alive THEN EXISTS ELSE NIL)
   IN /\ Live(p) /\ pc[p] = "phcheck"
      /\ regd' = r[1] /\ gotInv' = r[2]
      /\ IF hit THEN UNCHANGED <<cache, trk>>
                ELSE /\ cache' = [cache EXCEPT ![c][n] = v] /\ trk' = [trk EXCEPT ![n] = @ \cup {c}]
      /\ pc' = [pc EXCEPT ![p] = IF v = NIL \/ BugNoLiveness THEN "steal" ELSE "wait"]
      /\ R(IF v = NIL \/ BugNoLiveness THEN "PhGone" ELSE "PhCheck", p, tgt[p])
      /\ UNCHANGED <<val, alive, tgt, fnnil, ph, inc, lid, cand, nextInc, myv, inflight, dead, nloads, stored, holderLost, bad, budget>>

\* "the client who held the lock has gone": delkey(key, ph) ; goto retry
Steal(p) ==
   LET k == tgt[p]
       un == BugDelNoCompare \/ BugStealPlainDel
   IN /\ Live(p) /\ pc[p] = "steal"
      /\ DelIf(k, ph[p], un)
      \* a lock is taken away from a holder whose liveness key exists and always existed
      /\ bad' = bad \cup (IF val[k].t = "ph" /\ (val[k] = ph[p] \/ un) /\ val[k].a \notin dead
                             /\ NI(val[k].a, val[k].b) \in alive
                             /\ \E d \in Procs : Cl(d) = val[k].a /\ ~holderLost[d] /\ pc[d] \in Holding /\ tgt[d] = k /\ ph[d] = val[k]
                          THEN {"LockStolenFromLiveHolder"} ELSE {})
                  \cup (IF val[k] # ph[p] /\ val[k] # NIL /\ un THEN {"DelOnlyOwn"} ELSE {})
      /\ pc' = [pc EXCEPT ![p] = "start"]
      /\ R("Steal", p, k)
      /\ UNCHANGED <<alive, tgt, fnnil, ph, inc, lid, cand, nextInc, myv, dead, nloads, stored, budget>>

Woken(p) == /\ Live(p) /\ pc[p] = "wait"
            /\ (NK(tgt[p]) \in gotInv[p] \/ NI(ph[p].a, ph[p].b) \in gotInv[p])
            /\ pc' = [pc EXCEPT ![p] = "start"]
            /\ R("Woken", p, tgt[p])
            /\ UNCHANGED <<val, alive, tgt, fnnil, ph, inc, lid, cand, nextInc, myv, cache, trk, regd, gotInv, inflight, dead, nloads, stored, holderLost, bad, budget>>
Timeout(p) == /\ Live(p) /\ pc[p] = "wait" /\ Can("timeout") /\ Spend("timeout")
              /\ IF BugReturnPh THEN Finish(p, ph[p], "val") ELSE Finish(p, NIL, "err")
              /\ R4("Timeout", p, tgt[p], "err", "")
              /\ UNCHANGED <<val, alive, tgt, fnnil, ph, inc, lid, cand, nextInc, myv, cache, trk, regd, gotInv, inflight, dead, nloads, stored, holderLost>>

\* refresh goroutine of the id that is c.id: SET id "" PX ttl (re-creates an expired key)
Refresh(c) == /\ c \notin dead /\ inc[c] # 0
              /\ alive' = alive \cup {NI(c, inc[c])} /\ Touch(NI(c, inc[c]), cache, regd, gotInv)
              /\ RE("Refresh", c, 0)
              /\ UNCHANGED <<val, pc, tgt, fnnil, ph, inc, lid, cand, nextInc, myv, dead, nloads, stored, holderLost, bad, budget>>

\* ------------------------------------------------------------------------------------------------ environment
UserDel(k) == /\ Can("del") /\ Spend("del") /\ val[k] # NIL
              /\ val' = [val EXCEPT ![k] = NIL] /\ Touch(NK(k), cache, regd, gotInv)
              /\ holderLost' = LoseLock(k, val[k])
              /\ RE("Del", 0, k)
              /\ UNCHANGED <<alive, pc, tgt, fnnil, ph, inc, lid, cand, nextInc, myv, dead, nloads, stored, bad>>
KeyExpire(k) == /\ val[k] # NIL
                /\ IF val[k].t = "ph" THEN Can("lockexp") /\ Spend("lockexp") ELSE Can("valexp") /\ Spend("valexp")
                /\ val' = [val EXCEPT ![k] = NIL] /\ Touch(NK(k), cache, regd, gotInv)
                /\ holderLost' = LoseLock(k, val[k])
                /\ RE("KeyExpire", 0, k)
                /\ UNCHANGED <<alive, pc, tgt, fnnil, ph, inc, lid, cand, nextInc, myv, dead, nloads, stored, bad>>
\* a liveness key expires: that of a dead client; that of a live one whose refresh is late (bounded; the holder is
\* excused); or one that no refresh goroutine serves (written by the loser of a registration race: not an excuse)
IdExpire(c, i) == /\ NI(c, i) \in alive
                  \* (an id just written and about to be adopted counts as the client's own: its early expiry is a late refresh)
                  /\ IF c \in dead \/ (inc[c] # i /\ ~\E p \in Of(c) : pc[p] = "kaadopt" /\ cand[p] = i)
                       THEN UNCHANGED budget ELSE Can("late") /\ Spend("late")
                  /\ alive' = alive \ {NI(c, i)} /\ Touch(NI(c, i), cache, regd, gotInv)
                  /\ holderLost' = IF c \in dead \/ inc[c] = i THEN LoseId(c, i) ELSE holderLost
                  /\ RE4("IdExpire", c, i, IF c \in dead THEN "dead" ELSE IF inc[c] = i THEN "late" ELSE "orphan")
                  /\ UNCHANGED <<val, pc, tgt, fnnil, ph, inc, lid, cand, nextInc, myv, dead, nloads, stored, bad>>
\* the process is gone: no final DEL of the liveness key, its connection (tracking, pushes) disappears
Die(c) == /\ c \notin dead /\ Can("die") /\ Spend("die") /\ Cardinality(dead) + 1 < Cardinality(Clients)
          /\ dead' = dead \cup {c} /\ pc' = [p \in Procs |-> IF Cl(p) = c THEN "dead" ELSE pc[p]]
          /\ trk' = [n \in Names |-> trk[n] \ {c}] /\ inflight' = [inflight EXCEPT ![c] = {}]
          /\ RE("Die", c, 0)
          /\ UNCHANGED <<val, alive, tgt, fnnil, ph, inc, lid, cand, nextInc, myv, cache, regd, gotInv, nloads, stored, holderLost, bad>>
\* connection lost and re-established: onInvalidation(nil)
Disconnect(c) ==
   LET old == inc[c] IN
   /\ c \notin dead /\ Can("disc") /\ Spend("disc") /\ nextInc[c] < MaxInc
   /\ inc' = [inc EXCEPT ![c] = 0]
   /\ alive' = alive \ {NI(c, old)}
   /\ holderLost' = IF old # 0 THEN LoseId(c, old) ELSE holderLost
   \* the server forgets what it tracked for c; then the client's DEL of its old id notifies the others
   /\ LET t1 == [n \in Names |-> trk[n] \ {c}]
          wrote == old # 0 /\ NI(c, old) \in alive
          n0 == NI(c, IF old = 0 THEN 1 ELSE old)
          S == IF wrote THEN t1[n0] \ dead ELSE {}
          ca1 == [cache EXCEPT ![c] = [n \in Names |-> NONE]]
          gi1 == [p \in Procs |-> IF Cl(p) = c THEN gotInv[p] \cup regd[c] ELSE gotInv[p]]
          rg1 == [regd EXCEPT ![c] = {}]
      IN /\ trk' = IF wrote THEN [t1 EXCEPT ![n0] = {}] ELSE t1
         /\ IF AsyncPush
              THEN /\ inflight' = [d \in Clients |-> IF d = c THEN {} ELSE IF d \in S THEN inflight[d] \cup {n0} ELSE inflight[d]]
                   /\ cache' = ca1 /\ gotInv' = gi1 /\ regd' = rg1
              ELSE /\ cache' = ArriveCache(ca1, S, n0)
                   /\ gotInv' = [p \in Procs |-> IF Cl(p) \in S /\ n0 \in rg1[Cl(p)] THEN gi1[p] \cup {n0} ELSE gi1[p]]
                   /\ regd' = ArriveReg(rg1, S, n0)
                   /\ UNCHANGED inflight
   /\ RE("Disconnect", c, 0)
   /\ UNCHANGED <<val, pc, tgt, fnnil, ph, lid, cand, nextInc, myv, dead, nloads, stored, bad>>

Next == \/ \E p \in Procs : \/ \E k \in Keys : Begin(p, k) \/ BeginNil(p, k)
                            \/ Start(p) \/ Keepalive(p) \/ KaAdopt(p) \/ Lock(p) \/ LoadOk(p) \/ LoadFail(p) \/ SetKey(p) \/ Unlock(p)
                            \/ PhCheck(p) \/ Steal(p) \/ Woken(p) \/ Timeout(p)
        \/ \E c \in Clients : \/ Refresh(c) \/ Die(c) \/ Disconnect(c)
                              \/ \E n \in Names : Deliver(c, n)
                              \/ \E i \in Incs : IdExpire(c, i)
        \/ \E k \in Keys : UserDel(k) \/ KeyExpire(k)
Spec == Init /\ [][Next]_vars

\* the library and the loaders make progress, pushes arrive, liveness keys of dead clients expire
Fairness == /\ \A p \in Procs : /\ WF_vars(Start(p)) /\ WF_vars(Keepalive(p)) /\ WF_vars(KaAdopt(p)) /\ WF_vars(Lock(p))
                                /\ WF_vars(LoadOk(p))
                                /\ WF_vars(SetKey(p)) /\ WF_vars(Unlock(p)) /\ WF_vars(PhCheck(p)) /\ WF_vars(Steal(p))
                                /\ WF_vars(Woken(p))
            /\ \A c \in Clients : /\ \A n \in Names : WF_vars(Deliver(c, n))
                                  /\ \A i \in Incs : WF_vars(c \in dead /\ IdExpire(c, i))
FairSpec == Spec /\ Fairness

\* ------------------------------------------------------------------------------------------------ properties
TypeOK == /\ \A k \in Keys : val[k].t \in {"nil", "v", "ph"}
          /\ pc \in [Procs -> {"idle", "start", "keepalive", "kaadopt", "lock", "load", "setkey", "unlock", "phcheck", "steal", "wait", "dead"}]
NeverReturnsPlaceholder == "NeverReturnsPlaceholder" \notin bad
ValueFromLoaderOrStore == "ValueFromLoaderOrStore" \notin bad
LoaderOnceWhileHolderAlive == "LoaderOnceWhileHolderAlive" \notin bad
LockStolenOnlyFromDead == "LockStolenFromLiveHolder" \notin bad
DelOnlyOwn == "DelOnlyOwn" \notin bad
\* every lock of a live holder that was not legitimately lost names the id the client's refresh goroutine keeps alive
LockNamesRefreshedId ==
   /\ "LockNamesRefreshedId" \notin bad
   /\ \A p \in Procs : (pc[p] \in Holding /\ ~holderLost[p] /\ Live(p)) => (ph[p].b = inc[Cl(p)] /\ ph[p].a = Cl(p))
\* a waiting Get is never parked for good: somebody will wake it (a safety view of the wake-up protocol)
Parked(p) == /\ pc[p] = "wait" /\ Live(p) /\ gotInv[p] \cap {NK(tgt[p]), NI(ph[p].a, ph[p].b)} = {}
             /\ inflight[Cl(p)] \cap {NK(tgt[p]), NI(ph[p].a, ph[p].b)} = {}
NoOrphanWait == \A p \in Procs : Parked(p) => (Cl(p) \in trk[NK(tgt[p])] \/ Cl(p) \in trk[NI(ph[p].a, ph[p].b)])
\* every Get of a live client returns; in particular the lock of a dead client is released and somebody else loads
GetsReturn == \A p \in Procs : (pc[p] \notin {"idle", "dead"}) ~> (pc[p] \in {"idle", "dead"})
DeadLockReleased == \A k \in Keys, d \in Clients, p \in Procs :
                       (val[k].t = "ph" /\ val[k].a = d /\ d \in dead /\ Live(p) /\ pc[p] # "idle" /\ tgt[p] = k)
                          ~> ~(val[k].t = "ph" /\ val[k].a = d)
=============================================================================
