------------------------------- MODULE Aside -------------------------------
(* rueidisaside/aside.go: CacheAsideClient.Get / Del / keepalive / refresh / onInvalidation over one Redis with
   client side caching (DoCache reads are tracked, invalidation pushes wake the waiters).

   Store:  val[k]  NIL | V(k,n) a value | PH(c,i) the placeholder "rueidisid:.." of incarnation i of client c
           alive   the liveness keys that exist (SET id "" PX ClientTTL, refreshed every ClientTTL/2)
   One Get at a time per client, one step per server round trip / blocking point of Get:

     Start      register(key); DoCache GET key   (from the client side cache or from the server, then tracked)
     Keepalive  c.id == ""  ->  new id, SET id "" PX ttl
     Lock       SET key id NX GET PX ttl   (or the acquireLock script: same effect)
     LoadOk / LoadFail   the loader returns
     SetKey     setkey script: if GET key == id then SET key val PX ttl   (Get returns val either way)
     Unlock     delkey script after a failed loader: if GET key == id then DEL
     PhCheck    register(ph); DoCache GET ph     (liveness key of the lock holder)
     Steal      holder gone: delkey(key, ph): if GET key == ph then DEL ; retry
     Woken      <-ph / <-wait : retry          Timeout   <-ctx.Done(): return the context error
   Environment: Del by a user, expiry of locks / values / liveness keys of dead clients (and, bounded, of live ones
   whose refresh is late), death of a client (no final DEL), disconnect (pushes in flight lost, tracking forgotten,
   cache flushed, onInvalidation(nil): all waiters woken, the client drops its id and deletes the old liveness key).

   Negative switches: BugReturnPh (the placeholder is returned when the wait times out), BugNoLiveness (a foreign lock is
   deleted without looking at the holder's liveness key), BugDelNoCompare (delkey without the value comparison).      *)
EXTENDS Integers, FiniteSets, Sequences, TLC

CONSTANTS Clients, Keys, MaxInc, MaxLoads,
          MaxDel, MaxLockExpire, MaxValExpire, MaxDie, MaxDisc, MaxTimeout, MaxLateRefresh, MaxLoadFail,
          AsyncPush,
          BugReturnPh, BugNoLiveness, BugDelNoCompare,
          Record

NIL == [t |-> "nil", a |-> 0, b |-> 0]
V(k, n) == [t |-> "v", a |-> k, b |-> n]
PH(c, i) == [t |-> "ph", a |-> c, b |-> i]
NK(k) == [t |-> "k", a |-> k, b |-> 0]              \* names the server tracks: cache keys ...
NI(c, i) == [t |-> "id", a |-> c, b |-> i]          \* ... and liveness keys
Incs == 1..MaxInc
Names == {NK(k) : k \in Keys} \cup {NI(c, i) : c \in Clients, i \in Incs}
NONE == [t |-> "none", a |-> 0, b |-> 0]
EXISTS == [t |-> "v", a |-> 0, b |-> 0]             \* what GET of a liveness key returns ("")

VARIABLES val, alive,
          pc,        \* idle start keepalive lock load setkey unlock phcheck steal wait dead
          tgt,       \* key of the current Get
          ph,        \* placeholder the Get is looking at
          inc,       \* current incarnation of the client (0: c.id == "")
          lid,       \* the id the current Get obtained from keepalive (a local variable of Get)
          nextInc,   \* incarnations used so far
          myv,       \* value the loader returned
          cache,     \* cache[c][name]: client side cache entry or NONE
          trk,       \* trk[name]: connections the server will notify
          regd,      \* regd[c]: names with an open channel in c.waits
          gotInv,    \* gotInv[c]: channels captured by the current Get that have been closed
          inflight,  \* pushes on their way (AsyncPush)
          dead, nloads, stored,
          holderLost, \* holderLost[c]: the lock c took was legitimately lost (expiry, Del, its liveness key vanished)
          bad,        \* violated property names
          budget,     \* what the environment has spent
          hist

vars == <<val, alive, pc, tgt, ph, inc, lid, nextInc, myv, cache, trk, regd, gotInv, inflight, dead, nloads, stored,
          holderLost, bad, budget, hist>>

Rec(r) == hist' = IF Record THEN Append(hist, r) ELSE hist
Spend(what) == budget' = [budget EXCEPT ![what] = @ + 1]
Limit == [del |-> MaxDel, lockexp |-> MaxLockExpire, valexp |-> MaxValExpire, die |-> MaxDie, disc |-> MaxDisc,
          timeout |-> MaxTimeout, late |-> MaxLateRefresh, loadfail |-> MaxLoadFail]
Can(what) == budget[what] < Limit[what]

Init == /\ val = [k \in Keys |-> NIL] /\ alive = {}
        /\ pc = [c \in Clients |-> "idle"] /\ tgt = [c \in Clients |-> CHOOSE k \in Keys : TRUE]
        /\ ph = [c \in Clients |-> NIL] /\ inc = [c \in Clients |-> 0] /\ lid = [c \in Clients |-> 0]
        /\ nextInc = [c \in Clients |-> 0]
        /\ myv = [c \in Clients |-> NIL]
        /\ cache = [c \in Clients |-> [n \in Names |-> NONE]] /\ trk = [n \in Names |-> {}]
        /\ regd = [c \in Clients |-> {}] /\ gotInv = [c \in Clients |-> {}] /\ inflight = [c \in Clients |-> {}]
        /\ dead = {} /\ nloads = 0 /\ stored = [k \in Keys |-> {}]
        /\ holderLost = [c \in Clients |-> FALSE] /\ bad = {}
        /\ budget = [w \in DOMAIN Limit |-> 0] /\ hist = <<>>

\* ------------------------------------------------------------------------------------------------ server side
\* onInvalidation(name) at client c: the cache entry goes, a registered channel is closed and forgotten
ArriveCache(ca, S, n) == [c \in Clients |-> IF c \in S THEN [ca[c] EXCEPT ![n] = NONE] ELSE ca[c]]
ArriveInv(gi, S, n) == [c \in Clients |-> IF c \in S /\ n \in regd[c] THEN gi[c] \cup {n} ELSE gi[c]]
ArriveReg(rg, S, n) == [c \in Clients |-> IF c \in S THEN rg[c] \ {n} ELSE rg[c]]
\* a write to name n: everybody who read it with DoCache is notified once and forgotten
Touch(n, ca, rg, gi) ==
   LET S == trk[n] \ dead IN
   /\ trk' = [trk EXCEPT ![n] = {}]
   /\ IF AsyncPush THEN /\ inflight' = [c \in Clients |-> IF c \in S THEN inflight[c] \cup {n} ELSE inflight[c]]
                        /\ cache' = ca /\ regd' = rg /\ gotInv' = gi
                   ELSE /\ cache' = ArriveCache(ca, S, n) /\ gotInv' = ArriveInv(gi, S, n) /\ regd' = ArriveReg(rg, S, n)
                        /\ UNCHANGED inflight
NoTouch == UNCHANGED <<trk, inflight, cache, regd, gotInv>>
Deliver(c, n) == /\ AsyncPush /\ n \in inflight[c] /\ c \notin dead
                 /\ inflight' = [inflight EXCEPT ![c] = @ \ {n}]
                 /\ cache' = ArriveCache(cache, {c}, n) /\ gotInv' = ArriveInv(gotInv, {c}, n)
                 /\ regd' = ArriveReg(regd, {c}, n)
                 /\ UNCHANGED <<val, alive, pc, tgt, ph, inc, lid, nextInc, myv, trk, dead, nloads, stored, holderLost, bad, budget, hist>>

\* the lock PH(c,i) on key k disappears / the liveness key of (c,i) disappears: the holder is excused from now on
LoseLock(v) == [c \in Clients |-> holderLost[c] \/ (v.t = "ph" /\ v.a = c /\ pc[c] \in {"load", "setkey", "unlock"} /\ ph[c] = v)]
LoseId(c, i) == [d \in Clients |-> holderLost[d] \/ (d = c /\ pc[c] \in {"load", "setkey", "unlock"} /\ ph[c] = PH(c, i))]

\* ------------------------------------------------------------------------------------------------ Get
Live(c) == c \notin dead
Me(c) == PH(c, lid[c])

\* register(name): an existing open channel is reused, a closed one replaced; either way nothing has fired yet
Register(rg, gi, c, n) == <<[rg EXCEPT ![c] = @ \cup {n}], [gi EXCEPT ![c] = @ \ {n}]>>

Finish(c, v, kind) ==        \* Get returns
   /\ pc' = [pc EXCEPT ![c] = "idle"]
   /\ bad' = bad \cup (IF kind = "val" /\ v.t = "ph" THEN {"NeverReturnsPlaceholder"} ELSE {})
                 \cup (IF kind = "val" /\ v.t = "v" /\ v \notin stored[tgt[c]] /\ v # myv[c] THEN {"ValueFromLoaderOrStore"} ELSE {})
                 \cup (IF kind = "val" /\ v.t = "v" /\ v.a # tgt[c] THEN {"ValueFromLoaderOrStore"} ELSE {})

Begin(c, k) == /\ Live(c) /\ pc[c] = "idle" /\ nloads < MaxLoads
               /\ pc' = [pc EXCEPT ![c] = "start"] /\ tgt' = [tgt EXCEPT ![c] = k]
               /\ myv' = [myv EXCEPT ![c] = NIL] /\ ph' = [ph EXCEPT ![c] = NIL]
               /\ holderLost' = [holderLost EXCEPT ![c] = FALSE]
               /\ Rec([a |-> "Get", c |-> c, k |-> k])
               /\ UNCHANGED <<val, alive, inc, lid, nextInc, cache, trk, regd, gotInv, inflight, dead, nloads, stored, bad, budget>>

\* what the value v read for the key means for the Get
Route(c, v) == IF v.t = "nil" THEN "keepalive" ELSE IF v.t = "ph" THEN "phcheck" ELSE "ret"

Start(c) ==
   LET k == tgt[c]
       n == NK(k)
       r == Register(regd, gotInv, c, n)
       hit == cache[c][n] # NONE
       v == IF hit THEN cache[c][n] ELSE val[k]
   IN /\ Live(c) /\ pc[c] = "start"
      /\ regd' = r[1] /\ gotInv' = r[2]
      /\ IF hit THEN UNCHANGED <<cache, trk>>
                ELSE /\ cache' = [cache EXCEPT ![c][n] = v] /\ trk' = [trk EXCEPT ![n] = @ \cup {c}]
      /\ ph' = [ph EXCEPT ![c] = IF v.t = "ph" THEN v ELSE @]
      /\ IF Route(c, v) = "ret" THEN Finish(c, v, "val")
                                ELSE pc' = [pc EXCEPT ![c] = Route(c, v)] /\ UNCHANGED bad
      /\ Rec([a |-> "Read", c |-> c, k |-> k])
      /\ UNCHANGED <<val, alive, tgt, inc, lid, nextInc, myv, inflight, dead, nloads, stored, holderLost, budget>>

Keepalive(c) ==
   /\ Live(c) /\ pc[c] = "keepalive"
   /\ IF inc[c] = 0
        THEN /\ nextInc[c] < MaxInc
             /\ nextInc' = [nextInc EXCEPT ![c] = @ + 1] /\ inc' = [inc EXCEPT ![c] = nextInc[c] + 1]
             /\ lid' = [lid EXCEPT ![c] = nextInc[c] + 1]
             /\ alive' = alive \cup {NI(c, nextInc[c] + 1)}
        ELSE lid' = [lid EXCEPT ![c] = inc[c]] /\ UNCHANGED <<nextInc, inc, alive>>
   /\ pc' = [pc EXCEPT ![c] = "lock"]
   /\ Rec([a |-> "Keepalive", c |-> c, k |-> tgt[c]])
   /\ UNCHANGED <<val, tgt, ph, myv, cache, trk, regd, gotInv, inflight, dead, nloads, stored, holderLost, bad, budget>>

\* SET key id NX GET PX ttl
Lock(c) ==
   LET k == tgt[c] IN
   /\ Live(c) /\ pc[c] = "lock"
   /\ IF val[k] = NIL
        THEN /\ val' = [val EXCEPT ![k] = Me(c)] /\ Touch(NK(k), cache, regd, gotInv)
             /\ pc' = [pc EXCEPT ![c] = "load"] /\ ph' = [ph EXCEPT ![c] = Me(c)]
             /\ nloads' = nloads + 1
             \* a second loader while the first holder is alive and its lock was never legitimately lost
             /\ bad' = bad \cup (IF \E d \in Clients \ {c} : pc[d] \in {"load", "setkey"} /\ tgt[d] = k /\ ~holderLost[d] /\ d \notin dead
                                 THEN {"LoaderOnceWhileHolderAlive"} ELSE {})
             /\ Rec([a |-> "Locked", c |-> c, k |-> k])
        ELSE /\ UNCHANGED <<val, nloads>> /\ NoTouch
             /\ ph' = [ph EXCEPT ![c] = IF val[k].t = "ph" THEN val[k] ELSE @]
             /\ IF val[k].t = "ph" THEN pc' = [pc EXCEPT ![c] = "phcheck"] /\ UNCHANGED bad
                                   ELSE Finish(c, val[k], "val")
             /\ Rec([a |-> "LockBusy", c |-> c, k |-> k])
   \* a lock taken with an id whose liveness key is already gone (disconnect between keepalive and lock) is free game
   /\ holderLost' = [holderLost EXCEPT ![c] = IF val[k] = NIL THEN NI(c, lid[c]) \notin alive ELSE @]
   /\ UNCHANGED <<alive, tgt, inc, lid, nextInc, myv, dead, stored, budget>>

LoadOk(c) == /\ Live(c) /\ pc[c] = "load"
             /\ myv' = [myv EXCEPT ![c] = V(tgt[c], nloads)] /\ pc' = [pc EXCEPT ![c] = "setkey"]
             /\ Rec([a |-> "LoadOk", c |-> c, k |-> tgt[c]])
             /\ UNCHANGED <<val, alive, tgt, ph, inc, lid, nextInc, cache, trk, regd, gotInv, inflight, dead, nloads, stored, holderLost, bad, budget>>
LoadFail(c) == /\ Live(c) /\ pc[c] = "load" /\ Can("loadfail") /\ Spend("loadfail")
               /\ pc' = [pc EXCEPT ![c] = "unlock"]
               /\ Rec([a |-> "LoadFail", c |-> c, k |-> tgt[c]])
               /\ UNCHANGED <<val, alive, tgt, ph, inc, lid, nextInc, myv, cache, trk, regd, gotInv, inflight, dead, nloads, stored, holderLost, bad>>

\* if GET key == id then SET key val PX ttl else 0 ; Get returns the loaded value in both cases
SetKey(c) ==
   LET k == tgt[c] IN
   /\ Live(c) /\ pc[c] = "setkey"
   /\ IF val[k] = ph[c] THEN /\ val' = [val EXCEPT ![k] = myv[c]] /\ Touch(NK(k), cache, regd, gotInv)
                             /\ stored' = [stored EXCEPT ![k] = @ \cup {myv[c]}]
                        ELSE UNCHANGED <<val, stored>> /\ NoTouch
   /\ Finish(c, myv[c], "val")
   /\ Rec([a |-> "SetKey", c |-> c, k |-> k])
   /\ UNCHANGED <<alive, tgt, ph, inc, lid, nextInc, myv, dead, nloads, holderLost, budget>>

\* delkey script: if GET key == arg then DEL
DelIf(k, arg) == IF val[k] = arg \/ (BugDelNoCompare /\ val[k] # NIL)
                   THEN /\ val' = [val EXCEPT ![k] = NIL] /\ Touch(NK(k), cache, regd, gotInv)
                        /\ holderLost' = IF val[k] = arg THEN holderLost ELSE LoseLock(val[k])   \* (never: see DelSafe)
                   ELSE UNCHANGED <<val, holderLost>> /\ NoTouch
Unlock(c) == /\ Live(c) /\ pc[c] = "unlock"
             /\ DelIf(tgt[c], ph[c])
             /\ pc' = [pc EXCEPT ![c] = "idle"]
             /\ bad' = bad \cup (IF val[tgt[c]] # ph[c] /\ val[tgt[c]] # NIL /\ BugDelNoCompare THEN {"DelOnlyOwn"} ELSE {})
             /\ Rec([a |-> "Unlock", c |-> c, k |-> tgt[c]])
             /\ UNCHANGED <<alive, tgt, ph, inc, lid, nextInc, myv, dead, nloads, stored, budget>>

\* register(ph); DoCache GET ph
PhCheck(c) ==
   LET n == NI(ph[c].a, ph[c].b)
       r == Register(regd, gotInv, c, n)
       hit == cache[c][n] # NONE
       v == IF hit THEN cache[c][n] ELSE (IF n \in alive THEN EXISTS ELSE NIL)
   IN /\ Live(c) /\ pc[c] = "phcheck"
      /\ regd' = r[1] /\ gotInv' = r[2]
      /\ IF hit THEN UNCHANGED <<cache, trk>>
                ELSE /\ cache' = [cache EXCEPT ![c][n] = v] /\ trk' = [trk EXCEPT ![n] = @ \cup {c}]
      /\ pc' = [pc EXCEPT ![c] = IF v = NIL \/ BugNoLiveness THEN "steal" ELSE "wait"]
      /\ Rec([a |-> "PhCheck", c |-> c, k |-> tgt[c]])
      /\ UNCHANGED <<val, alive, tgt, ph, inc, lid, nextInc, myv, inflight, dead, nloads, stored, holderLost, bad, budget>>

\* "the client who held the lock has gone": delkey(key, ph) ; goto retry
Steal(c) ==
   LET k == tgt[c]
       n == NI(ph[c].a, ph[c].b)
   IN /\ Live(c) /\ pc[c] = "steal"
      /\ DelIf(k, ph[c])
      \* a lock is taken away from a holder whose liveness key exists and always existed
      /\ bad' = bad \cup (IF val[k].t = "ph" /\ (val[k] = ph[c] \/ BugDelNoCompare) /\ val[k].a \notin dead
                             /\ NI(val[k].a, val[k].b) \in alive /\ ~holderLost[val[k].a]
                             /\ pc[val[k].a] \in {"load", "setkey", "unlock"} /\ ph[val[k].a] = val[k]
                          THEN {"LockStolenFromLiveHolder"} ELSE {})
                  \cup (IF val[k] # ph[c] /\ val[k] # NIL /\ BugDelNoCompare THEN {"DelOnlyOwn"} ELSE {})
      /\ pc' = [pc EXCEPT ![c] = "start"]
      /\ Rec([a |-> "Steal", c |-> c, k |-> k])
      /\ UNCHANGED <<alive, tgt, ph, inc, lid, nextInc, myv, dead, nloads, stored, budget>>

Woken(c) == /\ Live(c) /\ pc[c] = "wait"
            /\ (NK(tgt[c]) \in gotInv[c] \/ NI(ph[c].a, ph[c].b) \in gotInv[c])
            /\ pc' = [pc EXCEPT ![c] = "start"]
            /\ Rec([a |-> "Woken", c |-> c, k |-> tgt[c]])
            /\ UNCHANGED <<val, alive, tgt, ph, inc, lid, nextInc, myv, cache, trk, regd, gotInv, inflight, dead, nloads, stored, holderLost, bad, budget>>
Timeout(c) == /\ Live(c) /\ pc[c] = "wait" /\ Can("timeout") /\ Spend("timeout")
              /\ IF BugReturnPh THEN Finish(c, ph[c], "val") ELSE Finish(c, NIL, "err")
              /\ Rec([a |-> "Timeout", c |-> c, k |-> tgt[c]])
              /\ UNCHANGED <<val, alive, tgt, ph, inc, lid, nextInc, myv, cache, trk, regd, gotInv, inflight, dead, nloads, stored, holderLost>>

\* refresh goroutine: SET id "" PX ttl (re-creates an expired key)
Refresh(c) == /\ Live(c) /\ inc[c] # 0
              /\ alive' = alive \cup {NI(c, inc[c])} /\ Touch(NI(c, inc[c]), cache, regd, gotInv)
              /\ Rec([a |-> "Refresh", c |-> c, k |-> 0])
              /\ UNCHANGED <<val, pc, tgt, ph, inc, lid, nextInc, myv, dead, nloads, stored, holderLost, bad, budget>>

\* ------------------------------------------------------------------------------------------------ environment
UserDel(k) == /\ Can("del") /\ Spend("del") /\ val[k] # NIL
              /\ val' = [val EXCEPT ![k] = NIL] /\ Touch(NK(k), cache, regd, gotInv)
              /\ holderLost' = LoseLock(val[k])
              /\ Rec([a |-> "Del", c |-> 0, k |-> k])
              /\ UNCHANGED <<alive, pc, tgt, ph, inc, lid, nextInc, myv, dead, nloads, stored, bad>>
KeyExpire(k) == /\ val[k] # NIL
                /\ IF val[k].t = "ph" THEN Can("lockexp") /\ Spend("lockexp") ELSE Can("valexp") /\ Spend("valexp")
                /\ val' = [val EXCEPT ![k] = NIL] /\ Touch(NK(k), cache, regd, gotInv)
                /\ holderLost' = LoseLock(val[k])
                /\ Rec([a |-> "KeyExpire", c |-> 0, k |-> k])
                /\ UNCHANGED <<alive, pc, tgt, ph, inc, lid, nextInc, myv, dead, nloads, stored, bad>>
\* the liveness key of a dead client (or of a live one whose refresh is late) expires
IdExpire(c, i) == /\ NI(c, i) \in alive
                  /\ IF c \in dead \/ inc[c] # i THEN UNCHANGED budget ELSE Can("late") /\ Spend("late")
                  /\ alive' = alive \ {NI(c, i)} /\ Touch(NI(c, i), cache, regd, gotInv)
                  /\ holderLost' = LoseId(c, i)
                  /\ Rec([a |-> "IdExpire", c |-> c, k |-> i])
                  /\ UNCHANGED <<val, pc, tgt, ph, inc, lid, nextInc, myv, dead, nloads, stored, bad>>
\* the process is gone: no final DEL of the liveness key, its connection (tracking, pushes) disappears
Die(c) == /\ Live(c) /\ Can("die") /\ Spend("die") /\ Cardinality(dead) + 1 < Cardinality(Clients)
          /\ dead' = dead \cup {c} /\ pc' = [pc EXCEPT ![c] = "dead"]
          /\ trk' = [n \in Names |-> trk[n] \ {c}] /\ inflight' = [inflight EXCEPT ![c] = {}]
          /\ Rec([a |-> "Die", c |-> c, k |-> tgt[c]])
          /\ UNCHANGED <<val, alive, tgt, ph, inc, lid, nextInc, myv, cache, regd, gotInv, nloads, stored, holderLost, bad>>
\* connection lost and re-established: onInvalidation(nil)
Disconnect(c) ==
   LET old == inc[c] IN
   /\ Live(c) /\ Can("disc") /\ Spend("disc") /\ nextInc[c] < MaxInc
   /\ inc' = [inc EXCEPT ![c] = 0]
   /\ alive' = alive \ {NI(c, old)}
   /\ holderLost' = IF old # 0 THEN LoseId(c, old) ELSE holderLost
   \* the server forgets what it tracked for c; then the client's DEL of its old id notifies the others
   /\ LET t1 == [n \in Names |-> trk[n] \ {c}]
          wrote == old # 0 /\ NI(c, old) \in alive
          n0 == NI(c, IF old = 0 THEN 1 ELSE old)
          S == IF wrote THEN t1[n0] \ dead ELSE {}
          ca1 == [cache EXCEPT ![c] = [n \in Names |-> NONE]]
          gi1 == [gotInv EXCEPT ![c] = @ \cup regd[c]]
          rg1 == [regd EXCEPT ![c] = {}]
      IN /\ trk' = IF wrote THEN [t1 EXCEPT ![n0] = {}] ELSE t1
         /\ IF AsyncPush
              THEN /\ inflight' = [d \in Clients |-> IF d = c THEN {} ELSE IF d \in S THEN inflight[d] \cup {n0} ELSE inflight[d]]
                   /\ cache' = ca1 /\ gotInv' = gi1 /\ regd' = rg1
              ELSE /\ cache' = ArriveCache(ca1, S, n0) /\ gotInv' = ArriveInv(gi1, S, n0) /\ regd' = ArriveReg(rg1, S, n0)
                   /\ UNCHANGED inflight
   /\ Rec([a |-> "Disconnect", c |-> c, k |-> 0])
   /\ UNCHANGED <<val, pc, tgt, ph, lid, nextInc, myv, dead, nloads, stored, bad>>

Next == \/ \E c \in Clients : \/ \E k \in Keys : Begin(c, k)
                              \/ Start(c) \/ Keepalive(c) \/ Lock(c) \/ LoadOk(c) \/ LoadFail(c) \/ SetKey(c) \/ Unlock(c)
                              \/ PhCheck(c) \/ Steal(c) \/ Woken(c) \/ Timeout(c) \/ Refresh(c) \/ Die(c) \/ Disconnect(c)
                              \/ \E n \in Names : Deliver(c, n)
                              \/ \E i \in Incs : IdExpire(c, i)
        \/ \E k \in Keys : UserDel(k) \/ KeyExpire(k)
Spec == Init /\ [][Next]_vars

\* the library and the loaders make progress, pushes arrive, liveness keys of dead clients expire
Fairness == /\ \A c \in Clients : /\ WF_vars(Start(c)) /\ WF_vars(Keepalive(c)) /\ WF_vars(Lock(c)) /\ WF_vars(LoadOk(c))
                                  /\ WF_vars(SetKey(c)) /\ WF_vars(Unlock(c)) /\ WF_vars(PhCheck(c)) /\ WF_vars(Steal(c))
                                  /\ WF_vars(Woken(c))
                                  /\ \A n \in Names : WF_vars(Deliver(c, n))
                                  /\ \A i \in Incs : WF_vars(c \in dead /\ IdExpire(c, i))
FairSpec == Spec /\ Fairness

\* ------------------------------------------------------------------------------------------------ properties
TypeOK == /\ \A k \in Keys : val[k].t \in {"nil", "v", "ph"}
          /\ pc \in [Clients -> {"idle", "start", "keepalive", "lock", "load", "setkey", "unlock", "phcheck", "steal", "wait", "dead"}]
NeverReturnsPlaceholder == "NeverReturnsPlaceholder" \notin bad
ValueFromLoaderOrStore == "ValueFromLoaderOrStore" \notin bad
LoaderOnceWhileHolderAlive == "LoaderOnceWhileHolderAlive" \notin bad
LockStolenOnlyFromDead == "LockStolenFromLiveHolder" \notin bad
DelOnlyOwn == "DelOnlyOwn" \notin bad
\* a waiting Get is never parked for good: somebody will wake it (a safety view of the wake-up protocol)
Parked(c) == /\ pc[c] = "wait" /\ c \notin dead /\ gotInv[c] \cap {NK(tgt[c]), NI(ph[c].a, ph[c].b)} = {}
             /\ inflight[c] \cap {NK(tgt[c]), NI(ph[c].a, ph[c].b)} = {}
NoOrphanWait == \A c \in Clients : Parked(c) => (c \in trk[NK(tgt[c])] \/ c \in trk[NI(ph[c].a, ph[c].b)])
\* every Get of a live client returns; in particular the lock of a dead client is released and somebody else loads
GetsReturn == \A c \in Clients : (pc[c] \notin {"idle", "dead"}) ~> (pc[c] \in {"idle", "dead"})
DeadLockReleased == \A k \in Keys, d \in Clients, c \in Clients :
                       (val[k].t = "ph" /\ val[k].a = d /\ d \in dead /\ c \notin dead /\ pc[c] # "idle" /\ tgt[c] = k)
                          ~> ~(val[k].t = "ph" /\ val[k].a = d)
=============================================================================
