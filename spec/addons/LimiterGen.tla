----------------------------- MODULE LimiterGen -----------------------------
(* Scenario generation for the rate limiter: behaviours of Limiter.tla written down as scripts of controllable steps
   (who reads the clock when with which n, whose script runs when, by how many ticks the clock advances) together with
   the outcome Limiter.tla predicts for every call.  luadrv-style replay: limiterdrv realises a tick as a fixed slice
   of real time (see the driver) and executes the steps against the real rueidislimiter.                     *)
EXTENDS Limiter

CONSTANTS MaxAdv      \* bound on the number of clock advances in a scenario

VARIABLES hist, nadv
gvars == <<vars, hist, nadv>>

GInit == Init /\ hist = <<>> /\ nadv = 0

Step(a, c, i, k, d) == [a |-> a, c |-> c, id |-> i, n |-> k, d |-> d, clock |-> clock', allowed |-> FALSE, remaining |-> 0,
                        cur |-> 0, wasreset |-> FALSE, resetrel |-> 0]

Busy == \E c \in Callers : pc[c] = "ran"
LastIsAdv == hist # <<>> /\ hist[Len(hist)].a = "Adv"

GAdvance(d) == /\ ~Busy /\ ~LastIsAdv /\ nadv < MaxAdv /\ ncalls < MaxCalls
               /\ Advance(d) /\ hist' = Append(hist, Step("Adv", 0, 0, 0, d)) /\ nadv' = nadv + 1
\* callers are interchangeable: caller c+1 appears only after caller c
Appeared == {hist[x].c : x \in 1..Len(hist)}
GRead(c, i, k) == /\ ~Busy /\ (c = 1 \/ (c - 1) \in Appeared) /\ Read(c, i, k) /\ hist' = Append(hist, Step("Read", c, i, k, 0)) /\ UNCHANGED nadv
GScript(c) == /\ ~Busy /\ Script(c) /\ hist' = Append(hist, Step("Script", c, cid[c], cn[c], 0)) /\ UNCHANGED nadv
\* the caller's return follows its script immediately (it is local to the caller)
GRet(c) == /\ Ret(c) /\ UNCHANGED nadv
           /\ LET o == ResultOf(c) IN
              hist' = Append(hist, [Step("Ret", c, o.id, o.n, 0) EXCEPT !.allowed = o.allowed, !.remaining = o.remaining,
                                       !.cur = o.cur, !.wasreset = o.wasreset, !.resetrel = o.reset - o.now])

GNext == \/ \E d \in Jumps : GAdvance(d)
         \/ \E c \in Callers, i \in Ids, k \in Ns : GRead(c, i, k)
         \/ \E c \in Callers : GScript(c) \/ GRet(c)
GSpec == GInit /\ [][GNext]_gvars

Complete == ncalls = MaxCalls /\ \A c \in Callers : pc[c] = "idle"
Emit == Complete => PrintT(<<"CASE", ToJson([limit |-> Limit, w |-> W, slack |-> Slack, steps |-> hist])>>)
=============================================================================
