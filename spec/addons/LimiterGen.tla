----------------------------- MODULE LimiterGen -----------------------------
(* Scenario generation for the rate limiter: behaviours of Limiter.tla written down as scripts of controllable steps
   (who reads the clock when with which n and which option list, whose script runs when, by how many ticks the clock
   advances) together with
   the outcome Limiter.tla predicts for every call.  luadrv-style replay: limiterdrv realises a tick as a fixed slice
   of real time (see the driver) and executes the steps against the real rueidislimiter.                     *)
EXTENDS Limiter

CONSTANTS MaxAdv      \* bound on the number of clock advances in a scenario

VARIABLES hist, nadv
gvars == <<vars, hist, nadv>>

GInit == Init /\ hist = <<>> /\ nadv = 0

\* every step record has the same fields.  lim/w: the limit and window in force for the call (the default when it passes
\* no option); nopt: how many options the call passes (0, 1, 2); lim0/w0: the option in front of the one in force when
\* there are two.  Ret steps carry what Limiter.tla predicts for the call.
Step(a, c, i, k, d) == [a |-> a, c |-> c, id |-> i, n |-> k, d |-> d, clock |-> clock', lim |-> 0, w |-> 0, nopt |-> 0,
                        lim0 |-> 0, w0 |-> 0, allowed |-> FALSE, remaining |-> 0,
                        cur |-> 0, wasreset |-> FALSE, resetrel |-> 0]
WithOpt(st, os) == [st EXCEPT !.lim = InForce(os).lim, !.w = InForce(os).w, !.nopt = Len(os),
                              !.lim0 = IF Len(os) > 1 THEN os[1].lim ELSE 0, !.w0 = IF Len(os) > 1 THEN os[1].w ELSE 0]
InCall(st, c) == [st EXCEPT !.lim = olim[c], !.w = ow[c]]

Busy == \E c \in Callers : pc[c] = "ran"
LastIsAdv == hist # <<>> /\ hist[Len(hist)].a = "Adv"

GAdvance(d) == /\ ~Busy /\ ~LastIsAdv /\ nadv < MaxAdv /\ ncalls < MaxCalls
               /\ Advance(d) /\ hist' = Append(hist, Step("Adv", 0, 0, 0, d)) /\ nadv' = nadv + 1
\* callers are interchangeable: caller c+1 appears only after caller c
Appeared == {hist[x].c : x \in 1..Len(hist)}
GRead(c, i, k, os) == /\ ~Busy /\ (c = 1 \/ (c - 1) \in Appeared) /\ Read(c, i, k, os) /\ Len(os) <= 2
                      /\ hist' = Append(hist, WithOpt(Step("Read", c, i, k, 0), os)) /\ UNCHANGED nadv
GScript(c) == /\ ~Busy /\ Script(c) /\ hist' = Append(hist, InCall(Step("Script", c, cid[c], cn[c], 0), c)) /\ UNCHANGED nadv
\* the caller's return follows its script immediately (it is local to the caller)
GRet(c) == /\ Ret(c) /\ UNCHANGED nadv
           /\ LET o == ResultOf(c) IN
              hist' = Append(hist, [InCall(Step("Ret", c, o.id, o.n, 0), c) EXCEPT !.allowed = o.allowed, !.remaining = o.remaining,
                                       !.cur = o.cur, !.wasreset = o.wasreset, !.resetrel = o.reset - o.now])

GNext == \/ \E d \in Jumps : GAdvance(d)
         \/ \E c \in Callers, i \in Ids, k \in Ns, os \in OptLists : GRead(c, i, k, os)
         \/ \E c \in Callers : GScript(c) \/ GRet(c)
GSpec == GInit /\ [][GNext]_gvars

Complete == ncalls = MaxCalls /\ \A c \in Callers : pc[c] = "idle"
Emit == Complete => PrintT(<<"CASE", ToJson([limit |-> Limit, w |-> W, slack |-> Slack, steps |-> hist])>>)
=============================================================================
