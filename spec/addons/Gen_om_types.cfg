\* C40 field types: prints every supported (repository, place, type, boundary class) cell with the predicted round-trip outcome
SPECIFICATION Spec
CHECK_DEADLOCK FALSE
