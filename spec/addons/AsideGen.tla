------------------------------ MODULE AsideGen ------------------------------
(* Root module of the Aside.tla configurations; scenario generation in simulation mode with Record = TRUE: every
   behaviour is printed once, when its history reaches GenLen steps or nothing is enabled any more. *)
EXTENDS Aside, Json
CONSTANT GenLen
GenEmit == (Len(hist) = GenLen \/ (Len(hist) < GenLen /\ Len(hist) > 3 /\ ~ENABLED Next)) => PrintT(<<"CASE", ToJson(hist)>>)
GenStop == Len(hist) <= GenLen
=============================================================================
