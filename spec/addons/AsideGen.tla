------------------------------ MODULE AsideGen ------------------------------
(* Root module of the Aside.tla configurations; scenario generation in simulation mode with Record = TRUE: every
   behaviour is printed once, when its history reaches GenLen steps or nothing is enabled any more.
   CO_*: caller -> client maps for the configurations (ClientOf <- CO_..).
   NilCases: exhaustive generation of Gets without a loader at every state of the key (see MC_aside_nilgen.cfg). *)
EXTENDS Aside, Json
CONSTANT GenLen
CO_id == [p \in Procs |-> p]
CO_11 == <<1, 1>>
CO_112 == <<1, 1, 2>>
CO_1123 == <<1, 1, 2, 3>>
CO_1223 == <<1, 2, 2, 3>>
GenEmit == (Len(hist) = GenLen \/ (Len(hist) < GenLen /\ Len(hist) > 3 /\ ~ENABLED Next)) => PrintT(<<"CASE", ToJson(hist)>>)
GenStop == Len(hist) <= GenLen

\* ---- Gets without a loader at every state of the key: exhaustive, Record = TRUE; a behaviour is printed when a Get
\* without a loader has just returned. Its Read records carry the state of the key it met (s: nil / phlive / phdead / v), the
\* returning record what the specification lets it return (r: nil error / val / err).
NilEmit == (Len(hist) > 0 /\ hist[Len(hist)].r # "" /\ hist[Len(hist)].p \in NilProcs) => PrintT(<<"CASE", ToJson(hist)>>)
\* (simulation is steered to the interesting part: at most two such Gets, the holder dies only with the lock taken)
NilStop == /\ Len(hist) <= GenLen /\ Cardinality({i \in 1..Len(hist) : hist[i].a = "GetNil"}) <= 2
           /\ (dead = {} \/ nloads > 0)
=============================================================================
