\* C40 exhaustive, expiry: json repository, 1 key, 2 savers (2 obtains, 2 saves each), exat zero / past / now / future, the clock advances up to 3 ticks, batches of 2
SPECIFICATION Spec
CONSTANTS
  Repo = "json"
  Savers = {"s1", "s2"}
  Keys = {"k1"}
  InitDocs <- InitDocs1
  Exps = {"zero", "past", "now", "future"}
  MaxNow = 4
  MaxBatch = 2
  MaxObtain = 2
  MaxSaves = 2
  MaxVer = 6
  Defect = "none"
  Emit = FALSE
  MaxOps = 0
VIEW MCView
INVARIANTS TypeOK AtMostOneWinner ExpiryHonoured
PROPERTIES VersionPlusOne SavedIsFetchable AllFieldsStored FailedSaveChangesNothing FetchEqualsSavedButNil FetchEqualsSaved
CHECK_DEADLOCK FALSE
