SPECIFICATION Spec
CONSTANTS
  Clients = {1, 2}
  Procs = {1, 2}
  ClientOf <- CO_id
  NilProcs = {2}
  LoadProcs = {1, 2}
  Keys = {1}
  MaxInc = 2
  MaxLoads = 2
  MaxDel = 0
  MaxLockExpire = 0
  MaxValExpire = 0
  MaxDie = 0
  MaxDisc = 0
  MaxTimeout = 0
  MaxLateRefresh = 0
  MaxLoadFail = 0
  AsyncPush = FALSE
  BugReturnPh = FALSE
  BugNoLiveness = FALSE
  BugDelNoCompare = FALSE
  BugNoAdopt = FALSE
  BugNilFastPath = TRUE
  BugStealPlainDel = FALSE
  Record = FALSE
  GenLen = 30
INVARIANTS NeverReturnsPlaceholder


CHECK_DEADLOCK FALSE
