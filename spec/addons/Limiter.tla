------------------------------ MODULE Limiter ------------------------------
(* rueidislimiter (rueidislimiter/limiter.go): fixed-window rate limiter whose state lives in two Redis keys per
   identifier, updated by one Lua script (atomic on the server):

      expires_at = GET ek
      if not expires_at or expires_at < now then          -- now, next = now + window come from the CALLER's clock
          SET ck 0 PXAT next+1000 ; SET ek next PXAT next+1000 ; expires_at = next
      end
      current = INCRBY ck n ; return {current, expires_at}

   and the caller's decision  remaining = max(limit - current, 0),
                               allowed   = current <= limit /\ (n > 0 \/ current < limit),  ResetAtMs = expires_at.
   Check = AllowN(0), Allow = AllowN(1).  Note that the script counts every REQUESTED token, admitted or not.

   limit and window are a parameter of EVERY CALL: the limiter is configured with a default (Limit, W) and a call may
   bring a list of options, each a (limit, window) pair (WithCustomRateLimit); the LAST option of the list is in force
   for the call, the default when the list is empty.  The keys depend on the identifier only, so calls
   with different limits and windows share one counter and one expires_at per identifier: the window that a call finds
   open keeps the length its opener gave it, the call's own window matters only when the call opens a new one, and the
   call's own limit decides its verdict and its Remaining.

   Time is one discrete clock shared by callers and server (one process in the conformance runs).  A call is three
   steps: Read (the caller reads the clock), Script (the server runs the script with the time the caller read - other
   callers and the clock may move in between), Ret.  Keys disappear when the clock passes their PXAT deadline.
   Units are abstract: the exhaustive configs use W = 2 ticks, trace validation uses milliseconds.

   Ghost state (never read by the modelled code): the serial number of the server-side window of each identifier, the
   number of tokens requested in it and the number of tokens admitted in it (in the order in which the server ran the
   scripts); the properties compare what callers are told with these.               *)
EXTENDS Integers, Sequences, FiniteSets, TLC, Json

CONSTANTS Callers, Ids,
          Limit, W,      \* the limiter's configured default limit and window
          OptLists,      \* the option lists a call may pass: sequences of [lim, w] records; <<>> = no option = the default
          Slack,
          Ns,            \* values of n callers use (0 = Check)
          Jumps,         \* amounts by which the clock may advance in one step
          MaxClock, MaxCalls,   \* bound on the clock / on the total number of calls
          MaxStale,      \* a Script step of a call with the default window runs at most this long after its Read (the
                         \* property's "no clock skew" assumption); a call with window w: MaxStale - W + w, i.e. always
                         \* "less than the call's own window + Slack"
          BugIncrBeforeReset,   \* INCRBY placed before the window test
          BugAllowOneMore,      \* allowed := current <= limit + 1
          BugNoZeroOnReset,     \* window reset keeps the old counter value
          BugVerdictFromDefault,   \* allowed computed with the configured default limit, Remaining with the call's limit
          BugRemainingFromDefault, \* Remaining computed with the configured default limit, allowed with the call's limit
          BugWindowFromDefault,    \* next = now + configured default window whatever the call's option says
          BugFirstOptionWins       \* the first option of the list is used instead of the last

VARIABLES clock,
          ek, ekTtl, ck, ckTtl,    \* per identifier: expires_at key (0 = none) and counter key (-1 = none) with PXAT deadlines (0 = no TTL)
          pc, cid, cn, cnow, cret, \* per caller: position, identifier, n, time read, script reply
          clim, cw,                \* per caller: limit and window the code uses for the call in progress (0 = no call)
          olim, ow,                \* ghost per caller: limit and window in force for the call = the last option / the default
          wid, gsum,               \* ghost per identifier: window serial number, tokens requested in the window
          gadm,                    \* ghost per identifier: tokens admitted in the window, counted in script order
          ncalls,                  \* ghost: number of completed calls
          adm,                     \* ghost: set of [id, reset, sum, maxlim]: tokens admitted per identifier and ResetAtMs and the
                                   \*        largest limit among the admitted calls of that group
          seen                     \* ghost: set of [id, reset, wid]: which ResetAtMs was reported for which server window

vars == <<clock, ek, ekTtl, ck, ckTtl, pc, cid, cn, cnow, cret, clim, cw, olim, ow, wid, gsum, gadm, ncalls, adm, seen>>

Max(a, b) == IF a > b THEN a ELSE b
NoRet == [cur |-> 0, exp |-> 0, prev |-> 0, wasreset |-> FALSE, wid |-> 0, gsum |-> 0, gadm |-> 0]
Default == [lim |-> Limit, w |-> W]
\* the option in force for a call that passes the list os, and the one the code picks
InForce(os) == IF os = <<>> THEN Default ELSE os[Len(os)]
Picked(os) == IF os = <<>> THEN Default ELSE os[IF BugFirstOptionWins THEN 1 ELSE Len(os)]

\* values for OptLists (TLC's cfg syntax has neither tuples nor records: the configs say  OptLists <- OL_xxx).
\* They are written for the default window W = 2 and make sense for the default limits 3 and 1 used by the configs.
O(l, w) == [lim |-> l, w |-> w]
OL_None == {<<>>}                                                  \* every call uses the configured default
\* exhaustive configs: a limit below the default with a shorter window, a limit above the default behind a decoy option
OL_LoHi == {<<>>, <<O(1, 1)>>, <<O(2, 1), O(Limit + 2, W)>>}
\* two identifiers: a limit below the default, a limit above it with a shorter window
OL_Ids == {<<O(1, W)>>, <<O(Limit + 1, 1)>>}
\* generation: more of everything (explicit default, equal limit with another window, longer and shorter windows)
OL_Gen == {<<>>, <<O(Limit, W)>>, <<O(1, W)>>, <<O(2, 1)>>, <<O(Limit + 2, W)>>, <<O(Limit + 1, W + 1)>>, <<O(Limit, 1)>>,
           <<O(Limit + 2, W + 1), O(1, W)>>, <<O(1, 1), O(Limit + 2, W)>>}

Init == /\ clock = 1
        /\ ek = [i \in Ids |-> 0] /\ ekTtl = [i \in Ids |-> 0] /\ ck = [i \in Ids |-> -1] /\ ckTtl = [i \in Ids |-> 0]
        /\ pc = [c \in Callers |-> "idle"] /\ cid = [c \in Callers |-> CHOOSE i \in Ids : TRUE]
        /\ cn = [c \in Callers |-> 0] /\ cnow = [c \in Callers |-> 0] /\ cret = [c \in Callers |-> NoRet]
        /\ clim = [c \in Callers |-> 0] /\ cw = [c \in Callers |-> 0]
        /\ olim = [c \in Callers |-> 0] /\ ow = [c \in Callers |-> 0]
        /\ wid = [i \in Ids |-> 0] /\ gsum = [i \in Ids |-> 0] /\ gadm = [i \in Ids |-> 0]
        /\ ncalls = 0 /\ adm = {} /\ seen = {}

NCalls == ncalls + Cardinality({c \in Callers : pc[c] # "idle"})

Advance(d) == /\ clock + d <= MaxClock /\ clock' = clock + d
              \* the "no skew" assumption: nobody sits on a clock reading for longer than its window + slack allows
              /\ \A c \in Callers : pc[c] = "read" => clock + d - cnow[c] <= MaxStale - W + ow[c]
              /\ UNCHANGED <<ek, ekTtl, ck, ckTtl, pc, cid, cn, cnow, cret, clim, cw, olim, ow, wid, gsum, gadm, ncalls, adm, seen>>

\* AllowN(id, n, options...) entered: the effective option is chosen, then time.Now()
ReadAt(c, i, k, t, os) ==
  /\ pc[c] = "idle"
  /\ pc' = [pc EXCEPT ![c] = "read"] /\ cid' = [cid EXCEPT ![c] = i] /\ cn' = [cn EXCEPT ![c] = k]
  /\ cnow' = [cnow EXCEPT ![c] = t]
  /\ clim' = [clim EXCEPT ![c] = Picked(os).lim] /\ cw' = [cw EXCEPT ![c] = Picked(os).w]
  /\ olim' = [olim EXCEPT ![c] = InForce(os).lim] /\ ow' = [ow EXCEPT ![c] = InForce(os).w]
  /\ UNCHANGED <<clock, ek, ekTtl, ck, ckTtl, cret, wid, gsum, gadm, ncalls, adm, seen>>

Read(c, i, k, os) == NCalls < MaxCalls /\ ReadAt(c, i, k, clock, os)

\* a key with PXAT deadline t is gone once the clock has passed t
Alive(t) == t = 0 \/ clock <= t

\* the caller's verdict for a script reply cur of a call for k tokens under limit lim
Verdict(cur, k, lim) == LET vl == IF BugVerdictFromDefault THEN Limit ELSE lim IN
                        (cur <= (IF BugAllowOneMore THEN vl + 1 ELSE vl)) /\ (k > 0 \/ cur < vl)

\* the script, atomically, for identifier i with n = k, the caller's idea of the time and the call's limit and window
\* (the limit never reaches the server: it only enters the ghost count of admitted tokens, which is known here because
\* the verdict is a function of the reply and the call's limit)
ScriptOn(c, i, k, now, lim, w) ==
  /\ LET next == now + (IF BugWindowFromDefault THEN W ELSE w)
         ekv == IF ek[i] # 0 /\ Alive(ekTtl[i]) THEN ek[i] ELSE 0
         ckv == IF ck[i] # -1 /\ Alive(ckTtl[i]) THEN ck[i] ELSE -1
         reset == ekv = 0 \/ ekv < now
         base == IF ckv = -1 THEN 0 ELSE ckv                        \* INCRBY on a missing key starts from 0
         early == base + k                                          \* BugIncrBeforeReset: value INCRBY returns before the reset
         zero == IF BugNoZeroOnReset THEN base ELSE 0
         cur == IF reset THEN (IF BugIncrBeforeReset THEN early ELSE zero + k) ELSE base + k
         stored == IF reset THEN (IF BugIncrBeforeReset THEN zero ELSE zero + k) ELSE base + k
         exp == IF reset THEN next ELSE ekv
         wn == IF reset THEN wid[i] + 1 ELSE wid[i]
         g == IF reset THEN k ELSE gsum[i] + k
         add == IF k > 0 /\ Verdict(cur, k, lim) THEN k ELSE 0
         ga == IF reset THEN add ELSE gadm[i] + add
     IN /\ ek' = [ek EXCEPT ![i] = exp]
        /\ ekTtl' = [ekTtl EXCEPT ![i] = IF reset THEN next + Slack ELSE ekTtl[i]]
        /\ ck' = [ck EXCEPT ![i] = stored]
        /\ ckTtl' = [ckTtl EXCEPT ![i] = IF reset THEN next + Slack ELSE IF ckv = -1 THEN 0 ELSE ckTtl[i]]
        /\ wid' = [wid EXCEPT ![i] = wn] /\ gsum' = [gsum EXCEPT ![i] = g] /\ gadm' = [gadm EXCEPT ![i] = ga]
        /\ cret' = [cret EXCEPT ![c] = [cur |-> cur, exp |-> exp, prev |-> IF reset THEN 0 ELSE base, wasreset |-> reset,
                                         wid |-> wn, gsum |-> g, gadm |-> ga]]
  /\ pc' = [pc EXCEPT ![c] = "ran"]
  /\ UNCHANGED <<clock, ncalls, adm, seen>>

Script(c) == pc[c] = "read" /\ ScriptOn(c, cid[c], cn[c], cnow[c], clim[c], cw[c]) /\ UNCHANGED <<cid, cn, cnow, clim, cw, olim, ow>>

\* the caller's decision
ResultOf(c) == LET r == cret[c]  k == cn[c] IN
  [c |-> c, id |-> cid[c], n |-> k, now |-> cnow[c], lim |-> olim[c], w |-> ow[c], cur |-> r.cur, exp |-> r.exp,
   allowed |-> Verdict(r.cur, k, clim[c]),
   remaining |-> Max((IF BugRemainingFromDefault THEN Limit ELSE clim[c]) - r.cur, 0), reset |-> r.exp,
   prev |-> r.prev, wasreset |-> r.wasreset, wid |-> r.wid, gsum |-> r.gsum, gadm |-> r.gadm]

AdmOf(i, r) == IF \E a \in adm : a.id = i /\ a.reset = r THEN CHOOSE a \in adm : a.id = i /\ a.reset = r
               ELSE [id |-> i, reset |-> r, sum |-> 0, maxlim |-> 0]

Ret(c) == /\ pc[c] = "ran" /\ pc' = [pc EXCEPT ![c] = "idle"]
          /\ cn' = [cn EXCEPT ![c] = 0] /\ cnow' = [cnow EXCEPT ![c] = 0] /\ cret' = [cret EXCEPT ![c] = NoRet]
          /\ clim' = [clim EXCEPT ![c] = 0] /\ cw' = [cw EXCEPT ![c] = 0]
          /\ olim' = [olim EXCEPT ![c] = 0] /\ ow' = [ow EXCEPT ![c] = 0]
          /\ cid' = [cid EXCEPT ![c] = CHOOSE i \in Ids : TRUE]
          /\ LET o == ResultOf(c)
                 admitted == o.n > 0 /\ o.allowed
                 old == AdmOf(o.id, o.reset)
             IN /\ ncalls' = ncalls + 1
                /\ adm' = {a \in adm : ~(a.id = o.id /\ a.reset = o.reset)} \cup
                             {[id |-> o.id, reset |-> o.reset, sum |-> old.sum + (IF admitted THEN o.n ELSE 0),
                               maxlim |-> IF admitted THEN Max(old.maxlim, o.lim) ELSE old.maxlim]}
                /\ seen' = seen \cup {[id |-> o.id, reset |-> o.reset, wid |-> o.wid]}
          /\ UNCHANGED <<clock, ek, ekTtl, ck, ckTtl, wid, gsum, gadm>>

Next == \/ \E d \in Jumps : Advance(d)
        \/ \E c \in Callers, i \in Ids, k \in Ns, os \in OptLists : Read(c, i, k, os)
        \/ \E c \in Callers : Script(c) \/ Ret(c)

Spec == Init /\ [][Next]_vars

\* ---------------------------------------------------------------------------------------------- properties
\* (per-call properties are stated about every caller whose script has run and who is about to return; "the limit" and
\*  "the window" are the ones in force for THAT call: the per-call option when there is one, the default otherwise)
Ran == {c \in Callers : pc[c] = "ran"}
\* in the order in which the server counted them: a call is admitted only if the tokens admitted so far in the server
\* window, including its own, do not exceed the limit in force for it
AdmittedWithinCallLimit == \A c \in Ran : LET o == ResultOf(c) IN (o.n > 0 /\ o.allowed) => o.gadm <= o.lim
\* grouped the way a user can group them (order independent): tokens admitted (n of calls with n > 0 that were told
\* Allowed) per identifier and ResetAtMs never exceed the limit - the largest one among the admitted calls of the
\* group when they used different limits
AdmittedPerWindow == \A a \in adm : a.sum <= a.maxlim
\* a Check leaves the counter as it found it (or at zero in a new window) and reports whether a token is left
CheckConsumesNothing == \A c \in Ran : LET o == ResultOf(c) IN o.n = 0 => (o.cur = o.prev /\ o.allowed = (o.cur < o.lim))
\* Remaining = limit minus everything requested so far in the window, floored at 0
RemainingExact == \A c \in Ran : LET o == ResultOf(c) IN o.remaining = Max(o.lim - o.gsum, 0) /\ o.cur = o.gsum
\* admission rule: a request is admitted iff the window's requests including it do not exceed the limit
AllowedRule == \A c \in Ran : LET o == ResultOf(c) IN o.n > 0 => (o.allowed = (o.gsum <= o.lim))
\* ResetAtMs names the server-side window the call was counted in: equal within one window, different across windows
ResetIdentifiesWindow == \A x, y \in seen : x.id = y.id => ((x.wid = y.wid) = (x.reset = y.reset))
\* a new window's ResetAtMs is the opening caller's time plus the window length in force for that call
ResetIsNowPlusWindow == \A c \in Ran : LET o == ResultOf(c) IN o.wasreset => o.reset = o.now + o.w

TypeOK == /\ clock \in 1..MaxClock /\ \A c \in Callers : pc[c] \in {"idle", "read", "ran"}
          /\ ncalls <= MaxCalls
          /\ \A c \in Callers : IF pc[c] = "idle" THEN clim[c] = 0 /\ cw[c] = 0 /\ olim[c] = 0 /\ ow[c] = 0
                                ELSE [lim |-> olim[c], w |-> ow[c]] \in {InForce(os) : os \in OptLists}
          /\ \A i \in Ids : gadm[i] <= gsum[i]

=============================================================================
