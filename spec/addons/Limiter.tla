------------------------------ MODULE Limiter ------------------------------
(* rueidislimiter (rueidislimiter/limiter.go): fixed-window rate limiter whose state lives in two Redis keys per
   identifier, updated by one Lua script (atomic on the server):

      expires_at = GET ek
      if not expires_at or expires_at < now then          -- now, next = now + window come from the CALLER's clock
          SET ck 0 PXAT next+1000 ; SET ek next PXAT next+1000 ; expires_at = next
      end
      current = INCRBY ck n ; return {current, expires_at}

   and the caller's decision  remaining = max(limit - current, 0),
                               allowed   = current <= limit /\ (n > 0 \/ current < limit),  ResetAtMs = expires_at.
   Check = AllowN(0), Allow = AllowN(1).  Note that the script counts every REQUESTED token, admitted or not.

   Time is one discrete clock shared by callers and server (one process in the conformance runs).  A call is three
   steps: Read (the caller reads the clock), Script (the server runs the script with the time the caller read - other
   callers and the clock may move in between), Ret.  Keys disappear when the clock passes their PXAT deadline.
   Units are abstract: the exhaustive configs use W = 2 ticks, trace validation uses milliseconds.

   Ghost state (never read by the modelled code): the serial number of the server-side window of each identifier and
   the number of tokens requested in it; the properties compare what callers are told with these.               *)
EXTENDS Integers, Sequences, FiniteSets, TLC, Json

CONSTANTS Callers, Ids, Limit, W, Slack,
          Ns,            \* values of n callers use (0 = Check)
          Jumps,         \* amounts by which the clock may advance in one step
          MaxClock, MaxCalls,   \* bound on the clock / on the total number of calls
          MaxStale,      \* a Script step runs at most this long after its Read (the property's "no clock skew" assumption)
          BugIncrBeforeReset,   \* INCRBY placed before the window test
          BugAllowOneMore,      \* allowed := current <= limit + 1
          BugNoZeroOnReset      \* window reset keeps the old counter value

VARIABLES clock,
          ek, ekTtl, ck, ckTtl,    \* per identifier: expires_at key (0 = none) and counter key (-1 = none) with PXAT deadlines (0 = no TTL)
          pc, cid, cn, cnow, cret, \* per caller: position, identifier, n, time read, script reply
          wid, gsum,               \* ghost per identifier: window serial number, tokens requested in the window
          ncalls,                  \* ghost: number of completed calls
          adm,                     \* ghost: set of [id, reset, sum]: tokens admitted per identifier and ResetAtMs
          seen                     \* ghost: set of [id, reset, wid]: which ResetAtMs was reported for which server window

vars == <<clock, ek, ekTtl, ck, ckTtl, pc, cid, cn, cnow, cret, wid, gsum, ncalls, adm, seen>>

Max(a, b) == IF a > b THEN a ELSE b
NoRet == [cur |-> 0, exp |-> 0, prev |-> 0, wasreset |-> FALSE, wid |-> 0, gsum |-> 0]

Init == /\ clock = 1
        /\ ek = [i \in Ids |-> 0] /\ ekTtl = [i \in Ids |-> 0] /\ ck = [i \in Ids |-> -1] /\ ckTtl = [i \in Ids |-> 0]
        /\ pc = [c \in Callers |-> "idle"] /\ cid = [c \in Callers |-> CHOOSE i \in Ids : TRUE]
        /\ cn = [c \in Callers |-> 0] /\ cnow = [c \in Callers |-> 0] /\ cret = [c \in Callers |-> NoRet]
        /\ wid = [i \in Ids |-> 0] /\ gsum = [i \in Ids |-> 0]
        /\ ncalls = 0 /\ adm = {} /\ seen = {}

NCalls == ncalls + Cardinality({c \in Callers : pc[c] # "idle"})

Advance(d) == /\ clock + d <= MaxClock /\ clock' = clock + d
              \* the "no skew" assumption: nobody sits on a clock reading for longer than MaxStale
              /\ \A c \in Callers : pc[c] = "read" => clock + d - cnow[c] <= MaxStale
              /\ UNCHANGED <<ek, ekTtl, ck, ckTtl, pc, cid, cn, cnow, cret, wid, gsum, ncalls, adm, seen>>

\* AllowN(id, n) entered: time.Now()
ReadAt(c, i, k, t) ==
  /\ pc[c] = "idle"
  /\ pc' = [pc EXCEPT ![c] = "read"] /\ cid' = [cid EXCEPT ![c] = i] /\ cn' = [cn EXCEPT ![c] = k]
  /\ cnow' = [cnow EXCEPT ![c] = t]
  /\ UNCHANGED <<clock, ek, ekTtl, ck, ckTtl, cret, wid, gsum, ncalls, adm, seen>>

Read(c, i, k) == NCalls < MaxCalls /\ ReadAt(c, i, k, clock)

\* a key with PXAT deadline t is gone once the clock has passed t
Alive(t) == t = 0 \/ clock <= t

\* the script, atomically, for identifier i with n = k and the caller's idea of the time
ScriptOn(c, i, k, now) ==
  /\ LET next == now + W
         ekv == IF ek[i] # 0 /\ Alive(ekTtl[i]) THEN ek[i] ELSE 0
         ckv == IF ck[i] # -1 /\ Alive(ckTtl[i]) THEN ck[i] ELSE -1
         reset == ekv = 0 \/ ekv < now
         base == IF ckv = -1 THEN 0 ELSE ckv                        \* INCRBY on a missing key starts from 0
         early == base + k                                          \* BugIncrBeforeReset: value INCRBY returns before the reset
         zero == IF BugNoZeroOnReset THEN base ELSE 0
         cur == IF reset THEN (IF BugIncrBeforeReset THEN early ELSE zero + k) ELSE base + k
         stored == IF reset THEN (IF BugIncrBeforeReset THEN zero ELSE zero + k) ELSE base + k
         exp == IF reset THEN next ELSE ekv
         w == IF reset THEN wid[i] + 1 ELSE wid[i]
         g == IF reset THEN k ELSE gsum[i] + k
     IN /\ ek' = [ek EXCEPT ![i] = exp]
        /\ ekTtl' = [ekTtl EXCEPT ![i] = IF reset THEN next + Slack ELSE ekTtl[i]]
        /\ ck' = [ck EXCEPT ![i] = stored]
        /\ ckTtl' = [ckTtl EXCEPT ![i] = IF reset THEN next + Slack ELSE IF ckv = -1 THEN 0 ELSE ckTtl[i]]
        /\ wid' = [wid EXCEPT ![i] = w] /\ gsum' = [gsum EXCEPT ![i] = g]
        /\ cret' = [cret EXCEPT ![c] = [cur |-> cur, exp |-> exp, prev |-> IF reset THEN 0 ELSE base, wasreset |-> reset,
                                         wid |-> w, gsum |-> g]]
  /\ pc' = [pc EXCEPT ![c] = "ran"]
  /\ UNCHANGED <<clock, ncalls, adm, seen>>

Script(c) == pc[c] = "read" /\ ScriptOn(c, cid[c], cn[c], cnow[c]) /\ UNCHANGED <<cid, cn, cnow>>

\* the caller's decision
ResultOf(c) == LET r == cret[c]  k == cn[c] IN
  [c |-> c, id |-> cid[c], n |-> k, now |-> cnow[c], cur |-> r.cur, exp |-> r.exp,
   allowed |-> (r.cur <= (IF BugAllowOneMore THEN Limit + 1 ELSE Limit)) /\ (k > 0 \/ r.cur < Limit),
   remaining |-> Max(Limit - r.cur, 0), reset |-> r.exp,
   prev |-> r.prev, wasreset |-> r.wasreset, wid |-> r.wid, gsum |-> r.gsum]

AdmSum(i, r) == IF \E a \in adm : a.id = i /\ a.reset = r THEN (CHOOSE a \in adm : a.id = i /\ a.reset = r).sum ELSE 0

Ret(c) == /\ pc[c] = "ran" /\ pc' = [pc EXCEPT ![c] = "idle"]
          /\ cn' = [cn EXCEPT ![c] = 0] /\ cnow' = [cnow EXCEPT ![c] = 0] /\ cret' = [cret EXCEPT ![c] = NoRet]
          /\ cid' = [cid EXCEPT ![c] = CHOOSE i \in Ids : TRUE]
          /\ LET o == ResultOf(c)
                 add == IF o.n > 0 /\ o.allowed THEN o.n ELSE 0
             IN /\ ncalls' = ncalls + 1
                /\ adm' = {a \in adm : ~(a.id = o.id /\ a.reset = o.reset)} \cup
                             {[id |-> o.id, reset |-> o.reset, sum |-> AdmSum(o.id, o.reset) + add]}
                /\ seen' = seen \cup {[id |-> o.id, reset |-> o.reset, wid |-> o.wid]}
          /\ UNCHANGED <<clock, ek, ekTtl, ck, ckTtl, wid, gsum>>

Next == \/ \E d \in Jumps : Advance(d)
        \/ \E c \in Callers, i \in Ids, k \in Ns : Read(c, i, k)
        \/ \E c \in Callers : Script(c) \/ Ret(c)

Spec == Init /\ [][Next]_vars

\* ---------------------------------------------------------------------------------------------- properties
\* (per-call properties are stated about every caller whose script has run and who is about to return)
Ran == {c \in Callers : pc[c] = "ran"}
\* grouped the way a user can group them: tokens admitted (n of calls with n > 0 that were told Allowed) per identifier
\* and ResetAtMs never exceed the limit
AdmittedPerWindow == \A a \in adm : a.sum <= Limit
\* a Check leaves the counter as it found it (or at zero in a new window) and reports whether a token is left
CheckConsumesNothing == \A c \in Ran : LET o == ResultOf(c) IN o.n = 0 => (o.cur = o.prev /\ o.allowed = (o.cur < Limit))
\* Remaining = limit minus everything requested so far in the window, floored at 0
RemainingExact == \A c \in Ran : LET o == ResultOf(c) IN o.remaining = Max(Limit - o.gsum, 0) /\ o.cur = o.gsum
\* admission rule: a request is admitted iff the window's requests including it do not exceed the limit
AllowedRule == \A c \in Ran : LET o == ResultOf(c) IN o.n > 0 => (o.allowed = (o.gsum <= Limit))
\* ResetAtMs names the server-side window the call was counted in: equal within one window, different across windows
ResetIdentifiesWindow == \A x, y \in seen : x.id = y.id => ((x.wid = y.wid) = (x.reset = y.reset))
\* a new window's ResetAtMs is the opening caller's time plus the window length
ResetIsNowPlusWindow == \A c \in Ran : LET o == ResultOf(c) IN o.wasreset => o.reset = o.now + W

TypeOK == /\ clock \in 1..MaxClock /\ \A c \in Callers : pc[c] \in {"idle", "read", "ran"}
          /\ ncalls <= MaxCalls

=============================================================================
