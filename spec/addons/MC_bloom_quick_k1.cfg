\* C35 exhaustive: ALL 64 hash functions of 3 items into 4 indexes, K = 1, calls with 1..3 keys
SPECIFICATION Spec
CONSTANTS
  Kind = "bloom"
  Items = {a, b, c}
  Size = 4
  K = 1
  HSet <- AllHashes
  KeySeqs <- KeySeqs3
  Q <- NoQ
  MaxOps = 0
  Half = 0
  MaxNow = 0
  MaxTotal = 0
  ExpireInclusive = TRUE
  Defect = "none"
  AllowBadConfig = FALSE
  Emit = FALSE
  Faults <- AllFaults
  QS <- NoQ
  Ops <- AllOps
  Big = FALSE
VIEW MCView
INVARIANTS TypeOK NoFalseNegative AnswersHonourObligations AnswersPerKey
PROPERTIES CountMonotone AddNilMeansPresent
CHECK_DEADLOCK FALSE
