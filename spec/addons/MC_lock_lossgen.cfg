SPECIFICATION Spec
CONSTANTS
  Procs = {1}
  ClientOf <- C1
  ModeOf <- MW
  K = 3
  Maj = 2
  MaxCalls = 1
  MaxIoErr = 2
  MaxAcqErr = 0
  MaxExtDel = 2
  MaxExpire = 2
  MaxDisc = 0
  MaxSrcCancel = 0
  NoLoop = TRUE
  AsyncPush = FALSE
  FixCancelFirst = TRUE
  FixRetryTimer = TRUE
  FixLocalHandoff = TRUE
  BugExtendNoToken = FALSE
  BugThreshold = FALSE
  BugIgnoreInval = FALSE
  BugLostByCause = FALSE
  BugNilNoGate = FALSE
  DiscParkedOnly = FALSE
  Record = TRUE
  GenLen = 2
INVARIANTS LossEmit

CONSTRAINT LossStop
VIEW LossView
CHECK_DEADLOCK FALSE
