\* negative: Add sets only K-1 of the K bits
SPECIFICATION Spec
CONSTANTS
  Kind = "bloom"
  Items = {a, b, c}
  Size = 3
  K = 2
  HSet <- AllHashes
  KeySeqs <- KeySeqs2
  Q <- NoQ
  MaxOps = 0
  Half = 0
  MaxNow = 0
  MaxTotal = 0
  ExpireInclusive = TRUE
  Defect = "add-skips-last-index"
  AllowBadConfig = FALSE
  Emit = FALSE
  Faults <- NoFaults
  QS <- NoQ
  Ops <- AllOps
  Big = FALSE
VIEW MCView
INVARIANTS NoFalseNegative
CHECK_DEADLOCK FALSE
