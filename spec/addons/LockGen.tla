------------------------------ MODULE LockGen ------------------------------
(* Scenario generation for the real lockers: run in simulation mode with Record = TRUE; every behaviour is printed
   once, when its history reaches GenLen steps or when nothing is enabled any more. *)
EXTENDS Lock, Json
CONSTANT GenLen
GenEmit == (Len(hist) = GenLen \/ (Len(hist) < GenLen /\ Len(hist) > 3 /\ ~ENABLED Next)) => PrintT(<<"CASE", ToJson(hist)>>)
GenStop == Len(hist) <= GenLen
=============================================================================
