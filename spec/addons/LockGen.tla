------------------------------ MODULE LockGen ------------------------------
(* Scenario generation for the real lockers: run in simulation mode with Record = TRUE; every behaviour is printed
   once, when its history reaches GenLen steps or when nothing is enabled any more. *)
EXTENDS Lock, Json
CONSTANT GenLen
GenEmit == (Len(hist) = GenLen \/ (Len(hist) < GenLen /\ Len(hist) > 3 /\ ~ENABLED Next)) => PrintT(<<"CASE", ToJson(hist)>>)
GenStop == Len(hist) <= GenLen

(* Majority-loss cases (exhaustive, Record = TRUE, one holder): every behaviour in which a handed-out lock gives up keys
   for any combination of causes (third-party delete, expiry, failed extend) is printed at the step at which the
   specification cancels the lock context, i.e. where the number of monitoring loops that are over crosses the majority;
   `done` is the prediction the real locker is held to (lockdrv + LockTrace.tla: CancelAtKnownLoss). *)
LossRecs == {"IoErr", "ExtNotLocked"}
LastIsLoss == Len(hist) > 0 /\ hist[Len(hist)].a \in LossRecs
LossEmit == (\E p \in Procs : phase[p] = "locked" /\ LostAll(p) = Maj /\ LastIsLoss /\ hist[Len(hist)].p = p)
               => PrintT(<<"CASE", ToJson([h |-> hist, done |-> \A p \in Procs : phase[p] = "locked" => cancelled[p]])>>)
\* Nothing is explored behind the crossing step, behind a user release or behind a successful extend (it changes nothing);
\* the environment only acts on a lock whose K keys have all been tried.
EnvRecs == {"ExtDelete", "Expire", "IoErr", "ExtNotLocked"}
EnvSteps == SelectSeq(hist, LAMBDA r : r.a \in {"ExtDelete", "Expire", "IoErr"})
LossStop == \A p \in Procs : /\ phase[p] # "ended" /\ Len(EnvSteps) <= GenLen       \* GenLen: environment steps per case
                             /\ (LostAll(p) >= Maj => (LostAll(p) = Maj /\ LastIsLoss /\ hist[Len(hist)].p = p))
                             /\ (Len(hist) > 0 => /\ hist[Len(hist)].a # "ExtOk"
                                                  /\ (hist[Len(hist)].a \in EnvRecs => (phase[p] = "locked" /\ idx[p] = K)))
\* states are identified up to the order of the library's own steps: the model state and the environment steps so far
LossView == <<View, EnvSteps>>
=============================================================================
