------------------------------- MODULE Lock -------------------------------
(* rueidislock/lock.go: try / acquire / monitoring / WithContext / TryWithContext / ForceWithContext over
   K = 2*Maj-1 Redis keys, with the server side of client tracking (OPTOUT, optional NOLOOP).

   One action per protocol step of the code:
     Begin         getgate + start of try                       (API call)
     LoopStep      one pass of the sequential acquisition loop  (acquire: drain csc, script or carried ErrNotLocked,
                                                                  go monitoring)
     LoopEnd       end of the loop: success -> context handed to the caller; failure -> wait for `done`
     BgStep        the background goroutine acquiring the remaining keys
     TimerExtend / CscExtend / SeeCtxDone / SeeClosed            the select of a key's monitoring loop
     DelKey        the delkey script (skipped after ErrNotLocked)                      } code as found
     Count         released++ ; cancel() when released >= Maj ; gate hand-off at the last key } (FixCancelFirst = FALSE)
     Finish        repaired code: lost++/cancel() are folded into the step that ends the loop; then
                   [<-ctx.Done()] delkey ; released++ ... as one step
     FailReturn    try returned an error: Try/Force return it, WithContext blocks on the gate
     Wake          a WithContext waiter takes the gate token and tries again
     UserRelease / Ended                                         the caller's cancel function
   Each Lua script is one atomic step transcribed from its text (Scripts section).  The environment: an extend or an
   acquire fails with a non-ErrNotLocked error (MaxIoErr), keys expire (MaxExpire) or are deleted by a third party
   (MaxExtDel), connections drop (MaxDisc: tracking state and pushes in flight are lost, the client delivers the nil
   invalidation), a waiter's source context ends (MaxSrcCancel).

   FixCancelFirst = FALSE is the code as found (delkey, then released++/cancel()); TRUE is the repaired order
   (lost++/cancel() first, the delkey of a key given up while the context is live waits for ctx.Done()).           *)
EXTENDS Integers, FiniteSets, Sequences, TLC

CONSTANTS Procs,          \* API callers (positive integers); a proc's token is its id (one try at a time per proc)
          ClientOf,       \* proc -> client (one Locker = one rueidis client = one connection)
          ModeOf,         \* proc -> "with" | "try" | "force"
          K, Maj,
          MaxCalls,       \* API calls per proc
          MaxIoErr, MaxAcqErr, MaxExtDel, MaxExpire, MaxDisc, MaxSrcCancel,
          NoLoop,         \* CLIENT TRACKING ... NOLOOP
          AsyncPush,      \* invalidation pushes travel asynchronously (else they are delivered with the write)
          FixCancelFirst, \* repaired order in monitoring
          FixLocalHandoff, \* repaired: a failed try that gave up keys, and a departing waiter, hand the gate on
          FixRetryTimer,  \* repaired WithContext: a try that saw no key held by others is repeated after TryNextAfter
          BugExtendNoToken,   \* negative: extend script without the token comparison
          BugThreshold,       \* negative: cancel() one key too late (released > Maj)
          BugIgnoreInval,     \* negative: invalidations do not signal the waiters' gate
          BugLostByCause,     \* negative: the early cancel() only counts keys lost to non-ErrNotLocked errors (keys taken,
                              \*           deleted or expired are left to the `released` counter): mixed causes cancel too late
          DiscParkedOnly,     \* scope of Disconnect: only the connection of a client with a parked WithContext caller drops
          BugNilNoGate,       \* negative: the nil invalidation (connection lost) signals the csc channels but not the gate
          Record              \* keep the action history (scenario generation)

Keys == 0..(K-1)
Clients == {ClientOf[p] : p \in Procs}

VARIABLES key,        \* key[i]: 0 = absent, else the proc whose token is stored
          phase,      \* idle | loop | locked | failed | ended | waiting
          idx, carried, acquired, failures, released, lost,
          ks,         \* ks[p][i]: untried | monitoring | exiting | counted | postdel | released
          kerr,       \* ks[p][i] = exiting..: why the loop ended: ok | notlocked | io | ctx
          cancelled,  \* the try's context is done
          srcDone,    \* the caller's source context is done
          tryErr,     \* the error try returned (the last error of the sequential loop)
          gaveup,     \* the try has deleted a key it had taken
          calls,
          tracked,    \* tracked[c]: keys the server remembers for client c's connection
          inflight,   \* inflight[c]: invalidation pushes on their way to c (AsyncPush)
          csc,        \* csc[c][i]: token in the per-key channel of the gate
          gch,        \* gch[c]: token in the gate channel
          gw,         \* gw[c]: g.w
          tainted,    \* tainted[p]: the environment took a key from p (expiry, external delete, forced take-over)
          badRelease, \* a handed-out, live context's key was deleted by its own holder
          badExtend,  \* an extend script prolonged a key that does not hold the caller's token
          ioerrs, acqerrs, extdels, expires, discs, srccancels,
          hist

vars == <<key, phase, idx, carried, acquired, failures, released, lost, ks, kerr, cancelled, srcDone, tryErr, gaveup, calls,
          tracked, inflight, csc, gch, gw, tainted, badRelease, badExtend, ioerrs, acqerrs, extdels, expires, discs, srccancels, hist>>

env  == <<badExtend, ioerrs, acqerrs, extdels, expires, discs, srccancels>>

Live(p) == phase[p] = "locked" /\ ~cancelled[p]
Held(p) == Cardinality({i \in Keys : key[i] = p})
Rec(r) == hist' = IF Record THEN Append(hist, r) ELSE hist

Init == /\ key = [i \in Keys |-> 0]
        /\ phase = [p \in Procs |-> "idle"] /\ idx = [p \in Procs |-> 0] /\ carried = [p \in Procs |-> "ok"]
        /\ acquired = [p \in Procs |-> 0] /\ failures = [p \in Procs |-> 0] /\ released = [p \in Procs |-> 0]
        /\ lost = [p \in Procs |-> 0]
        /\ ks = [p \in Procs |-> [i \in Keys |-> "untried"]] /\ kerr = [p \in Procs |-> [i \in Keys |-> "ok"]]
        /\ cancelled = [p \in Procs |-> FALSE] /\ srcDone = [p \in Procs |-> FALSE] /\ tryErr = [p \in Procs |-> "ok"] /\ gaveup = [p \in Procs |-> FALSE] /\ calls = [p \in Procs |-> 0]
        /\ tracked = [c \in Clients |-> {}] /\ inflight = [c \in Clients |-> {}]
        /\ csc = [c \in Clients |-> [i \in Keys |-> FALSE]] /\ gch = [c \in Clients |-> FALSE]
        /\ gw = [c \in Clients |-> 0]
        /\ tainted = [p \in Procs |-> FALSE] /\ badRelease = FALSE /\ badExtend = FALSE
        /\ ioerrs = 0 /\ acqerrs = 0 /\ extdels = 0 /\ expires = 0 /\ discs = 0 /\ srccancels = 0 /\ hist = <<>>

\* ------------------------------------------------------------------------------------------------ server side
\* onInvalidations(key i) at the clients in S: token into csc[i] and into the gate channel (if the gate exists)
CscAfter(cs, S, i) == [c \in Clients |-> IF c \in S /\ gw[c] > 0 THEN [cs[c] EXCEPT ![i] = TRUE] ELSE cs[c]]
GchAfter(g, S) == [c \in Clients |-> IF c \in S /\ gw[c] > 0 /\ ~BugIgnoreInval THEN TRUE ELSE g[c]]
\* A write to key i by client w (0 = a third party / the server itself): every connection that remembered the key gets
\* a push (not the writer under NOLOOP) and everybody forgets it.
Targets(i, w) == {c \in Clients : i \in tracked[c] /\ ~(NoLoop /\ c = w)}
\* the extend and delkey scripts read the key before they write it: the caller itself is a target (unless NOLOOP)
TargetsRW(i, w) == Targets(i, w) \cup (IF NoLoop \/ w = 0 THEN {} ELSE {w})
\* `retrack`: the writer's script reads the key again after the write, so the server remembers it for the writer
TrackedAfter(i, w, retrack) == [c \in Clients |-> IF c = w /\ retrack THEN tracked[c] \cup {i} ELSE tracked[c] \ {i}]
\* pushes to the clients in T, starting from channel contents cs / g
Push(T, i, cs, g) ==
   IF AsyncPush THEN /\ inflight' = [c \in Clients |-> IF c \in T THEN inflight[c] \cup {i} ELSE inflight[c]]
                     /\ csc' = cs /\ gch' = g
                ELSE /\ csc' = CscAfter(cs, T, i) /\ gch' = GchAfter(g, T) /\ UNCHANGED inflight
Write(i, w, retrack) == tracked' = TrackedAfter(i, w, retrack) /\ Push(TargetsRW(i, w), i, csc, gch)
\* a script that only reads key i on behalf of client w
ReadOnly(i, w) == /\ tracked' = [tracked EXCEPT ![w] = @ \cup {i}] /\ UNCHANGED <<inflight, csc, gch>>

Deliver(c, i) == /\ AsyncPush /\ i \in inflight[c]
                 /\ inflight' = [inflight EXCEPT ![c] = @ \ {i}]
                 /\ csc' = CscAfter(csc, {c}, i) /\ gch' = GchAfter(gch, {c})
                 /\ UNCHANGED <<key, phase, idx, carried, acquired, failures, released, lost, ks, kerr, cancelled,
                                srcDone, tryErr, gaveup, calls, tracked, gw, tainted, badRelease, env, hist>>

\* ------------------------------------------------------------------------------------------------ API entry
Reset(p) == /\ idx' = [idx EXCEPT ![p] = 0] /\ carried' = [carried EXCEPT ![p] = "ok"]
            /\ acquired' = [acquired EXCEPT ![p] = 0] /\ failures' = [failures EXCEPT ![p] = 0]
            /\ released' = [released EXCEPT ![p] = 0] /\ lost' = [lost EXCEPT ![p] = 0]
            /\ ks' = [ks EXCEPT ![p] = [i \in Keys |-> "untried"]] /\ kerr' = [kerr EXCEPT ![p] = [i \in Keys |-> "ok"]]
            /\ cancelled' = [cancelled EXCEPT ![p] = FALSE]
            /\ tainted' = [tainted EXCEPT ![p] = FALSE] /\ gaveup' = [gaveup EXCEPT ![p] = FALSE]

Begin(p) == /\ phase[p] = "idle" /\ calls[p] < MaxCalls
            /\ calls' = [calls EXCEPT ![p] = @ + 1]
            /\ phase' = [phase EXCEPT ![p] = "loop"] /\ Reset(p)
            /\ gw' = [gw EXCEPT ![ClientOf[p]] = @ + 1]
            /\ srcDone' = [srcDone EXCEPT ![p] = FALSE]
            /\ Rec([a |-> "Begin", p |-> p, i |-> -1, m |-> ModeOf[p]])
            /\ UNCHANGED <<key, tracked, inflight, csc, gch, badRelease, tryErr, env>>

\* The monitoring loop of key i ends with error e.  Repaired code: lost++ and cancel() at majority loss come first
\* (local steps that immediately follow, folded into the step that ends the loop).
ExitMon(p, i, e) ==
   /\ kerr' = [kerr EXCEPT ![p][i] = e]
   /\ IF FixCancelFirst
        THEN LET n == IF BugLostByCause /\ e = "notlocked" THEN 0 ELSE 1 IN
             /\ ks' = [ks EXCEPT ![p][i] = "counted"]
             /\ lost' = [lost EXCEPT ![p] = @ + n]
             /\ cancelled' = [cancelled EXCEPT ![p] = @ \/ (n = 1 /\ lost[p] + 1 >= (IF BugThreshold THEN Maj + 1 ELSE Maj))]
        ELSE /\ ks' = [ks EXCEPT ![p][i] = "exiting"] /\ UNCHANGED <<lost, cancelled>>

\* acquire(err, key_i, csc_i, force): drain csc_i; a real script unless the carried error is ErrNotLocked; go monitoring(err)
\* outcome \in {"run", "ioexec", "ionoexec"}: the script runs and answers / runs but the caller gets an error / never runs
Attempt(p, i, counts, outcome) ==
   LET c == ClientOf[p]
       force == ModeOf[p] = "force"
       sent == carried[p] # "notlocked" /\ ~(srcDone[p] \/ cancelled[p])
       \* csc_i is drained first; a forced acquisition that succeeded puts a token back
       drained == [csc EXCEPT ![c][i] = force /\ outcome = "run" /\ sent]
       fail(e) == /\ ExitMon(p, i, e)
                  /\ IF counts THEN failures' = [failures EXCEPT ![p] = @ + 1] /\ UNCHANGED acquired
                               ELSE UNCHANGED <<failures, acquired>>
       take == /\ key' = [key EXCEPT ![i] = p]
               /\ tainted' = [q \in Procs |-> IF key[i] \notin {0, p} /\ q = key[i] THEN TRUE ELSE tainted[q]]
   IN
   IF carried[p] = "notlocked" THEN
        /\ outcome = "run" /\ fail("notlocked") /\ csc' = drained
        /\ UNCHANGED <<key, carried, tracked, inflight, gch, tainted, acqerrs>>
   ELSE IF ~sent THEN                                   \* the command is not even sent: context error
        /\ outcome = "run" /\ fail("ctx") /\ csc' = drained
        /\ carried' = [carried EXCEPT ![p] = "io"]
        /\ UNCHANGED <<key, tracked, inflight, gch, tainted, acqerrs>>
   ELSE IF outcome = "ionoexec" THEN
        /\ acqerrs < MaxAcqErr /\ acqerrs' = acqerrs + 1
        /\ fail("io") /\ csc' = drained /\ carried' = [carried EXCEPT ![p] = "io"]
        /\ UNCHANGED <<key, tracked, inflight, gch, tainted>>
   ELSE IF key[i] = 0 \/ force THEN
        \* SET [NX] succeeds: a write; then GET: the key is remembered for the caller
        /\ take /\ tracked' = TrackedAfter(i, c, TRUE) /\ Push(Targets(i, c), i, drained, gch)
        /\ IF outcome = "ioexec"
             THEN /\ acqerrs < MaxAcqErr /\ acqerrs' = acqerrs + 1
                  /\ fail("io") /\ carried' = [carried EXCEPT ![p] = "io"]
             ELSE /\ ks' = [ks EXCEPT ![p][i] = "monitoring"] /\ UNCHANGED <<kerr, acqerrs, lost, cancelled>>
                  /\ carried' = [carried EXCEPT ![p] = "ok"]
                  /\ IF counts THEN acquired' = [acquired EXCEPT ![p] = @ + 1] /\ UNCHANGED failures
                               ELSE UNCHANGED <<failures, acquired>>
   ELSE /\ outcome = "run"                                        \* SET NX fails (no write), GET
        /\ tracked' = [tracked EXCEPT ![c] = @ \cup {i}] /\ csc' = drained /\ UNCHANGED <<inflight, gch>>
        /\ carried' = [carried EXCEPT ![p] = "notlocked"] /\ fail("notlocked")
        /\ UNCHANGED <<key, tainted, acqerrs>>

Outcomes == {"run", "ioexec", "ionoexec"}

LoopStep(p) == /\ phase[p] = "loop" /\ acquired[p] < Maj /\ failures[p] < Maj /\ idx[p] < K
               /\ \E o \in Outcomes : /\ Attempt(p, idx[p], TRUE, o)
                                      /\ Rec([a |-> IF o = "run" THEN "LoopStep" ELSE "AcqErr", p |-> p, i |-> idx[p], m |-> o])
               /\ idx' = [idx EXCEPT ![p] = @ + 1]
               /\ UNCHANGED <<phase, released, srcDone, tryErr, gaveup, calls, gw, badRelease, badExtend,
                              ioerrs, extdels, expires, discs, srccancels>>

LoopEnd(p) == /\ phase[p] = "loop" /\ (acquired[p] >= Maj \/ failures[p] >= Maj)
              /\ phase' = [phase EXCEPT ![p] = IF failures[p] < Maj THEN "locked" ELSE "failed"]
              /\ Rec([a |-> IF failures[p] < Maj THEN "Locked" ELSE "TryFailed", p |-> p, i |-> -1, m |-> ""])
              /\ tryErr' = [tryErr EXCEPT ![p] = IF failures[p] < Maj THEN "ok" ELSE carried[p]]
              /\ UNCHANGED <<key, idx, carried, acquired, failures, released, lost, ks, kerr, cancelled, srcDone, gaveup, calls,
                             tracked, inflight, csc, gch, gw, tainted, badRelease, env>>

BgStep(p) == /\ phase[p] \in {"locked", "failed", "ended"} /\ idx[p] < K
             /\ \E o \in Outcomes : /\ Attempt(p, idx[p], FALSE, o)
                                    /\ Rec([a |-> IF o = "run" THEN "BgStep" ELSE "AcqErr", p |-> p, i |-> idx[p], m |-> o])
             /\ idx' = [idx EXCEPT ![p] = @ + 1]
             /\ UNCHANGED <<phase, released, srcDone, tryErr, gaveup, calls, gw, badRelease, badExtend,
                            ioerrs, extdels, expires, discs, srccancels>>

\* ------------------------------------------------------------------------------------------------ monitoring
\* the extend script: if GET == token then PEXPIREAT ; GET ; return 1 else return 0   (one atomic step)
\* `cs` = the channel contents the step starts from (the csc path has consumed its token)
ExtendScript(p, i, how, cs) ==
   LET c == ClientOf[p]
       mine == key[i] = p \/ (BugExtendNoToken /\ key[i] # 0)
   IN /\ ks[p][i] = "monitoring"
      /\ \/ /\ mine /\ tracked' = TrackedAfter(i, c, TRUE) /\ Push(TargetsRW(i, c), i, cs, gch)
            /\ badExtend' = (badExtend \/ key[i] # p)
            /\ UNCHANGED <<ks, kerr, lost, cancelled, ioerrs>>
            /\ Rec([a |-> "ExtOk", p |-> p, i |-> i, m |-> how])
         \/ /\ ~mine /\ tracked' = [tracked EXCEPT ![c] = @ \cup {i}] /\ csc' = cs /\ UNCHANGED <<inflight, gch>>
            /\ ExitMon(p, i, "notlocked") /\ UNCHANGED <<ioerrs, badExtend>>
            /\ Rec([a |-> "ExtNotLocked", p |-> p, i |-> i, m |-> how])
         \/ /\ ioerrs < MaxIoErr /\ ioerrs' = ioerrs + 1           \* non-ErrNotLocked error, the script did not run
            /\ ExitMon(p, i, "io")
            /\ csc' = cs /\ UNCHANGED <<tracked, inflight, gch, badExtend>>
            /\ Rec([a |-> "IoErr", p |-> p, i |-> i, m |-> how])
      /\ UNCHANGED <<key, phase, idx, carried, acquired, failures, released, srcDone, tryErr, gaveup, calls,
                     gw, tainted, badRelease, acqerrs, extdels, expires, discs, srccancels>>

TimerExtend(p, i) == ks[p][i] = "monitoring" /\ ExtendScript(p, i, "timer", csc)
\* case <-csc_i: the token is consumed, then the script runs (its write may put a new token: self invalidation)
CscExtend(p, i) == /\ ks[p][i] = "monitoring" /\ csc[ClientOf[p]][i]
                   /\ ExtendScript(p, i, "csc", [csc EXCEPT ![ClientOf[p]][i] = FALSE])

SeeCtxDone(p, i) == /\ ks[p][i] = "monitoring" /\ cancelled[p]
                    /\ ExitMon(p, i, "ctx")
                    /\ Rec([a |-> "SeeCtxDone", p |-> p, i |-> i, m |-> ""])
                    /\ UNCHANGED <<key, phase, idx, carried, acquired, failures, released, srcDone, tryErr, gaveup, calls,
                                   tracked, inflight, csc, gch, gw, tainted, badRelease, env>>

\* the delkey script: if GET == token then DEL.  `g` = gate channel contents to start from.
DelScript(p, i, g) ==
   LET c == ClientOf[p] IN
   IF kerr[p][i] # "notlocked" THEN
        IF key[i] = p THEN /\ key' = [key EXCEPT ![i] = 0] /\ tracked' = TrackedAfter(i, c, FALSE)
                           /\ Push(TargetsRW(i, c), i, csc, g)
                           /\ badRelease' = (badRelease \/ Live(p))
                           /\ gaveup' = [gaveup EXCEPT ![p] = TRUE]
                      ELSE /\ tracked' = [tracked EXCEPT ![c] = @ \cup {i}] /\ gch' = g
                           /\ UNCHANGED <<key, badRelease, inflight, csc, gaveup>>
   ELSE gch' = g /\ UNCHANGED <<key, badRelease, tracked, inflight, csc, gaveup>>
Deletes(p, i) == kerr[p][i] # "notlocked" /\ key[i] = p
DelWhat(p, i) == IF kerr[p][i] = "notlocked" THEN "skipped" ELSE IF key[i] = p THEN "deleted" ELSE "noop"

\* released++ ; if released >= Maj cancel() ; the last key of a lock that had been won: g.w-- and hand the gate on
CountVars(p, i) ==
   LET n == released[p] + 1
       thr == IF BugThreshold THEN Maj + 1 ELSE Maj
   IN /\ released' = [released EXCEPT ![p] = n]
      /\ cancelled' = [cancelled EXCEPT ![p] = @ \/ n >= thr]
      /\ ks' = [ks EXCEPT ![p][i] = "released"]
Last(p) == released[p] + 1 = K /\ failures[p] < Maj
\* `d`: this very step deletes a key of the try
HandOn(p, g, d) == LET c == ClientOf[p] IN
                   IF Last(p) THEN [g EXCEPT ![c] = IF gw[c] - 1 > 0 THEN TRUE ELSE @]
                   ELSE IF FixLocalHandoff /\ released[p] + 1 = K /\ (gaveup[p] \/ d) /\ gw[c] > 1
                        THEN [g EXCEPT ![c] = TRUE]      \* repaired: a failed try that gave up keys hands the gate on
                        ELSE g
GwAfter(p) == IF Last(p) THEN [gw EXCEPT ![ClientOf[p]] = @ - 1] ELSE gw

\* code as found:  if !ErrNotLocked { delkey } ; released++ ...   (two steps: the reply of delkey separates them)
DelKey(p, i) == /\ ~FixCancelFirst /\ ks[p][i] = "exiting"
                /\ DelScript(p, i, gch)
                /\ ks' = [ks EXCEPT ![p][i] = "postdel"]
                /\ Rec([a |-> "DelKey", p |-> p, i |-> i, m |-> DelWhat(p, i)])
                /\ UNCHANGED <<phase, idx, carried, acquired, failures, released, lost, kerr, cancelled, srcDone, tryErr, calls,
                               gw, tainted, env>>
Count(p, i) == /\ ~FixCancelFirst /\ ks[p][i] = "postdel"
               /\ CountVars(p, i) /\ gw' = GwAfter(p) /\ gch' = HandOn(p, gch, FALSE)
               /\ Rec([a |-> "Count", p |-> p, i |-> i, m |-> ""])
               /\ UNCHANGED <<key, phase, idx, carried, acquired, failures, lost, kerr, srcDone, tryErr, gaveup, calls,
                              tracked, inflight, csc, tainted, badRelease, env>>
\* repaired code: (lost++/cancel() happened when the loop ended) if !ErrNotLocked { <-ctx.Done() ; delkey } ; released++ ...
\* folded into one step: nothing of the try is observable between the DEL and the local counter update
Finish(p, i) == /\ FixCancelFirst /\ ks[p][i] = "counted"
                /\ kerr[p][i] # "notlocked" => cancelled[p]
                /\ DelScript(p, i, HandOn(p, gch, Deletes(p, i)))
                /\ CountVars(p, i) /\ gw' = GwAfter(p)
                /\ Rec([a |-> "DelKey", p |-> p, i |-> i, m |-> DelWhat(p, i)])
                /\ UNCHANGED <<phase, idx, carried, acquired, failures, lost, kerr, srcDone, tryErr, calls, tainted, env>>

\* ------------------------------------------------------------------------------------------------ returns
UserRelease(p) == /\ phase[p] = "locked"
                  /\ cancelled' = [cancelled EXCEPT ![p] = TRUE] /\ phase' = [phase EXCEPT ![p] = "ended"]
                  /\ Rec([a |-> "Release", p |-> p, i |-> -1, m |-> ""])
                  /\ UNCHANGED <<key, idx, carried, acquired, failures, released, lost, ks, kerr, srcDone, tryErr, gaveup, calls,
                                 tracked, inflight, csc, gch, gw, tainted, badRelease, env>>

\* the caller's cancel function returns (<-done)
Ended(p) == /\ phase[p] = "ended" /\ released[p] = K
            /\ phase' = [phase EXCEPT ![p] = "idle"]
            /\ Rec([a |-> "Unlocked", p |-> p, i |-> -1, m |-> ""])
            /\ UNCHANGED <<key, idx, carried, acquired, failures, released, lost, ks, kerr, cancelled, srcDone, tryErr, gaveup, calls,
                           tracked, inflight, csc, gch, gw, tainted, badRelease, env>>

\* try returned an error after <-done: Try/Force: removegate, return; WithContext: cancel(), block on the gate
FailReturn(p) ==
   LET c == ClientOf[p] IN
   /\ phase[p] = "failed" /\ released[p] = K
   /\ IF ModeOf[p] = "with" THEN /\ phase' = [phase EXCEPT ![p] = "waiting"] /\ UNCHANGED gw
                            ELSE /\ phase' = [phase EXCEPT ![p] = "idle"] /\ gw' = [gw EXCEPT ![c] = @ - 1]
   /\ cancelled' = [cancelled EXCEPT ![p] = TRUE]
   /\ Rec([a |-> "FailReturn", p |-> p, i |-> -1, m |-> ModeOf[p]])
   /\ UNCHANGED <<key, idx, carried, acquired, failures, released, lost, ks, kerr, srcDone, tryErr, gaveup, calls,
                  tracked, inflight, csc, gch, tainted, badRelease, env>>

\* select { case <-src.Done(): removegate, return ; case <-g.ch: g.w-- ; next round: getgate (g.w++), try }
Wake(p) == LET c == ClientOf[p] IN
           /\ phase[p] = "waiting"
           /\ \/ gch[c] /\ gch' = [gch EXCEPT ![c] = FALSE]
              \/ FixRetryTimer /\ tryErr[p] # "notlocked" /\ UNCHANGED gch       \* case <-timeout
           /\ phase' = [phase EXCEPT ![p] = "loop"] /\ Reset(p)
           /\ Rec([a |-> "Wake", p |-> p, i |-> -1, m |-> ""])
           /\ UNCHANGED <<key, srcDone, tryErr, calls, tracked, inflight, csc, gw, badRelease, env>>

WaiterGone(p) == LET c == ClientOf[p] IN
                 /\ phase[p] = "waiting" /\ srcDone[p]
                 /\ phase' = [phase EXCEPT ![p] = "idle"] /\ gw' = [gw EXCEPT ![c] = @ - 1]
                 \* repaired: a departing waiter may have swallowed a wake-up meant for the others
                 /\ gch' = [gch EXCEPT ![c] = IF FixLocalHandoff /\ gw[c] - 1 > 0 THEN TRUE ELSE @]
                 /\ Rec([a |-> "WaiterGone", p |-> p, i |-> -1, m |-> ""])
                 /\ UNCHANGED <<key, idx, carried, acquired, failures, released, lost, ks, kerr, cancelled, srcDone, tryErr, gaveup, calls,
                                tracked, inflight, csc, tainted, badRelease, env>>

\* ------------------------------------------------------------------------------------------------ environment
SrcCancel(p) == /\ srccancels < MaxSrcCancel /\ ModeOf[p] = "with" /\ phase[p] \in {"waiting", "loop"} /\ ~srcDone[p]
                /\ srcDone' = [srcDone EXCEPT ![p] = TRUE] /\ srccancels' = srccancels + 1
                /\ cancelled' = [cancelled EXCEPT ![p] = TRUE]       \* the try's context is a child of the source
                /\ Rec([a |-> "SrcCancel", p |-> p, i |-> -1, m |-> ""])
                /\ UNCHANGED <<key, phase, idx, carried, acquired, failures, released, lost, ks, kerr, tryErr, gaveup, calls,
                               tracked, inflight, csc, gch, gw, tainted, badRelease, badExtend, ioerrs, acqerrs, extdels, expires, discs>>

Vanish(i, what) == /\ key[i] # 0 /\ key' = [key EXCEPT ![i] = 0]
                   /\ tainted' = [tainted EXCEPT ![key[i]] = TRUE]
                   /\ Write(i, 0, FALSE)
                   /\ Rec([a |-> what, p |-> key[i], i |-> i, m |-> ""])
                   /\ UNCHANGED <<phase, idx, carried, acquired, failures, released, lost, ks, kerr, cancelled, srcDone, tryErr, gaveup, calls,
                                  gw, badRelease, badExtend, ioerrs, acqerrs, discs, srccancels>>
ExtDelete(i) == extdels < MaxExtDel /\ extdels' = extdels + 1 /\ UNCHANGED expires /\ Vanish(i, "ExtDelete")
Expire(i)    == expires < MaxExpire /\ expires' = expires + 1 /\ UNCHANGED extdels /\ Vanish(i, "Expire")

\* the connection of client c drops and is re-established: the server forgets what it tracked for it, pushes in
\* flight are lost, the client calls onInvalidations(nil): every csc channel and the gate channel get a token
Disconnect(c) == /\ discs < MaxDisc /\ discs' = discs + 1
                 /\ DiscParkedOnly => \E p \in Procs : ClientOf[p] = c /\ phase[p] = "waiting"
                 /\ tracked' = [tracked EXCEPT ![c] = {}] /\ inflight' = [inflight EXCEPT ![c] = {}]
                 /\ csc' = [csc EXCEPT ![c] = [i \in Keys |-> gw[c] > 0]]
                 /\ gch' = [gch EXCEPT ![c] = IF BugNilNoGate THEN @ ELSE gw[c] > 0]
                 /\ Rec([a |-> "Disconnect", p |-> c, i |-> -1, m |-> ""])
                 /\ UNCHANGED <<key, phase, idx, carried, acquired, failures, released, lost, ks, kerr, cancelled, srcDone, tryErr, gaveup,
                                calls, gw, tainted, badRelease, badExtend, ioerrs, acqerrs, extdels, expires, srccancels>>

Next == \/ \E p \in Procs : \/ Begin(p) \/ LoopStep(p) \/ LoopEnd(p) \/ BgStep(p) \/ UserRelease(p) \/ Ended(p)
                            \/ FailReturn(p) \/ Wake(p) \/ WaiterGone(p) \/ SrcCancel(p)
        \/ \E p \in Procs, i \in Keys : \/ TimerExtend(p, i) \/ CscExtend(p, i) \/ SeeCtxDone(p, i)
                                        \/ DelKey(p, i) \/ Count(p, i) \/ Finish(p, i)
        \/ \E i \in Keys : ExtDelete(i) \/ Expire(i)
        \/ \E c \in Clients : Disconnect(c) \/ \E i \in Keys : Deliver(c, i)

Spec == Init /\ [][Next]_vars

\* every step of the library is eventually taken; the environment is not obliged to act
FairLib == /\ \A p \in Procs : /\ WF_vars(LoopStep(p)) /\ WF_vars(LoopEnd(p)) /\ WF_vars(BgStep(p))
                               /\ WF_vars(Ended(p)) /\ WF_vars(FailReturn(p))
                               /\ WF_vars(Wake(p)) /\ WF_vars(WaiterGone(p)) /\ WF_vars(Begin(p))
           /\ \A p \in Procs, i \in Keys : /\ WF_vars(TimerExtend(p, i)) /\ WF_vars(CscExtend(p, i))
                                           /\ WF_vars(SeeCtxDone(p, i)) /\ WF_vars(Finish(p, i))
                                           /\ WF_vars(DelKey(p, i)) /\ WF_vars(Count(p, i))
           /\ \A c \in Clients, i \in Keys : WF_vars(Deliver(c, i))
\* promptness must not depend on the holder's good will: no fairness for UserRelease
FairLibSpec == Spec /\ FairLib
\* waiters only get their turn if holders eventually release
FairSpec == Spec /\ FairLib /\ \A p \in Procs : WF_vars(UserRelease(p))

\* ------------------------------------------------------------------------------------------------ properties
TypeOK == /\ key \in [Keys -> Procs \cup {0}]
          /\ phase \in [Procs -> {"idle", "loop", "locked", "failed", "ended", "waiting"}]
          /\ \A p \in Procs : /\ released[p] \in 0..K /\ lost[p] \in 0..K /\ idx[p] \in 0..K
                              /\ acquired[p] \in 0..K /\ failures[p] \in 0..K
          /\ \A c \in Clients : gw[c] \in 0..Cardinality(Procs)

\* at most one live lock context, unless the environment took a key from one of them (expiry = the holder did not
\* extend in time, external deletion, forced take-over)
MutualExclusion == \A p, q \in Procs : (p # q /\ Live(p) /\ Live(q)) => (tainted[p] \/ tainted[q])
\* a live, handed-out context never loses a key through its own holder
DoneBeforeRelease == ~badRelease
\* a quiescent system with a free lock and a parked WithContext caller: nobody will ever wake it
Quiet == /\ \A p \in Procs : phase[p] \in {"idle", "waiting"} /\ ~(phase[p] = "waiting" /\ srcDone[p])
         /\ \A i \in Keys : key[i] = 0
         /\ \A c \in Clients : inflight[c] = {}
NoLostWakeup == ~(Quiet /\ \E p \in Procs : /\ phase[p] = "waiting" /\ ~srcDone[p] /\ ~gch[ClientOf[p]]
                                                /\ ~(FixRetryTimer /\ tryErr[p] # "notlocked"))
\* the counters of one try agree with its per-key states
CountersOK == \A p \in Procs : released[p] = Cardinality({i \in Keys : ks[p][i] = "released"})
\* a try that is over left none of its keys behind
\* the extend script only prolongs a key that carries the caller's token
ExtendsOwnKeyOnly == ~badExtend
\* A try that has given up a majority of its keys has cancelled its context, whatever made each monitoring loop end
\* and in every combination of causes: the key was found taken / deleted / expired (ErrNotLocked), an extend or an
\* acquire failed with another error, the context was done.  (Code as found, FixCancelFirst = FALSE: the cancel comes
\* only with the `released` counter, after the delkey - finding 1.)
LostBy(p, e) == Cardinality({i \in Keys : ks[p][i] \notin {"untried", "monitoring"} /\ kerr[p][i] = e})
Causes == {"notlocked", "io", "ctx"}
LostAll(p) == LostBy(p, "notlocked") + LostBy(p, "io") + LostBy(p, "ctx")
CancelAtMajorityLoss == \A p \in Procs : (IF FixCancelFirst THEN LostAll(p) ELSE released[p]) >= Maj => cancelled[p]
\* the library's `lost` counter is that sum
LostCounterOK == FixCancelFirst /\ ~BugLostByCause => \A p \in Procs : lost[p] = LostAll(p)
NoStaleKeys == \A p \in Procs : phase[p] \in {"idle", "waiting"} => Held(p) = 0

LostMajority(p) == phase[p] = "locked" /\ Held(p) < Maj
\* (a lock may be handed out while the background acquisition of the remaining keys is still repairing a loss)
Prompt == \A p \in Procs : LostMajority(p) ~> (~Live(p) \/ Held(p) >= Maj)
\* a WithContext caller whose source context stays live eventually owns the lock
WaitersAcquire == \A p \in Procs : (ModeOf[p] = "with" /\ phase[p] = "waiting") ~> (phase[p] = "locked" \/ srcDone[p])
\* after a release somebody parked on the gate gets the lock (no missed wake-up)
ReleasedWakes == (\E p \in Procs : phase[p] = "waiting" /\ ~srcDone[p]) ~> (\E q \in Procs : phase[q] = "locked")

\* ------------------------------------------------------------------------------------------------ generation
\* behaviours for the real lockers: printed once, when the history reaches GenLen (simulation mode)
View == <<key, phase, idx, carried, acquired, failures, released, lost, ks, kerr, cancelled, srcDone, tryErr, gaveup, calls,
          tracked, inflight, csc, gch, gw, tainted, badRelease, badExtend, ioerrs, acqerrs, extdels, expires, discs, srccancels>>
=============================================================================
