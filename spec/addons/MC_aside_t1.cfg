SPECIFICATION Spec
CONSTANTS
  Clients = {1, 2, 3}
  Procs = {1, 2, 3}
  ClientOf <- CO_id
  NilProcs = {}
  LoadProcs = {1, 2, 3}
  Keys = {1}
  MaxInc = 2
  MaxLoads = 2
  MaxDel = 1
  MaxLockExpire = 0
  MaxValExpire = 0
  MaxDie = 1
  MaxDisc = 0
  MaxTimeout = 1
  MaxLateRefresh = 0
  MaxLoadFail = 1
  AsyncPush = FALSE
  BugReturnPh = FALSE
  BugNoLiveness = FALSE
  BugDelNoCompare = FALSE
  BugNoAdopt = FALSE
  BugNilFastPath = FALSE
  BugStealPlainDel = FALSE
  Record = FALSE
  GenLen = 30
INVARIANTS TypeOK NeverReturnsPlaceholder ValueFromLoaderOrStore LoaderOnceWhileHolderAlive LockStolenOnlyFromDead DelOnlyOwn NoOrphanWait LockNamesRefreshedId


CHECK_DEADLOCK FALSE
