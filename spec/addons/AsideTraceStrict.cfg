SPECIFICATION TraceSpec
CONSTANTS
  ClientTTLms = 300
  SlackMs = 1500
INVARIANTS NeverReturnsPlaceholder ValueFromLoaderOrStore LoaderOnceWhileHolderAlive LockStolenOnlyFromDead DelOnlyOwn DeadLockReleased LockNamesRefreshedId HolderMarkerKeptAlive
CONSTRAINT HighWater
POSTCONDITION TraceAccepted
CHECK_DEADLOCK FALSE
