\* negative: conv drops a field type (f1 is not written)
SPECIFICATION Spec
CONSTANTS
  Repo = "hash"
  Savers = {"s1", "s2", "s3"}
  InitDocs <- InitDocs3
  Keys = {"k1"}
  Exps = {"zero"}
  MaxNow = 1
  MaxBatch = 0
  MaxObtain = 2
  MaxSaves = 2
  MaxVer = 6
  Defect = "drops-f1"
  Emit = FALSE
  MaxOps = 0
VIEW MCView
INVARIANTS TypeOK
PROPERTIES AllFieldsStored
CHECK_DEADLOCK FALSE
