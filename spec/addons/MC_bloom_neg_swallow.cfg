\* negative: AddMulti returns nil when the server answered the add script with an error reply (NonRedisError instead of Error)
SPECIFICATION Spec
CONSTANTS
  Kind = "bloom"
  Items = {a, b, c}
  Size = 3
  K = 2
  HSet <- AllHashes
  KeySeqs <- KeySeqs2
  Q <- NoQ
  MaxOps = 0
  Half = 0
  MaxNow = 0
  MaxTotal = 0
  ExpireInclusive = TRUE
  Defect = "add-swallows-error-reply"
  AllowBadConfig = FALSE
  Emit = FALSE
  Faults = {"errreply"}
  QS <- NoQ
  Ops <- AllOps
  Big = FALSE
VIEW MCView
PROPERTIES AddNilMeansPresent
CHECK_DEADLOCK FALSE
