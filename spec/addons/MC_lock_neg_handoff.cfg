SPECIFICATION Spec
CONSTANTS
  Procs = {1, 2}
  ClientOf <- C11
  ModeOf <- MWW
  K = 3
  Maj = 2
  MaxCalls = 1
  MaxIoErr = 0
  MaxAcqErr = 0
  MaxExtDel = 0
  MaxExpire = 0
  MaxDisc = 0
  MaxSrcCancel = 1
  NoLoop = TRUE
  AsyncPush = FALSE
  FixCancelFirst = TRUE
  FixRetryTimer = TRUE
  FixLocalHandoff = FALSE
  BugExtendNoToken = FALSE
  BugThreshold = FALSE
  BugIgnoreInval = FALSE
  BugLostByCause = FALSE
  BugNilNoGate = FALSE
  DiscParkedOnly = FALSE
  Record = FALSE
  GenLen = 0
INVARIANTS NoLostWakeup


CHECK_DEADLOCK FALSE
