SPECIFICATION Spec
CONSTANTS
  Clients = {1}
  Procs = {1, 2}
  ClientOf <- CO_11
  NilProcs = {}
  LoadProcs = {1, 2}
  Keys = {1}
  MaxInc = 3
  MaxLoads = 2
  MaxDel = 0
  MaxLockExpire = 0
  MaxValExpire = 0
  MaxDie = 0
  MaxDisc = 1
  MaxTimeout = 0
  MaxLateRefresh = 0
  MaxLoadFail = 0
  AsyncPush = FALSE
  BugReturnPh = FALSE
  BugNoLiveness = FALSE
  BugDelNoCompare = FALSE
  BugNoAdopt = FALSE
  BugNilFastPath = FALSE
  BugStealPlainDel = FALSE
  Record = FALSE
  GenLen = 30
INVARIANTS TypeOK NeverReturnsPlaceholder ValueFromLoaderOrStore LoaderOnceWhileHolderAlive LockStolenOnlyFromDead DelOnlyOwn NoOrphanWait LockNamesRefreshedId


CHECK_DEADLOCK FALSE
