SPECIFICATION Spec
CONSTANTS
  Procs = {1, 2}
  ClientOf <- C12
  ModeOf <- MWW
  K = 3
  Maj = 2
  MaxCalls = 1
  MaxIoErr = 0
  MaxAcqErr = 0
  MaxExtDel = 1
  MaxExpire = 0
  MaxDisc = 0
  MaxSrcCancel = 0
  NoLoop = TRUE
  AsyncPush = FALSE
  FixCancelFirst = TRUE
  FixRetryTimer = TRUE
  FixLocalHandoff = TRUE
  BugExtendNoToken = FALSE
  BugThreshold = FALSE
  BugIgnoreInval = FALSE
  BugLostByCause = FALSE
  BugNilNoGate = FALSE
  DiscParkedOnly = FALSE
  Record = FALSE
  GenLen = 0
INVARIANTS TypeOK MutualExclusion DoneBeforeRelease NoLostWakeup CountersOK NoStaleKeys ExtendsOwnKeyOnly CancelAtMajorityLoss LostCounterOK


CHECK_DEADLOCK FALSE
