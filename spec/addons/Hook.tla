------------------------------- MODULE Hook -------------------------------
(* rueidishook.WithHook (rueidishook/hook.go): the wrapper types hookclient / dedicated / extended as a routing
   table from (kind of client handle, entry point) to what happens: the Hook method of the same name is invoked
   with the *underlying* client of that handle, or the call is passed straight to the underlying client
   (B, Mode, Close, SetPubSubHooks, SetOnInvalidations), and how derived handles come to exist
   (Nodes, Dedicate + cancel, Dedicated(fn) as a Begin/End scope).

   A handle is the path by which the caller obtained it from the wrapped client:
     <<>>                      the client returned by WithHook
     h \o << <<"n", i>> >>     the client stored under address i in the map returned by h.Nodes()
     h \o << <<"d", k>> >>     the k-th dedicated client created in the run, obtained from h (Dedicate or Dedicated(fn))
   The underlying stub client of a handle has the same path, so "the hook was called with the right client" is
   hook[1].t = h.

   The hook of the run either forwards every call to the client it was given and marks the result (fwd = TRUE),
   or answers by itself (fwd = FALSE).  Properties: ExactlyOneHookCall, ResultUnchanged, UnderlyingAtMostOnce,
   PassThroughUntouched;
   round 2: stacked hooks (Layers), the state of the caller's context at each call (CtxStates: the wrapper must hand the
   caller exactly what the hook returned whatever the context says).  BugBypass re-introduces a path that skips the hook (negative configs).            *)
EXTENDS Integers, Sequences, FiniteSets, TLC, Json

CONSTANTS NodeIds,      \* addresses in the map returned by Nodes()
          MaxDepth,     \* bound on the number of Nodes() links in a handle
          MaxDed,       \* bound on dedicated clients created in a program
          MaxOps,       \* program length
          MaxCalls,     \* bound on Call operations in a program
          FwdModes,     \* subset of BOOLEAN: hook behaviours explored
          BugBypass,    \* set of <<kind, entry>> pairs routed around the hook (the code as it is: {})
          BugRewrap,    \* TRUE: Nodes() hands out the underlying clients unwrapped (the code as it is: FALSE)
          Layers,       \* round 2: numbers of stacked hooks explored: WithHook(... WithHook(c, h1) ..., hk), hook k outermost
          CtxStates,    \* round 2: states of the caller's context at a call: subset of {"live", "cancelled", "expired"}
          BugStackCollapse,  \* TRUE: WithHook of an already hooked client returns that client (outer hooks never run)
          BugCtxOverride     \* TRUE: Receive replaces the hook's result by ctx.Err() when the caller's context is done

VARIABLES live,         \* handles the program may use
          raw,          \* handles that are NOT wrapped (only non-empty with BugRewrap)
          scopes,       \* stack of dedicated handles whose Dedicated(fn) callback is running
          cancelable,   \* dedicated handles obtained from Dedicate() whose cancel() was not called yet
          nextD, nops, ncalls, fwd,
          layers,       \* number of stacked hooks of the run (every hook forwards-and-marks resp. answers itself, as fwd says)
          last,         \* outcome of the last operation
          prog          \* history: the program so far with the predicted outcome of every operation

vars == <<live, raw, scopes, cancelable, nextD, nops, ncalls, fwd, layers, last, prog>>

ClientHooked == {"Do", "DoMulti", "DoCache", "DoMultiCache", "Receive", "DoStream", "DoMultiStream"}
ClientPass   == {"B", "Mode", "Close"}
DedHooked    == {"Do", "DoMulti", "Receive"}
DedPass      == {"B", "SetPubSubHooks", "SetOnInvalidations", "Close"}

Kind(h) == IF h = <<>> THEN "root" ELSE IF h[Len(h)][1] = "n" THEN "node" ELSE "ded"
IsClient(h) == Kind(h) # "ded"
Depth(h) == Cardinality({i \in 1..Len(h) : h[i][1] = "n"})
Entries(h) == IF IsClient(h) THEN ClientHooked \cup ClientPass ELSE DedHooked \cup DedPass
Hooked(h, e) == IF IsClient(h) THEN e \in ClientHooked ELSE e \in DedHooked

NoOutcome == [op |-> "none", h |-> <<>>, e |-> "", cx |-> "", hook |-> <<>>, under |-> <<>>, ret |-> "", made |-> {}]

Init == /\ live = {<<>>} /\ raw = {} /\ scopes = <<>> /\ cancelable = {} /\ nextD = 1 /\ nops = 0 /\ ncalls = 0
        /\ fwd \in FwdModes /\ layers \in Layers /\ last = NoOutcome /\ prog = <<>>

Record(o) == /\ last' = o /\ prog' = Append(prog, o) /\ nops' = nops + 1

\* one request through handle h.  hook = calls of Hook methods <<entry, client given to the hook>>,
\* under = calls that reached the underlying client, ret = what the caller gets back
\* hook invocations of one hooked call, outermost hook first: hook k is handed the wrapper of hook k-1 (which leads
\* to the same underlying client, hence the same path), hook 1 the underlying client itself.  A hook that answers by
\* itself ends the chain.  "L<k>:" tags the layer.
LayerTag(k) == "L" \o ToString(k) \o ":"
EffLayers == IF BugStackCollapse THEN 1 ELSE layers
HookChain(e, h) == IF fwd THEN [j \in 1..EffLayers |-> <<LayerTag(layers + 1 - j) \o e, h>>]
                   ELSE << <<LayerTag(IF BugStackCollapse THEN 1 ELSE layers) \o e, h>> >>
\* the wrapper never looks at the caller's context: what the caller gets is what the outermost hook returned
Call(h, e, cx) ==
  /\ nops < MaxOps /\ ncalls < MaxCalls /\ h \in live /\ e \in Entries(h) /\ cx \in CtxStates
  /\ ncalls' = ncalls + 1
  /\ LET bypass == h \in raw \/ <<Kind(h), e>> \in BugBypass
         o == IF Hooked(h, e) /\ ~bypass
                THEN [op |-> "Call", h |-> h, e |-> e, cx |-> cx, hook |-> HookChain(e, h),
                      under |-> IF fwd THEN << <<e, h>> >> ELSE <<>>,
                      ret |-> IF BugCtxOverride /\ e = "Receive" /\ cx # "live" THEN "ctxerr" ELSE IF fwd THEN "marked" ELSE "own",
                      made |-> {}]
                ELSE [op |-> "Call", h |-> h, e |-> e, cx |-> cx, hook |-> <<>>, under |-> << <<e, h>> >>, ret |-> "raw", made |-> {}]
     IN Record(o)
  /\ UNCHANGED <<live, raw, scopes, cancelable, nextD, fwd, layers>>

Nodes(h) ==
  /\ nops < MaxOps /\ h \in live /\ IsClient(h) /\ Depth(h) < MaxDepth
  /\ LET kids == {Append(h, <<"n", i>>) : i \in NodeIds}
     IN /\ live' = live \cup kids
        /\ raw' = IF BugRewrap \/ h \in raw THEN raw \cup kids ELSE raw
        /\ Record([op |-> "Nodes", h |-> h, e |-> "", cx |-> "", hook |-> <<>>, under |-> << <<"Nodes", h>> >>, ret |-> "", made |-> kids])
  /\ UNCHANGED <<scopes, cancelable, nextD, ncalls, fwd, layers>>

Dedicate(h) ==
  /\ nops < MaxOps /\ h \in live /\ IsClient(h) /\ nextD <= MaxDed
  /\ LET d == Append(h, <<"d", nextD>>)
     IN /\ live' = live \cup {d} /\ cancelable' = cancelable \cup {d}
        /\ raw' = IF h \in raw THEN raw \cup {d} ELSE raw
        /\ Record([op |-> "Dedicate", h |-> h, e |-> "", cx |-> "", hook |-> <<>>, under |-> << <<"Dedicate", h>> >>, ret |-> "", made |-> {d}])
  /\ nextD' = nextD + 1 /\ UNCHANGED <<scopes, ncalls, fwd, layers>>

\* cancel() of a Dedicate(): the underlying cancel runs; the handle stays usable as an object (calls on it are
\* still routed the same way), so it stays in live
Cancel(d) ==
  /\ nops < MaxOps /\ d \in cancelable
  /\ cancelable' = cancelable \ {d}
  /\ Record([op |-> "Cancel", h |-> d, e |-> "", cx |-> "", hook |-> <<>>, under |-> << <<"cancel", d>> >>, ret |-> "", made |-> {}])
  /\ UNCHANGED <<live, raw, scopes, nextD, ncalls, fwd, layers>>

Begin(h) ==
  /\ nops < MaxOps - 1 /\ h \in live /\ IsClient(h) /\ nextD <= MaxDed /\ Len(scopes) < 2
  /\ LET d == Append(h, <<"d", nextD>>)
     IN /\ live' = live \cup {d} /\ scopes' = Append(scopes, d)
        /\ raw' = IF h \in raw THEN raw \cup {d} ELSE raw
        /\ Record([op |-> "Begin", h |-> h, e |-> "", cx |-> "", hook |-> <<>>, under |-> << <<"Dedicated", h>> >>, ret |-> "", made |-> {d}])
  /\ nextD' = nextD + 1 /\ UNCHANGED <<cancelable, ncalls, fwd, layers>>

\* the callback returns an error value; Dedicated(fn) must return exactly that value
End ==
  /\ scopes # <<>> /\ nops < MaxOps
  /\ LET d == scopes[Len(scopes)]
     IN /\ scopes' = SubSeq(scopes, 1, Len(scopes) - 1)
        /\ Record([op |-> "End", h |-> d, e |-> "", cx |-> "", hook |-> <<>>, under |-> <<>>, ret |-> "fnerr", made |-> {}])
  /\ UNCHANGED <<live, raw, cancelable, nextD, ncalls, fwd, layers>>

\* a program must be able to close its scopes
Room == MaxOps - nops > Len(scopes)

Next == \/ (Room /\ \E h \in live : \E e \in Entries(h) : \E cx \in CtxStates : Call(h, e, cx))
        \/ (Room /\ \E h \in live : Nodes(h) \/ Dedicate(h) \/ Begin(h))
        \/ (Room /\ \E d \in cancelable : Cancel(d))
        \/ End

Spec == Init /\ [][Next]_vars

\* ------------------------------------------------------------------------------------------------ properties
TypeOK == /\ nextD \in 1..(MaxDed + 1) /\ nops \in 0..MaxOps /\ fwd \in BOOLEAN /\ layers \in Layers
          /\ \A h \in live : Len(h) <= MaxDepth + 1 /\ Depth(h) <= MaxDepth

IsCall(o) == o.op = "Call" /\ Hooked(o.h, o.e)

\* every request entry point of the wrapped client and of every client derived from it goes through the hook
\* exactly once, and the hook is handed the underlying client of that very handle
\* (stacked hooks: every hook of the stack that is reached exactly once, outermost first, each with the same target)
ExactlyOneHookCall == IsCall(last) =>
                        /\ Len(last.hook) = (IF fwd THEN layers ELSE 1)
                        /\ \A j \in 1..Len(last.hook) : last.hook[j] = <<LayerTag(layers + 1 - j) \o last.e, last.h>>
\* the caller receives what the hook returned
ResultUnchanged == IsCall(last) => last.ret = (IF fwd THEN "marked" ELSE "own")
\* the wrapper itself never calls the underlying client: it is reached only through the hook
UnderlyingAtMostOnce == IsCall(last) => last.under = (IF fwd THEN << <<last.e, last.h>> >> ELSE <<>>)
PassThroughUntouched == (last.op = "Call" /\ ~Hooked(last.h, last.e)) =>
                            (last.hook = <<>> /\ last.under = << <<last.e, last.h>> >> /\ last.ret = "raw")
\* derived handles are wrapped
DerivedWrapped == raw = {}

\* values for BugBypass in negative configs (a cfg file cannot contain tuples)
BypassNone == {}
BypassDedReceive == {<<"ded", "Receive">>}
BypassNodeMultiStream == {<<"node", "DoMultiStream">>}

\* ------------------------------------------------------------------------------------------------ generation
McView == <<live, raw, scopes, cancelable, nextD, nops, ncalls, fwd, layers, last>>
Complete == scopes = <<>> /\ (nops = MaxOps \/ ncalls = MaxCalls)
\* every complete program once (prog is part of the state in generation configs)
Emit == Complete => PrintT(<<"CASE", ToJson([fwd |-> fwd, layers |-> layers, ops |-> prog])>>)
\* for -simulate: stop a behaviour at its first complete program of full length
EmitSim == (scopes = <<>> /\ nops = MaxOps) => PrintT(<<"CASE", ToJson([fwd |-> fwd, layers |-> layers, ops |-> prog])>>)
=============================================================================
