------------------------------- MODULE Hook -------------------------------
(* rueidishook.WithHook (rueidishook/hook.go): the wrapper types hookclient / dedicated / extended as a routing
   table from (kind of client handle, entry point) to what happens: the Hook method of the same name is invoked
   with the *underlying* client of that handle, or the call is passed straight to the underlying client
   (B, Mode, Close, SetPubSubHooks, SetOnInvalidations), and how derived handles come to exist
   (Nodes, Dedicate + cancel, Dedicated(fn) as a Begin/End scope).

   A handle is the path by which the caller obtained it from the wrapped client:
     <<>>                      the client returned by WithHook
     h \o << <<"n", i>> >>     the client stored under address i in the map returned by h.Nodes()
     h \o << <<"d", k>> >>     the k-th dedicated client created in the run, obtained from h (Dedicate or Dedicated(fn))
   The underlying stub client of a handle has the same path, so "the hook was called with the right client" is
   hook[1].t = h.

   The hook of the run either forwards every call to the client it was given and marks the result (fwd = TRUE),
   or answers by itself (fwd = FALSE).  Properties: ExactlyOneHookCall, ResultUnchanged, UnderlyingAtMostOnce,
   PassThroughUntouched.  BugBypass re-introduces a path that skips the hook (negative configs).            *)
EXTENDS Integers, Sequences, FiniteSets, TLC, Json

CONSTANTS NodeIds,      \* addresses in the map returned by Nodes()
          MaxDepth,     \* bound on the number of Nodes() links in a handle
          MaxDed,       \* bound on dedicated clients created in a program
          MaxOps,       \* program length
          MaxCalls,     \* bound on Call operations in a program
          FwdModes,     \* subset of BOOLEAN: hook behaviours explored
          BugBypass,    \* set of <<kind, entry>> pairs routed around the hook (the code as it is: {})
          BugRewrap     \* TRUE: Nodes() hands out the underlying clients unwrapped (the code as it is: FALSE)

VARIABLES live,         \* handles the program may use
          raw,          \* handles that are NOT wrapped (only non-empty with BugRewrap)
          scopes,       \* stack of dedicated handles whose Dedicated(fn) callback is running
          cancelable,   \* dedicated handles obtained from Dedicate() whose cancel() was not called yet
          nextD, nops, ncalls, fwd,
          last,         \* outcome of the last operation
          prog          \* history: the program so far with the predicted outcome of every operation

vars == <<live, raw, scopes, cancelable, nextD, nops, ncalls, fwd, last, prog>>

ClientHooked == {"Do", "DoMulti", "DoCache", "DoMultiCache", "Receive", "DoStream", "DoMultiStream"}
ClientPass   == {"B", "Mode", "Close"}
DedHooked    == {"Do", "DoMulti", "Receive"}
DedPass      == {"B", "SetPubSubHooks", "SetOnInvalidations", "Close"}

Kind(h) == IF h = <<>> THEN "root" ELSE IF h[Len(h)][1] = "n" THEN "node" ELSE "ded"
IsClient(h) == Kind(h) # "ded"
Depth(h) == Cardinality({i \in 1..Len(h) : h[i][1] = "n"})
Entries(h) == IF IsClient(h) THEN ClientHooked \cup ClientPass ELSE DedHooked \cup DedPass
Hooked(h, e) == IF IsClient(h) THEN e \in ClientHooked ELSE e \in DedHooked

NoOutcome == [op |-> "none", h |-> <<>>, e |-> "", hook |-> <<>>, under |-> <<>>, ret |-> "", made |-> {}]

Init == /\ live = {<<>>} /\ raw = {} /\ scopes = <<>> /\ cancelable = {} /\ nextD = 1 /\ nops = 0 /\ ncalls = 0
        /\ fwd \in FwdModes /\ last = NoOutcome /\ prog = <<>>

Record(o) == /\ last' = o /\ prog' = Append(prog, o) /\ nops' = nops + 1

\* one request through handle h.  hook = calls of Hook methods <<entry, client given to the hook>>,
\* under = calls that reached the underlying client, ret = what the caller gets back
Call(h, e) ==
  /\ nops < MaxOps /\ ncalls < MaxCalls /\ h \in live /\ e \in Entries(h)
  /\ ncalls' = ncalls + 1
  /\ LET bypass == h \in raw \/ <<Kind(h), e>> \in BugBypass
         o == IF Hooked(h, e) /\ ~bypass
                THEN [op |-> "Call", h |-> h, e |-> e, hook |-> << <<e, h>> >>,
                      under |-> IF fwd THEN << <<e, h>> >> ELSE <<>>,
                      ret |-> IF fwd THEN "marked" ELSE "own", made |-> {}]
                ELSE [op |-> "Call", h |-> h, e |-> e, hook |-> <<>>, under |-> << <<e, h>> >>, ret |-> "raw", made |-> {}]
     IN Record(o)
  /\ UNCHANGED <<live, raw, scopes, cancelable, nextD, fwd>>

Nodes(h) ==
  /\ nops < MaxOps /\ h \in live /\ IsClient(h) /\ Depth(h) < MaxDepth
  /\ LET kids == {Append(h, <<"n", i>>) : i \in NodeIds}
     IN /\ live' = live \cup kids
        /\ raw' = IF BugRewrap \/ h \in raw THEN raw \cup kids ELSE raw
        /\ Record([op |-> "Nodes", h |-> h, e |-> "", hook |-> <<>>, under |-> << <<"Nodes", h>> >>, ret |-> "", made |-> kids])
  /\ UNCHANGED <<scopes, cancelable, nextD, ncalls, fwd>>

Dedicate(h) ==
  /\ nops < MaxOps /\ h \in live /\ IsClient(h) /\ nextD <= MaxDed
  /\ LET d == Append(h, <<"d", nextD>>)
     IN /\ live' = live \cup {d} /\ cancelable' = cancelable \cup {d}
        /\ raw' = IF h \in raw THEN raw \cup {d} ELSE raw
        /\ Record([op |-> "Dedicate", h |-> h, e |-> "", hook |-> <<>>, under |-> << <<"Dedicate", h>> >>, ret |-> "", made |-> {d}])
  /\ nextD' = nextD + 1 /\ UNCHANGED <<scopes, ncalls, fwd>>

\* cancel() of a Dedicate(): the underlying cancel runs; the handle stays usable as an object (calls on it are
\* still routed the same way), so it stays in live
Cancel(d) ==
  /\ nops < MaxOps /\ d \in cancelable
  /\ cancelable' = cancelable \ {d}
  /\ Record([op |-> "Cancel", h |-> d, e |-> "", hook |-> <<>>, under |-> << <<"cancel", d>> >>, ret |-> "", made |-> {}])
  /\ UNCHANGED <<live, raw, scopes, nextD, ncalls, fwd>>

Begin(h) ==
  /\ nops < MaxOps - 1 /\ h \in live /\ IsClient(h) /\ nextD <= MaxDed /\ Len(scopes) < 2
  /\ LET d == Append(h, <<"d", nextD>>)
     IN /\ live' = live \cup {d} /\ scopes' = Append(scopes, d)
        /\ raw' = IF h \in raw THEN raw \cup {d} ELSE raw
        /\ Record([op |-> "Begin", h |-> h, e |-> "", hook |-> <<>>, under |-> << <<"Dedicated", h>> >>, ret |-> "", made |-> {d}])
  /\ nextD' = nextD + 1 /\ UNCHANGED <<cancelable, ncalls, fwd>>

\* the callback returns an error value; Dedicated(fn) must return exactly that value
End ==
  /\ scopes # <<>> /\ nops < MaxOps
  /\ LET d == scopes[Len(scopes)]
     IN /\ scopes' = SubSeq(scopes, 1, Len(scopes) - 1)
        /\ Record([op |-> "End", h |-> d, e |-> "", hook |-> <<>>, under |-> <<>>, ret |-> "fnerr", made |-> {}])
  /\ UNCHANGED <<live, raw, cancelable, nextD, ncalls, fwd>>

\* a program must be able to close its scopes
Room == MaxOps - nops > Len(scopes)

Next == \/ (Room /\ \E h \in live : \E e \in Entries(h) : Call(h, e))
        \/ (Room /\ \E h \in live : Nodes(h) \/ Dedicate(h) \/ Begin(h))
        \/ (Room /\ \E d \in cancelable : Cancel(d))
        \/ End

Spec == Init /\ [][Next]_vars

\* ------------------------------------------------------------------------------------------------ properties
TypeOK == /\ nextD \in 1..(MaxDed + 1) /\ nops \in 0..MaxOps /\ fwd \in BOOLEAN
          /\ \A h \in live : Len(h) <= MaxDepth + 1 /\ Depth(h) <= MaxDepth

IsCall(o) == o.op = "Call" /\ Hooked(o.h, o.e)

\* every request entry point of the wrapped client and of every client derived from it goes through the hook
\* exactly once, and the hook is handed the underlying client of that very handle
ExactlyOneHookCall == IsCall(last) => last.hook = << <<last.e, last.h>> >>
\* the caller receives what the hook returned
ResultUnchanged == IsCall(last) => last.ret = (IF fwd THEN "marked" ELSE "own")
\* the wrapper itself never calls the underlying client: it is reached only through the hook
UnderlyingAtMostOnce == IsCall(last) => last.under = (IF fwd THEN << <<last.e, last.h>> >> ELSE <<>>)
PassThroughUntouched == (last.op = "Call" /\ ~Hooked(last.h, last.e)) =>
                            (last.hook = <<>> /\ last.under = << <<last.e, last.h>> >> /\ last.ret = "raw")
\* derived handles are wrapped
DerivedWrapped == raw = {}

\* values for BugBypass in negative configs (a cfg file cannot contain tuples)
BypassNone == {}
BypassDedReceive == {<<"ded", "Receive">>}
BypassNodeMultiStream == {<<"node", "DoMultiStream">>}

\* ------------------------------------------------------------------------------------------------ generation
McView == <<live, raw, scopes, cancelable, nextD, nops, ncalls, fwd, last>>
Complete == scopes = <<>> /\ (nops = MaxOps \/ ncalls = MaxCalls)
\* every complete program once (prog is part of the state in generation configs)
Emit == Complete => PrintT(<<"CASE", ToJson([fwd |-> fwd, ops |-> prog])>>)
\* for -simulate: stop a behaviour at its first complete program of full length
EmitSim == (scopes = <<>> /\ nops = MaxOps) => PrintT(<<"CASE", ToJson([fwd |-> fwd, ops |-> prog])>>)
=============================================================================
