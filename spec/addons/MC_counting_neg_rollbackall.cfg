\* negative: the rollback of a refused item re-increments all K counters, also the ones never decremented
SPECIFICATION Spec
CONSTANTS
  Kind = "counting"
  Items = {a, b, c}
  Size = 3
  K = 2
  HSet <- AllHashes
  KeySeqs <- KeySeqs2
  Q <- NoQ
  MaxOps = 0
  Half = 0
  MaxNow = 0
  MaxTotal = 2
  ExpireInclusive = TRUE
  Defect = "remove-rollback-all"
  AllowBadConfig = FALSE
  Emit = FALSE
  Faults = {"errreply"}
  QS <- NoQ
  Ops <- AllOps
  Big = FALSE
VIEW MCView
PROPERTIES FailedRemoveChangesNothing
CHECK_DEADLOCK FALSE
