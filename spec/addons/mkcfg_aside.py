#!/usr/bin/env python3
"""Writes the TLC configurations of Aside.tla. Run in this directory after changing the table."""
INV = 'INVARIANTS TypeOK NeverReturnsPlaceholder ValueFromLoaderOrStore LoaderOnceWhileHolderAlive LockStolenOnlyFromDead DelOnlyOwn NoOrphanWait'
D = dict(clients='{1, 2}', keys='{1}', inc=2, loads=2, dl=0, le=0, ve=0, die=0, disc=0, to=0, late=0, lf=0, asyn='FALSE',
         bR='FALSE', bL='FALSE', bD='FALSE', inv=INV, props='', spec='Spec', rec='FALSE', extra='')
CFGS = {
    'MC_aside_q1': dict(dl=1, die=1, to=1, lf=1),                        # Del, death, timeout, failing loader
    'MC_aside_q2': dict(le=1, ve=1, disc=1),                             # expiries and a disconnect
    'MC_aside_q3': dict(late=1, die=1, asyn='TRUE', loads=1),            # late refresh, pushes in flight
    'MC_aside_q4': dict(clients='{1, 2, 3}', loads=1, die=1),            # three clients
    'MC_aside_neg_ph': dict(to=1, bR='TRUE', inv='INVARIANTS NeverReturnsPlaceholder'),
    'MC_aside_neg_live': dict(bL='TRUE', inv='INVARIANTS LoaderOnceWhileHolderAlive'),
    'MC_aside_neg_live2': dict(bL='TRUE', inv='INVARIANTS LockStolenOnlyFromDead'),
    'MC_aside_neg_del': dict(keys='{1}', lf=1, le=1, bD='TRUE', inv='INVARIANTS DelOnlyOwn'),
    'MC_aside_live': dict(die=1, inv='', props='PROPERTIES GetsReturn DeadLockReleased', spec='FairSpec'),
    'MC_aside_t1': dict(clients='{1, 2, 3}', dl=1, die=1, to=1, lf=1),
    'MC_aside_t2': dict(keys='{1, 2}', dl=1, die=1, disc=1, loads=2),
    'MC_aside_t3': dict(dl=1, le=1, ve=1, die=1, disc=1, to=1, late=1, lf=1, asyn='TRUE'),
    'MC_aside_gen': dict(clients='{1, 2, 3}', keys='{1, 2}', loads=3, dl=1, le=1, ve=1, die=1, disc=1, to=1, late=1, lf=1,
                         rec='TRUE', inv='INVARIANTS GenEmit', extra='CONSTRAINT GenStop'),
}
T = '''SPECIFICATION {spec}
CONSTANTS
  Clients = {clients}
  Keys = {keys}
  MaxInc = {inc}
  MaxLoads = {loads}
  MaxDel = {dl}
  MaxLockExpire = {le}
  MaxValExpire = {ve}
  MaxDie = {die}
  MaxDisc = {disc}
  MaxTimeout = {to}
  MaxLateRefresh = {late}
  MaxLoadFail = {lf}
  AsyncPush = {asyn}
  BugReturnPh = {bR}
  BugNoLiveness = {bL}
  BugDelNoCompare = {bD}
  Record = {rec}
  GenLen = 30
{inv}
{props}
{extra}
CHECK_DEADLOCK FALSE
'''
for name, over in CFGS.items():
    d = dict(D)
    d.update(over)
    open(name + '.cfg', 'w').write(T.format(**d))
