#!/usr/bin/env python3
"""Writes the TLC configurations of Aside.tla. Run in this directory after changing the table."""
INV = 'INVARIANTS TypeOK NeverReturnsPlaceholder ValueFromLoaderOrStore LoaderOnceWhileHolderAlive LockStolenOnlyFromDead DelOnlyOwn NoOrphanWait LockNamesRefreshedId'
D = dict(clients='{1, 2}', procs=None, co='CO_id', nilp='{}', loadp=None, keys='{1}', inc=2, loads=2, dl=0, le=0, ve=0, die=0, disc=0, to=0,
         late=0, lf=0, asyn='FALSE', bR='FALSE', bL='FALSE', bD='FALSE', bA='FALSE', bN='FALSE', bS='FALSE', inv=INV, props='',
         spec='Spec', rec='FALSE', extra='')
CFGS = {
    'MC_aside_q1': dict(dl=1, die=1, to=1, lf=1),                        # Del, death, timeout, failing loader
    'MC_aside_q2': dict(le=1, ve=1, disc=1),                             # expiries and a disconnect
    'MC_aside_q3': dict(late=1, die=1, asyn='TRUE', loads=1),            # late refresh, pushes in flight
    'MC_aside_q4': dict(clients='{1, 2, 3}', loads=1, die=1),            # three clients
    # round 2: two callers on one client racing through the registration of the client id, a third client; a disconnect
    'MC_aside_q5': dict(procs='{1, 2, 3}', co='CO_112', loads=1),
    'MC_aside_q6': dict(procs='{1, 2}', co='CO_11', clients='{1}', inc=3, disc=1),
    # round 2: Gets without a loader (caller 2) against a holder that may die, time out, be deleted
    'MC_aside_q7': dict(nilp='{2}', die=1, to=1, dl=1, loads=3),
    'MC_aside_q8': dict(procs='{1, 2, 3}', co='CO_112', nilp='{2}', loadp='{1, 3}', die=1, loads=1),
    'MC_aside_neg_ph': dict(to=1, bR='TRUE', inv='INVARIANTS NeverReturnsPlaceholder'),
    'MC_aside_neg_live': dict(bL='TRUE', inv='INVARIANTS LoaderOnceWhileHolderAlive'),
    'MC_aside_neg_live2': dict(bL='TRUE', inv='INVARIANTS LockStolenOnlyFromDead'),
    'MC_aside_neg_del': dict(keys='{1}', lf=1, le=1, bD='TRUE', inv='INVARIANTS DelOnlyOwn'),
    'MC_aside_neg_adopt': dict(procs='{1, 2, 3}', co='CO_112', bA='TRUE', inv='INVARIANTS LockNamesRefreshedId'),
    'MC_aside_neg_adopt2': dict(procs='{1, 2, 3}', co='CO_112', keys='{1, 2}', bA='TRUE', inv='INVARIANTS LoaderOnceWhileHolderAlive'),
    'MC_aside_neg_nil': dict(nilp='{2}', bN='TRUE', inv='INVARIANTS NeverReturnsPlaceholder'),
    'MC_aside_neg_steal': dict(clients='{1, 2, 3}', die=1, bS='TRUE', inv='INVARIANTS DelOnlyOwn'),
    'MC_aside_neg_steal2': dict(clients='{1, 2, 3}', die=1, loads=2, bS='TRUE', inv='INVARIANTS LoaderOnceWhileHolderAlive'),
    'MC_aside_live': dict(die=1, inv='', props='PROPERTIES GetsReturn DeadLockReleased', spec='FairSpec'),
    'MC_aside_live2': dict(nilp='{2}', die=1, inv='', props='PROPERTIES GetsReturn DeadLockReleased', spec='FairSpec'),
    'MC_aside_t1': dict(clients='{1, 2, 3}', dl=1, die=1, to=1, lf=1),
    'MC_aside_t2': dict(keys='{1, 2}', dl=1, die=1, disc=1, loads=2),
    'MC_aside_t3': dict(dl=1, le=1, ve=1, die=1, disc=1, to=1, late=1, lf=1, asyn='TRUE'),
    'MC_aside_t4': dict(procs='{1, 2, 3, 4}', co='CO_1123', clients='{1, 2, 3}', inc=3, disc=1, die=1, loads=2),
    'MC_aside_t5': dict(procs='{1, 2, 3}', co='CO_112', nilp='{2, 3}', keys='{1, 2}', die=1, to=1, dl=1, lf=1, loads=3),
    'MC_aside_t6': dict(procs='{1, 2, 3}', co='CO_112', inc=3, disc=1),
    'MC_aside_t7': dict(procs='{1, 2}', co='CO_11', clients='{1}', inc=3, disc=1, dl=1, lf=1, keys='{1, 2}'),
    'MC_aside_t8': dict(procs='{1, 2, 3}', co='CO_112', nilp='{2, 3}', die=1, to=1, loads=3),
    'MC_aside_gen': dict(clients='{1, 2, 3}', procs='{1, 2, 3, 4}', co='CO_1223', nilp='{3, 4}', keys='{1, 2}', loads=3, inc=3,
                         dl=1, le=1, ve=1, die=1, disc=1, to=1, late=1, lf=1,
                         rec='TRUE', inv='INVARIANTS GenEmit', extra='CONSTRAINT GenStop'),
    # every behaviour of one loading Get (caller 1, may die / fail / be deleted) and one Get without a loader (caller 2)
    # (simulation; exhaustive generation with the history in the state prints 4 * 10^5 behaviours)
    'MC_aside_nilgen': dict(nilp='{2}', loadp='{1}', die=1, lf=1, dl=1, loads=1, rec='TRUE', inv='INVARIANTS NilEmit',
                            extra='CONSTRAINT NilStop'),
}
T = '''SPECIFICATION {spec}
CONSTANTS
  Clients = {clients}
  Procs = {procs}
  ClientOf <- {co}
  NilProcs = {nilp}
  LoadProcs = {loadp}
  Keys = {keys}
  MaxInc = {inc}
  MaxLoads = {loads}
  MaxDel = {dl}
  MaxLockExpire = {le}
  MaxValExpire = {ve}
  MaxDie = {die}
  MaxDisc = {disc}
  MaxTimeout = {to}
  MaxLateRefresh = {late}
  MaxLoadFail = {lf}
  AsyncPush = {asyn}
  BugReturnPh = {bR}
  BugNoLiveness = {bL}
  BugDelNoCompare = {bD}
  BugNoAdopt = {bA}
  BugNilFastPath = {bN}
  BugStealPlainDel = {bS}
  Record = {rec}
  GenLen = 30
{inv}
{props}
{extra}
CHECK_DEADLOCK FALSE
'''
for name, over in CFGS.items():
    d = dict(D)
    d.update(over)
    if d['procs'] is None:
        d['procs'] = d['clients']
    if d['loadp'] is None:
        d['loadp'] = d['procs']
    open(name + '.cfg', 'w').write(T.format(**d))
