SPECIFICATION Spec
CONSTANTS
  Clients = {1, 2}
  Procs = {1, 2}
  ClientOf <- CO_id
  NilProcs = {2}
  LoadProcs = {1}
  Keys = {1}
  MaxInc = 2
  MaxLoads = 1
  MaxDel = 1
  MaxLockExpire = 0
  MaxValExpire = 0
  MaxDie = 1
  MaxDisc = 0
  MaxTimeout = 0
  MaxLateRefresh = 0
  MaxLoadFail = 1
  AsyncPush = FALSE
  BugReturnPh = FALSE
  BugNoLiveness = FALSE
  BugDelNoCompare = FALSE
  BugNoAdopt = FALSE
  BugNilFastPath = FALSE
  BugStealPlainDel = FALSE
  Record = TRUE
  GenLen = 30
INVARIANTS NilEmit

CONSTRAINT NilStop
CHECK_DEADLOCK FALSE
