SPECIFICATION Spec
CONSTANTS
  Cmds = {"SETs", "GETs", "GETm", "INCRn", "INCRs", "DOinc", "DObad"}
  Kinds = {"pipe", "tx", "txwatch", "txconflict", "txstale"}
  Apis = {"exec", "fn"}
  MaxQueued = 3
  MaxExecs = 2
  MaxDiscards = 1
  BugMultiAfter = FALSE
  BugShift = FALSE
  BugNoTxFailed = FALSE
  BugDiscardKeeps = FALSE
  BugWatchLeaks = FALSE
INVARIANTS TypeOK DiscardDrops WireExact Positional FirstError TxFailedReported NoSpuriousAbort AbortIsClean LenExact
CHECK_DEADLOCK FALSE
