#!/usr/bin/env python3
"""Writes the TLC configurations of Lock.tla (root module MCLock.tla). Run in this directory after changing the table."""
INV = 'INVARIANTS TypeOK MutualExclusion DoneBeforeRelease NoLostWakeup CountersOK NoStaleKeys ExtendsOwnKeyOnly CancelAtMajorityLoss LostCounterOK'
D = dict(procs='{1, 2}', cl='C12', mode='MWT', calls=1, io=0, acq=0, xd=0, xp=0, dc=0, sc=0, noloop='TRUE', asyn='FALSE',
         fix='TRUE', fixt='TRUE', fixh='TRUE', bE='FALSE', bT='FALSE', bI='FALSE', bL='FALSE', bN='FALSE', dpo='FALSE', inv=INV, props='', spec='Spec', rec='FALSE', genlen=0,
         extra='')
CFGS = {
    # quick: exhaustive, small
    'MC_lock_q1': dict(io=2),                                   # with + try, two extend errors
    'MC_lock_q2': dict(mode='MWW', noloop='FALSE'),             # two WithContext callers, self invalidation (no NOLOOP)
    'MC_lock_q3': dict(mode='MWW', xd=1),                       # two WithContext callers, a third party deletes a key
    'MC_lock_q5': dict(mode='MWW', cl='C11'),                   # two callers on one locker (local hand-off)
    'MC_lock_q7': dict(mode='MWW', cl='C11', sc=1),                 # a waiter's source context ends (same locker)
    'MC_lock_q6': dict(acq=1, mode='MWW', cl='C11'),            # an acquire error (executed or not), retry timer
    # negative: the code as found and plausible defects
    'MC_lock_neg_order1': dict(io=1, fix='FALSE', inv='INVARIANTS DoneBeforeRelease'),
    'MC_lock_neg_order2': dict(io=2, fix='FALSE', inv='INVARIANTS MutualExclusion'),
    'MC_lock_neg_acqerr': dict(acq=2, fixt='FALSE', inv='INVARIANTS NoLostWakeup'),
    'MC_lock_neg_handoff': dict(mode='MWW', cl='C11', sc=1, fixh='FALSE', inv='INVARIANTS NoLostWakeup'),
    'MC_lock_neg_token': dict(xd=1, bE='TRUE', inv='INVARIANTS ExtendsOwnKeyOnly'),
    'MC_lock_neg_thresh': dict(xd=2, bT='TRUE', inv='INVARIANTS CancelAtMajorityLoss'),
    'MC_lock_neg_inval': dict(mode='MWW', bI='TRUE', inv='INVARIANTS NoLostWakeup'),
    # round 2: causes of loss in every combination (one holder), connection loss of a waiter's client
    'MC_lock_q8': dict(procs='{1}', cl='C1', mode='MW', io=2, xd=2, xp=2),
    'MC_lock_q9': dict(dc=1, dpo='TRUE'),                                   # with + try on two clients, a connection drops
    'MC_lock_neg_mixed': dict(procs='{1}', cl='C1', mode='MW', io=1, xd=1, bL='TRUE', inv='INVARIANTS CancelAtMajorityLoss'),
    'MC_lock_neg_nilinval': dict(dc=1, dpo='TRUE', bN='TRUE', inv='INVARIANTS NoLostWakeup'),
    'MC_lock_live_mixed': dict(procs='{1}', cl='C1', mode='MW', io=1, xd=1, xp=1, bL='TRUE', inv='', props='PROPERTIES Prompt', spec='FairLibSpec'),
    # exhaustive generation of the majority-loss cases (one holder, every combination of causes)
    'MC_lock_lossgen': dict(procs='{1}', cl='C1', mode='MW', io=2, xd=2, xp=2, rec='TRUE', genlen=2, inv='INVARIANTS LossEmit', extra='CONSTRAINT LossStop\nVIEW LossView'),
    'MC_lock_lossgen3': dict(procs='{1}', cl='C1', mode='MW', io=2, xd=2, xp=2, rec='TRUE', genlen=3, inv='INVARIANTS LossEmit', extra='CONSTRAINT LossStop\nVIEW LossView'),
    # liveness under fairness
    'MC_lock_live_wait': dict(mode='MWW', xd=1, inv='', props='PROPERTIES WaitersAcquire', spec='FairSpec'),
    'MC_lock_live_prompt': dict(procs='{1}', cl='C1', mode='MW', xd=2, inv='', props='PROPERTIES Prompt', spec='FairLibSpec'),
    'MC_lock_live_prompt2': dict(xd=1, inv='', props='PROPERTIES Prompt', spec='FairLibSpec'),
    'MC_lock_live_neg': dict(procs='{1}', cl='C1', mode='MW', xd=2, bT='TRUE', inv='', props='PROPERTIES Prompt', spec='FairLibSpec'),
    # thorough
    'MC_lock_t1': dict(mode='MWW', io=2, xd=1, xp=1),
    'MC_lock_t2': dict(procs='{1, 2, 3}', cl='C112', mode='MWWT', io=1),
    'MC_lock_t3': dict(mode='MWW', xd=1, dc=1, noloop='FALSE', asyn='TRUE'),
    'MC_lock_t4': dict(mode='MTF'),                             # try + forced take-over
    'MC_lock_t7': dict(acq=2),
    'MC_lock_t5': dict(mode='MWW', sc=1, cl='C11'),
    'MC_lock_t8': dict(mode='MWW', dc=1),                       # two WithContext callers, a connection drops (190 840 states)
    # scenario generation (simulation mode): the code as found, every kind of environment step
    'MC_lock_gen': dict(procs='{1, 2, 3}', cl='C112', mode='MWWT', calls=2, io=2, acq=2, xd=1, xp=1, dc=1, sc=1,
                        fix='FALSE', fixt='FALSE', fixh='FALSE', rec='TRUE', genlen=36, inv='INVARIANTS GenEmit', extra='CONSTRAINT GenStop'),
}
T = '''SPECIFICATION {spec}
CONSTANTS
  Procs = {procs}
  ClientOf <- {cl}
  ModeOf <- {mode}
  K = 3
  Maj = 2
  MaxCalls = {calls}
  MaxIoErr = {io}
  MaxAcqErr = {acq}
  MaxExtDel = {xd}
  MaxExpire = {xp}
  MaxDisc = {dc}
  MaxSrcCancel = {sc}
  NoLoop = {noloop}
  AsyncPush = {asyn}
  FixCancelFirst = {fix}
  FixRetryTimer = {fixt}
  FixLocalHandoff = {fixh}
  BugExtendNoToken = {bE}
  BugThreshold = {bT}
  BugIgnoreInval = {bI}
  BugLostByCause = {bL}
  BugNilNoGate = {bN}
  DiscParkedOnly = {dpo}
  Record = {rec}
  GenLen = {genlen}
{inv}
{props}
{extra}
CHECK_DEADLOCK FALSE
'''
for name, over in CFGS.items():
    d = dict(D)
    d.update(over)
    open(name + '.cfg', 'w').write(T.format(**d))
