SPECIFICATION TraceSpec
CONSTANTS
  K = 3
  Maj = 2
  PromptMs = 2500
INVARIANTS MutualExclusion DoneBeforeRelease Prompt NoStuckWaiter
CONSTRAINT HighWater
POSTCONDITION TraceAccepted
CHECK_DEADLOCK FALSE
