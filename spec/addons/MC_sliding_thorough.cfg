\* C37 exhaustive: ALL 256 hash functions of 2 items into 4 indexes, K = 2, half window = 3 ticks, clock 0..10, calls with 1 or 2 keys
SPECIFICATION Spec
CONSTANTS
  Kind = "sliding"
  Items = {a, b}
  Size = 4
  K = 2
  HSet <- AllHashes
  KeySeqs <- KeySeqs2
  Q <- NoQ
  MaxOps = 0
  Half = 3
  MaxNow = 10
  MaxTotal = 0
  ExpireInclusive = TRUE
  Defect = "none"
  AllowBadConfig = FALSE
  Emit = FALSE
  Faults <- AllFaults
  QS <- NoQ
  Ops <- AllOps
  Big = FALSE
VIEW MCView
INVARIANTS TypeOK PresentForHalfWindow
PROPERTIES SlidingAnswers AddNilMeansPresent
CHECK_DEADLOCK FALSE
