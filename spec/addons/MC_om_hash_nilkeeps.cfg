\* the hash repository AS IT IS violates the unconditional round trip: a nil pointer saved over a stored value keeps the old value (known finding)
SPECIFICATION Spec
CONSTANTS
  Repo = "hash"
  Savers = {"s1", "s2", "s3"}
  InitDocs <- InitDocs3
  Keys = {"k1"}
  Exps = {"zero"}
  MaxNow = 1
  MaxBatch = 0
  MaxObtain = 2
  MaxSaves = 2
  MaxVer = 6
  Defect = "none"
  Emit = FALSE
  MaxOps = 0
VIEW MCView
INVARIANTS TypeOK
PROPERTIES FetchEqualsSaved
CHECK_DEADLOCK FALSE
