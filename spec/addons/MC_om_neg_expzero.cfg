\* negative: the expiry argument is passed for the zero time as well (PEXPIREAT key 0 deletes the key that was just saved)
SPECIFICATION Spec
CONSTANTS
  Repo = "json"
  Savers = {"s1", "s2"}
  Keys = {"k1"}
  InitDocs <- InitDocs1
  Exps = {"zero", "future"}
  MaxNow = 2
  MaxBatch = 0
  MaxObtain = 1
  MaxSaves = 1
  MaxVer = 6
  Defect = "exp-zero-sent"
  Emit = FALSE
  MaxOps = 0
VIEW MCView
INVARIANTS TypeOK
PROPERTIES SavedIsFetchable
CHECK_DEADLOCK FALSE
