\* generation, exhaustive: 2 savers obtain an entity each (key, NewEntity|Fetch, pointers nil|set, exat zero|past|future), then ONE SaveMulti of both in either order
SPECIFICATION Spec
CONSTANTS
  Repo = "json"
  Savers = {"s1", "s2"}
  Keys = {"k1", "k2"}
  InitDocs <- InitDocsB
  Exps = {"zero", "past", "future"}
  MaxNow = 1
  MaxBatch = 2
  MaxObtain = 1
  MaxSaves = 1
  MaxVer = 8
  Defect = "none"
  Emit = TRUE
  MaxOps = 3
INVARIANT EmitBatchCase
ACTION_CONSTRAINT BatchShape
CHECK_DEADLOCK FALSE
