---------------------------- MODULE LimiterTrace ----------------------------
(* Trace validation for Limiter.tla, in milliseconds.  limiterdrv records, per scenario (RESET):
     Call  c id n                      the driver is about to call Check / Allow / AllowN
     Exec  c id n now next cur exp t wasreset
                                       the server ran the script for that call at server time t with ARGV now/next and
                                       replied {cur, exp}; wasreset = the script's SET commands were executed
     Ret   c id n allowed remaining resetat
                                       what the caller got back
   The script's reply and the caller's result must be the ones Limiter.tla computes from its own copy of the keys,
   and every property of Limiter.tla is evaluated at every step.  The time the caller read is only known from ARGV,
   so the Read step takes it from the Exec event of the same call; the clock moves to the server time of each Exec. *)
EXTENDS Limiter, IOUtils

VARIABLES l, called
TraceLog == ndJsonDeserialize(IOEnv.VERIF_TRACE)
tvars == <<vars, l, called>>
Ev == TraceLog[l]
Is(e) == l <= Len(TraceLog) /\ TraceLog[l].ev = e
Step == l' = l + 1

TraceInit == Init /\ l = 1 /\ called = {} /\ TLCSet(1, 1)

Reset == /\ Is("RESET") /\ Step /\ called' = {}
         /\ clock' = 1
         /\ ek' = [i \in Ids |-> 0] /\ ekTtl' = [i \in Ids |-> 0] /\ ck' = [i \in Ids |-> -1] /\ ckTtl' = [i \in Ids |-> 0]
         /\ pc' = [c \in Callers |-> "idle"] /\ cid' = [c \in Callers |-> CHOOSE i \in Ids : TRUE]
         /\ cn' = [c \in Callers |-> 0] /\ cnow' = [c \in Callers |-> 0] /\ cret' = [c \in Callers |-> NoRet]
         /\ wid' = [i \in Ids |-> 0] /\ gsum' = [i \in Ids |-> 0] /\ ncalls' = 0 /\ adm' = {} /\ seen' = {}

TCall == /\ Is("Call") /\ Step /\ pc[Ev.c] = "idle" /\ Ev.c \notin called
         /\ called' = called \cup {Ev.c} /\ UNCHANGED vars

\* silent: the caller read its clock (the value shows up in ARGV of its Exec event)
RECURSIVE ExecOf(_, _)
ExecOf(c, m) == IF m > Len(TraceLog) \/ TraceLog[m].ev = "RESET" THEN 0
                ELSE IF TraceLog[m].ev = "Exec" /\ TraceLog[m].c = c THEN m ELSE ExecOf(c, m + 1)
SRead(c) == /\ c \in called /\ pc[c] = "idle"
            /\ LET m == ExecOf(c, l) IN
                 /\ m # 0
                 /\ ReadAt(c, TraceLog[m].id, TraceLog[m].n, TraceLog[m].now)
            /\ UNCHANGED <<l, called>>

\* silent: the clock reaches the server time of the next script execution
STick == /\ Is("Exec") /\ clock < Ev.t /\ clock' = Ev.t
         /\ UNCHANGED <<ek, ekTtl, ck, ckTtl, pc, cid, cn, cnow, cret, wid, gsum, ncalls, adm, seen, l, called>>

TExec == /\ Is("Exec") /\ Step /\ clock = Ev.t /\ UNCHANGED called
         /\ pc[Ev.c] = "read" /\ cid[Ev.c] = Ev.id /\ cn[Ev.c] = Ev.n /\ cnow[Ev.c] = Ev.now
         /\ Ev.now <= Ev.t /\ Ev.next = Ev.now + W
         /\ Script(Ev.c)
         /\ cret'[Ev.c].cur = Ev.cur /\ cret'[Ev.c].exp = Ev.exp /\ cret'[Ev.c].wasreset = Ev.wasreset

TRet == /\ Is("Ret") /\ Step /\ pc[Ev.c] = "ran"
        /\ LET o == ResultOf(Ev.c) IN
             o.allowed = Ev.allowed /\ o.remaining = Ev.remaining /\ o.reset = Ev.resetat /\ o.id = Ev.id /\ o.n = Ev.n
        /\ Ret(Ev.c) /\ called' = called \ {Ev.c}

TraceNext == Reset \/ TCall \/ TExec \/ TRet \/ STick \/ \E c \in Callers : SRead(c)
TraceSpec == TraceInit /\ [][TraceNext]_tvars

HighWater == TLCSet(1, IF l > TLCGet(1) THEN l ELSE TLCGet(1))
TraceAccepted == \/ TLCGet(1) = Len(TraceLog) + 1
                 \/ PrintT(<<"REJECTED-AT", TLCGet(1), TraceLog[TLCGet(1)]>>) /\ FALSE
=============================================================================
