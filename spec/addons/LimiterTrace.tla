---------------------------- MODULE LimiterTrace ----------------------------
(* Trace validation for Limiter.tla, in milliseconds.  limiterdrv records, per scenario (RESET):
     Call  c id n nopt lim1 wms1 lim2 wms2
                                       the driver is about to call Check / Allow / AllowN with nopt (0, 1, 2) options
                                       WithCustomRateLimit(lim1, wms1 ms), WithCustomRateLimit(lim2, wms2 ms), in this order
     Exec  c id n now next cur exp t wasreset
                                       the server ran the script for that call at server time t with ARGV now/next and
                                       replied {cur, exp}; wasreset = the script's SET commands were executed
     Ret   c id n allowed remaining resetat
                                       what the caller got back
   (all records carry lim / wms as well - the values of the last option or the default - for the reader and for the
   signature class; the specification does not use them.)
   The script's reply and the caller's result must be the ones Limiter.tla computes from its own copy of the keys,
   and every property of Limiter.tla is evaluated at every step.  The limit and the window in force for a call are the
   ones Limiter.tla derives from the option list of the Call event (InForce/Picked); the window must show up in ARGV
   (next = now + window) and the limit in Allowed and Remaining.  The time the caller read is only known from ARGV,
   so the Read step takes it from the Exec event of the same call; the clock moves to the server time of each Exec. *)
EXTENDS Limiter, IOUtils

VARIABLES l, called, copts      \* copts[c]: option list of the announced call of caller c
TraceLog == ndJsonDeserialize(IOEnv.VERIF_TRACE)
tvars == <<vars, l, called, copts>>
Ev == TraceLog[l]
Is(e) == l <= Len(TraceLog) /\ TraceLog[l].ev = e
Step == l' = l + 1

TraceInit == Init /\ l = 1 /\ called = {} /\ copts = [c \in Callers |-> <<>>] /\ TLCSet(1, 1)

OptsOf(e) == IF e.nopt = 0 THEN <<>>
             ELSE IF e.nopt = 1 THEN <<O(e.lim1, e.wms1)>>
             ELSE <<O(e.lim1, e.wms1), O(e.lim2, e.wms2)>>

Reset == /\ Is("RESET") /\ Step /\ called' = {} /\ copts' = [c \in Callers |-> <<>>]
         /\ clock' = 1
         /\ ek' = [i \in Ids |-> 0] /\ ekTtl' = [i \in Ids |-> 0] /\ ck' = [i \in Ids |-> -1] /\ ckTtl' = [i \in Ids |-> 0]
         /\ pc' = [c \in Callers |-> "idle"] /\ cid' = [c \in Callers |-> CHOOSE i \in Ids : TRUE]
         /\ cn' = [c \in Callers |-> 0] /\ cnow' = [c \in Callers |-> 0] /\ cret' = [c \in Callers |-> NoRet]
         /\ clim' = [c \in Callers |-> 0] /\ cw' = [c \in Callers |-> 0]
         /\ olim' = [c \in Callers |-> 0] /\ ow' = [c \in Callers |-> 0]
         /\ wid' = [i \in Ids |-> 0] /\ gsum' = [i \in Ids |-> 0] /\ gadm' = [i \in Ids |-> 0]
         /\ ncalls' = 0 /\ adm' = {} /\ seen' = {}

TCall == /\ Is("Call") /\ Step /\ pc[Ev.c] = "idle" /\ Ev.c \notin called
         /\ Ev.nopt \in 0..2
         /\ called' = called \cup {Ev.c} /\ copts' = [copts EXCEPT ![Ev.c] = OptsOf(Ev)] /\ UNCHANGED vars

\* silent: the caller read its clock (the value shows up in ARGV of its Exec event)
RECURSIVE ExecOf(_, _)
ExecOf(c, m) == IF m > Len(TraceLog) \/ TraceLog[m].ev = "RESET" THEN 0
                ELSE IF TraceLog[m].ev = "Exec" /\ TraceLog[m].c = c THEN m ELSE ExecOf(c, m + 1)
SRead(c) == /\ c \in called /\ pc[c] = "idle"
            /\ LET m == ExecOf(c, l) IN
                 /\ m # 0
                 /\ ReadAt(c, TraceLog[m].id, TraceLog[m].n, TraceLog[m].now, copts[c])
            /\ UNCHANGED <<l, called, copts>>

\* silent: the clock reaches the server time of the next script execution
STick == /\ Is("Exec") /\ clock < Ev.t /\ clock' = Ev.t
         /\ UNCHANGED <<ek, ekTtl, ck, ckTtl, pc, cid, cn, cnow, cret, clim, cw, olim, ow, wid, gsum, gadm, ncalls, adm, seen,
                        l, called, copts>>

TExec == /\ Is("Exec") /\ Step /\ clock = Ev.t /\ UNCHANGED <<called, copts>>
         /\ pc[Ev.c] = "read" /\ cid[Ev.c] = Ev.id /\ cn[Ev.c] = Ev.n /\ cnow[Ev.c] = Ev.now
         /\ Ev.now <= Ev.t /\ Ev.next = Ev.now + ow[Ev.c]        \* the window in force for this call reached ARGV
         /\ Script(Ev.c)
         /\ cret'[Ev.c].cur = Ev.cur /\ cret'[Ev.c].exp = Ev.exp /\ cret'[Ev.c].wasreset = Ev.wasreset

TRet == /\ Is("Ret") /\ Step /\ pc[Ev.c] = "ran"
        /\ LET o == ResultOf(Ev.c) IN
             o.allowed = Ev.allowed /\ o.remaining = Ev.remaining /\ o.reset = Ev.resetat /\ o.id = Ev.id /\ o.n = Ev.n
        /\ Ret(Ev.c) /\ called' = called \ {Ev.c} /\ copts' = [copts EXCEPT ![Ev.c] = <<>>]

TraceNext == Reset \/ TCall \/ TExec \/ TRet \/ STick \/ \E c \in Callers : SRead(c)
TraceSpec == TraceInit /\ [][TraceNext]_tvars

HighWater == TLCSet(1, IF l > TLCGet(1) THEN l ELSE TLCGet(1))
TraceAccepted == \/ TLCGet(1) = Len(TraceLog) + 1
                 \/ PrintT(<<"REJECTED-AT", TLCGet(1), TraceLog[TLCGet(1)]>>) /\ FALSE
=============================================================================
