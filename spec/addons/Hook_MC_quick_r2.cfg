SPECIFICATION Spec
CONSTANTS
  NodeIds = {1}
  MaxDepth = 2
  MaxDed = 1
  MaxOps = 4
  MaxCalls = 4
  FwdModes = {TRUE, FALSE}
  BugBypass <- BypassNone
  BugRewrap = FALSE
  Layers = {1, 2}
  CtxStates = {"live", "cancelled", "expired"}
  BugStackCollapse = FALSE
  BugCtxOverride = FALSE
INVARIANTS TypeOK ExactlyOneHookCall ResultUnchanged UnderlyingAtMostOnce PassThroughUntouched DerivedWrapped
VIEW McView
CHECK_DEADLOCK FALSE
