\* negative: batches are cut into script calls of K+1 indexes regardless of key boundaries
SPECIFICATION Spec
CONSTANTS
  Kind = "bloom"
  Items = {a, b, c}
  Size = 3
  K = 2
  HSet <- AllHashes
  KeySeqs <- KeySeqs3
  Q <- NoQ
  MaxOps = 0
  Half = 0
  MaxNow = 0
  MaxTotal = 0
  ExpireInclusive = TRUE
  Defect = "chunk-flat"
  AllowBadConfig = FALSE
  Emit = FALSE
  Faults = {"errreply"}
  QS <- NoQ
  Ops <- AllOps
  Big = FALSE
VIEW MCView
INVARIANTS AnswersPerKey
CHECK_DEADLOCK FALSE
