SPECIFICATION Spec
CONSTANTS
  Callers = {1, 2}
  Ids = {1}
  Limit = 3
  W = 2
  OptLists <- OL_None
  Slack = 2
  Ns = {0, 1, 2, 3, 4}
  Jumps = {1}
  MaxClock = 6
  MaxCalls = 3
  MaxStale = 3
  BugIncrBeforeReset = FALSE
  BugAllowOneMore = TRUE
  BugNoZeroOnReset = FALSE
  BugVerdictFromDefault = FALSE
  BugRemainingFromDefault = FALSE
  BugWindowFromDefault = FALSE
  BugFirstOptionWins = FALSE
INVARIANTS AdmittedPerWindow
CHECK_DEADLOCK FALSE
