SPECIFICATION Spec
CONSTANTS
  Kinds = {"counting"}
  Mode = "grid"
INVARIANT Report
CHECK_DEADLOCK FALSE
