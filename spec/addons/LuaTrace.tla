------------------------------ MODULE LuaTrace ------------------------------
(* Trace validation for Lua.tla: every line of the ndjson trace recorded by luadrv from the real rueidis.Lua over the
   fake server (RESET = new Lua object and script-cache state, Begin = Exec / ExecMulti called, Flush = SCRIPT FLUSH,
   Cmd = a script command the server received together with what the server did with it, End = the results the caller
   got) must be explained by the corresponding action of Lua.tla; the properties of Lua.tla are evaluated as
   invariants at every step.  The only silent step is the absence of SCRIPT LOAD in ExecMulti of a NoSha script. *)
EXTENDS Lua, IOUtils

VARIABLE l
TraceLog == ndJsonDeserialize(IOEnv.VERIF_TRACE)
tvars == <<vars, l>>
Ev0 == TraceLog[l]
Is(e) == l <= Len(TraceLog) /\ TraceLog[l].ev = e
Step == l' = l + 1
ToSet(s) == {s[x] : x \in 1..Len(s)}

TraceInit == /\ l = 1 /\ TLCSet(1, 1)
             /\ kname = "std" /\ csha = TRUE /\ cached = FALSE /\ loadOK = FALSE
             /\ mode = "exec" /\ n = 0 /\ failing = {} /\ pc = "idle" /\ j = 0 /\ cmds = <<>> /\ res = <<>>
             /\ ncalls = 0 /\ nfault = 0 /\ nflush = 0 /\ log = <<>>

Reset == /\ Is("RESET") /\ Step
         /\ kname' = Ev0.kind /\ csha' = (IF KindOf(Ev0.kind).nosha THEN FALSE ELSE ~KindOf(Ev0.kind).load)
         /\ cached' = Ev0.cached /\ loadOK' = FALSE
         /\ mode' = "exec" /\ n' = 0 /\ failing' = {} /\ pc' = "idle" /\ j' = 0 /\ cmds' = <<>> /\ res' = <<>>
         /\ ncalls' = 0 /\ nfault' = 0 /\ nflush' = 0 /\ log' = <<>>

TBegin == Is("Begin") /\ Step /\ Begin(Ev0.mode, Ev0.n, ToSet(Ev0.failing))
TFlush == Is("Flush") /\ Step /\ Flush
TCmd == /\ Is("Cmd") /\ Step
        /\ \E f \in {"none"} \cup Faults : ExecLoad(f) \/ ExecSha(f) \/ ExecEval(f) \/ MultiLoad(f) \/ MultiCmd(f)
        /\ LET c == cmds'[Len(cmds')] IN c.c = Ev0.c /\ c.i = Ev0.i /\ c.o = Ev0.o /\ c.b = Ev0.b
TEnd == Is("End") /\ Step /\ res = Ev0.res /\ End
Silent == MultiSkipLoad /\ UNCHANGED l

TraceNext == Reset \/ TBegin \/ TFlush \/ TCmd \/ TEnd \/ Silent
TraceSpec == TraceInit /\ [][TraceNext]_tvars

HighWater == TLCSet(1, IF l > TLCGet(1) THEN l ELSE TLCGet(1))
TraceAccepted == \/ TLCGet(1) = Len(TraceLog) + 1
                 \/ PrintT(<<"REJECTED-AT", TLCGet(1), TraceLog[TLCGet(1)]>>) /\ FALSE
=============================================================================
