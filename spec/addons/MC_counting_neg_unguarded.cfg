\* negative: the remove script decrements without the below-zero test
SPECIFICATION Spec
CONSTANTS
  Kind = "counting"
  Items = {a, b, c}
  Size = 3
  K = 2
  HSet <- AllHashes
  KeySeqs <- KeySeqs2
  Q <- NoQ
  MaxOps = 0
  Half = 0
  MaxNow = 0
  MaxTotal = 3
  ExpireInclusive = TRUE
  Defect = "remove-unguarded"
  AllowBadConfig = FALSE
  Emit = FALSE
  Faults <- NoFaults
  QS <- NoQ
  Ops <- AllOps
  Big = FALSE
VIEW MCView
INVARIANTS NoNegativeCounter
CHECK_DEADLOCK FALSE
