SPECIFICATION Spec
CONSTANTS
  NodeIds = {1, 2}
  MaxDepth = 2
  MaxDed = 3
  MaxOps = 8
  MaxCalls = 8
  FwdModes = {TRUE, FALSE}
  BugBypass <- BypassNone
  BugRewrap = FALSE
  Layers = {1}
  CtxStates = {"live"}
  BugStackCollapse = FALSE
  BugCtxOverride = FALSE
INVARIANTS EmitSim
CHECK_DEADLOCK FALSE
