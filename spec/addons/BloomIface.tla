----------------------------- MODULE BloomIface -----------------------------
(***************************************************************************)
(* The interface between the rueidisprob constructors and Bloom.tla.       *)
(*                                                                         *)
(* NewBloomFilter, NewCountingBloomFilter and NewSlidingBloomFilter turn   *)
(* (expected number of items, false positive rate) into (Size, K) with     *)
(* floating point formulas this specification treats as given functions.   *)
(* Whatever they compute, every configuration they ACCEPT has to satisfy   *)
(* Obligation(K, Size); Bloom.tla assumes it and shows (negative config    *)
(* MC_bloom_neg_k0) that without it an added item is reported absent.      *)
(***************************************************************************)
EXTENDS Integers

Obligation(k, size) == k >= 1 /\ size >= 1

(***************************************************************************)
(* The grid of configuration classes the sweep covers.  TLC enumerates     *)
(* Kinds \X NClasses \X RClasses; the driver concretises every class to    *)
(* several numbers (fixed representatives plus seeded picks):              *)
(*   expected items: zero = 0, one = 1, tiny = 2..9, small = 10..99,       *)
(*     medium = 100..9999, large = 10^4..10^6, huge = 10^9..10^10          *)
(*   rate: nonpositive <= 0, minute = 1e-12..1e-6, low = 1e-4..0.05,       *)
(*     mid = 0.05..0.5, high = 0.5..0.9, near1 = 0.9..1 exclusive          *)
(*     (up to the largest float64 below 1), one = 1, above1 > 1            *)
(***************************************************************************)
NClasses == {"zero", "one", "tiny", "small", "medium", "large", "huge"}
RClasses == {"nonpositive", "minute", "low", "mid", "high", "near1", "one", "above1"}
=============================================================================
