SPECIFICATION TraceSpec
CONSTANTS
  ClientTTLms = 300
  SlackMs = 1500
CONSTRAINT HighWater
POSTCONDITION TraceAccepted
CHECK_DEADLOCK FALSE
