SPECIFICATION Spec
CONSTANTS
  Procs = {1, 2, 3}
  ClientOf <- C112
  ModeOf <- MWWT
  K = 3
  Maj = 2
  MaxCalls = 2
  MaxIoErr = 2
  MaxAcqErr = 2
  MaxExtDel = 1
  MaxExpire = 1
  MaxDisc = 1
  MaxSrcCancel = 1
  NoLoop = TRUE
  AsyncPush = FALSE
  FixCancelFirst = FALSE
  FixRetryTimer = FALSE
  FixLocalHandoff = FALSE
  BugExtendNoToken = FALSE
  BugThreshold = FALSE
  BugIgnoreInval = FALSE
  BugLostByCause = FALSE
  BugNilNoGate = FALSE
  DiscParkedOnly = FALSE
  Record = TRUE
  GenLen = 36
INVARIANTS GenEmit

CONSTRAINT GenStop
CHECK_DEADLOCK FALSE
