\* C40 exhaustive, batches: hash repository, 2 keys, 3 savers (1 obtain, 1 save each), Save and SaveMulti of up to 3 entities in every order, keys fresh or holding a document
SPECIFICATION Spec
CONSTANTS
  Repo = "hash"
  Savers = {"s1", "s2", "s3"}
  Keys = {"k1", "k2"}
  InitDocs <- InitDocsB
  Exps = {"zero"}
  MaxNow = 1
  MaxBatch = 3
  MaxObtain = 1
  MaxSaves = 1
  MaxVer = 6
  Defect = "none"
  Emit = FALSE
  MaxOps = 0
VIEW MCView
INVARIANTS TypeOK AtMostOneWinner ExpiryHonoured
PROPERTIES VersionPlusOne SavedIsFetchable AllFieldsStored FailedSaveChangesNothing FetchEqualsSavedButNil
CHECK_DEADLOCK FALSE
