\* negative: the exists script does not reset oneBits between keys: answers of a multi-key call are not per key
SPECIFICATION Spec
CONSTANTS
  Kind = "bloom"
  Items = {a, b, c}
  Size = 3
  K = 2
  HSet <- AllHashes
  KeySeqs <- KeySeqs2
  Q <- NoQ
  MaxOps = 0
  Half = 0
  MaxNow = 0
  MaxTotal = 0
  ExpireInclusive = TRUE
  Defect = "exists-no-reset"
  AllowBadConfig = FALSE
  Emit = FALSE
  Faults <- NoFaults
  QS <- NoQ
  Ops <- AllOps
  Big = FALSE
VIEW MCView
INVARIANTS AnswersPerKey
CHECK_DEADLOCK FALSE
