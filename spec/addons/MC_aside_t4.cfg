SPECIFICATION Spec
CONSTANTS
  Clients = {1, 2, 3}
  Procs = {1, 2, 3, 4}
  ClientOf <- CO_1123
  NilProcs = {}
  LoadProcs = {1, 2, 3, 4}
  Keys = {1}
  MaxInc = 3
  MaxLoads = 2
  MaxDel = 0
  MaxLockExpire = 0
  MaxValExpire = 0
  MaxDie = 1
  MaxDisc = 1
  MaxTimeout = 0
  MaxLateRefresh = 0
  MaxLoadFail = 0
  AsyncPush = FALSE
  BugReturnPh = FALSE
  BugNoLiveness = FALSE
  BugDelNoCompare = FALSE
  BugNoAdopt = FALSE
  BugNilFastPath = FALSE
  BugStealPlainDel = FALSE
  Record = FALSE
  GenLen = 30
INVARIANTS TypeOK NeverReturnsPlaceholder ValueFromLoaderOrStore LoaderOnceWhileHolderAlive LockStolenOnlyFromDead DelOnlyOwn NoOrphanWait LockNamesRefreshedId


CHECK_DEADLOCK FALSE
