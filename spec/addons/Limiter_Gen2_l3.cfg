SPECIFICATION GSpec
CONSTANTS
  Callers = {1, 2}
  Ids = {1}
  Limit = 3
  W = 2
  OptLists <- OL_None
  Slack = 2
  Ns = {0, 1, 2, 3, 4}
  Jumps = {1, 3, 5}
  MaxClock = 16
  MaxCalls = 2
  MaxStale = 3
  MaxAdv = 2
  BugIncrBeforeReset = FALSE
  BugAllowOneMore = FALSE
  BugNoZeroOnReset = FALSE
  BugVerdictFromDefault = FALSE
  BugRemainingFromDefault = FALSE
  BugWindowFromDefault = FALSE
  BugFirstOptionWins = FALSE
INVARIANTS Emit
CHECK_DEADLOCK FALSE
