------------------------------- MODULE OmTypes -------------------------------
(***************************************************************************)
(* C40, "for all supported field types": which (repository, place in the   *)
(* schema, field type) combinations the om repositories support, the       *)
(* boundary classes of every type, and what Save followed by Fetch /       *)
(* FetchCache must return for each of them.                                *)
(*                                                                         *)
(* hash repository (conv.go): a field is converted by kind -               *)
(*   string, int64, bool and pointers to them: text; []byte: as it is;     *)
(*   []float32 / []float64: little-endian binary; struct, pointer to       *)
(*   struct, slice of struct (time.Time is a struct): encoding/json text.  *)
(*   Any other kind (float64, uint64, []string, map ...) panics in         *)
(*   NewHashRepository - those types are supported only INSIDE a struct.   *)
(* JSON repository: the whole entity is one encoding/json document.        *)
(*                                                                         *)
(* encoding/json is exact for: strings that are valid UTF-8, every int64 / *)
(* uint64, every finite float64 (shortest representation that parses back  *)
(* to the same bits), []byte (base64), time.Time (RFC 3339 with            *)
(* nanoseconds and zone offset, years 0..9999).  It is not exact for       *)
(* strings with invalid UTF-8 (replaced by U+FFFD) and fails for NaN/Inf:  *)
(* these classes are "supported" only where the value is stored as it is.  *)
(*                                                                         *)
(* The property: every supported cell round-trips to an EQUAL value (equal *)
(* = same bits for numbers, same instant and zone offset for times, nil    *)
(* and empty slices identified).  TLC enumerates the cells; the driver     *)
(* must execute every one of them on the real repositories.                *)
(***************************************************************************)
EXTENDS Naturals, Sequences, TLC, Json

Repos == {"hash", "json"}
\* where the value sits: a field of the entity, a pointer field of the entity (set; nil is the business of Om.tla),
\* a field of a struct field, a field of an element of a slice-of-struct field
Places == {"field", "pointer", "nested", "element"}
Types == {"string", "int64", "bool", "bytes", "time", "float64", "uint64", "strings", "map", "vec32", "vec64"}

Classes(t) ==
  CASE t = "string"  -> {"empty", "ascii", "separators", "unicode", "control", "invalid-utf8", "long"}
    [] t = "int64"   -> {"zero", "min", "max", "beyond-2p53", "negative"}
    [] t = "uint64"  -> {"zero", "max", "beyond-2p63", "beyond-2p53"}
    [] t = "bool"    -> {"true", "false"}
    [] t = "bytes"   -> {"nil", "empty", "text", "invalid-utf8", "separators"}
    [] t = "time"    -> {"zero", "utc-nanoseconds", "zoned-nanoseconds", "zoned-microseconds", "before-epoch", "year-9999", "whole-millisecond"}
    [] t = "float64" -> {"zero", "negative-zero", "digits-17", "large-exponent", "small-exponent", "denormal", "max", "integer-beyond-2p53"}
    [] t = "strings" -> {"nil", "one-empty", "separators"}
    [] t = "map"     -> {"empty", "separator-keys"}
    [] t = "vec32"   -> {"empty", "dyadic", "digits", "nan-inf"}
    [] t = "vec64"   -> {"empty", "dyadic", "digits-17", "nan-inf"}

\* kinds conv.go has a converter for, by place
HashField   == {"string", "int64", "bool", "bytes", "time", "vec32", "vec64"}
HashPointer == {"string", "int64", "bool", "time"}
JsonPointer == {"string", "int64", "bool", "time", "float64", "uint64"}
InStruct    == {"string", "int64", "bool", "bytes", "time", "float64", "uint64", "strings", "map"}

SupportedType(r, p, t) ==
  CASE p = "field"   -> IF r = "hash" THEN t \in HashField ELSE TRUE
    [] p = "pointer" -> IF r = "hash" THEN t \in HashPointer ELSE t \in JsonPointer
    [] OTHER         -> t \in InStruct

\* stored as it is (no encoding/json in between)?
Verbatim(r, p, t) == r = "hash" /\ p \in {"field", "pointer"} /\ t \in {"string", "bytes", "vec32", "vec64"}

SupportedClass(r, p, t, c) ==
  /\ (t = "string" /\ c = "invalid-utf8") => Verbatim(r, p, t)   \* []byte is base64 in JSON: every class is fine there
  /\ (c = "nan-inf") => Verbatim(r, p, t)

Cells == {x \in [repo : Repos, place : Places, type : Types, class : UNION {Classes(t) : t \in Types}] :
            /\ x.class \in Classes(x.type)
            /\ SupportedType(x.repo, x.place, x.type)
            /\ SupportedClass(x.repo, x.place, x.type, x.class)}

\* the prediction
Expect(x) == "equal"

VARIABLE done
Init == done = FALSE
Next == ~done /\ done' = TRUE
         /\ \A x \in Cells : PrintT(<<"CASE", ToJson([repo |-> x.repo, place |-> x.place, type |-> x.type, class |-> x.class, expect |-> Expect(x)])>>)
Spec == Init /\ [][Next]_done

\* sanity of the table itself: every type is supported somewhere in both repositories, every class of it in some cell
ASSUME \A r \in Repos, t \in Types : \E x \in Cells : x.repo = r /\ x.type = t
ASSUME \A t \in Types : \A c \in Classes(t) : \E x \in Cells : x.type = t /\ x.class = c
=============================================================================
