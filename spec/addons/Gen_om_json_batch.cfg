\* generation, exhaustive: 3 savers obtain an entity each (key k1|k2, NewEntity|Fetch, pointers nil|set), then ONE SaveMulti of 2 or 3 of them in every order
SPECIFICATION Spec
CONSTANTS
  Repo = "json"
  Savers = {"s1", "s2", "s3"}
  Keys = {"k1", "k2"}
  InitDocs <- InitDocsB
  Exps = {"zero"}
  MaxNow = 1
  MaxBatch = 3
  MaxObtain = 1
  MaxSaves = 1
  MaxVer = 8
  Defect = "none"
  Emit = TRUE
  MaxOps = 4
INVARIANT EmitBatchCase
ACTION_CONSTRAINT BatchShape
CHECK_DEADLOCK FALSE
