\* negative: interface obligation dropped, K = 0 (what the constructors of the pinned commit produce for rates close to 1): false negatives
SPECIFICATION Spec
CONSTANTS
  Kind = "bloom"
  Items = {a, b, c}
  Size = 3
  K = 0
  HSet <- AllHashes
  KeySeqs <- KeySeqs2
  Q <- NoQ
  MaxOps = 0
  Half = 0
  MaxNow = 0
  MaxTotal = 0
  ExpireInclusive = TRUE
  Defect = "none"
  AllowBadConfig = TRUE
  Emit = FALSE
  Faults <- NoFaults
  QS <- NoQ
  Ops <- AllOps
  Big = FALSE
VIEW MCView
INVARIANTS NoFalseNegative
CHECK_DEADLOCK FALSE
