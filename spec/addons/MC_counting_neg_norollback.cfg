\* negative: the remove script does not roll back the partial decrements of a failed item: a failed removal decides the fate of later keys of the call
SPECIFICATION Spec
CONSTANTS
  Kind = "counting"
  Items = {a, b, c}
  Size = 3
  K = 2
  HSet <- AllHashes
  KeySeqs <- KeySeqs2
  Q <- NoQ
  MaxOps = 0
  Half = 0
  MaxNow = 0
  MaxTotal = 3
  ExpireInclusive = TRUE
  Defect = "remove-no-rollback"
  AllowBadConfig = FALSE
  Emit = FALSE
  Faults <- NoFaults
  QS <- NoQ
  Ops <- AllOps
  Big = FALSE
VIEW MCView
INVARIANTS TypeOK
PROPERTIES FailedRemoveChangesNothing
CHECK_DEADLOCK FALSE
