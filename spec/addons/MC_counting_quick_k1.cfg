\* C36 exhaustive: ALL 64 hash functions of 3 items into 4 indexes, K = 1, calls with 1 or 2 keys, at most 3 items held
SPECIFICATION Spec
CONSTANTS
  Kind = "counting"
  Items = {a, b, c}
  Size = 4
  K = 1
  HSet <- AllHashes
  KeySeqs <- KeySeqs2
  Q <- NoQ
  MaxOps = 0
  Half = 0
  MaxNow = 0
  MaxTotal = 3
  ExpireInclusive = TRUE
  Defect = "none"
  AllowBadConfig = FALSE
  Emit = FALSE
  Faults <- AllFaults
  QS <- NoQ
  Ops <- AllOps
  Big = FALSE
VIEW MCView
INVARIANTS TypeOK NoNegativeCounter MinCountAtLeastNet PresentWhileNetPositive AnswersHonourObligations AnswersPerKey
PROPERTIES FailedRemoveChangesNothing AddNilMeansPresent
CHECK_DEADLOCK FALSE
