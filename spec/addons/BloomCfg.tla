------------------------------ MODULE BloomCfg ------------------------------
(***************************************************************************)
(* Configuration sweep of C35/C36/C37.                                     *)
(*   Mode = "grid" : print the grid of configuration classes as CASE lines *)
(*   Mode = "check": read the observations the driver made on the real     *)
(*                   constructors (one JSON object per concrete            *)
(*                   configuration: accepted?, size, k) and print every    *)
(*                   accepted configuration that does not meet the         *)
(*                   obligation Bloom.tla relies on                        *)
(***************************************************************************)
EXTENDS BloomIface, Sequences, TLC, Json, IOUtils

CONSTANTS Kinds, Mode

VARIABLE pos

Grid == {[kind |-> k, ncls |-> n, rcls |-> r] : k \in Kinds, n \in NClasses, r \in RClasses}

Obs == ndJsonDeserialize(IOEnv.VERIF_OBS)

Init ==
  /\ pos = 0
  /\ Mode = "grid" => \A g \in Grid : PrintT(<<"CASE", ToJson(g)>>)

Next ==
  /\ Mode = "check"
  /\ pos < Len(Obs)
  /\ pos' = pos + 1

Spec == Init /\ [][Next]_pos

Unmet(o) == o.accepted /\ ~Obligation(o.k, o.size)

\* never false: it reports instead of stopping, so that one run lists every unmet obligation
Report ==
  (Mode = "check" /\ pos >= 1 /\ Unmet(Obs[pos])) => PrintT(<<"CASE", ToJson(Obs[pos])>>)

Accepted == Mode = "check" => (pos = Len(Obs) => PrintT(<<"CHECKED", Len(Obs)>>))
=============================================================================
