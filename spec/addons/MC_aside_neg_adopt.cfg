SPECIFICATION Spec
CONSTANTS
  Clients = {1, 2}
  Procs = {1, 2, 3}
  ClientOf <- CO_112
  NilProcs = {}
  LoadProcs = {1, 2, 3}
  Keys = {1}
  MaxInc = 2
  MaxLoads = 2
  MaxDel = 0
  MaxLockExpire = 0
  MaxValExpire = 0
  MaxDie = 0
  MaxDisc = 0
  MaxTimeout = 0
  MaxLateRefresh = 0
  MaxLoadFail = 0
  AsyncPush = FALSE
  BugReturnPh = FALSE
  BugNoLiveness = FALSE
  BugDelNoCompare = FALSE
  BugNoAdopt = TRUE
  BugNilFastPath = FALSE
  BugStealPlainDel = FALSE
  Record = FALSE
  GenLen = 30
INVARIANTS LockNamesRefreshedId


CHECK_DEADLOCK FALSE
