-------------------------------- MODULE Lua --------------------------------
(* rueidis.Lua (lua.go): Exec and ExecMulti of one Lua object against one server, one command round trip per action.

   Client state: the constructor (kind = [ro, nosha, retry, load]; load = WithLoadSHA1(true), not offered by the NoSha
   constructors), whether the object knows its SHA-1 (csha: computed at construction unless load; otherwise learnt
   from the first successful SCRIPT LOAD), the position inside the current call (pc).
   Server state: whether the script is in the script cache (cached).  SCRIPT LOAD and EVAL put it there, SCRIPT FLUSH
   (environment action, any time) removes it.
   Environment: per command a fault may be injected: an error reply without execution ("err"), the connection cut
   before the command executes ("cutbefore") or after it executed but before the reply ("execcut").  A script may
   also fail after its side effects ("bodyerr": the body ran, the reply is an error) when the caller's arguments say
   so (failing).  With RetryOn the client re-sends a command after a transport error iff the command is retryable
   (SCRIPT LOAD always, EVAL*/EVALSHA* of retryable scripts, every *_RO command).

   Exec:      [SCRIPT LOAD if load and SHA unknown] -> EVALSHA[_RO] if SHA known and not NoSha
              -> EVAL[_RO] if NoSha or the reply was NOSCRIPT.  The result is the reply to the last command.
   ExecMulti: SCRIPT LOAD (every time, unless NoSha; to every node - one node here) -> one batch of EVALSHA[_RO]
              (or EVAL[_RO] for NoSha), one per LuaExec, no NOSCRIPT fallback; a failed SCRIPT LOAD fails every result.

   `cmds` is the history of the current call, `log` the history of the whole behaviour (generation / replay only). *)
EXTENDS Integers, Sequences, FiniteSets, TLC, Json

CONSTANTS KindNames,     \* subset of the nine constructor names below
          MaxCalls,      \* calls (Exec / ExecMulti) per behaviour
          MaxMulti,      \* LuaExec per ExecMulti
          Modes,         \* subset of {"exec", "multi"}
          Faults,        \* subset of {"err", "cutbefore", "execcut"}
          MaxFaults, MaxFlush,
          FailingOK,     \* TRUE: callers may pass arguments that make the body fail after its side effect
          RetryOn,       \* client retries enabled (ClientOption.DisableRetry = false)
          InitCached,    \* subset of BOOLEAN: script cache state at the start
          BugEvalAfterAnyError, BugEvalshaForNoSha, BugLoadEveryTime, BugRoFallbackRw

KindOf(nm) == CASE nm = "std"        -> [ro |-> FALSE, nosha |-> FALSE, retry |-> FALSE, load |-> FALSE]
                [] nm = "ro"         -> [ro |-> TRUE,  nosha |-> FALSE, retry |-> FALSE, load |-> FALSE]
                [] nm = "nosha"      -> [ro |-> FALSE, nosha |-> TRUE,  retry |-> FALSE, load |-> FALSE]
                [] nm = "ronosha"    -> [ro |-> TRUE,  nosha |-> TRUE,  retry |-> FALSE, load |-> FALSE]
                [] nm = "retry"      -> [ro |-> FALSE, nosha |-> FALSE, retry |-> TRUE,  load |-> FALSE]
                [] nm = "noshartry"  -> [ro |-> FALSE, nosha |-> TRUE,  retry |-> TRUE,  load |-> FALSE]
                [] nm = "stdload"    -> [ro |-> FALSE, nosha |-> FALSE, retry |-> FALSE, load |-> TRUE]
                [] nm = "roload"     -> [ro |-> TRUE,  nosha |-> FALSE, retry |-> FALSE, load |-> TRUE]
                [] nm = "retryload"  -> [ro |-> FALSE, nosha |-> FALSE, retry |-> TRUE,  load |-> TRUE]

VARIABLES kname, csha, cached, loadOK,
          mode, n, failing, pc, j, cmds, res,
          ncalls, nfault, nflush, log

vars == <<kname, csha, cached, loadOK, mode, n, failing, pc, j, cmds, res, ncalls, nfault, nflush, log>>
kind == KindOf(kname)

Transport == {"cutbefore", "execcut"}
IsTransport(o) == o \in Transport
ScriptRetryable == kind.retry \/ kind.ro
ClassOf(o) == IF IsTransport(o) THEN "transport" ELSE o

Init == /\ kname \in KindNames
        /\ csha = (IF KindOf(kname).nosha THEN BugEvalshaForNoSha ELSE ~KindOf(kname).load)
        /\ cached \in InitCached /\ loadOK = FALSE
        /\ mode = "exec" /\ n = 0 /\ failing = {} /\ pc = "idle" /\ j = 0 /\ cmds = <<>> /\ res = <<>>
        /\ ncalls = 0 /\ nfault = 0 /\ nflush = 0
        /\ log = <<[ev |-> "Init", kind |-> kname, cached |-> cached, mode |-> "", n |-> 0, failing |-> {}, c |-> "", i |-> 0,
                    o |-> "", b |-> 0, fault |-> "", res |-> <<>>]>>

Ev(ev) == [ev |-> ev, kind |-> kname, cached |-> cached, mode |-> mode, n |-> n, failing |-> failing, c |-> "", i |-> 0,
           o |-> "", b |-> 0, fault |-> "", res |-> <<>>]

Begin(m, k, F) ==
  /\ pc = "idle" /\ ncalls < MaxCalls /\ m \in Modes
  /\ mode' = m /\ n' = k /\ failing' = F /\ pc' = "start" /\ j' = 0 /\ cmds' = <<>> /\ res' = <<>>
  /\ log' = Append(log, [Ev("Begin") EXCEPT !.mode = m, !.n = k, !.failing = F])
  /\ UNCHANGED <<kname, csha, cached, loadOK, ncalls, nfault, nflush>>

\* SCRIPT FLUSH by somebody else
Flush == /\ nflush < MaxFlush /\ ncalls < MaxCalls /\ pc # "done"
         /\ cached' = FALSE /\ nflush' = nflush + 1
         /\ log' = Append(log, Ev("Flush"))
         /\ UNCHANGED <<kname, csha, loadOK, mode, n, failing, pc, j, cmds, res, ncalls, nfault>>

\* ---------------------------------------------------------------------------------------------- server
EvalName(bysha, rw) == IF bysha THEN (IF rw THEN "EVALSHA" ELSE "EVALSHA_RO") ELSE (IF rw THEN "EVAL" ELSE "EVAL_RO")
BySha(c) == c \in {"EVALSHA", "EVALSHA_RO"}
IsEval(c) == c \in {"EVAL", "EVAL_RO"}

\* the server's reaction to command c for LuaExec i under fault f: [o, b, cached]
React(c, i, f) ==
  IF c = "SCRIPTLOAD" THEN
       CASE f = "none"      -> [o |-> "ok", b |-> 0, cached |-> TRUE]
         [] f = "execcut"   -> [o |-> "execcut", b |-> 0, cached |-> TRUE]
         [] OTHER           -> [o |-> f, b |-> 0, cached |-> cached]
  ELSE LET runs == IsEval(c) \/ cached                       \* would the body run if the command executes
           out  == IF ~runs THEN "noscript" ELSE IF i \in failing THEN "bodyerr" ELSE "ok"
       IN CASE f = "none"    -> [o |-> out, b |-> IF runs THEN 1 ELSE 0, cached |-> cached \/ IsEval(c)]
            [] f = "execcut" -> [o |-> "execcut", b |-> IF runs THEN 1 ELSE 0, cached |-> cached \/ IsEval(c)]
            [] OTHER         -> [o |-> f, b |-> 0, cached |-> cached]

FaultChoices == {"none"} \cup (IF nfault < MaxFaults THEN Faults ELSE {})

\* one command round trip; `after(r)` = the client's reaction to outcome r.o
Send(c, i, f, r) ==
  /\ cached' = r.cached
  /\ nfault' = IF f = "none" THEN nfault ELSE nfault + 1
  \* known = ghost: a SCRIPT LOAD of this object had already succeeded when the command was sent
  /\ cmds' = Append(cmds, [c |-> c, i |-> i, o |-> r.o, b |-> r.b, known |-> loadOK])
  /\ log' = Append(log, [Ev("Cmd") EXCEPT !.c = c, !.i = i, !.o = r.o, !.b = r.b, !.fault = f])

Finish(rs) == res' = rs /\ pc' = "done"

\* ---------------------------------------------------------------------------------------------- Exec
NeedLoad == kind.load /\ (~csha \/ BugLoadEveryTime)
UseSha == (~kind.nosha \/ BugEvalshaForNoSha) /\ csha
\* where the next command of Exec comes from
Phase == IF pc = "start" THEN (IF NeedLoad THEN "load" ELSE IF UseSha THEN "sha" ELSE "eval") ELSE pc

ExecLoad(f) ==
  /\ mode = "exec" /\ pc = "start" /\ Phase = "load"
  /\ LET r == React("SCRIPTLOAD", 0, f) IN
     /\ Send("SCRIPTLOAD", 0, f, r)
     /\ IF r.o = "ok"
          THEN /\ csha' = TRUE /\ loadOK' = TRUE /\ pc' = (IF UseSha \/ ~kind.nosha THEN "sha" ELSE "eval")
               /\ UNCHANGED res
          ELSE IF IsTransport(r.o) /\ RetryOn
                 THEN UNCHANGED <<csha, loadOK, pc, res>>          \* SCRIPT LOAD is always sent as retryable
                 ELSE Finish(<<ClassOf(r.o)>>) /\ UNCHANGED <<csha, loadOK>>
  /\ UNCHANGED <<kname, mode, n, failing, j, ncalls, nflush>>

ExecSha(f) ==
  /\ mode = "exec" /\ Phase = "sha"
  /\ LET c == EvalName(TRUE, ~kind.ro)
         r == React(c, 1, f) IN
     /\ Send(c, 1, f, r)
     /\ IF r.o = "noscript" \/ (BugEvalAfterAnyError /\ r.o # "ok")
          THEN pc' = "eval" /\ UNCHANGED res
          ELSE IF IsTransport(r.o) /\ RetryOn /\ ScriptRetryable
                 THEN pc' = "sha" /\ UNCHANGED res
                 ELSE Finish(<<ClassOf(r.o)>>)
  /\ UNCHANGED <<kname, csha, loadOK, mode, n, failing, j, ncalls, nflush>>

ExecEval(f) ==
  /\ mode = "exec" /\ Phase = "eval"
  /\ LET c == EvalName(FALSE, ~kind.ro \/ BugRoFallbackRw)
         r == React(c, 1, f) IN
     /\ Send(c, 1, f, r)
     /\ IF IsTransport(r.o) /\ RetryOn /\ ScriptRetryable
          THEN pc' = "eval" /\ UNCHANGED res
          ELSE Finish(<<ClassOf(r.o)>>)
  /\ UNCHANGED <<kname, csha, loadOK, mode, n, failing, j, ncalls, nflush>>

\* ---------------------------------------------------------------------------------------------- ExecMulti
MultiLoad(f) ==
  /\ mode = "multi" /\ pc = "start" /\ ~kind.nosha
  /\ LET r == React("SCRIPTLOAD", 0, f) IN
     /\ Send("SCRIPTLOAD", 0, f, r)
     /\ IF r.o = "ok"
          THEN /\ csha' = TRUE /\ loadOK' = (loadOK \/ kind.load) /\ pc' = "batch" /\ j' = 1 /\ UNCHANGED res
          ELSE IF IsTransport(r.o) /\ RetryOn
                 THEN UNCHANGED <<csha, loadOK, pc, j, res>>
                 ELSE Finish([x \in 1..n |-> ClassOf(r.o)]) /\ UNCHANGED <<csha, loadOK, j>>
  /\ UNCHANGED <<kname, mode, n, failing, ncalls, nflush>>

MultiSkipLoad == /\ mode = "multi" /\ pc = "start" /\ kind.nosha
                 /\ pc' = "batch" /\ j' = 1
                 /\ UNCHANGED <<kname, csha, cached, loadOK, mode, n, failing, cmds, res, ncalls, nfault, nflush, log>>

\* the batch is sent at once; the server takes its commands one by one (only error replies are injected here)
MultiCmd(f) ==
  /\ mode = "multi" /\ pc = "batch" /\ j <= n /\ f \in {"none", "err"}
  /\ LET c == EvalName(UseSha, ~kind.ro)
         r == React(c, j, f) IN
     /\ Send(c, j, f, r)
     /\ res' = Append(res, ClassOf(r.o))
     /\ j' = j + 1 /\ pc' = (IF j = n THEN "done" ELSE "batch")
  /\ UNCHANGED <<kname, csha, loadOK, mode, n, failing, ncalls, nflush>>

End == /\ pc = "done" /\ pc' = "idle" /\ ncalls' = ncalls + 1
       /\ log' = Append(log, [Ev("End") EXCEPT !.res = res])
       /\ UNCHANGED <<kname, csha, cached, loadOK, mode, n, failing, j, cmds, res, nfault, nflush>>

FailSets(k) == IF FailingOK THEN {{}, {1}} \cup (IF k > 1 THEN {{k}} ELSE {}) ELSE {{}}

Next == \/ \E F \in FailSets(1) : Begin("exec", 1, F)
        \/ \E k \in 1..MaxMulti : \E F \in FailSets(k) : Begin("multi", k, F)
        \/ Flush
        \/ \E f \in FaultChoices : ExecLoad(f) \/ ExecSha(f) \/ ExecEval(f) \/ MultiLoad(f) \/ MultiCmd(f)
        \/ MultiSkipLoad
        \/ End

Spec == Init /\ [][Next]_vars

\* ---------------------------------------------------------------------------------------------- properties
Idx == 1..Len(cmds)
Bodies(i) == LET RECURSIVE Sum(_)
                 Sum(k) == IF k = 0 THEN 0 ELSE Sum(k - 1) + (IF cmds[k].i = i THEN cmds[k].b ELSE 0)
             IN Sum(Len(cmds))
\* the user accepted repetition: retryable script (or read-only command) re-sent after a transport error
RepeatAccepted == RetryOn /\ ScriptRetryable /\ \E k \in Idx : cmds[k].o = "execcut"

\* the body of the script runs at most once for every Exec / every LuaExec
BodyAtMostOncePerExec == RepeatAccepted \/ \A i \in 1..n : Bodies(i) <= 1
\* EVAL is only sent by NoSha scripts, or right after EVALSHA was answered with NOSCRIPT
EvalOnlyAfterNoScript ==
  \A k \in Idx : (IsEval(cmds[k].c) /\ ~kind.nosha) =>
       \/ (k > 1 /\ BySha(cmds[k - 1].c) /\ cmds[k - 1].o = "noscript")
       \/ (k > 1 /\ IsEval(cmds[k - 1].c) /\ IsTransport(cmds[k - 1].o) /\ RetryOn /\ ScriptRetryable)   \* re-sent EVAL
NoShaNeverEvalsha == kind.nosha => \A k \in Idx : ~BySha(cmds[k].c) /\ cmds[k].c # "SCRIPTLOAD"
ReadOnlyOnlyRo == \A k \in Idx : cmds[k].c # "SCRIPTLOAD" => (cmds[k].c \in {"EVALSHA_RO", "EVAL_RO"}) = kind.ro
\* Exec asks for the SHA only while no SCRIPT LOAD of this object has succeeded - in this call or an earlier one
LoadUntilFirstSuccess ==
  mode = "exec" => \A k \in Idx : cmds[k].c = "SCRIPTLOAD" =>
       /\ kind.load /\ ~cmds[k].known
       /\ \A m \in 1..(k - 1) : cmds[m].c = "SCRIPTLOAD" /\ cmds[m].o # "ok"    \* only re-sent after failures
LoadOnlyWhenUnknown == (mode = "exec" /\ pc \in {"sha", "eval", "done"} /\ \E k \in Idx : cmds[k].c = "SCRIPTLOAD") => kind.load
\* results are positional: result i is the reply to the command built from LuaExec i, commands go out in order
ExecMultiPositional ==
  (mode = "multi" /\ pc = "done" /\ \E k \in Idx : cmds[k].i > 0) =>
     /\ Len(res) = n
     /\ LET ev == SelectSeq(cmds, LAMBDA x : x.i > 0) IN
          /\ Len(ev) = n /\ \A i \in 1..n : ev[i].i = i /\ res[i] = ClassOf(ev[i].o)
\* the result of Exec is the reply to the last command it sent
ResultIsLast == (mode = "exec" /\ pc = "done") => (cmds # <<>> /\ res = <<ClassOf(cmds[Len(cmds)].o)>>)
\* a command is re-sent after a transport error only if it is retryable
ResendOnlyRetryable ==
  \A k \in Idx : (k > 1 /\ cmds[k].c = cmds[k - 1].c /\ cmds[k].i = cmds[k - 1].i /\ IsTransport(cmds[k - 1].o)) =>
       (RetryOn /\ (cmds[k].c = "SCRIPTLOAD" \/ ScriptRetryable))

TypeOK == /\ pc \in {"idle", "start", "sha", "eval", "batch", "done"} /\ csha \in BOOLEAN /\ cached \in BOOLEAN
          /\ Len(cmds) <= 3 + MaxMulti + MaxFaults /\ ncalls \in 0..MaxCalls

Props == /\ BodyAtMostOncePerExec /\ EvalOnlyAfterNoScript /\ NoShaNeverEvalsha /\ ReadOnlyOnlyRo
         /\ LoadUntilFirstSuccess /\ LoadOnlyWhenUnknown /\ ExecMultiPositional /\ ResultIsLast /\ ResendOnlyRetryable

\* ---------------------------------------------------------------------------------------------- generation
McView == <<kname, csha, cached, loadOK, mode, n, failing, pc, j, cmds, res, ncalls, nfault, nflush>>
Emit == (pc = "idle" /\ ncalls = MaxCalls) => PrintT(<<"CASE", ToJson([kind |-> kname, retry |-> RetryOn, log |-> log])>>)
=============================================================================
