\* generation, simulation: re-fetch and retry (2 obtains, 3 saves per saver), 12 steps
SPECIFICATION Spec
CONSTANTS
  Repo = "hash"
  Savers = {"s1", "s2", "s3"}
  InitDocs <- InitDocs3
  Keys = {"k1"}
  Exps = {"zero"}
  MaxNow = 1
  MaxBatch = 0
  MaxObtain = 2
  MaxSaves = 3
  MaxVer = 12
  Defect = "none"
  Emit = TRUE
  MaxOps = 12
INVARIANT EmitCase
CHECK_DEADLOCK FALSE
