\* generation, exhaustive: 2 savers, 1 key, pointers set, exat zero|past|future, single saves and clock ticks, 5 steps
SPECIFICATION Spec
CONSTANTS
  Repo = "json"
  Savers = {"s1", "s2"}
  Keys = {"k1"}
  InitDocs <- InitDocs1
  Exps = {"zero", "past", "future"}
  MaxNow = 3
  MaxBatch = 0
  MaxObtain = 1
  MaxSaves = 1
  MaxVer = 8
  Defect = "none"
  Emit = TRUE
  MaxOps = 5
INVARIANT EmitExpCase
ACTION_CONSTRAINT ExpShape
CHECK_DEADLOCK FALSE
