------------------------------ MODULE TxPipe ------------------------------
(* rueidiscompat Pipeline / TxPipeline (rueidiscompat/pipeline.go, tx.go) against a small Redis.

   Two layers:
   * the server: a store with three keys and the reply of each command (Apply), MULTI/EXEC with queue-time
     errors (EXECABORT), WATCH aborts (nil EXEC) and run-time error elements that do not roll anything back;
   * the adapter: the queue q filled by the command-capture proxy, Discard, and Exec, which for a Pipeline sends q
     as one batch and maps reply i to Cmder i, and for a TxPipeline sends MULTI, q, EXEC as one batch, maps
     element i of the EXEC array to Cmder i, reports TxFailedErr for a nil EXEC and otherwise the first error in
     queue order.  Cmders of commands that were never answered keep the error they were created with ("notexec").

   A program is a sequence of Queue / Discard / Exec operations on one pipeline object, optionally inside
   Compat.Watch with another client writing the watched key before EXEC.  Every operation is recorded in `prog`
   together with the outcome predicted here (wire batch, per-Cmder value and error class, Exec error class, store,
   Len()).  The real adapter over the fake server is compared with these predictions.

   Commands (key ks holds a non-numeric string, kn a counter, km is never written):
     SETs  = SET ks v<i>      GETs = GET ks      GETm = GET km (nil)     INCRn = INCR kn
     INCRs = INCR ks (error element)     DOinc = Do("INCRBY","kn","10")     DObad = Do("NOSUCHCMD","ks")        *)
EXTENDS Integers, Sequences, FiniteSets, TLC, Json

CONSTANTS Cmds,          \* subset of the command names above
          Kinds,         \* subset of {"pipe", "tx", "txwatch", "txconflict", "txstale"}; "txstale" = "txwatch" preceded on the
                         \* same adapter by a Watch(fn) whose fn sent no EXEC and by a write to the key it watched
          Apis,          \* subset of {"exec", "fn", "oexec", "ofn"}: Exec called explicitly / through Pipelined(fn); "o..." = the
                         \* same through the secondary entry points of an explicit pipeline OBJECT (p := TxPipeline(); p.TxPipelined(fn)
                         \* resp. p.TxPipeline() then Exec; Pipelined / Pipeline() for a plain pipeline): a pipeline object keeps its
                         \* kind whatever entry point runs it, so the behaviour is that of "fn" / "exec"
          MaxQueued,     \* total number of Queue operations
          MaxExecs, MaxDiscards,
          BugMultiAfter, \* MULTI appended after the queue instead of moved to the front
          BugShift,      \* EXEC element i mapped to Cmder i-1
          BugNoTxFailed, \* nil EXEC not reported
          BugDiscardKeeps, \* Discard forgets the Cmders but not the commands
          BugWatchLeaks  \* a WATCH that was not consumed by an EXEC outlives Watch() on the pooled connection

VARIABLES kind, api, q, store, nq, nex, ndis, conflicted, last, prog

vars == <<kind, api, q, store, nq, nex, ndis, conflicted, last, prog>>

Store0 == [ks |-> "abc", kn |-> 0]     \* kn = 0 stands for "absent": INCR then yields 1 as on a missing key

\* ---------------------------------------------------------------------------------------------- server
Rep(t, s, n) == [t |-> t, s |-> s, n |-> n]
ROk == Rep("ok", "OK", 0)
RNil == Rep("nil", "", 0)
RErr(c) == Rep("err", c, 0)

Argv(c) == CASE c.c = "SETs" -> <<"SET", "ks", c.v>>
             [] c.c = "GETs" -> <<"GET", "ks">>
             [] c.c = "GETm" -> <<"GET", "km">>
             [] c.c = "INCRn" -> <<"INCR", "kn">>
             [] c.c = "INCRs" -> <<"INCR", "ks">>
             [] c.c = "DOinc" -> <<"INCRBY", "kn", "10">>
             [] c.c = "DObad" -> <<"NOSUCHCMD", "ks">>

\* Apply(st, c) = <<store after, reply>>
Apply(st, c) ==
  CASE c.c = "SETs"  -> <<[st EXCEPT !.ks = c.v], ROk>>
    [] c.c = "GETs"  -> <<st, Rep("str", st.ks, 0)>>
    [] c.c = "GETm"  -> <<st, RNil>>
    [] c.c = "INCRn" -> <<[st EXCEPT !.kn = @ + 1], Rep("int", "", st.kn + 1)>>
    [] c.c = "INCRs" -> <<st, RErr("notint")>>
    [] c.c = "DOinc" -> <<[st EXCEPT !.kn = @ + 10], Rep("int", "", st.kn + 10)>>
    [] c.c = "DObad" -> <<st, RErr("unknown")>>

RECURSIVE RunAll(_, _)
\* <<store after, replies>> of executing the commands one after the other
RunAll(st, cs) == IF cs = <<>> THEN <<st, <<>>>>
                  ELSE LET a == Apply(st, Head(cs))
                           r == RunAll(a[1], Tail(cs))
                       IN <<r[1], <<a[2]>> \o r[2]>>

HasBad(cs) == \E i \in 1..Len(cs) : cs[i].c = "DObad"

\* the server's answer to MULTI cs EXEC: <<store after, reply of EXEC>>, the reply being
\* [t |-> "array", elems], [t |-> "nil"] or [t |-> "err"]
ServerTx(st, cs, aborted) ==
  IF HasBad(cs) THEN <<st, [t |-> "err", c |-> "execabort", elems |-> <<>>]>>
  ELSE IF aborted THEN <<st, [t |-> "nil", c |-> "", elems |-> <<>>]>>
  ELSE LET r == RunAll(st, cs) IN <<r[1], [t |-> "array", c |-> "", elems |-> r[2]]>>

\* ---------------------------------------------------------------------------------------------- adapter
\* what a Cmder shows: value (as text), error class
CmdOf(r) == CASE r.t = "ok"  -> [val |-> "OK", err |-> ""]
              [] r.t = "str" -> [val |-> r.s, err |-> ""]
              [] r.t = "int" -> [val |-> ToString(r.n), err |-> ""]
              [] r.t = "nil" -> [val |-> "", err |-> "nil"]
              [] r.t = "err" -> [val |-> "", err |-> r.s]
NotExec == [val |-> "", err |-> "notexec"]

FirstErr(cs) == IF \E i \in 1..Len(cs) : cs[i].err # ""
                THEN cs[CHOOSE i \in 1..Len(cs) : cs[i].err # "" /\ \A j \in 1..(i - 1) : cs[j].err = ""].err
                ELSE ""

Multi == <<"MULTI">>
ExecC == <<"EXEC">>
ArgvAll(cs) == [i \in 1..Len(cs) |-> Argv(cs[i])]

IsTx == kind # "pipe"

\* outcome of Exec with queue cs: [wire, rets, err, store]
ExecOutcome(cs) ==
  IF cs = <<>> THEN [wire |-> <<>>, rets |-> <<>>, err |-> "", store |-> store, sent |-> FALSE]
  ELSE IF ~IsTx
    THEN LET r == RunAll(store, cs)
             rets == [i \in 1..Len(cs) |-> CmdOf(r[2][i])]
         IN [wire |-> ArgvAll(cs), rets |-> rets, err |-> FirstErr(rets), store |-> r[1], sent |-> TRUE]
    ELSE LET wire == IF BugMultiAfter THEN ArgvAll(cs) \o <<Multi, ExecC>> ELSE <<Multi>> \o ArgvAll(cs) \o <<ExecC>>
             \* with MULTI in the wrong place the commands run outside the transaction; the model only needs the wire
             s == ServerTx(store, cs, conflicted)
             ex == s[2]
             elem(i) == IF BugShift THEN (IF i = 1 THEN NotExec ELSE CmdOf(ex.elems[i - 1])) ELSE CmdOf(ex.elems[i])
             rets == IF ex.t = "array" THEN [i \in 1..Len(cs) |-> elem(i)] ELSE [i \in 1..Len(cs) |-> NotExec]
             err == CASE ex.t = "nil" -> IF BugNoTxFailed THEN "" ELSE "txfailed"
                      [] ex.t = "err" -> ex.c
                      [] OTHER -> FirstErr(rets)
         IN [wire |-> wire, rets |-> rets, err |-> err, store |-> s[1], sent |-> TRUE]

\* ---------------------------------------------------------------------------------------------- program steps
NoOutcome == [op |-> "none", c |-> "", v |-> "", len |-> 0, wire |-> <<>>, rets |-> <<>>, err |-> "", sent |-> FALSE,
              ks |-> "", kn |-> 0]

Init == /\ kind \in Kinds /\ api \in Apis /\ q = <<>> /\ store = Store0 /\ nq = 0 /\ nex = 0 /\ ndis = 0
        /\ conflicted = FALSE /\ last = NoOutcome /\ prog = <<>>

Record(o) == last' = o /\ prog' = Append(prog, o)
Done == (api \in {"fn", "ofn"} /\ nex = 1) \/ nex = MaxExecs

\* another client writes the watched key after WATCH and before EXEC (kind "txconflict": exactly once, first)
Conflict == /\ kind = "txconflict" /\ ~conflicted /\ prog = <<>>
            /\ conflicted' = TRUE /\ store' = [store EXCEPT !.ks = "other"]
            /\ Record([NoOutcome EXCEPT !.op = "Conflict", !.ks = "other", !.kn = store.kn])
            /\ UNCHANGED <<kind, api, q, nq, nex, ndis>>

\* an earlier Watch(fn) returned without EXEC, then another client wrote the key it had watched (kind "txstale":
\* exactly once, first).  WATCH belongs to that Watch() call: it must not abort a later transaction.
Stale == /\ kind = "txstale" /\ prog = <<>>
         /\ conflicted' = BugWatchLeaks /\ store' = [store EXCEPT !.ks = "stale"]
         /\ Record([NoOutcome EXCEPT !.op = "Stale", !.ks = "stale", !.kn = store.kn])
         /\ UNCHANGED <<kind, api, q, nq, nex, ndis>>

Ready == (kind = "txconflict" => conflicted) /\ (kind = "txstale" => prog # <<>>)

Queue(c) == /\ Ready /\ ~Done /\ nq < MaxQueued
            /\ LET cmd == [c |-> c, v |-> "v" \o ToString(nq + 1)]
               IN /\ q' = Append(q, cmd)
                  /\ Record([NoOutcome EXCEPT !.op = "Queue", !.c = c, !.v = cmd.v, !.len = Len(q) + 1,
                                               !.ks = store.ks, !.kn = store.kn])
            /\ nq' = nq + 1 /\ UNCHANGED <<kind, api, store, nex, ndis, conflicted>>

Discard == /\ Ready /\ ~Done /\ ndis < MaxDiscards
           /\ q' = IF BugDiscardKeeps THEN q ELSE <<>>
           /\ Record([NoOutcome EXCEPT !.op = "Discard", !.len = Len(q'), !.ks = store.ks, !.kn = store.kn])
           /\ ndis' = ndis + 1 /\ UNCHANGED <<kind, api, store, nq, nex, conflicted>>

Exec == /\ Ready /\ ~Done
        /\ LET o == ExecOutcome(q)
           IN /\ store' = o.store
              /\ Record([NoOutcome EXCEPT !.op = "Exec", !.wire = o.wire, !.rets = o.rets, !.err = o.err, !.sent = o.sent,
                                           !.ks = o.store.ks, !.kn = o.store.kn])
        /\ q' = <<>> /\ nex' = nex + 1
        \* a WATCH is consumed by the first EXEC that reaches the server
        /\ conflicted' = (IF q # <<>> THEN FALSE ELSE conflicted)
        /\ UNCHANGED <<kind, api, nq, ndis>>

Next == Conflict \/ Stale \/ (\E c \in Cmds : Queue(c)) \/ Discard \/ Exec
Spec == Init /\ [][Next]_vars

\* ---------------------------------------------------------------------------------------------- properties
\* (evaluated on the last Exec; `pre` = the queue and store that Exec saw are reconstructed from prog)
RECURSIVE QueueBefore(_, _)
\* the commands queued and not discarded before position n of prog (n is the position of an Exec)
QueueBefore(p, n) == IF n = 0 THEN <<>>
                     ELSE LET o == p[n] IN
                          CASE o.op = "Queue" -> Append(QueueBefore(p, n - 1), [c |-> o.c, v |-> o.v])
                            [] o.op = "Discard" -> <<>>
                            [] o.op = "Exec" -> <<>>
                            [] OTHER -> QueueBefore(p, n - 1)

LastIsExec == last.op = "Exec"
Pre == QueueBefore(prog, Len(prog) - 1)
PreStore == IF Len(prog) = 1 THEN Store0 ELSE [ks |-> prog[Len(prog) - 1].ks, kn |-> prog[Len(prog) - 1].kn]

\* Discard drops every queued command; nothing but the commands queued since is ever sent
DiscardDrops == LastIsExec =>
   /\ (Pre = <<>> => ~last.sent /\ last.wire = <<>>)
   /\ Len(last.rets) = Len(Pre)
\* a transaction goes out as MULTI, the queue in order, EXEC; a pipeline as the queue in order
WireExact == (LastIsExec /\ Pre # <<>>) =>
   last.wire = (IF IsTx THEN <<Multi>> \o ArgvAll(Pre) \o <<ExecC>> ELSE ArgvAll(Pre))
\* Cmder i shows the reply the server gave to queued command i
Positional == (LastIsExec /\ Pre # <<>> /\ last.err \notin {"txfailed", "execabort"}) =>
   LET r == RunAll(PreStore, Pre) IN \A i \in 1..Len(Pre) : last.rets[i] = CmdOf(r[2][i])
FirstError == (LastIsExec /\ last.err \notin {"txfailed", "execabort"}) => last.err = FirstErr(last.rets)
\* a WATCH abort is reported as TxFailedErr, nothing took effect, no Cmder carries a server value
\* (what error an unanswered Cmder shows is not part of the property: Cmders of typed commands keep
\* "the pipeline has not been executed", the Cmd of a custom Do keeps a nil error)
TxFailedReported ==
   (LastIsExec /\ Pre # <<>> /\ kind = "txconflict" /\ ~HasBad(Pre)
       /\ ~\E i \in 1..(Len(prog) - 1) : prog[i].op = "Exec" /\ prog[i].sent) =>
     /\ last.err = "txfailed" /\ last.ks = PreStore.ks /\ last.kn = PreStore.kn
     /\ \A i \in 1..Len(last.rets) : last.rets[i].val = ""
\* only a write between this Watch()'s WATCH and its EXEC aborts the transaction
NoSpuriousAbort == (LastIsExec /\ kind \in {"tx", "txwatch", "txstale"}) => last.err # "txfailed"
\* transactions are all-or-nothing with respect to queue-time errors
AbortIsClean == (LastIsExec /\ last.err = "execabort") => (last.ks = PreStore.ks /\ last.kn = PreStore.kn)
LenExact == last.op \in {"Queue", "Discard"} => last.len = Len(q)

TypeOK == nq \in 0..MaxQueued /\ nex \in 0..MaxExecs /\ ndis \in 0..MaxDiscards /\ Len(q) <= MaxQueued

\* ---------------------------------------------------------------------------------------------- generation
Emit == Done => PrintT(<<"CASE", ToJson([kind |-> kind, api |-> api, ops |-> prog])>>)
=============================================================================
