SPECIFICATION Spec
CONSTANTS
  Clients = {1, 2, 3}
  Procs = {1, 2, 3, 4}
  ClientOf <- CO_1223
  NilProcs = {3, 4}
  LoadProcs = {1, 2, 3, 4}
  Keys = {1, 2}
  MaxInc = 3
  MaxLoads = 3
  MaxDel = 1
  MaxLockExpire = 1
  MaxValExpire = 1
  MaxDie = 1
  MaxDisc = 1
  MaxTimeout = 1
  MaxLateRefresh = 1
  MaxLoadFail = 1
  AsyncPush = FALSE
  BugReturnPh = FALSE
  BugNoLiveness = FALSE
  BugDelNoCompare = FALSE
  BugNoAdopt = FALSE
  BugNilFastPath = FALSE
  BugStealPlainDel = FALSE
  Record = TRUE
  GenLen = 30
INVARIANTS GenEmit

CONSTRAINT GenStop
CHECK_DEADLOCK FALSE
