SPECIFICATION Spec
CONSTANTS
  Clients = {1, 2, 3}
  Keys = {1, 2}
  MaxInc = 2
  MaxLoads = 3
  MaxDel = 1
  MaxLockExpire = 1
  MaxValExpire = 1
  MaxDie = 1
  MaxDisc = 1
  MaxTimeout = 1
  MaxLateRefresh = 1
  MaxLoadFail = 1
  AsyncPush = FALSE
  BugReturnPh = FALSE
  BugNoLiveness = FALSE
  BugDelNoCompare = FALSE
  Record = TRUE
  GenLen = 30
INVARIANTS GenEmit

CONSTRAINT GenStop
CHECK_DEADLOCK FALSE
