SPECIFICATION Spec
CONSTANTS
  Procs = {1, 2}
  ClientOf <- C12
  ModeOf <- MWT
  K = 3
  Maj = 2
  MaxCalls = 1
  MaxIoErr = 0
  MaxAcqErr = 0
  MaxExtDel = 1
  MaxExpire = 0
  MaxDisc = 0
  MaxSrcCancel = 0
  NoLoop = TRUE
  AsyncPush = FALSE
  FixCancelFirst = TRUE
  FixRetryTimer = TRUE
  FixLocalHandoff = TRUE
  BugExtendNoToken = TRUE
  BugThreshold = FALSE
  BugIgnoreInval = FALSE
  BugLostByCause = FALSE
  BugNilNoGate = FALSE
  DiscParkedOnly = FALSE
  Record = FALSE
  GenLen = 0
INVARIANTS ExtendsOwnKeyOnly


CHECK_DEADLOCK FALSE
