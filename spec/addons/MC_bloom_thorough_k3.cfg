\* C35 exhaustive: ALL 729 hash functions of 2 items into 3 indexes, K = 3, calls with 1..3 keys
SPECIFICATION Spec
CONSTANTS
  Kind = "bloom"
  Items = {a, b}
  Size = 3
  K = 3
  HSet <- AllHashes
  KeySeqs <- KeySeqs3
  Q <- NoQ
  MaxOps = 0
  Half = 0
  MaxNow = 0
  MaxTotal = 0
  ExpireInclusive = TRUE
  Defect = "none"
  AllowBadConfig = FALSE
  Emit = FALSE
  Faults <- NoFaults
  QS <- NoQ
  Ops <- AllOps
  Big = FALSE
VIEW MCView
INVARIANTS TypeOK NoFalseNegative AnswersHonourObligations AnswersPerKey
PROPERTIES CountMonotone AddNilMeansPresent
CHECK_DEADLOCK FALSE
