SPECIFICATION Spec
CONSTANTS
  V = 12
  I = 3
  MaxRtt = 2
  MaxSlack = 1
  MaxCsc = 1
  MaxNow = 60
  BugAdditive = FALSE
  BugStale = TRUE
  BugShort = FALSE
INVARIANTS KeyAliveWhileExtending
CHECK_DEADLOCK FALSE
