SPECIFICATION Spec
CONSTANTS
  Cmds = {"SETs", "GETs", "GETm", "INCRn", "INCRs", "DOinc", "DObad"}
  Kinds = {"pipe", "tx", "txwatch", "txconflict", "txstale"}
  Apis = {"exec", "fn"}
  MaxQueued = 2
  MaxExecs = 2
  MaxDiscards = 1
  BugMultiAfter = FALSE
  BugShift = FALSE
  BugNoTxFailed = FALSE
  BugDiscardKeeps = TRUE
  BugWatchLeaks = FALSE
INVARIANTS DiscardDrops
CHECK_DEADLOCK FALSE
