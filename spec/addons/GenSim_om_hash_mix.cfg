\* generation, simulation: everything together (2 keys, 3 savers, re-fetch and retry, Save and SaveMulti, expiry, clock), 12 steps
SPECIFICATION Spec
CONSTANTS
  Repo = "hash"
  Savers = {"s1", "s2", "s3"}
  Keys = {"k1", "k2"}
  InitDocs <- InitDocs3
  Exps = {"zero", "past", "future"}
  MaxNow = 4
  MaxBatch = 3
  MaxObtain = 2
  MaxSaves = 3
  MaxVer = 12
  Defect = "none"
  Emit = TRUE
  MaxOps = 12
INVARIANT EmitCase
CHECK_DEADLOCK FALSE
