SPECIFICATION Spec
CONSTANTS
  KindNames = {"std", "ro", "nosha", "ronosha", "retry", "noshartry", "stdload", "roload", "retryload"}
  MaxCalls = 2
  MaxMulti = 2
  Modes = {"exec", "multi"}
  Faults = {"err", "cutbefore", "execcut"}
  MaxFaults = 1
  MaxFlush = 1
  FailingOK = TRUE
  RetryOn = FALSE
  InitCached = {TRUE, FALSE}
  BugEvalAfterAnyError = FALSE
  BugEvalshaForNoSha = FALSE
  BugLoadEveryTime = FALSE
  BugRoFallbackRw = TRUE
INVARIANTS ReadOnlyOnlyRo
VIEW McView
CHECK_DEADLOCK FALSE
