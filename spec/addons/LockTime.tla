------------------------------ MODULE LockTime ------------------------------
(* The time side of C34 ("holders keep extending in time"): one key of a held lock, the monitoring loop of lock.go
   with a discrete clock shared by client and server.

     Init        the key was acquired at time 0 with expiry V; the monitoring goroutine arms its timer
     TimerSend   case <-timer.C: deadline = now + V ; extend script sent          (fires in [armedAt+I, armedAt+I+MaxSlack])
     CscSend     case <-csc: the extend script is sent with the *old* deadline    (at most MaxCsc invalidations)
     Exec        the script runs on the server: if the key is still there its expiry becomes the argument
                 (PEXPIREAT with a time that is over deletes it), else it answers 0 -> the loop ends
     Recv        the reply arrives; after a timer extend the timer is re-armed (timer.Reset(interval))
     Tick        time passes; a round trip takes at most MaxRtt, a due timer fires within MaxSlack

   Switches (negative configurations): BugAdditive  deadline = deadline + I   (one interval more per tick)
                                       BugStale     the timer extend re-sends the old deadline
                                       BugShort     deadline = now + I        (interval instead of validity)     *)
EXTENDS Integers, TLC, LockTimeRule

CONSTANTS V, I, MaxRtt, MaxSlack, MaxCsc, MaxNow, BugAdditive, BugStale, BugShort

VARIABLES now, pc, dl, exp, armedAt, sentAt, x, kind,
          lastExec, lastX,   \* server side: when the previous fresh script of the key executed, the previous argument
          ruleOK,            \* every script so far satisfied LockTimeRule at the server
          cscs
tvars == <<now, pc, dl, exp, armedAt, sentAt, x, kind, lastExec, lastX, ruleOK, cscs>>

Present == now < exp

Init == /\ now = 0 /\ pc = "wait" /\ dl = V /\ exp = V /\ armedAt = 0 /\ sentAt = 0 /\ x = V /\ kind = "acq"
        /\ lastExec = 0 /\ lastX = V /\ ruleOK = AcquireOK(V, 0, 0, V, 0) /\ cscs = 0

TimerSend == /\ pc = "wait" /\ now >= armedAt + I
             /\ x' = IF BugAdditive THEN dl + I ELSE IF BugStale THEN dl ELSE IF BugShort THEN now + I ELSE now + V
             /\ dl' = x' /\ sentAt' = now /\ kind' = "timer" /\ pc' = "flight"
             /\ UNCHANGED <<now, exp, armedAt, lastExec, lastX, ruleOK, cscs>>
CscSend == /\ pc = "wait" /\ cscs < MaxCsc /\ cscs' = cscs + 1
           /\ x' = dl /\ sentAt' = now /\ kind' = "csc" /\ pc' = "flight"
           /\ UNCHANGED <<now, dl, exp, armedAt, lastExec, lastX, ruleOK>>
Exec == /\ pc = "flight" /\ lastX' = x
        /\ ruleOK' = (ruleOK /\ IF kind = "timer" THEN FreshOK(x, lastExec, now, I, V, 0) ELSE RepeatOK(x, lastX, TRUE))
        /\ IF Present THEN /\ exp' = x /\ pc' = "reply"
                           /\ lastExec' = IF kind = "timer" THEN now ELSE lastExec
                      ELSE /\ pc' = "lost" /\ UNCHANGED <<exp, lastExec>>
        /\ UNCHANGED <<now, dl, armedAt, sentAt, x, kind, cscs>>
Recv == /\ pc = "reply" /\ pc' = "wait"
        /\ armedAt' = IF kind = "timer" THEN now ELSE armedAt
        /\ UNCHANGED <<now, dl, exp, sentAt, x, kind, lastExec, lastX, ruleOK, cscs>>
Tick == /\ now < MaxNow
        /\ pc = "wait" => now < armedAt + I + MaxSlack
        /\ pc \in {"flight", "reply"} => now < sentAt + MaxRtt
        /\ now' = now + 1
        /\ UNCHANGED <<pc, dl, exp, armedAt, sentAt, x, kind, lastExec, lastX, ruleOK, cscs>>

Next == TimerSend \/ CscSend \/ Exec \/ Recv \/ Tick
Spec == Init /\ [][Next]_tvars

TypeOK == /\ now \in 0..MaxNow /\ pc \in {"wait", "flight", "reply", "lost"} /\ kind \in {"acq", "timer", "csc"}
\* a holder whose round trips stay within MaxRtt (I + MaxSlack + MaxRtt * (2 + MaxCsc) <= V) never sees its key expire
KeyAliveWhileExtending == pc # "lost" /\ Present
\* the expiry of every timer extend, relative to the time it is sent
FreshExpiry == (pc = "flight" /\ kind = "timer") => x >= sentAt + V
\* what the server can check without knowing the send time (LockTrace.tla: ExtendsInTime) follows from the protocol
ServerRule == ruleOK
\* armedAt >= lastExec: the timer is armed after the reply of the script that executed at lastExec
ArmedAfterExec == pc = "wait" => armedAt >= lastExec
=============================================================================
