SPECIFICATION Spec
CONSTANTS
  NodeIds = {1}
  MaxDepth = 2
  MaxDed = 1
  MaxOps = 3
  MaxCalls = 2
  FwdModes = {TRUE, FALSE}
  BugBypass <- BypassNone
  BugRewrap = FALSE
  Layers = {2}
  CtxStates = {"live", "cancelled", "expired"}
  BugStackCollapse = FALSE
  BugCtxOverride = FALSE
INVARIANTS Emit
CHECK_DEADLOCK FALSE
