SPECIFICATION TraceSpec
CONSTANTS
  K = 3
  Maj = 2
  PromptMs = 2500
  KnownMs = 1500
  KnownBeats = 20
  ValidityMs = 400
  IntervalMs = 100
  EpsMs = 3
CONSTRAINT HighWater
POSTCONDITION TraceAccepted
CHECK_DEADLOCK FALSE
