SPECIFICATION TraceSpec
CONSTANTS
  K = 3
  Maj = 2
  PromptMs = 2500
CONSTRAINT HighWater
POSTCONDITION TraceAccepted
CHECK_DEADLOCK FALSE
