SPECIFICATION Spec
CONSTANTS
  KindNames = {"std", "ro", "nosha", "ronosha", "retry", "noshartry", "stdload", "roload", "retryload"}
  MaxCalls = 2
  MaxMulti = 2
  Modes = {"exec", "multi"}
  Faults = {}
  MaxFaults = 1
  MaxFlush = 1
  FailingOK = FALSE
  RetryOn = FALSE
  InitCached = {TRUE, FALSE}
  BugEvalAfterAnyError = FALSE
  BugEvalshaForNoSha = FALSE
  BugLoadEveryTime = FALSE
  BugRoFallbackRw = FALSE
INVARIANTS Emit
CHECK_DEADLOCK FALSE
