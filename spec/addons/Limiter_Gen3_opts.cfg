SPECIFICATION GSpec
CONSTANTS
  Callers = {1, 2}
  Ids = {1}
  Limit = 3
  W = 2
  OptLists <- OL_Gen
  Slack = 2
  Ns = {0, 1, 2, 4}
  Jumps = {1, 2, 3, 5}
  MaxClock = 16
  MaxCalls = 3
  MaxStale = 3
  MaxAdv = 2
  BugIncrBeforeReset = FALSE
  BugAllowOneMore = FALSE
  BugNoZeroOnReset = FALSE
  BugVerdictFromDefault = FALSE
  BugRemainingFromDefault = FALSE
  BugWindowFromDefault = FALSE
  BugFirstOptionWins = FALSE
INVARIANTS Emit
CHECK_DEADLOCK FALSE
