\* negative: SaveMulti converts all entities of a batch into one field map that is never cleared (nil pointer fields inherit an earlier entity's value)
SPECIFICATION Spec
CONSTANTS
  Repo = "hash"
  Savers = {"s1", "s2", "s3"}
  Keys = {"k1", "k2"}
  InitDocs <- InitDocsB
  Exps = {"zero"}
  MaxNow = 1
  MaxBatch = 3
  MaxObtain = 1
  MaxSaves = 1
  MaxVer = 6
  Defect = "batch-shares-fieldmap"
  Emit = FALSE
  MaxOps = 0
VIEW MCView
INVARIANTS TypeOK
PROPERTIES FetchEqualsSavedButNil
CHECK_DEADLOCK FALSE
