SPECIFICATION Spec
CONSTANTS
  NodeIds = {1, 2}
  MaxDepth = 2
  MaxDed = 2
  MaxOps = 3
  MaxCalls = 3
  FwdModes = {TRUE, FALSE}
  BugBypass <- BypassNone
  BugRewrap = FALSE
  Layers = {1}
  CtxStates = {"live", "cancelled"}
  BugStackCollapse = FALSE
  BugCtxOverride = TRUE
INVARIANTS TypeOK ExactlyOneHookCall ResultUnchanged UnderlyingAtMostOnce PassThroughUntouched DerivedWrapped
VIEW McView
CHECK_DEADLOCK FALSE
