SPECIFICATION Spec
CONSTANTS
  NodeIds = {1, 2}
  MaxDepth = 2
  MaxDed = 2
  MaxOps = 5
  MaxCalls = 1
  FwdModes = {TRUE, FALSE}
  BugBypass <- BypassNone
  BugRewrap = FALSE
  Layers = {1}
  CtxStates = {"live"}
  BugStackCollapse = FALSE
  BugCtxOverride = FALSE
INVARIANTS Emit
CHECK_DEADLOCK FALSE
