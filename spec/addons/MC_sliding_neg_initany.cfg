\* negative: the initialize script re-initialises when ANY of the five keys is missing (the lock key expires every half window)
SPECIFICATION Spec
CONSTANTS
  Kind = "sliding"
  Items = {a, b}
  Size = 3
  K = 2
  HSet <- AllHashes
  KeySeqs <- KeySeqs2
  Q <- NoQ
  MaxOps = 0
  Half = 2
  MaxNow = 6
  MaxTotal = 0
  ExpireInclusive = TRUE
  Defect = "init-any-missing"
  AllowBadConfig = FALSE
  Emit = FALSE
  Faults = {"errreply"}
  QS <- NoQ
  Ops <- AllOps
  Big = FALSE
VIEW MCView
INVARIANTS PresentForHalfWindow
CHECK_DEADLOCK FALSE
