\* C37 exhaustive: ALL 81 hash functions of 2 items into 3 indexes, K = 2, half window = 2 ticks, clock 0..6, lock expiry as in fakeredis (now >= set + half)
SPECIFICATION Spec
CONSTANTS
  Kind = "sliding"
  Items = {a, b}
  Size = 3
  K = 2
  HSet <- AllHashes
  KeySeqs <- KeySeqs2
  Q <- NoQ
  MaxOps = 0
  Half = 2
  MaxNow = 6
  MaxTotal = 0
  ExpireInclusive = TRUE
  Defect = "none"
  AllowBadConfig = FALSE
  Emit = FALSE
  Faults = {"errreply"}
  QS <- NoQ
  Ops <- AllOps
  Big = FALSE
VIEW MCView
INVARIANTS TypeOK PresentForHalfWindow
PROPERTIES SlidingAnswers AddNilMeansPresent
CHECK_DEADLOCK FALSE
