\* C36 exhaustive: ALL 729 hash functions of 3 items into 3 indexes, K = 2, calls with 1 or 2 keys, at most 2 items held
SPECIFICATION Spec
CONSTANTS
  Kind = "counting"
  Items = {a, b, c}
  Size = 3
  K = 2
  HSet <- AllHashes
  KeySeqs <- KeySeqs2
  Q <- NoQ
  MaxOps = 0
  Half = 0
  MaxNow = 0
  MaxTotal = 2
  ExpireInclusive = TRUE
  Defect = "none"
  AllowBadConfig = FALSE
  Emit = FALSE
  Faults = {"errreply"}
  QS <- NoQ
  Ops <- AllOps
  Big = FALSE
VIEW MCView
INVARIANTS TypeOK NoNegativeCounter MinCountAtLeastNet PresentWhileNetPositive AnswersHonourObligations AnswersPerKey
PROPERTIES FailedRemoveChangesNothing AddNilMeansPresent
CHECK_DEADLOCK FALSE
