SPECIFICATION Spec
CONSTANTS
  KindNames = {"std", "ro", "nosha", "ronosha", "retry", "noshartry", "stdload", "roload", "retryload"}
  MaxCalls = 1
  MaxMulti = 2
  Modes = {"exec", "multi"}
  Faults = {"err", "cutbefore", "execcut"}
  MaxFaults = 1
  MaxFlush = 1
  FailingOK = TRUE
  RetryOn = TRUE
  InitCached = {TRUE, FALSE}
  BugEvalAfterAnyError = FALSE
  BugEvalshaForNoSha = FALSE
  BugLoadEveryTime = FALSE
  BugRoFallbackRw = FALSE
INVARIANTS Emit
CHECK_DEADLOCK FALSE
