\* negative: the script compares versions with ~= instead of ==
SPECIFICATION Spec
CONSTANTS
  Repo = "hash"
  Savers = {"s1", "s2", "s3"}
  InitDocs <- InitDocs3
  Keys = {"k1"}
  Exps = {"zero"}
  MaxNow = 1
  MaxBatch = 0
  MaxObtain = 2
  MaxSaves = 2
  MaxVer = 6
  Defect = "inverted-compare"
  Emit = FALSE
  MaxOps = 0
VIEW MCView
INVARIANTS AtMostOneWinner
CHECK_DEADLOCK FALSE
