\* negative: indexes() hashes a key repeated within one batch only once, ExistsMulti still fills one answer per input key positionally
SPECIFICATION Spec
CONSTANTS
  Kind = "bloom"
  Items = {a, b, c}
  Size = 3
  K = 2
  HSet <- AllHashes
  KeySeqs <- KeySeqs2
  Q <- NoQ
  MaxOps = 0
  Half = 0
  MaxNow = 0
  MaxTotal = 0
  ExpireInclusive = TRUE
  Defect = "dedup-batch"
  AllowBadConfig = FALSE
  Emit = FALSE
  Faults = {"errreply"}
  QS <- NoQ
  Ops <- AllOps
  Big = FALSE
VIEW MCView
INVARIANTS AnswersPerKey
CHECK_DEADLOCK FALSE
