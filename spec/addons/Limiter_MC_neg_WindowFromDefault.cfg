SPECIFICATION Spec
CONSTANTS
  Callers = {1, 2}
  Ids = {1}
  Limit = 3
  W = 2
  OptLists <- OL_LoHi
  Slack = 2
  Ns = {0, 1, 4}
  Jumps = {1}
  MaxClock = 6
  MaxCalls = 3
  MaxStale = 3
  BugIncrBeforeReset = FALSE
  BugAllowOneMore = FALSE
  BugNoZeroOnReset = FALSE
  BugVerdictFromDefault = FALSE
  BugRemainingFromDefault = FALSE
  BugWindowFromDefault = TRUE
  BugFirstOptionWins = FALSE
INVARIANTS ResetIsNowPlusWindow
CHECK_DEADLOCK FALSE
