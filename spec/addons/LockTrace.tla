----------------------------- MODULE LockTrace -----------------------------
(* Observable specification of rueidislock for trace validation (code -> spec, hook-free).

   The trace is recorded by harness/cmd/lockdrv: real lockers over one fakeredis server per scenario.  Server-side
   events are logged under the server's dispatcher mutex (one total order), driver-side events when they happen:

     RESET                     a new scenario (own server)
     Begin  h, res=mode        API call starts
     Acq    h,tok,k,res        acquire script executed  (SET NX PXAT ; GET)      res = ok | no
     Frc    h,tok,k,res        forced acquire executed  (SET PXAT ; GET)
     Ext    h,tok,k,res        extend script executed   (if GET == tok then PEXPIREAT ; GET)
     Del    h,tok,k,res,live   delkey script executed   (if GET == tok then DEL); live = the harness' reading of the
                               context handed out for tok, taken right after the script took effect: live|done|unk
     Expire k / XDel k         the key expired / was deleted by a third party
     Ret    h,tok,res,live,o   API call returned; for a lock: o = tokens of other handed-out contexts that were read
                               live after the return, before the new context was read live
     Rel    tok                the user calls the cancel function        Done tok   the context was seen done
     Fault h,tok,k,res         an injected failure fired: res = err | cut (the extend script of tok for key k fails with a
                               non-ErrNotLocked error), acqerr, park, slowext
     Push   h,k                the server queued an invalidation of key k for locker h's connection (first one only)
     Cut    h                  locker h's connection dropped (the client delivers the nil invalidation)
     Stuck / End               bookkeeping (Stuck: a WithContext caller stayed parked although the lock was free)
   Script records also carry x = the expiry argument, tr = when the command arrived, te = when it executed (ms since the
   start of the scenario, same clock as the PXAT argument; -1 = not applicable).  Every record carries b, the number of
   50 ms heartbeats of the driver process so far: deadlines on the library's reaction count heartbeats as well as
   milliseconds, so that a starved process (loaded machine) is not mistaken for a late library.
   `res = odd` (what a script replied contradicts what it did to the key) matches no action.

   Every script event must be explained by the script's transcription below against the key state the specification
   has reconstructed from the earlier events; the C34 safety properties are evaluated on the way.                   *)
EXTENDS Integers, FiniteSets, Sequences, TLC, Json, IOUtils, LockTimeRule

CONSTANTS K, Maj, PromptMs,
          KnownMs, KnownBeats,              \* a context must be done this long (and this many heartbeats of the driver
                                            \* process) after its holder was told of a majority of losses
          ValidityMs, IntervalMs, EpsMs     \* the lockers' KeyValidity / ExtendInterval; truncation to milliseconds

VARIABLES l,        \* position in the trace
          key,      \* key[k]: 0 or the token stored
          st,       \* st[tok]: "try" (seen at the server) | "live" (handed out, not seen done) | "done"
          taint,    \* tokens that lost a key to the environment (expiry, third-party delete, forced take-over)
          lostAt,   \* lostAt[tok]: since when a handed-out, live token is below the majority at the server, -1 = it is not
          bad,      \* violated property names
          tm,       \* tm[<<tok, k>>]: [x |-> expiry argument of the last script of tok that wrote key k, e |-> when the last
                    \*                 fresh one (acquisition, extend with a new expiry) executed]
          inval,    \* <<h, k>>: an invalidation of key k was sent to locker h (push, dropped connection, own forced acquisition)
          kl,       \* kl[tok]: <<k, cause>>: the holder of tok was told that the monitoring of key k is over:
                    \*          "notlocked" (its script found the key taken / deleted / expired), "io" (its script failed otherwise)
          knownAt,  \* knownAt[tok]: since when a handed-out, live token has been told of a majority of losses, -1 = it has not
          knownB,   \* knownB[tok]: the heartbeat count at that moment
          fb        \* fb[h]: when the first API call of locker h began (no try of h started earlier)

TraceLog == ndJsonDeserialize(IOEnv.VERIF_TRACE)
tvars == <<l, key, st, taint, lostAt, bad, tm, inval, kl, knownAt, knownB, fb>>
Keys == 0..(K-1)

Ev == TraceLog[l]
Is(e) == l <= Len(TraceLog) /\ TraceLog[l].ev = e
Step == l' = l + 1
Known(t) == t \in DOMAIN st
StOf(t) == IF Known(t) THEN st[t] ELSE "none"
Seen(t) == IF Known(t) THEN st ELSE [x \in DOMAIN st \cup {t} |-> IF x = t THEN "try" ELSE st[x]]
HeldIn(kk, t) == Cardinality({k \in Keys : kk[k] = t})

\* promptness bookkeeping after a server event that produced key state kk at time now
LostAfter(kk, stt, now) ==
   [t \in DOMAIN stt |-> IF stt[t] = "live" /\ HeldIn(kk, t) < Maj
                            THEN (IF t \in DOMAIN lostAt /\ lostAt[t] >= 0 THEN lostAt[t] ELSE now)
                            ELSE -1]
\* a handed-out context that is below the majority for longer than PromptMs and still not seen done
Late(stt, la, now) == \E t \in DOMAIN stt : stt[t] = "live" /\ la[t] >= 0 /\ now - la[t] > PromptMs
Flag(b, name) == IF b THEN bad \cup {name} ELSE bad
Flag2(b, name) == IF b THEN {name} ELSE {}

\* losses the holder knows of, by cause; Lock.tla (CancelAtMajorityLoss): the context is cancelled in the very step in which
\* the monitoring loops that are over - for whatever combination of causes - reach the majority
KL(f, t) == IF t \in DOMAIN f THEN f[t] ELSE {}
AddLoss(f, t, k, c) == [y \in DOMAIN f \cup {t} |-> IF y = t THEN KL(f, t) \cup {<<k, c>>} ELSE f[y]]
KnownKeys(f, t) == {e[1] : e \in KL(f, t)}
KnownAfterV(f, stt, old, val) ==
   [t \in DOMAIN stt |-> IF stt[t] = "live" /\ Cardinality(KnownKeys(f, t)) >= Maj
                            THEN (IF t \in DOMAIN old /\ old[t] >= 0 THEN old[t] ELSE val)
                            ELSE -1]
KnownAfter(f, stt, now) == KnownAfterV(f, stt, knownAt, now)
KnownBAfter(f, stt) == KnownAfterV(f, stt, knownB, Ev.b)
TooLate(t0, b0) == t0 >= 0 /\ Ev.t - t0 > KnownMs /\ Ev.b - b0 > KnownBeats
LateKnown(stt, ka, kb) == \E t \in DOMAIN stt : stt[t] = "live" /\ TooLate(ka[t], kb[t])

\* the expiry argument of a script that wrote the key (LockTimeRule.tla)
TmSet(f, t, k, xx, ee) == [p \in DOMAIN f \cup {<<t, k>>} |-> IF p = <<t, k>> THEN [x |-> xx, e |-> ee] ELSE f[p]]
ExtTimeOK == IF <<Ev.tok, Ev.k>> \notin DOMAIN tm \/ Ev.x < 0 THEN TRUE
             ELSE LET o == tm[<<Ev.tok, Ev.k>>] IN
                  IF Ev.x = o.x THEN RepeatOK(Ev.x, o.x, <<Ev.h, Ev.k>> \in inval)
                                ELSE FreshOK(Ev.x, o.e, Ev.tr, IntervalMs, ValidityMs, EpsMs)
\* an acquisition carries (start of its try) + Validity: not before the locker's first call began, not after it arrived
AcqTimeOK == Ev.x < 0 \/ AcquireOK(Ev.x, IF Ev.h \in DOMAIN fb THEN fb[Ev.h] ELSE 0, Ev.tr, ValidityMs, EpsMs)
ExtTm == IF Ev.x < 0 THEN tm
         ELSE IF <<Ev.tok, Ev.k>> \in DOMAIN tm /\ tm[<<Ev.tok, Ev.k>>].x = Ev.x THEN tm
         ELSE TmSet(tm, Ev.tok, Ev.k, Ev.x, Ev.te)

TraceInit == /\ l = 1 /\ key = [k \in Keys |-> 0] /\ st = <<>> /\ taint = {} /\ lostAt = <<>> /\ bad = {}
             /\ tm = <<>> /\ inval = {} /\ kl = <<>> /\ knownAt = <<>> /\ knownB = <<>> /\ fb = <<>>
             /\ TLCSet(1, 1)

Reset == /\ Is("RESET") /\ Step
         /\ key' = [k \in Keys |-> 0] /\ st' = <<>> /\ taint' = {} /\ lostAt' = <<>> /\ bad' = {}
         /\ tm' = <<>> /\ inval' = {} /\ kl' = <<>> /\ knownAt' = <<>> /\ knownB' = <<>> /\ fb' = <<>>

\* effects on the server
ServerL(kk, stt, tt, extra, klf) ==
   /\ key' = kk /\ st' = stt /\ taint' = tt
   /\ lostAt' = LostAfter(kk, stt, Ev.t)
   /\ kl' = klf /\ knownAt' = KnownAfter(klf, stt, Ev.t) /\ knownB' = KnownBAfter(klf, stt)
   /\ bad' = Flag(Late(stt, LostAfter(kk, stt, Ev.t), Ev.t), "Prompt") \cup extra
                \cup Flag2(LateKnown(stt, KnownAfter(klf, stt, Ev.t), KnownBAfter(klf, stt)), "CancelAtKnownLoss")
Server(kk, stt, tt, extra) == ServerL(kk, stt, tt, extra, kl)

\* SET key tok NX PXAT ; GET
Acq == /\ Is("Acq") /\ Step /\ Ev.k \in Keys /\ Ev.tok > 0
       /\ \/ /\ Ev.res = "ok" /\ key[Ev.k] = 0
             /\ Server([key EXCEPT ![Ev.k] = Ev.tok], Seen(Ev.tok), taint,
                       Flag2(~AcqTimeOK, "ExtendsInTime"))
             /\ tm' = (IF Ev.x >= 0 THEN TmSet(tm, Ev.tok, Ev.k, Ev.x, Ev.te) ELSE tm)
          \/ /\ Ev.res = "no" /\ key[Ev.k] # 0
             /\ ServerL(key, Seen(Ev.tok), taint, {}, AddLoss(kl, Ev.tok, Ev.k, "notlocked"))
             /\ tm' = tm
       /\ UNCHANGED inval
\* SET key tok PXAT ; GET
Frc == /\ Is("Frc") /\ Step /\ Ev.k \in Keys /\ Ev.tok > 0 /\ Ev.res = "ok"
       /\ Server([key EXCEPT ![Ev.k] = Ev.tok], Seen(Ev.tok),
                 IF key[Ev.k] \notin {0, Ev.tok} THEN taint \cup {key[Ev.k]} ELSE taint,
                 Flag2(~AcqTimeOK, "ExtendsInTime"))
       /\ tm' = (IF Ev.x >= 0 THEN TmSet(tm, Ev.tok, Ev.k, Ev.x, Ev.te) ELSE tm)
       /\ inval' = inval \cup {<<Ev.h, Ev.k>>}            \* a forced acquisition puts a token into its own csc channel
\* if GET == tok then PEXPIREAT ; GET ; return 1 else return 0
Ext == /\ Is("Ext") /\ Step /\ Ev.k \in Keys /\ Ev.tok > 0
       /\ (Ev.res = "ok") <=> (key[Ev.k] = Ev.tok)
       /\ Ev.res \in {"ok", "no"}
       /\ IF Ev.res = "ok"
            THEN /\ Server(key, Seen(Ev.tok), taint, Flag2(~ExtTimeOK, "ExtendsInTime"))
                 /\ tm' = ExtTm
            ELSE /\ ServerL(key, Seen(Ev.tok), taint, {}, AddLoss(kl, Ev.tok, Ev.k, "notlocked"))   \* the script answered 0
                 /\ tm' = tm
       /\ UNCHANGED inval
\* if GET == tok then DEL
Del == /\ Is("Del") /\ Step /\ Ev.k \in Keys /\ Ev.tok > 0
       /\ (Ev.res = "ok") <=> (key[Ev.k] = Ev.tok)
       /\ Ev.res \in {"ok", "no"}
       /\ Ev.live = "live" => StOf(Ev.tok) = "live"             \* monotone: never live after it was seen done
       /\ Server(IF Ev.res = "ok" THEN [key EXCEPT ![Ev.k] = 0] ELSE key, Seen(Ev.tok), taint,
                 IF Ev.res = "ok" /\ Ev.live = "live" THEN {"DoneBeforeRelease"} ELSE {})
       /\ UNCHANGED <<tm, inval>>
\* the key expired / a third party deleted it; a record for a key that is already absent changes nothing (an expiry can be
\* reported by the lazy path of a command and again by the DEL that found nothing)
Gone(e) == /\ Is(e) /\ Step /\ Ev.k \in Keys
           /\ IF key[Ev.k] # 0 THEN Server([key EXCEPT ![Ev.k] = 0], st, taint \cup {key[Ev.k]}, {})
                               ELSE Server(key, st, taint, {})
           /\ UNCHANGED <<tm, inval>>

\* driver side
Ret == /\ Is("Ret") /\ Step
       /\ IF Ev.res = "ok" /\ Ev.tok > 0
            THEN LET stt == [x \in DOMAIN st \cup {Ev.tok} |-> IF x = Ev.tok THEN (IF Ev.live = "live" THEN "live" ELSE "done") ELSE st[x]]
                     both == {a \in {Ev.o[j] : j \in 1..Len(Ev.o)} : a \notin taint /\ Ev.tok \notin taint}
                 IN /\ StOf(Ev.tok) \in {"try", "none"}
                    /\ \A j \in 1..Len(Ev.o) : StOf(Ev.o[j]) = "live"
                    /\ st' = stt
                    /\ lostAt' = LostAfter(key, stt, Ev.t)
                    /\ knownAt' = KnownAfter(kl, stt, Ev.t) /\ knownB' = KnownBAfter(kl, stt)
                    /\ bad' = Flag(Ev.live = "live" /\ both # {}, "MutualExclusion")
                    /\ UNCHANGED <<key, taint>>
            ELSE UNCHANGED <<key, st, taint, lostAt, bad, knownAt, knownB>>
       /\ UNCHANGED <<tm, inval, kl>>
Done == /\ Is("Done") /\ Step /\ StOf(Ev.tok) \in {"live", "done"}
        /\ st' = [st EXCEPT ![Ev.tok] = "done"]
        /\ bad' = Flag(lostAt[Ev.tok] >= 0 /\ Ev.t - lostAt[Ev.tok] > PromptMs, "Prompt")
                   \cup Flag2(Ev.tok \in DOMAIN knownAt /\ TooLate(knownAt[Ev.tok], knownB[Ev.tok]), "CancelAtKnownLoss")
        /\ UNCHANGED <<key, taint, lostAt, tm, inval, kl, knownAt, knownB>>
Stuck == /\ Is("Stuck") /\ Step /\ bad' = bad \cup {"NoStuckWaiter"} /\ UNCHANGED <<key, st, taint, lostAt, tm, inval, kl, knownAt, knownB>>
\* end of a scenario: its verdict is printed (the properties are also INVARIANTS of the strict configuration)
End == /\ Is("End") /\ Step
       /\ bad' = Flag(Late(st, lostAt, Ev.t), "Prompt") \cup Flag2(LateKnown(st, knownAt, knownB), "CancelAtKnownLoss")
       /\ UNCHANGED <<key, st, taint, lostAt, tm, inval, kl, knownAt, knownB>>
       /\ (bad' # {} => PrintT(<<"BAD", l, bad'>>))
\* an injected failure of a script of tok for key k: the caller gets a non-ErrNotLocked error, its monitoring of k is over
Fault == /\ Is("Fault") /\ Step
         /\ IF Ev.res \in {"err", "cut", "acqerr"} /\ Ev.tok > 0 /\ Ev.k \in Keys
              THEN ServerL(key, st, taint, {}, AddLoss(kl, Ev.tok, Ev.k, "io"))
              ELSE UNCHANGED <<key, st, taint, lostAt, bad, kl, knownAt, knownB>>
         /\ UNCHANGED <<tm, inval>>
Push == /\ Is("Push") /\ Step /\ inval' = inval \cup {<<Ev.h, Ev.k>>}
        /\ UNCHANGED <<key, st, taint, lostAt, bad, tm, kl, knownAt, knownB>>
CutEv == /\ Is("Cut") /\ Step /\ inval' = inval \cup {<<Ev.h, k>> : k \in Keys}
         /\ UNCHANGED <<key, st, taint, lostAt, bad, tm, kl, knownAt, knownB>>
\* the user's release: the context it cancels was live until now
Rel == /\ Is("Rel") /\ Step
       /\ bad' = bad \cup Flag2(Ev.tok \in DOMAIN knownAt /\ StOf(Ev.tok) = "live" /\ TooLate(knownAt[Ev.tok], knownB[Ev.tok]),
                              "CancelAtKnownLoss")
       /\ UNCHANGED <<key, st, taint, lostAt, tm, inval, kl, knownAt, knownB>>
Other == /\ Is("Begin") /\ Step /\ UNCHANGED <<key, st, taint, lostAt, bad, tm, inval, kl, knownAt, knownB>>
         /\ fb' = IF Ev.h \in DOMAIN fb THEN fb ELSE [y \in DOMAIN fb \cup {Ev.h} |-> IF y = Ev.h THEN Ev.t ELSE fb[y]]

TraceNext == \/ Reset \/ Other
             \/ /\ (Acq \/ Frc \/ Ext \/ Del \/ Gone("Expire") \/ Gone("XDel") \/ Ret \/ Done \/ Stuck \/ End
                    \/ Fault \/ Push \/ CutEv \/ Rel)
                /\ UNCHANGED fb
TraceSpec == TraceInit /\ [][TraceNext]_tvars

\* C34
MutualExclusion == "MutualExclusion" \notin bad
DoneBeforeRelease == "DoneBeforeRelease" \notin bad
Prompt == "Prompt" \notin bad
NoStuckWaiter == "NoStuckWaiter" \notin bad
CancelAtKnownLoss == "CancelAtKnownLoss" \notin bad
ExtendsInTime == "ExtendsInTime" \notin bad

HighWater == TLCSet(1, IF l > TLCGet(1) THEN l ELSE TLCGet(1))
TraceAccepted == \/ TLCGet(1) = Len(TraceLog) + 1
                 \/ PrintT(<<"REJECTED-AT", TLCGet(1), TraceLog[TLCGet(1)]>>) /\ FALSE
=============================================================================
