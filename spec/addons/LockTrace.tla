----------------------------- MODULE LockTrace -----------------------------
(* Observable specification of rueidislock for trace validation (code -> spec, hook-free).

   The trace is recorded by harness/cmd/lockdrv: real lockers over one fakeredis server per scenario.  Server-side
   events are logged under the server's dispatcher mutex (one total order), driver-side events when they happen:

     RESET                     a new scenario (own server)
     Begin  h, res=mode        API call starts
     Acq    h,tok,k,res        acquire script executed  (SET NX PXAT ; GET)      res = ok | no
     Frc    h,tok,k,res        forced acquire executed  (SET PXAT ; GET)
     Ext    h,tok,k,res        extend script executed   (if GET == tok then PEXPIREAT ; GET)
     Del    h,tok,k,res,live   delkey script executed   (if GET == tok then DEL); live = the harness' reading of the
                               context handed out for tok, taken right after the script took effect: live|done|unk
     Expire k / XDel k         the key expired / was deleted by a third party
     Ret    h,tok,res,live,o   API call returned; for a lock: o = tokens of other handed-out contexts that were read
                               live after the return, before the new context was read live
     Rel    tok                the user calls the cancel function        Done tok   the context was seen done
     Fault / Cut / Stuck / End bookkeeping (Stuck: a WithContext caller stayed parked although the lock was free)
   `res = odd` (what a script replied contradicts what it did to the key) matches no action.

   Every script event must be explained by the script's transcription below against the key state the specification
   has reconstructed from the earlier events; the C34 safety properties are evaluated on the way.                   *)
EXTENDS Integers, FiniteSets, Sequences, TLC, Json, IOUtils

CONSTANTS K, Maj, PromptMs

VARIABLES l,        \* position in the trace
          key,      \* key[k]: 0 or the token stored
          st,       \* st[tok]: "try" (seen at the server) | "live" (handed out, not seen done) | "done"
          taint,    \* tokens that lost a key to the environment (expiry, third-party delete, forced take-over)
          lostAt,   \* lostAt[tok]: since when a handed-out, live token is below the majority at the server, -1 = it is not
          bad       \* violated property names

TraceLog == ndJsonDeserialize(IOEnv.VERIF_TRACE)
tvars == <<l, key, st, taint, lostAt, bad>>
Keys == 0..(K-1)

Ev == TraceLog[l]
Is(e) == l <= Len(TraceLog) /\ TraceLog[l].ev = e
Step == l' = l + 1
Known(t) == t \in DOMAIN st
StOf(t) == IF Known(t) THEN st[t] ELSE "none"
Seen(t) == IF Known(t) THEN st ELSE [x \in DOMAIN st \cup {t} |-> IF x = t THEN "try" ELSE st[x]]
HeldIn(kk, t) == Cardinality({k \in Keys : kk[k] = t})

\* promptness bookkeeping after a server event that produced key state kk at time now
LostAfter(kk, stt, now) ==
   [t \in DOMAIN stt |-> IF stt[t] = "live" /\ HeldIn(kk, t) < Maj
                            THEN (IF t \in DOMAIN lostAt /\ lostAt[t] >= 0 THEN lostAt[t] ELSE now)
                            ELSE -1]
\* a handed-out context that is below the majority for longer than PromptMs and still not seen done
Late(stt, la, now) == \E t \in DOMAIN stt : stt[t] = "live" /\ la[t] >= 0 /\ now - la[t] > PromptMs
Flag(b, name) == IF b THEN bad \cup {name} ELSE bad

TraceInit == /\ l = 1 /\ key = [k \in Keys |-> 0] /\ st = <<>> /\ taint = {} /\ lostAt = <<>> /\ bad = {}
             /\ TLCSet(1, 1)

Reset == /\ Is("RESET") /\ Step
         /\ key' = [k \in Keys |-> 0] /\ st' = <<>> /\ taint' = {} /\ lostAt' = <<>> /\ bad' = {}

\* effects on the server
Server(kk, stt, tt, extra) ==
   /\ key' = kk /\ st' = stt /\ taint' = tt
   /\ lostAt' = LostAfter(kk, stt, Ev.t)
   /\ bad' = Flag(Late(stt, LostAfter(kk, stt, Ev.t), Ev.t), "Prompt") \cup extra

\* SET key tok NX PXAT ; GET
Acq == /\ Is("Acq") /\ Step /\ Ev.k \in Keys /\ Ev.tok > 0
       /\ \/ /\ Ev.res = "ok" /\ key[Ev.k] = 0
             /\ Server([key EXCEPT ![Ev.k] = Ev.tok], Seen(Ev.tok), taint, {})
          \/ /\ Ev.res = "no" /\ key[Ev.k] # 0
             /\ Server(key, Seen(Ev.tok), taint, {})
\* SET key tok PXAT ; GET
Frc == /\ Is("Frc") /\ Step /\ Ev.k \in Keys /\ Ev.tok > 0 /\ Ev.res = "ok"
       /\ Server([key EXCEPT ![Ev.k] = Ev.tok], Seen(Ev.tok),
                 IF key[Ev.k] \notin {0, Ev.tok} THEN taint \cup {key[Ev.k]} ELSE taint, {})
\* if GET == tok then PEXPIREAT ; GET ; return 1 else return 0
Ext == /\ Is("Ext") /\ Step /\ Ev.k \in Keys /\ Ev.tok > 0
       /\ (Ev.res = "ok") <=> (key[Ev.k] = Ev.tok)
       /\ Ev.res \in {"ok", "no"}
       /\ Server(key, Seen(Ev.tok), taint, {})
\* if GET == tok then DEL
Del == /\ Is("Del") /\ Step /\ Ev.k \in Keys /\ Ev.tok > 0
       /\ (Ev.res = "ok") <=> (key[Ev.k] = Ev.tok)
       /\ Ev.res \in {"ok", "no"}
       /\ Ev.live = "live" => StOf(Ev.tok) = "live"             \* monotone: never live after it was seen done
       /\ Server(IF Ev.res = "ok" THEN [key EXCEPT ![Ev.k] = 0] ELSE key, Seen(Ev.tok), taint,
                 IF Ev.res = "ok" /\ Ev.live = "live" THEN {"DoneBeforeRelease"} ELSE {})
\* the key expired / a third party deleted it; a record for a key that is already absent changes nothing (an expiry can be
\* reported by the lazy path of a command and again by the DEL that found nothing)
Gone(e) == /\ Is(e) /\ Step /\ Ev.k \in Keys
           /\ IF key[Ev.k] # 0 THEN Server([key EXCEPT ![Ev.k] = 0], st, taint \cup {key[Ev.k]}, {})
                               ELSE Server(key, st, taint, {})

\* driver side
Ret == /\ Is("Ret") /\ Step
       /\ IF Ev.res = "ok" /\ Ev.tok > 0
            THEN LET stt == [x \in DOMAIN st \cup {Ev.tok} |-> IF x = Ev.tok THEN (IF Ev.live = "live" THEN "live" ELSE "done") ELSE st[x]]
                     both == {a \in {Ev.o[j] : j \in 1..Len(Ev.o)} : a \notin taint /\ Ev.tok \notin taint}
                 IN /\ StOf(Ev.tok) \in {"try", "none"}
                    /\ \A j \in 1..Len(Ev.o) : StOf(Ev.o[j]) = "live"
                    /\ st' = stt
                    /\ lostAt' = LostAfter(key, stt, Ev.t)
                    /\ bad' = Flag(Ev.live = "live" /\ both # {}, "MutualExclusion")
                    /\ UNCHANGED <<key, taint>>
            ELSE UNCHANGED <<key, st, taint, lostAt, bad>>
Done == /\ Is("Done") /\ Step /\ StOf(Ev.tok) \in {"live", "done"}
        /\ st' = [st EXCEPT ![Ev.tok] = "done"]
        /\ bad' = Flag(lostAt[Ev.tok] >= 0 /\ Ev.t - lostAt[Ev.tok] > PromptMs, "Prompt")
        /\ UNCHANGED <<key, taint, lostAt>>
Stuck == /\ Is("Stuck") /\ Step /\ bad' = bad \cup {"NoStuckWaiter"} /\ UNCHANGED <<key, st, taint, lostAt>>
\* end of a scenario: its verdict is printed (the properties are also INVARIANTS of the strict configuration)
End == /\ Is("End") /\ Step /\ bad' = Flag(Late(st, lostAt, Ev.t), "Prompt") /\ UNCHANGED <<key, st, taint, lostAt>>
       /\ (bad' # {} => PrintT(<<"BAD", l, bad'>>))
Other == /\ (Is("Begin") \/ Is("Rel") \/ Is("Fault") \/ Is("Cut")) /\ Step /\ UNCHANGED <<key, st, taint, lostAt, bad>>

TraceNext == Reset \/ Acq \/ Frc \/ Ext \/ Del \/ Gone("Expire") \/ Gone("XDel") \/ Ret \/ Done \/ Stuck \/ End \/ Other
TraceSpec == TraceInit /\ [][TraceNext]_tvars

\* C34
MutualExclusion == "MutualExclusion" \notin bad
DoneBeforeRelease == "DoneBeforeRelease" \notin bad
Prompt == "Prompt" \notin bad
NoStuckWaiter == "NoStuckWaiter" \notin bad

HighWater == TLCSet(1, IF l > TLCGet(1) THEN l ELSE TLCGet(1))
TraceAccepted == \/ TLCGet(1) = Len(TraceLog) + 1
                 \/ PrintT(<<"REJECTED-AT", TLCGet(1), TraceLog[TLCGet(1)]>>) /\ FALSE
=============================================================================
