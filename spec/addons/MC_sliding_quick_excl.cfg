\* C37 exhaustive: same, lock expiry as in Redis (now > set + half)
SPECIFICATION Spec
CONSTANTS
  Kind = "sliding"
  Items = {a, b}
  Size = 3
  K = 2
  HSet <- AllHashes
  KeySeqs <- KeySeqs2
  Q <- NoQ
  MaxOps = 0
  Half = 2
  MaxNow = 6
  MaxTotal = 0
  ExpireInclusive = FALSE
  Defect = "none"
  AllowBadConfig = FALSE
  Emit = FALSE
  Faults <- NoFaults
  QS <- NoQ
  Ops <- AllOps
  Big = FALSE
VIEW MCView
INVARIANTS TypeOK PresentForHalfWindow
PROPERTIES SlidingAnswers AddNilMeansPresent
CHECK_DEADLOCK FALSE
