\* negative: the (read-only) exists script reads the next generation
SPECIFICATION Spec
CONSTANTS
  Kind = "sliding"
  Items = {a, b}
  Size = 3
  K = 2
  HSet <- AllHashes
  KeySeqs <- KeySeqs2
  Q <- NoQ
  MaxOps = 0
  Half = 2
  MaxNow = 6
  MaxTotal = 0
  ExpireInclusive = TRUE
  Defect = "ro-reads-next"
  AllowBadConfig = FALSE
  Emit = FALSE
  Faults = {"errreply"}
  QS <- NoQ
  Ops <- AllOps
  Big = FALSE
VIEW MCView
PROPERTIES SlidingAnswers
CHECK_DEADLOCK FALSE
