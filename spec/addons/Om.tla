--------------------------------- MODULE Om ---------------------------------
(***************************************************************************)
(* om repositories (om/hash.go, om/json.go, om/conv.go): optimistic,       *)
(* versioned Save.  C40.                                                   *)
(*                                                                         *)
(* One stored document per key: [ver, f1, f2, f3, fexp, ttl] (ver = -1: no *)
(* document).  f1 stands for the fields that always have a value, f2 for   *)
(* the pointer fields *string/*int64/*bool, f3 for pointers to structs     *)
(* (stored as JSON text, nil = "null"); f2 and f3 may be "nil" (a saver    *)
(* sets both or neither).  fexp is the stored value of the field tagged    *)
(* `redis:",exat"`, ttl the expiry of the key (both in clock ticks, NoExp  *)
(* = the zero time / no expiry).  Savers hold entities in memory,          *)
(* obtained by NewEntity (version 0) or Fetch (a copy of the stored        *)
(* document), overwrite the fields with their own values and call Save or  *)
(* SaveMulti.                                                              *)
(*                                                                         *)
(* Save is ONE atomic action, the Lua script:                              *)
(*   hashSaveScript:  v = HGET key ver                                     *)
(*                    if (not v or v == ARGV[2]) then                      *)
(*                      ARGV[2] = ARGV[2] + 1; HSET key <all pairs>;       *)
(*                      if e then PEXPIREAT key e end                      *)
(*                      return ARGV[2]  end;  return nil                   *)
(*   jsonSaveScript:  v = JSON.GET key ver                                 *)
(*                    if (not v or v == ARGV[2]) then                      *)
(*                      JSON.SET key $ doc; v = JSON.NUMINCRBY key ver 1   *)
(*                      if #ARGV == 4 then PEXPIREAT key ARGV[4] end       *)
(*                      return v end; return nil                           *)
(* followed by the Go side: nil reply -> ErrVersionMismatch, otherwise the *)
(* entity's version field is set to the returned version.  toExec passes   *)
(* the expiry argument only when the exat field is not the zero time.      *)
(* PEXPIREAT with a time that is not in the future deletes the key (the    *)
(* script still returns the new version); without the argument the key     *)
(* keeps the expiry it had (HSET and JSON.SET of the root keep the TTL).   *)
(*                                                                         *)
(* SaveMulti(e1..en) converts every entity with toExec and sends the n     *)
(* script calls in one pipeline: the server executes them in order, each   *)
(* atomically.  It is specified as the fold of the single Save over the    *)
(* batch (BatchResult) - entities of a batch may address different keys,   *)
(* the same key, differ in which pointer fields are set and in expiry.     *)
(*                                                                         *)
(* Modelled as it is: conv.go leaves nil pointer fields out of the HSET    *)
(* arguments and HSET never removes a field, so a hash Save of a nil       *)
(* pointer over a stored value OF THE SAME KEY keeps the old value (the    *)
(* JSON repository replaces the whole document).  FetchEqualsSaved shows   *)
(* the consequence.                                                        *)
(***************************************************************************)
EXTENDS Integers, Sequences, FiniteSets, TLC, Json

CONSTANTS
  Repo,       \* "hash" | "json"
  Savers,     \* saver names; a saver writes its own name as the value of f1 (and of f2, unless nil)
  Keys,       \* entity keys
  InitDocs,   \* the stored documents (functions Keys -> document) a behaviour may start from
  MaxObtain,  \* NewEntity/Fetch calls per saver
  MaxSaves,   \* Save calls per saver (an entry of a SaveMulti batch counts as one)
  MaxVer,     \* bound on versions
  Exps,       \* what a saver may put into the exat field: subset of {"zero", "past", "now", "future"} (relative to the clock at that moment)
  MaxNow,     \* the clock runs from 1 to MaxNow (1: time stands still)
  MaxBatch,   \* longest SaveMulti batch (0: no SaveMulti)
  Defect,     \* "none" = the code as it is; negative configs: "inverted-compare", "no-increment", "drops-f1",
              \* "batch-shares-fieldmap", "exp-zero-sent", "exp-past-ignored"
  Emit, MaxOps

ASSUME Repo \in {"hash", "json"}
ASSUME Exps \subseteq {"zero", "past", "now", "future"}

Nil == "nil"
NoExp == -1
Horizon == 2   \* "future" = two ticks ahead
Absent == [ver |-> -1, f1 |-> "none", f2 |-> Nil, f3 |-> Nil, fexp |-> NoExp, ttl |-> NoExp]
Base(f2v) == [ver |-> 1, f1 |-> "base", f2 |-> f2v, f3 |-> f2v, fexp |-> NoExp, ttl |-> NoExp]
InitDocs3 == [Keys -> {Absent, Base("base"), Base(Nil)}]
AnyKey == CHOOSE k \in Keys : TRUE
\* for the batch configurations: all keys fresh, or one of them holding a document
InitDocsB == {[k \in Keys |-> Absent], [k \in Keys |-> IF k = AnyKey THEN Base("base") ELSE Absent]}
InitDocs1 == {[k \in Keys |-> Absent], [k \in Keys |-> Base("base")]}

VARIABLES
  docs,   \* key -> the stored document
  now,    \* the server's clock
  ent,    \* saver -> entity in memory: [has, key, ver, f1, f2, f3, exp]
  obt,    \* saver -> number of NewEntity/Fetch calls
  sv,     \* saver -> number of Save calls
  wins,   \* key -> base version -> number of successful saves made from it since the key was (re-)created (history)
  last,   \* last step
  hist    \* emitted behaviour

vars == <<docs, now, ent, obt, sv, wins, last, hist>>

NoEnt == [has |-> FALSE, key |-> AnyKey, ver |-> 0, f1 |-> "none", f2 |-> Nil, f3 |-> Nil, exp |-> NoExp]
NoStep == [op |-> "Init", s |-> "none", key |-> "none", f1 |-> "none", f2 |-> Nil, exp |-> NoExp, batch |-> <<>>]

\* the entry of a batch whose outcome a Fetch of key k observes: the last successful one for that key (0: none)
LastOk(b, k) == LET I == {i \in 1..Len(b) : b[i].ok /\ b[i].key = k}
                IN IF I = {} THEN 0 ELSE CHOOSE i \in I : \A j \in I : j <= i

Snapshot == [op |-> last.op, s |-> last.s, key |-> last.key, f1 |-> last.f1, f2 |-> last.f2, exp |-> last.exp,
             batch |-> last.batch, seen |-> [k \in Keys |-> LastOk(last.batch, k)], now |-> now, docs |-> docs]
Record == hist' = IF Emit THEN Append(hist, Snapshot') ELSE hist
CanStep == ~Emit \/ Len(hist) < MaxOps + 1   \* hist[1] describes the initial documents

NoWins == [v \in 0..MaxVer |-> 0]

Init ==
  /\ docs \in InitDocs
  /\ now = 1
  /\ ent = [s \in Savers |-> NoEnt]
  /\ obt = [s \in Savers |-> 0] /\ sv = [s \in Savers |-> 0]
  /\ wins = [k \in Keys |-> NoWins]
  /\ last = NoStep
  /\ hist = IF Emit THEN <<Snapshot>> ELSE <<>>

\* the time a saver writes into the exat field
When(x) == CASE x = "zero" -> NoExp [] x = "past" -> now - 1 [] x = "now" -> now [] x = "future" -> now + Horizon

\* repo.NewEntity(): version 0, the saver then sets the key and fills in its values
New(s, k, f2v, x) ==
  /\ CanStep /\ obt[s] < MaxObtain
  /\ ent' = [ent EXCEPT ![s] = [has |-> TRUE, key |-> k, ver |-> 0, f1 |-> s, f2 |-> f2v, f3 |-> f2v, exp |-> When(x)]]
  /\ obt' = [obt EXCEPT ![s] = @ + 1]
  /\ last' = [NoStep EXCEPT !.op = "New", !.s = s, !.key = k, !.f1 = s, !.f2 = f2v, !.exp = When(x)]
  /\ UNCHANGED <<docs, now, sv, wins>>
  /\ Record

\* repo.Fetch(): a copy of the stored document (round trip), then the saver overwrites the fields
Fetch(s, k, f2v, x) ==
  /\ CanStep /\ obt[s] < MaxObtain
  /\ docs[k].ver >= 0
  /\ ent' = [ent EXCEPT ![s] = [has |-> TRUE, key |-> k, ver |-> docs[k].ver, f1 |-> s, f2 |-> f2v, f3 |-> f2v, exp |-> When(x)]]
  /\ obt' = [obt EXCEPT ![s] = @ + 1]
  /\ last' = [NoStep EXCEPT !.op = "Fetch", !.s = s, !.key = k, !.f1 = s, !.f2 = f2v, !.exp = When(x)]
  /\ UNCHANGED <<docs, now, sv, wins>>
  /\ Record

(***************************************************************************)
(* One execution of the save script: stored document d, entity e, `sent` = *)
(* the value of the pointer fields that reaches the script (e.f2 in the    *)
(* code as it is).                                                         *)
(***************************************************************************)
\* `not v or v == ARGV[2]`
Matches(d, e) ==
  IF Defect = "inverted-compare" THEN d.ver = -1 \/ d.ver # e.ver
  ELSE d.ver = -1 \/ d.ver = e.ver

\* the expiry argument: absent for the zero time
ExpArg(e) == IF e.exp = NoExp THEN (IF Defect = "exp-zero-sent" THEN 0 ELSE NoExp) ELSE e.exp

Apply(d, e, sent) ==
  LET nv == IF Defect = "no-increment" THEN e.ver ELSE e.ver + 1
      arg == ExpArg(e)
      written == [ver |-> nv,
                  f1 |-> IF Defect = "drops-f1" THEN d.f1 ELSE e.f1,
                  \* hash: a nil pointer is not among the HSET arguments, the field stays what it was
                  f2 |-> IF Repo = "hash" /\ sent = Nil THEN d.f2 ELSE sent,
                  f3 |-> e.f3,
                  fexp |-> e.exp,
                  ttl |-> IF arg = NoExp \/ (Defect = "exp-past-ignored" /\ arg <= now) THEN d.ttl ELSE arg]
      gone == arg # NoExp /\ arg <= now /\ Defect # "exp-past-ignored"   \* PEXPIREAT not in the future: the key is deleted
  IN IF Matches(d, e)
     THEN [ok |-> TRUE, doc |-> IF gone THEN Absent ELSE written, nf2 |-> (Repo = "hash" /\ e.f2 = Nil /\ d.f2 # Nil)]
     ELSE [ok |-> FALSE, doc |-> d, nf2 |-> FALSE]

(***************************************************************************)
(* A batch = the script executions of its entities, in order.  With the    *)
(* defect "batch-shares-fieldmap" the hash repository converts all         *)
(* entities into ONE field map: a nil pointer field inherits the value an  *)
(* earlier entity of the batch left there.                                 *)
(***************************************************************************)
RECURSIVE Fold(_, _, _, _, _)
Fold(ds, w, es, carry, acc) ==
  IF es = <<>> THEN [docs |-> ds, wins |-> w, res |-> acc]
  ELSE LET e == Head(es)
           sent == IF Defect = "batch-shares-fieldmap" /\ Repo = "hash" /\ e.f2 = Nil THEN carry ELSE e.f2
           r == Apply(ds[e.key], e, sent)
           \* a key that is gone starts a new life: whoever comes first wins again
           nw == IF r.doc.ver = -1 THEN [w EXCEPT ![e.key] = NoWins]
                 ELSE IF r.ok THEN [w EXCEPT ![e.key][e.ver] = @ + 1] ELSE w
       IN Fold([ds EXCEPT ![e.key] = r.doc], nw, Tail(es), IF e.f2 # Nil THEN e.f2 ELSE carry,
               Append(acc, [s |-> e.s, key |-> e.key, ok |-> r.ok, base |-> e.ver, nf2 |-> r.nf2,
                            live |-> (r.ok /\ r.doc.ver # -1)]))

BatchResult(seq) ==
  Fold(docs, wins, [i \in 1..Len(seq) |-> [s |-> seq[i], key |-> ent[seq[i]].key, ver |-> ent[seq[i]].ver, f1 |-> ent[seq[i]].f1,
                                             f2 |-> ent[seq[i]].f2, f3 |-> ent[seq[i]].f3, exp |-> ent[seq[i]].exp]], Nil, <<>>)

Range(f) == {f[i] : i \in DOMAIN f}
OkSavers(res) == {res[i].s : i \in {j \in 1..Len(res) : res[j].ok}}

SaveSeq(op, seq) ==
  /\ CanStep
  /\ \A i \in 1..Len(seq) : ent[seq[i]].has /\ sv[seq[i]] < MaxSaves /\ ent[seq[i]].ver < MaxVer
  /\ sv' = [s \in Savers |-> IF s \in Range(seq) THEN sv[s] + 1 ELSE sv[s]]
  /\ LET r == BatchResult(seq)
     IN /\ docs' = r.docs
        /\ ent' = [s \in Savers |-> IF s \in OkSavers(r.res)
                                    THEN [ent[s] EXCEPT !.ver = IF Defect = "no-increment" THEN @ ELSE @ + 1] ELSE ent[s]]
        /\ wins' = r.wins
        /\ last' = [NoStep EXCEPT !.op = op, !.s = seq[1], !.key = ent[seq[1]].key, !.batch = r.res]
  /\ UNCHANGED <<obt, now>>
  /\ Record

Save(s) == SaveSeq("Save", <<s>>)

\* sequences of distinct savers, 1..MaxBatch long
Batches == UNION {{q \in [1..n -> Savers] : \A i, j \in 1..n : i # j => q[i] # q[j]} : n \in 1..MaxBatch}
SaveMulti(seq) == SaveSeq("SaveMulti", seq)

\* the clock advances; keys whose expiry is reached disappear
Tick ==
  /\ CanStep /\ now < MaxNow
  /\ now' = now + 1
  /\ docs' = [k \in Keys |-> IF docs[k].ttl # NoExp /\ docs[k].ttl <= now + 1 THEN Absent ELSE docs[k]]
  /\ wins' = [k \in Keys |-> IF docs'[k].ver = -1 THEN NoWins ELSE wins[k]]
  /\ last' = [NoStep EXCEPT !.op = "Tick"]
  /\ UNCHANGED <<ent, obt, sv>>
  /\ Record

Next ==
  \/ \E s \in Savers : Save(s) \/ \E k \in Keys, f2v \in {s, Nil}, x \in Exps : New(s, k, f2v, x) \/ Fetch(s, k, f2v, x)
  \/ \E q \in Batches : SaveMulti(q)
  \/ Tick

Spec == Init /\ [][Next]_vars

MCView == <<docs, now, ent, obt, sv, wins>>

(***************************************************************************)
(* Properties.  They speak about the entries of the last batch (a single   *)
(* Save is a batch of one): b[i] = [s, key, ok, base, nf2, live].          *)
(***************************************************************************)
TypeOK == /\ \A k \in Keys : docs[k].ver \in -1..MaxVer
          /\ \A s \in Savers : ent[s].ver \in 0..MaxVer
          /\ now \in 1..MaxNow

\* among the saves based on the same version of the same incarnation of a key at most one succeeds
AtMostOneWinner == \A k \in Keys, v \in 0..MaxVer : wins[k][v] <= 1

IsSave == last'.op \in {"Save", "SaveMulti"}
\* the expiry of an entity has not passed when it is saved
Lasting(e) == e.exp = NoExp \/ e.exp > now

\* a successful Save advances the version by exactly one, in the caller's entity and (while the key lives) in the store
VersionPlusOne ==
  [][IsSave => /\ \A i \in 1..Len(last'.batch) : last'.batch[i].ok => ent'[last'.batch[i].s].ver = last'.batch[i].base + 1
               /\ \A k \in Keys : LET i == LastOk(last'.batch, k)
                                  IN (i # 0 /\ docs'[k].ver # -1) => docs'[k].ver = last'.batch[i].base + 1]_vars
\* a successful Save is fetchable afterwards unless its expiry has passed - and is gone if it has
SavedIsFetchable ==
  [][IsSave => \A k \in Keys : LET i == LastOk(last'.batch, k)
                               IN i # 0 => (Lasting(ent[last'.batch[i].s]) <=> docs'[k].ver # -1)]_vars
\* ... and stores every field that has a value, and the expiry
AllFieldsStored ==
  [][IsSave => \A k \in Keys : LET i == LastOk(last'.batch, k) IN (i # 0 /\ docs'[k].ver # -1) =>
       LET e == ent[last'.batch[i].s]
       IN /\ docs'[k].f1 = e.f1 /\ docs'[k].f3 = e.f3 /\ docs'[k].fexp = e.exp
          /\ (e.f2 # Nil => docs'[k].f2 = e.f2)
          /\ (e.exp # NoExp => docs'[k].ttl = e.exp)]_vars
\* a Save answered ErrVersionMismatch changes nothing
FailedSaveChangesNothing ==
  [][IsSave => /\ \A i \in 1..Len(last'.batch) : ~last'.batch[i].ok => ent'[last'.batch[i].s] = ent[last'.batch[i].s]
               /\ \A k \in Keys : LastOk(last'.batch, k) = 0 => docs'[k] = docs[k]]_vars
AsEntity(d) == [ver |-> d.ver, f1 |-> d.f1, f2 |-> d.f2, f3 |-> d.f3, exp |-> d.fexp]
OfEntity(e) == [ver |-> e.ver, f1 |-> e.f1, f2 |-> e.f2, f3 |-> e.f3, exp |-> e.exp]
\* Fetch afterwards returns an entity equal to the saved one -- except, for the hash repository as it is,
\* when a nil pointer was saved over a stored value of the same key (nf2)
FetchEqualsSavedButNil ==
  [][IsSave => \A k \in Keys : LET i == LastOk(last'.batch, k) IN (i # 0 /\ docs'[k].ver # -1 /\ ~last'.batch[i].nf2) =>
       AsEntity(docs'[k]) = OfEntity(ent'[last'.batch[i].s])]_vars
\* the unconditional form: holds for the JSON repository, violated by the hash repository (known finding)
FetchEqualsSaved ==
  [][IsSave => \A k \in Keys : LET i == LastOk(last'.batch, k) IN (i # 0 /\ docs'[k].ver # -1) =>
       AsEntity(docs'[k]) = OfEntity(ent'[last'.batch[i].s])]_vars
\* no document outlives its expiry
ExpiryHonoured == \A k \in Keys : (docs[k].ver # -1 /\ docs[k].ttl # NoExp) => docs[k].ttl > now

EmitCase == (Emit /\ Len(hist) = MaxOps + 1) => PrintT(<<"CASE", ToJson([repo |-> Repo, init |-> hist[1], steps |-> Tail(hist)])>>)

(***************************************************************************)
(* Filters for the generation configurations.  TLC evaluates invariants    *)
(* also on successors an ACTION_CONSTRAINT discards, so the emitting       *)
(* invariants repeat the filter on the recorded behaviour.                 *)
(***************************************************************************)
SaverOrd(s) == CASE s = "s1" -> 1 [] s = "s2" -> 2 [] s = "s3" -> 3 [] OTHER -> 4
Obtaining(op) == op \in {"New", "Fetch"}
\* savers obtain their entities in the order of their names (the order of obtaining is immaterial for a batch)
ObtainInOrder == Obtaining(last'.op) => \A t \in Savers : SaverOrd(t) < SaverOrd(last'.s) => obt[t] > 0
\* batch generation: everybody obtains first, then exactly one SaveMulti of at least two entities
BatchShape == /\ ObtainInOrder
              /\ last'.op \in {"New", "Fetch", "SaveMulti"}
              /\ (last'.op = "SaveMulti" => (Len(last'.batch) >= 2 /\ \A t \in Savers : obt[t] > 0))
BatchHist == LET n == Len(hist) IN
  /\ hist[n].op = "SaveMulti" /\ Len(hist[n].batch) >= 2
  /\ \A i \in 2..(n - 1) : Obtaining(hist[i].op) /\ (i > 2 => SaverOrd(hist[i - 1].s) < SaverOrd(hist[i].s))
EmitBatchCase == (Emit /\ Len(hist) = MaxOps + 1 /\ BatchHist) =>
  PrintT(<<"CASE", ToJson([repo |-> Repo, init |-> hist[1], steps |-> Tail(hist)])>>)
\* expiry generation: pointer fields always set, no behaviour ends with an entity nobody saves
ExpShape == Obtaining(last'.op) => last'.f2 # Nil
ExpHist == LET n == Len(hist) IN
  /\ ~Obtaining(hist[n].op)
  /\ \A i \in 2..n : Obtaining(hist[i].op) => hist[i].f2 # Nil
EmitExpCase == (Emit /\ Len(hist) = MaxOps + 1 /\ ExpHist) =>
  PrintT(<<"CASE", ToJson([repo |-> Repo, init |-> hist[1], steps |-> Tail(hist)])>>)
=============================================================================
