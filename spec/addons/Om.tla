--------------------------------- MODULE Om ---------------------------------
(***************************************************************************)
(* om repositories (om/hash.go, om/json.go, om/conv.go): optimistic,       *)
(* versioned Save.  C40.                                                   *)
(*                                                                         *)
(* One stored document per key: [ver, f1, f2, f3] (ver = -1: no document). *)
(* f1 stands for the fields that always have a value, f2 for the pointer   *)
(* fields *string/*int64/*bool, f3 for pointers to structs (stored as JSON *)
(* text, nil = "null"); f2 and f3 may be "nil" (a saver sets both or       *)
(* neither).  Savers hold entities in memory,                              *)
(* obtained by NewEntity (version 0) or Fetch (a copy of the stored        *)
(* document), overwrite the fields with their own values and call Save.    *)
(*                                                                         *)
(* Save is ONE atomic action, the Lua script:                              *)
(*   hashSaveScript:  v = HGET key ver                                     *)
(*                    if (not v or v == ARGV[2]) then                      *)
(*                      ARGV[2] = ARGV[2] + 1; HSET key <all pairs>;       *)
(*                      return ARGV[2]  end;  return nil                   *)
(*   jsonSaveScript:  v = JSON.GET key ver                                 *)
(*                    if (not v or v == ARGV[2]) then                      *)
(*                      JSON.SET key $ doc; return JSON.NUMINCRBY key ver 1*)
(*                    end; return nil                                      *)
(* followed by the Go side: nil reply -> ErrVersionMismatch, otherwise the *)
(* entity's version field is set to the returned version.                  *)
(*                                                                         *)
(* Modelled as it is: conv.go leaves nil pointer fields out of the HSET    *)
(* arguments and HSET never removes a field, so a hash Save of a nil       *)
(* pointer over a stored value keeps the old value (the JSON repository    *)
(* replaces the whole document).  FetchEqualsSaved shows the consequence.  *)
(***************************************************************************)
EXTENDS Integers, Sequences, FiniteSets, TLC, Json

CONSTANTS
  Repo,       \* "hash" | "json"
  Savers,     \* saver names; a saver writes its own name as the value of f1 (and of f2, unless nil)
  InitDocs,   \* the stored documents a behaviour may start from
  MaxObtain,  \* NewEntity/Fetch calls per saver
  MaxSaves,   \* Save calls per saver
  MaxVer,     \* bound on versions
  Defect,     \* "none" = the code as it is; negative configs: "inverted-compare", "no-increment", "drops-f1"
  Emit, MaxOps

ASSUME Repo \in {"hash", "json"}

Nil == "nil"
Absent == [ver |-> -1, f1 |-> "none", f2 |-> Nil, f3 |-> Nil]
Base(f2v) == [ver |-> 1, f1 |-> "base", f2 |-> f2v, f3 |-> f2v]
InitDocs3 == {Absent, Base("base"), Base(Nil)}

VARIABLES
  doc,    \* the stored document
  ent,    \* saver -> entity in memory: [has, ver, f1, f2]
  obt,    \* saver -> number of NewEntity/Fetch calls
  sv,     \* saver -> number of Save calls
  wins,   \* base version -> number of successful saves made from it (history)
  last,   \* last step
  hist    \* emitted behaviour

vars == <<doc, ent, obt, sv, wins, last, hist>>

NoEnt == [has |-> FALSE, ver |-> 0, f1 |-> "none", f2 |-> Nil, f3 |-> Nil]
NoStep == [op |-> "Init", s |-> "none", f1 |-> "none", f2 |-> Nil, ok |-> FALSE, base |-> 0, nf2 |-> FALSE]

Snapshot == [op |-> last.op, s |-> last.s, f1 |-> last.f1, f2 |-> last.f2, ok |-> last.ok, base |-> last.base,
             nf2 |-> last.nf2, ver |-> doc.ver, df1 |-> doc.f1, df2 |-> doc.f2, df3 |-> doc.f3]
Record == hist' = IF Emit THEN Append(hist, Snapshot') ELSE hist
CanStep == ~Emit \/ Len(hist) < MaxOps + 1   \* hist[1] describes the initial document

Init ==
  /\ doc \in InitDocs
  /\ ent = [s \in Savers |-> NoEnt]
  /\ obt = [s \in Savers |-> 0] /\ sv = [s \in Savers |-> 0]
  /\ wins = [v \in 0..MaxVer |-> 0]
  /\ last = NoStep
  /\ hist = IF Emit THEN <<Snapshot>> ELSE <<>>

\* repo.NewEntity(): version 0, the saver then fills in its values
New(s, f2v) ==
  /\ CanStep /\ obt[s] < MaxObtain
  /\ ent' = [ent EXCEPT ![s] = [has |-> TRUE, ver |-> 0, f1 |-> s, f2 |-> f2v, f3 |-> f2v]]
  /\ obt' = [obt EXCEPT ![s] = @ + 1]
  /\ last' = [NoStep EXCEPT !.op = "New", !.s = s, !.f1 = s, !.f2 = f2v]
  /\ UNCHANGED <<doc, sv, wins>>
  /\ Record

\* repo.Fetch(): a copy of the stored document (round trip), then the saver overwrites the fields
Fetch(s, f2v) ==
  /\ CanStep /\ obt[s] < MaxObtain
  /\ doc.ver >= 0
  /\ ent' = [ent EXCEPT ![s] = [has |-> TRUE, ver |-> doc.ver, f1 |-> s, f2 |-> f2v, f3 |-> f2v]]
  /\ obt' = [obt EXCEPT ![s] = @ + 1]
  /\ last' = [NoStep EXCEPT !.op = "Fetch", !.s = s, !.f1 = s, !.f2 = f2v]
  /\ UNCHANGED <<doc, sv, wins>>
  /\ Record

\* `not v or v == ARGV[2]`
Matches(e) ==
  IF Defect = "inverted-compare" THEN doc.ver = -1 \/ doc.ver # e.ver
  ELSE doc.ver = -1 \/ doc.ver = e.ver

StoredF2(e) ==
  IF Repo = "hash" /\ e.f2 = Nil THEN doc.f2   \* the field is not among the HSET arguments: it stays what it was
  ELSE e.f2

Save(s) ==
  /\ CanStep /\ ent[s].has /\ sv[s] < MaxSaves /\ ent[s].ver < MaxVer
  /\ sv' = [sv EXCEPT ![s] = @ + 1]
  /\ LET e == ent[s]
         nv == IF Defect = "no-increment" THEN e.ver ELSE e.ver + 1
     IN IF Matches(e)
        THEN /\ doc' = [ver |-> nv, f1 |-> IF Defect = "drops-f1" THEN doc.f1 ELSE e.f1, f2 |-> StoredF2(e), f3 |-> e.f3]
             /\ ent' = [ent EXCEPT ![s].ver = nv]
             /\ wins' = [wins EXCEPT ![e.ver] = @ + 1]
             /\ last' = [NoStep EXCEPT !.op = "Save", !.s = s, !.ok = TRUE, !.base = e.ver,
                                       !.nf2 = (Repo = "hash" /\ e.f2 = Nil /\ doc.f2 # Nil)]
        ELSE /\ last' = [NoStep EXCEPT !.op = "Save", !.s = s, !.ok = FALSE, !.base = e.ver]
             /\ UNCHANGED <<doc, ent, wins>>
  /\ UNCHANGED obt
  /\ Record

Next == \E s \in Savers : Save(s) \/ \E f2v \in {s, Nil} : New(s, f2v) \/ Fetch(s, f2v)

Spec == Init /\ [][Next]_vars

MCView == <<doc, ent, obt, sv, wins>>

(***************************************************************************)
(* Properties                                                              *)
(***************************************************************************)
TypeOK == doc.ver \in -1..MaxVer /\ \A s \in Savers : ent[s].ver \in 0..MaxVer

\* among the saves based on the same version at most one succeeds
AtMostOneWinner == \A v \in 0..MaxVer : wins[v] <= 1

Saved == last'.op = "Save" /\ last'.ok
\* a successful Save advances the version by exactly one, in the store and in the caller's entity
VersionPlusOne ==
  [][Saved => (doc'.ver = last'.base + 1 /\ ent'[last'.s].ver = last'.base + 1)]_vars
\* ... and stores every field that has a value
AllFieldsStored ==
  [][Saved => (doc'.f1 = ent[last'.s].f1 /\ doc'.f3 = ent[last'.s].f3 /\ (ent[last'.s].f2 # Nil => doc'.f2 = ent[last'.s].f2))]_vars
\* a Save answered ErrVersionMismatch changes nothing
FailedSaveChangesNothing ==
  [][(last'.op = "Save" /\ ~last'.ok) => (doc' = doc /\ ent' = ent)]_vars
\* Fetch afterwards returns an entity equal to the saved one -- except, for the hash repository as it is,
\* when a nil pointer was saved over a stored value (last'.nf2)
FetchEqualsSavedButNil ==
  [][(Saved /\ ~last'.nf2) => doc' = [ver |-> ent'[last'.s].ver, f1 |-> ent'[last'.s].f1, f2 |-> ent'[last'.s].f2, f3 |-> ent'[last'.s].f3]]_vars
\* the unconditional form: holds for the JSON repository, violated by the hash repository (known finding)
FetchEqualsSaved ==
  [][Saved => doc' = [ver |-> ent'[last'.s].ver, f1 |-> ent'[last'.s].f1, f2 |-> ent'[last'.s].f2, f3 |-> ent'[last'.s].f3]]_vars

EmitCase == (Emit /\ Len(hist) = MaxOps + 1) => PrintT(<<"CASE", ToJson([repo |-> Repo, init |-> hist[1], steps |-> Tail(hist)])>>)
=============================================================================
