SPECIFICATION TraceSpec
CONSTANTS
  Ded = {1, 2, 3}
  Blk = {4, 5}
  Str = {}
  CapD = 2
  CapS = 1
  MaxWires = 32
  MaxOps = 100000
  MaxCmds = 1
  Classes = {"ok"}
  MaxRounds = 100000
  BugNoMark = FALSE
  BugSkipClean = FALSE
  BugSkipTrackingOff = FALSE
  BugDoubleStore = FALSE
  BugNoCloseUnclean = FALSE
  FixStreamCtxStore = TRUE
  BugKeepAbandoned = FALSE
  Emit = FALSE
  WarmChoices = {FALSE}
INVARIANTS TypeOK SessionIsolated Exclusive RejectAfterRelease MarkedWhenReleased CleanOnReturn NoForeignInFlight NoLeak
CONSTRAINT HighWater
POSTCONDITION TraceAccepted
CHECK_DEADLOCK FALSE
