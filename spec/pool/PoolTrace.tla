----------------------------- MODULE PoolTrace -----------------------------
(* TraceLog validation for Pool.tla: every line of the ndjson trace recorded from the real pool (hook events emitted
   while the pool mutex is held, plus the driver's own events) must be explained by the corresponding action of
   Pool.tla, with the logged size / idle count / down flag equal to the specification's state after the action.
   Steps the implementation cannot report (the enqueue inside sync.Cond.Wait, Signal, Broadcast, the instant a
   context ends) are silent steps TLC places wherever they fit.  Several runs are concatenated with RESET lines.
   Acceptance: the highest trace position reached (register 1) is the end of the trace (POSTCONDITION). *)
EXTENDS Pool, Json, IOUtils

VARIABLES l,        \* position in TraceLog
          mayc,     \* processes whose context cancellation has begun (CancelBegin logged)
          pend,     \* CancelEnd logged, but the process may still report one step whose context read came earlier
          mustc     \* processes that must see their context done from now on

TraceLog == ndJsonDeserialize(IOEnv.VERIF_TRACE)
tvars == <<vars, l, mayc, pend, mustc>>

Acquiring(p) == pc[p] \in {"check", "waitEnq", "parked", "making", "makebad", "returning"}
Ev == TraceLog[l]
Is(e) == l <= Len(TraceLog) /\ TraceLog[l].ev = e
Step == l' = l + 1
Post == size' = Ev.size /\ Len(idle') = Ev.idle /\ down' = Ev.down
Same == UNCHANGED <<mayc, pend, mustc>>
\* a hook event of process p: its context read came before the event was logged, so a cancellation completed
\* (CancelEnd) before the *previous* event of p must be visible, one completed since then need not be
Seen(p) == /\ ((p \in mustc /\ Acquiring(p)) => ctxDone[p])
           /\ mustc' = (IF p \in pend THEN mustc \cup {p} ELSE mustc)
           /\ pend' = pend \ {p} /\ UNCHANGED mayc

TraceInit == Init /\ l = 1 /\ mayc = {} /\ pend = {} /\ mustc = {} /\ TLCSet(1, 1)

Reset == /\ Is("RESET") /\ Step
         /\ size' = 0 /\ idle' = <<>> /\ down' = FALSE /\ lock' = NONE /\ condQ' = {}
         /\ pc' = [p \in Proc |-> "idle"] /\ held' = [p \in Proc |-> NONE] /\ nacq' = [p \in Proc |-> 0]
         /\ ctxDone' = [p \in Proc |-> FALSE] /\ watcher' = [p \in Proc |-> "none"]
         /\ wstate' = [w \in Wires |-> "none"] /\ broken' = {} /\ expired' = {} /\ nextW' = 1
         /\ lateFires' = 0 /\ sig' = 0 /\ breaks' = 0 /\ idleRuns' = 0 /\ closes' = 0
         /\ mayc' = {} /\ pend' = {} /\ mustc' = {}

\* ---- driver events
CtxNew == /\ Is("CtxNew") /\ Step /\ mayc' = mayc \ {Ev.p} /\ pend' = pend \ {Ev.p} /\ mustc' = mustc \ {Ev.p}
          /\ UNCHANGED vars
CancelBegin == /\ Is("CancelBegin") /\ Step /\ mayc' = mayc \cup {Ev.p} /\ UNCHANGED <<vars, pend, mustc>>
CancelEnd == /\ Is("CancelEnd") /\ Step /\ pend' = pend \cup {Ev.p} /\ UNCHANGED <<vars, mayc, mustc>>
Made == /\ Is("Made") /\ Step /\ nextW = Ev.w /\ MakeDone(Ev.p, Ev.ok) /\ Same
Ret == /\ Is("Ret") /\ Step /\ pc[Ev.p] = "using"
       /\ CASE Ev.kind = "wire" -> held[Ev.p] = Ev.w
            [] Ev.kind = "ctxdead" -> held[Ev.p] = CTXDEAD
            [] Ev.kind = "pooldead" -> held[Ev.p] = POOLDEAD
            [] OTHER -> FALSE
       /\ UNCHANGED vars /\ Same
Break == /\ Is("Break") /\ Step /\ WireBreak(Ev.w, Ev.kind) /\ Same

\* ---- hook events (pool mutex held)
\* (this hook fires before Acquire reads the context for the first time)
TAcqLock == /\ Is("pool.acq.lock") /\ Step
            /\ \E sd \in BOOLEAN : /\ (Ev.p \in (pend \cup mustc) => sd) /\ (sd => Ev.p \in mayc)
                                   /\ AcqLock(Ev.p, sd)
            /\ mustc' = (IF Ev.p \in pend THEN mustc \cup {Ev.p} ELSE mustc) /\ pend' = pend \ {Ev.p} /\ UNCHANGED mayc
            /\ Post
TAcqWait    == Is("pool.acq.wait") /\ Step /\ Seen(Ev.p) /\ Check(Ev.p) /\ Post
TAcqWoken   == Is("pool.acq.woken") /\ Step /\ Seen(Ev.p) /\ Woken(Ev.p) /\ Post
TAcqCtxDead == Is("pool.acq.ctxdead") /\ Step /\ Seen(Ev.p) /\ RetCtxDead(Ev.p) /\ Post
TAcqDown    == Is("pool.acq.down") /\ Step /\ Seen(Ev.p) /\ RetDown(Ev.p) /\ Post
TAcqMake    == Is("pool.acq.make") /\ Step /\ Seen(Ev.p) /\ Make(Ev.p) /\ Post
TAcqMakeBad == Is("pool.acq.makebad") /\ Step /\ Seen(Ev.p) /\ MakeBad(Ev.p) /\ Post
TAcqTake    == Is("pool.acq.take") /\ Step /\ Seen(Ev.p) /\ Take(Ev.p) /\ Post
TAcqTakeBad == Is("pool.acq.takebad") /\ Step /\ Seen(Ev.p) /\ TakeBad(Ev.p) /\ Post
TStoreKeep  == Is("pool.store.keep") /\ Step /\ Same /\ StoreKeep(Ev.p) /\ Post
TStoreDrop  == Is("pool.store.drop") /\ Step /\ Same /\ StoreDrop(Ev.p) /\ held[Ev.p] # CTXDEAD /\ Post
TStorePlace == Is("pool.store.placeholder") /\ Step /\ Same /\ StoreDrop(Ev.p) /\ held[Ev.p] = CTXDEAD /\ Post
TClose      == Is("pool.close") /\ Step /\ Same /\ Close /\ Post
TIdle       == Is("pool.idle.removed") /\ Step /\ Same /\ IdleRemove /\ Post
TWatch      == Is("pool.watch.bcast") /\ Step /\ Same /\ (LateFire \/ \E p \in Proc : WatcherFire(p))

\* ---- silent steps
Silent == /\ UNCHANGED <<l, mustc, pend, mayc>>
          /\ \/ \E p \in Proc : WaitEnq(p) \/ AcqReturn(p)
             \/ Signal \/ CloseBcast
             \/ \E p \in mayc : CtxCancel(p)

TraceNext == \/ Reset \/ CtxNew \/ CancelBegin \/ CancelEnd \/ Made \/ Ret \/ Break
             \/ TAcqLock \/ TAcqWait \/ TAcqWoken \/ TAcqCtxDead \/ TAcqDown \/ TAcqMake \/ TAcqMakeBad
             \/ TAcqTake \/ TAcqTakeBad \/ TStoreKeep \/ TStoreDrop \/ TStorePlace \/ TClose \/ TIdle \/ TWatch
             \/ Silent

TraceSpec == TraceInit /\ [][TraceNext]_tvars

\* high-water mark of the trace position (needs -workers 1)
HighWater == TLCSet(1, IF l > TLCGet(1) THEN l ELSE TLCGet(1))
TraceAccepted == \/ TLCGet(1) = Len(TraceLog) + 1
                 \/ PrintT(<<"REJECTED-AT", TLCGet(1), TraceLog[TLCGet(1)]>>) /\ FALSE
TraceView == <<vars, l, mayc, pend, mustc>>
=============================================================================
