SPECIFICATION Spec
CONSTANTS
  Ded = {1, 2}
  Blk = {3}
  Str = {}
  CapD = 1
  CapS = 1
  MaxWires = 4
  MaxOps = 2
  MaxCmds = 2
  Classes = {"ok", "nil", "rerr", "werr", "cut"}
  MaxRounds = 1
  BugNoMark = TRUE
  BugSkipClean = FALSE
  BugSkipTrackingOff = FALSE
  BugDoubleStore = FALSE
  BugNoCloseUnclean = FALSE
  FixStreamCtxStore = TRUE
  BugKeepAbandoned = FALSE
  Emit = FALSE
  WarmChoices = {FALSE}
INVARIANTS TypeOK StreamStoreExactlyOnce SessionIsolated Exclusive RejectAfterRelease MarkedWhenReleased CleanOnReturn
  UncleanClosedBeforeStore NoLeak StreamBookkeeping
CHECK_DEADLOCK FALSE
