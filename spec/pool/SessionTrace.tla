---------------------------- MODULE SessionTrace ----------------------------
(* Trace validation for PoolSessions.tla (C25): every line of the ndjson log recorded by `sessiondrv -mode dedicated`
   from the real client (pool hook events emitted under the pool mutex, commands received by the fake server emitted
   under its dispatcher mutex, the sessions' own events) must be explained by the corresponding action of
   PoolSessions.tla, all invariants are evaluated at every step, and the server-side state logged when a connection
   goes back to the pool (subscriptions, tracking) must equal the specification's wire state.

   A blocking caller (mux.blocking on the same pool) whose BLPOP is abandoned through its context must not hand the
   connection back with that command in flight: its Send event says "abandon", the Store that follows must be a drop,
   and a kept connection must not have a blocked command on the server (field blck of Store).

   What the implementation cannot report is a silent step: step 1 of mux.Store (hook swap), and steps 2 and 3 in
   exactly those branches in which the specification sends nothing.  If the specification says UNSUBSCRIBE/DISCARD or
   CLIENT TRACKING OFF must be sent and the log has no such command, the Store event cannot be explained.

   Commands are attributed to processes by their tag (p >= 0) or, for MULTI/EXEC/CLIENT TRACKING ON which have no key,
   to the holder of the connection they arrive on (p = -1).  conn -> wire is learnt at the first command of an
   acquisition.  Several runs are concatenated with RESET lines. *)
EXTENDS PoolSessions, IOUtils

VARIABLES l,      \* position in TraceLog
          cmap    \* server connection id -> wire id (0 = not a pool wire seen so far)

TraceLog == ndJsonDeserialize(IOEnv.VERIF_TRACE)
tvars == <<vars, l, cmap>>
Conns == 1..64

Ev == TraceLog[l]
Is(e) == l <= Len(TraceLog) /\ TraceLog[l].ev = e
Adv == l' = l + 1
Keep == UNCHANGED cmap

TraceInit == Init /\ l = 1 /\ cmap = [c \in Conns |-> 0] /\ TLCSet(1, 1)

Reset == /\ Is("RESET") /\ Adv /\ cmap' = [c \in Conns |-> 0]
         /\ wires' = [w \in W |-> Fresh("d")] /\ nextW' = 1
         /\ idle' = [pl \in {"d", "s"} |-> <<>>] /\ size' = [pl \in {"d", "s"} |-> 0]
         /\ holder' = [w \in W |-> 0]
         /\ pc' = [p \in Procs |-> "start"] /\ pw' = [p \in Procs |-> 0]
         /\ mark' = [p \in Ded |-> FALSE] /\ hasInv' = [p \in Ded |-> FALSE] /\ ops' = [p \in Procs |-> 0]
         /\ foreign' = FALSE /\ lateUse' = FALSE
         /\ UNCHANGED <<sctx, sn, se, stores, shist, warm, crashed>>

\* ---- pool hook events
TAcq == /\ Is("Acq") /\ Adv /\ Keep /\ UNCHANGED <<warm, crashed>>
        /\ LET p == Ev.p IN
           /\ (Ev.what = "make") = (Len(idle["d"]) = 0)
           /\ \/ p \in Ded /\ DAcq(p)
              \/ p \in Blk /\ BAcq(p)

\* the connection goes back: the logged server-side state must be the specification's
TStore == /\ Is("Store") /\ Adv /\ Keep /\ UNCHANGED <<warm, crashed>>
          /\ LET p == Ev.p
                 w == pw[p]
             IN /\ (Ev.conn # 0 => cmap[Ev.conn] = w)
                /\ (Ev.what = "keep") = wires[w].open
                /\ (Ev.what = "keep" /\ Ev.subs >= 0 =>
                       /\ (Ev.subs > 0) = wires[w].subs
                       /\ (p \in Ded => (Ev.track > 0) = wires[w].track)
                       /\ (Ev.multi > 0) = wires[w].multi
                       \* a command the server still owes an answer to (a blocked BLPOP) on a connection that becomes idle
                       /\ (Ev.blck >= 0 => (Ev.blck > 0) = (wires[w].infl # 0)))
                /\ \/ p \in Ded /\ DSt4(p)
                   \/ p \in Blk /\ BStore(p)

\* ---- commands received by the server
Target(p, c) == IF cmap[c] # 0 THEN cmap[c] ELSE pw[p]
Bind(p, c) == cmap' = IF cmap[c] = 0 /\ pw[p] > 0 THEN [cmap EXCEPT ![c] = pw[p]] ELSE cmap

\* one of DOp's alternatives, chosen by the logged kind
DOpKind(d, k) ==
  /\ pc[d] = "held"
  /\ LET w == pw[d]
     IN wires' = [wires EXCEPT ![w] =
                   CASE k = "cmd" -> @
                     [] k = "multi" -> [@ EXCEPT !.multi = TRUE]
                     [] k = "exec" -> [@ EXCEPT !.multi = FALSE]
                     [] k = "sub" -> [@ EXCEPT !.subs = TRUE, !.bg = TRUE]
                     [] k = "bgcmd" -> [@ EXCEPT !.bg = TRUE]
                     [] k = "hooks" -> [@ EXCEPT !.hooks = IF @ = "none" THEN "ps" ELSE @, !.bg = TRUE]
                     [] k = "inval" -> [@ EXCEPT !.hooks = "inv", !.track = TRUE, !.bg = TRUE]
                     [] OTHER -> [@ EXCEPT !.blck = TRUE, !.bg = TRUE]]
  /\ ops' = [ops EXCEPT ![d] = @ + 1]
  /\ UNCHANGED <<nextW, idle, size, holder, pc, pw, mark, hasInv, sctx, sn, se, stores, lateUse, shist>>

\* a tagged command of process p on connection c
TSend ==
  /\ Is("Send") /\ Ev.p >= 0 /\ Adv /\ UNCHANGED <<warm, crashed>>
  /\ LET p == Ev.p
         c == Ev.conn
     IN IF p = 0
        THEN \* shared pipeline traffic: must stay on a connection that is no pool wire
             /\ Keep /\ foreign' = (foreign \/ cmap[c] # 0)
             /\ UNCHANGED <<wires, nextW, idle, size, holder, pc, pw, mark, hasInv, ops, sctx, sn, se, stores, lateUse, shist>>
        ELSE IF Ev.what = "late" \/ (p \in Ded /\ pc[p] \in {"st1", "st2", "st3", "st4", "released"})
        THEN \* a call made after release reached a connection
             /\ Keep /\ lateUse' = TRUE /\ foreign' = (foreign \/ (cmap[c] # 0 /\ holder[cmap[c]] # p))
             /\ UNCHANGED <<wires, nextW, idle, size, holder, pc, pw, mark, hasInv, ops, sctx, sn, se, stores, shist>>
        ELSE IF pw[p] <= 0 \/ Target(p, c) # pw[p]
        THEN \* the command arrived on a connection this process does not hold
             /\ Keep /\ foreign' = TRUE
             /\ UNCHANGED <<wires, nextW, idle, size, holder, pc, pw, mark, hasInv, ops, sctx, sn, se, stores, lateUse, shist>>
        ELSE /\ Bind(p, c)
             /\ \/ p \in Ded /\ DOpKind(p, Ev.what) /\ Sent(p, pw[p])
                \* a blocking caller's command: what = "abandon" marks a BLPOP on a list nobody pushes to - it can only end by
                \* its caller's context (cancel-only or deadline), i.e. it is certain to be abandoned
                \/ p \in Blk /\ pc[p] = "held" /\ Sent(p, pw[p])
                   /\ pc' = [pc EXCEPT ![p] = "store"]
                   /\ wires' = (IF Ev.what = "abandon"
                                THEN [wires EXCEPT ![pw[p]] = [@ EXCEPT !.blck = TRUE, !.bg = TRUE, !.infl = p, !.open = @ /\ BugKeepAbandoned]]
                                ELSE wires)
                   /\ UNCHANGED <<nextW, idle, size, holder, pw, mark, hasInv, ops, sctx, sn, se, stores, lateUse, shist>>

\* MULTI / EXEC / CLIENT TRACKING ON: no tag, attributed to the dedicated session holding the connection
TUntagged ==
  /\ Is("Send") /\ Ev.p < 0 /\ Adv /\ Keep /\ UNCHANGED <<warm, crashed>>
  /\ cmap[Ev.conn] # 0
  /\ LET d == holder[cmap[Ev.conn]] IN d \in Ded /\ DOpKind(d, Ev.what) /\ UNCHANGED foreign

\* the cleanup commands of mux.Store
TClean ==
  /\ Is("Clean") /\ Adv /\ Keep /\ UNCHANGED <<warm, crashed>>
  /\ cmap[Ev.conn] # 0
  /\ LET d == holder[cmap[Ev.conn]]
     IN /\ d \in Ded
        /\ \/ Ev.what = "unsub" /\ DSt2(d) /\ wires[pw[d]].bg /\ wires[pw[d]].open /\ ~wires[pw[d]].blck
           \/ Ev.what = "trackoff" /\ DSt3(d) /\ hasInv[d] /\ wires[pw[d]].open

\* ---- the sessions' own events
THooks == /\ Is("Hooks") /\ Adv /\ Keep /\ UNCHANGED <<warm, crashed>>
          /\ DOpKind(Ev.p, IF Ev.what = "inv" THEN "inval" ELSE "hooks") /\ UNCHANGED foreign
TBlockFail == /\ Is("BlockFail") /\ Adv /\ Keep /\ UNCHANGED <<warm, crashed>> /\ DOpKind(Ev.p, "blockfail") /\ UNCHANGED foreign
TClose == Is("Close") /\ Adv /\ Keep /\ UNCHANGED <<warm, crashed>> /\ DClose(Ev.p)
TRelease == Is("Release") /\ Adv /\ Keep /\ UNCHANGED <<warm, crashed>> /\ DRelease(Ev.p)
TRelease2 == Is("Release2") /\ Adv /\ Keep /\ UNCHANGED <<warm, crashed>> /\ DRelease2(Ev.p)
\* a call after release returned: it must have been rejected by the mark
TLate == Is("Late") /\ Adv /\ Keep /\ UNCHANGED <<warm, crashed>> /\ Ev.res = "recycled" /\ DLate(Ev.p)

\* ---- silent steps: what mux.Store does without sending anything
Silent == /\ UNCHANGED <<l, cmap, warm, crashed>>
          /\ \/ \E d \in Ded :
                  \/ DSt1(d)
                  \/ DSt2(d) /\ ~(wires[pw[d]].bg /\ wires[pw[d]].open /\ ~wires[pw[d]].blck)
                  \/ DSt3(d) /\ ~(hasInv[d] /\ wires[pw[d]].open)
             \* a blocking caller whose context ended before its command was written (nothing reaches the server)
             \/ \E b \in Blk : BGiveUp(b)

TraceNext == \/ Reset \/ TAcq \/ TStore \/ TSend \/ TUntagged \/ TClean \/ THooks \/ TBlockFail \/ TClose
             \/ TRelease \/ TRelease2 \/ TLate \/ Silent
TraceSpec == TraceInit /\ [][TraceNext]_tvars

HighWater == TLCSet(1, IF l > TLCGet(1) THEN l ELSE TLCGet(1))
TraceAccepted == \/ TLCGet(1) = Len(TraceLog) + 1
                 \/ PrintT(<<"REJECTED-AT", TLCGet(1), TraceLog[TLCGet(1)]>>) /\ FALSE
=============================================================================
