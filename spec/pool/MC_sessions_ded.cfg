SPECIFICATION Spec
CONSTANTS
  Ded = {1, 2}
  Blk = {3}
  Str = {}
  CapD = 1
  CapS = 1
  MaxWires = 4
  MaxOps = 1
  MaxCmds = 2
  Classes = {"ok", "nil", "rerr", "werr", "cut"}
  MaxRounds = 1
  BugNoMark = FALSE
  BugSkipClean = FALSE
  BugSkipTrackingOff = FALSE
  BugDoubleStore = FALSE
  BugNoCloseUnclean = FALSE
  FixStreamCtxStore = TRUE
  BugKeepAbandoned = FALSE
  Emit = FALSE
  WarmChoices = {FALSE}
INVARIANTS TypeOK StreamStoreExactlyOnce SessionIsolated Exclusive RejectAfterRelease MarkedWhenReleased CleanOnReturn NoForeignInFlight
  UncleanClosedBeforeStore NoLeak StreamBookkeeping
CHECK_DEADLOCK FALSE
