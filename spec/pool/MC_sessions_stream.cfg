SPECIFICATION Spec
CONSTANTS
  Ded = {}
  Blk = {}
  Str = {4, 5}
  CapD = 1
  CapS = 1
  MaxWires = 4
  MaxOps = 2
  MaxCmds = 2
  Classes = {"ok", "nil", "rerr", "werr", "cut"}
  MaxRounds = 2
  BugNoMark = FALSE
  BugSkipClean = FALSE
  BugSkipTrackingOff = FALSE
  BugDoubleStore = FALSE
  BugNoCloseUnclean = FALSE
  FixStreamCtxStore = TRUE
  BugKeepAbandoned = FALSE
  Emit = FALSE
  WarmChoices = {FALSE}
INVARIANTS TypeOK StreamStoreExactlyOnce SessionIsolated Exclusive RejectAfterRelease MarkedWhenReleased CleanOnReturn
  UncleanClosedBeforeStore NoLeak StreamBookkeeping
CHECK_DEADLOCK FALSE
