SPECIFICATION Spec
CONSTANTS
  Proc = {1, 2, 3}
  Cap = 2
  MinSize = 1
  MaxWires = 4
  MaxAcq = 1
  Cancelable = {1, 2}
  MaxBreaks = 1
  MaxIdleRuns = 1
  MaxCloses = 1
  BugBcastNoLock = FALSE
  BugDeadStore = FALSE
INVARIANTS TypeOK Accounting Bound SizeBound Exclusive HandedOutLive NoLeak IdleAreLive NoLostWakeup
PROPERTIES AfterClose ClosedWiresStayClosed
CHECK_DEADLOCK FALSE
