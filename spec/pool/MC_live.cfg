SPECIFICATION FairSpec
CONSTANTS
  Proc = {1, 2}
  Cap = 1
  MinSize = 0
  MaxWires = 2
  MaxAcq = 2
  Cancelable = {1}
  MaxBreaks = 0
  MaxIdleRuns = 0
  MaxCloses = 1
  BugBcastNoLock = FALSE
  BugDeadStore = FALSE
PROPERTIES CtxDoneReturns ClosedReturns
CHECK_DEADLOCK FALSE
