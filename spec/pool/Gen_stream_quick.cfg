SPECIFICATION Spec
CONSTANTS
  Ded = {}
  Blk = {}
  Str = {1}
  CapD = 1
  CapS = 1
  MaxWires = 2
  MaxOps = 0
  MaxCmds = 3
  Classes = {"ok-empty", "ok-bin", "ok-big", "ok-int", "ok-dbl", "ok-simple", "nil", "rerr", "werr", "cut"}
  MaxRounds = 1
  BugNoMark = FALSE
  BugSkipClean = FALSE
  BugSkipTrackingOff = FALSE
  BugDoubleStore = FALSE
  BugNoCloseUnclean = FALSE
  FixStreamCtxStore = TRUE
  BugKeepAbandoned = FALSE
  Emit = TRUE
  WarmChoices = {FALSE, TRUE}
INVARIANTS EmitCase TypeOK StreamStoreExactlyOnce Exclusive UncleanClosedBeforeStore NoLeak StreamBookkeeping
CHECK_DEADLOCK FALSE
