---------------------------- MODULE PoolSessions ----------------------------
(* Holders of pooled connections of redis/rueidis (properties C25 and C29).  The pools themselves are atomic here
   (their critical sections are Pool.tla, property C24); this module is about what the holders do with a wire
   between pool.Acquire and pool.Store:

   * dedicated sessions  client.go Dedicated/Dedicate -> dedicatedSingleClient (check(), release() with the mark),
                         mux.go Store = GetPubSubHooks / SetPubSubHooks({}) / CleanSubscriptions / CLIENT TRACKING OFF /
                         dpool.Store, pipe.go CleanSubscriptions (Close when a blocking call is outstanding,
                         UNSUBSCRIBE PUNSUBSCRIBE SUNSUBSCRIBE DISCARD only when the background loop runs)
   * blocking callers    mux.go blocking: Acquire, Do, Close on a non-Redis error, Store
   * streams             mux.go DoStream/DoMultiStream (spool.Acquire), pipe.go DoStream/DoMultiStream (ctx.Err() test,
                         write, n replies outstanding), RedisResultStream.WriteTo (n, e, clean flag, Close when a reply
                         was not consumed completely, Store exactly once after the last reply)

   One action per step the code takes on its own (each of the four steps of mux.Store is an action: other goroutines
   run between them).  Wire state is the state the server and the pipe keep per connection: subscriptions, hooks,
   tracking, open MULTI, background loop started, outstanding blocking call, unread reply bytes (dirty).
   History variables (foreign, lateUse) record what the isolation properties forbid.

   Bug* constants re-introduce defects (negative configs); FixStreamCtxStore = FALSE is pipe.go before the repair of
   the leak on the ctx.Err() path of DoStream/DoMultiStream (DESIGN.md section 7 #12). *)
EXTENDS Integers, Sequences, FiniteSets, TLC, Json

CONSTANTS Ded, Blk, Str,          \* process ids of dedicated sessions, blocking callers, stream callers
          CapD, CapS,             \* BlockingPoolSize of dpool / spool
          MaxWires, MaxOps,       \* connections ever made; commands per dedicated session
          MaxCmds,                \* commands per DoMultiStream
          Classes,                \* reply classes a WriteTo can meet: "ok" (or the refinements "ok-empty" "ok-bin" "ok-big"
                                  \* "ok-int" "ok-dbl" "ok-simple" used for case generation), "nil", "rerr", "werr", "cut"
          MaxRounds,              \* how often a blocking / stream caller starts over
          BugNoMark,              \* release() does not set the mark
          BugSkipClean,           \* mux.Store skips CleanSubscriptions
          BugSkipTrackingOff,     \* mux.Store skips CLIENT TRACKING OFF
          BugDoubleStore,         \* WriteTo stores the wire twice
          BugNoCloseUnclean,      \* WriteTo does not close a wire whose reply was not consumed completely
          FixStreamCtxStore,      \* DoStream/DoMultiStream store the wire when ctx.Err() != nil (the repair)
          BugKeepAbandoned,       \* mux.blocking closes the wire only when the wire itself is broken (isBroken), not when the
                                  \* caller merely gave up: a healthy wire goes back with the abandoned command in flight
          Emit,                   \* print the stream history of finished behaviours as CASE records
          WarmChoices             \* {FALSE}: pools start empty; {FALSE, TRUE}: also start with one idle wire in the stream pool

VARIABLES wires,     \* wire id -> state record
          nextW,
          idle,      \* pool ("d" | "s") -> sequence of idle wire ids
          size,      \* pool -> connections counted
          holder,    \* wire id -> process holding it (0 = nobody)
          pc, pw,    \* process -> control state / wire (0 none, -1 placeholder for a done context)
          mark,      \* dedicated: the recycle mark
          hasInv,    \* dedicated: mux.Store's local hasOnInvalidations
          ops,       \* dedicated: commands issued; blocking / stream: rounds done
          sctx,      \* stream: "live" | "done"
          sn, se,    \* stream: RedisResultStream.n and .e ("nil" | "eof" | "err")
          stores,    \* stream: pool.Store calls for the wire of the current stream
          foreign,   \* history: a command reached a wire that its sender did not hold
          lateUse,   \* history: a call made after release/Close reached a wire
          shist,     \* history (generation): stream process -> steps with the outcome the specification predicts
          warm,      \* the stream pool started with one idle wire
          crashed    \* history: the process panicked (CleanSubscriptions inside an open MULTI, see ReleaseNeverPanics)

vars == <<wires, nextW, idle, size, holder, pc, pw, mark, hasInv, ops, sctx, sn, se, stores, foreign, lateUse, shist, warm, crashed>>

Procs == Ded \cup Blk \cup Str
W == 1..MaxWires
Fresh(pl) == [pool |-> pl, open |-> TRUE, bg |-> FALSE, subs |-> FALSE, hooks |-> "none", track |-> FALSE,
              multi |-> FALSE, blck |-> FALSE, dirty |-> FALSE,
              infl |-> 0]      \* process whose command is still unanswered on the wire although its call returned (0: none)
Cap(pl) == IF pl = "d" THEN CapD ELSE CapS

Init == /\ warm \in WarmChoices /\ crashed = FALSE
        /\ wires = [w \in W |-> IF warm /\ w = 1 THEN Fresh("s") ELSE Fresh("d")] /\ nextW = (IF warm THEN 2 ELSE 1)
        /\ idle = [pl \in {"d", "s"} |-> IF warm /\ pl = "s" THEN <<1>> ELSE <<>>]
        /\ size = [pl \in {"d", "s"} |-> IF warm /\ pl = "s" THEN 1 ELSE 0]
        /\ holder = [w \in W |-> 0]
        /\ pc = [p \in Procs |-> "start"] /\ pw = [p \in Procs |-> 0]
        /\ mark = [p \in Ded |-> FALSE] /\ hasInv = [p \in Ded |-> FALSE] /\ ops = [p \in Procs |-> 0]
        /\ sctx = [p \in Str |-> "live"] /\ sn = [p \in Str |-> 0] /\ se = [p \in Str |-> "nil"]
        /\ stores = [p \in Str |-> 0]
        /\ foreign = FALSE /\ lateUse = FALSE /\ shist = [p \in Str |-> <<>>]

\* ---------------------------------------------------------------------------------------------- the pools (atomic)
CanAcquire(pl) == Len(idle[pl]) > 0 \/ (size[pl] < Cap(pl) /\ nextW <= MaxWires)
\* pool.Acquire: the most recently stored idle wire, or a new connection (set up by _newPipe: Setup.tla)
Acquire(p, pl) ==
  IF Len(idle[pl]) > 0
  THEN LET w == idle[pl][Len(idle[pl])]
       IN /\ idle' = [idle EXCEPT ![pl] = SubSeq(@, 1, Len(@) - 1)]
          /\ holder' = [holder EXCEPT ![w] = p] /\ pw' = [pw EXCEPT ![p] = w]
          /\ UNCHANGED <<wires, nextW, size>>
  ELSE /\ wires' = [wires EXCEPT ![nextW] = Fresh(pl)]
       /\ holder' = [holder EXCEPT ![nextW] = p] /\ pw' = [pw EXCEPT ![p] = nextW]
       /\ nextW' = nextW + 1 /\ size' = [size EXCEPT ![pl] = @ + 1] /\ UNCHANGED idle
\* pool.Store: keep a wire without error, drop (and close) any other; the placeholder of a done context is ignored.
\* k = how many times the caller stores (BugDoubleStore)
StoreK(p, w, k) ==
  IF w <= 0 THEN UNCHANGED <<idle, size, holder, wires>>
  ELSE LET pl == wires[w].pool
       IN IF wires[w].open
          THEN /\ idle' = [idle EXCEPT ![pl] = @ \o [j \in 1..k |-> w]]
               /\ holder' = [holder EXCEPT ![w] = 0] /\ UNCHANGED <<size, wires>>
          ELSE /\ size' = [size EXCEPT ![pl] = @ - k]
               /\ holder' = [holder EXCEPT ![w] = 0] /\ UNCHANGED <<idle, wires>>
Store(p, w) == StoreK(p, w, 1)

\* a command of process p reaches wire w
Sent(p, w) == foreign' = (foreign \/ holder[w] # p)

\* ---------------------------------------------------------------------------------------------- dedicated sessions
DAcq(d) == /\ pc[d] = "start" /\ CanAcquire("d")
           /\ Acquire(d, "d") /\ pc' = [pc EXCEPT ![d] = "held"]
           /\ UNCHANGED <<mark, hasInv, ops, sctx, sn, se, stores, foreign, lateUse, shist>>

\* one call on the dedicated client: check() passes (mark = 0), the command goes to the wire
DOp(d) ==
  /\ pc[d] = "held" /\ ops[d] < MaxOps /\ wires[pw[d]].open
  /\ LET w == pw[d]
     IN \E k \in {"cmd", "multi", "exec", "sub", "hooks", "inval", "blockfail"} :
          wires' = [wires EXCEPT ![w] =
                     CASE k = "cmd" -> @
                       [] k = "multi" -> [@ EXCEPT !.multi = TRUE]                       \* WATCH / MULTI ...
                       [] k = "exec" -> [@ EXCEPT !.multi = FALSE]                       \* ... EXEC
                       [] k = "sub" -> [@ EXCEPT !.subs = TRUE, !.bg = TRUE]             \* Receive(SUBSCRIBE)
                       [] k = "hooks" -> [@ EXCEPT !.hooks = IF @ = "none" THEN "ps" ELSE @, !.bg = TRUE]  \* SetPubSubHooks
                       [] k = "inval" -> [@ EXCEPT !.hooks = "inv", !.track = TRUE, !.bg = TRUE]  \* SetOnInvalidations + CLIENT TRACKING ON
                       [] OTHER -> [@ EXCEPT !.blck = TRUE, !.bg = TRUE, !.infl = d]]    \* a blocking call ended by its context
  /\ Sent(d, pw[d]) /\ ops' = [ops EXCEPT ![d] = @ + 1]
  /\ UNCHANGED <<nextW, idle, size, holder, pc, pw, mark, hasInv, sctx, sn, se, stores, lateUse, shist>>

\* DedicatedClient.Close(): wire.Close() ...
DClose(d) == /\ pc[d] = "held"
             /\ wires' = [wires EXCEPT ![pw[d]].open = FALSE] /\ pc' = [pc EXCEPT ![d] = "closing"]
             /\ UNCHANGED <<nextW, idle, size, holder, pw, mark, hasInv, ops, sctx, sn, se, stores, foreign, lateUse, shist>>
\* ... then release(): CompareAndSwap(&mark, 0, 1) and, if it won, conn.Store(wire)
DRelease(d) == /\ pc[d] \in {"held", "closing"}
               /\ mark' = [mark EXCEPT ![d] = ~BugNoMark] /\ pc' = [pc EXCEPT ![d] = "st1"]
               /\ UNCHANGED <<wires, nextW, idle, size, holder, pw, hasInv, ops, sctx, sn, se, stores, foreign, lateUse, shist>>
\* mux.Store, step 1: hasOnInvalidations := GetPubSubHooks().onInvalidations != nil; SetPubSubHooks(PubSubHooks{})
DSt1(d) == /\ pc[d] = "st1"
           /\ hasInv' = [hasInv EXCEPT ![d] = wires[pw[d]].hooks = "inv"]
           /\ wires' = [wires EXCEPT ![pw[d]].hooks = "none"] /\ pc' = [pc EXCEPT ![d] = "st2"]
           /\ UNCHANGED <<nextW, idle, size, holder, pw, mark, ops, sctx, sn, se, stores, foreign, lateUse, shist>>
\* step 2: CleanSubscriptions
DSt2(d) == /\ pc[d] = "st2" /\ pc' = [pc EXCEPT ![d] = "st3"]
           /\ LET w == pw[d]
              IN IF BugSkipClean THEN UNCHANGED <<wires, foreign>>
                 ELSE IF wires[w].blck THEN wires' = [wires EXCEPT ![w].open = FALSE] /\ UNCHANGED foreign
                 ELSE IF wires[w].bg /\ wires[w].open
                      THEN wires' = [wires EXCEPT ![w].subs = FALSE, ![w].multi = FALSE] /\ Sent(d, w)
                      ELSE UNCHANGED <<wires, foreign>>
           /\ UNCHANGED <<nextW, idle, size, holder, pw, mark, hasInv, ops, sctx, sn, se, stores, lateUse, shist>>
\* step 3: CLIENT TRACKING OFF when an invalidation hook had been installed
DSt3(d) == /\ pc[d] = "st3" /\ pc' = [pc EXCEPT ![d] = "st4"]
           /\ LET w == pw[d]
              IN IF hasInv[d] /\ ~BugSkipTrackingOff /\ wires[w].open
                 THEN wires' = [wires EXCEPT ![w].track = FALSE] /\ Sent(d, w)
                 ELSE UNCHANGED <<wires, foreign>>
           /\ UNCHANGED <<nextW, idle, size, holder, pw, mark, hasInv, ops, sctx, sn, se, stores, lateUse, shist>>
\* step 4: dpool.Store
DSt4(d) == /\ pc[d] = "st4" /\ Store(d, pw[d]) /\ pc' = [pc EXCEPT ![d] = "released"]
           /\ UNCHANGED <<nextW, pw, mark, hasInv, ops, sctx, sn, se, stores, foreign, lateUse, shist>>
\* any call after release / Close: rejected by check() when the mark is set, otherwise it reaches the old wire
DLate(d) == /\ pc[d] = "released" /\ ops[d] < MaxOps + 2 /\ ops' = [ops EXCEPT ![d] = @ + 1]
            /\ IF mark[d] THEN UNCHANGED <<foreign, lateUse>>
               ELSE Sent(d, pw[d]) /\ lateUse' = TRUE
            /\ UNCHANGED <<wires, nextW, idle, size, holder, pc, pw, mark, hasInv, sctx, sn, se, stores, shist>>
\* a second release (the cancel function of Dedicate called twice, or Close after release)
DRelease2(d) == /\ pc[d] = "released" /\ ops[d] < MaxOps + 2 /\ ops' = [ops EXCEPT ![d] = @ + 1]
                /\ pc' = [pc EXCEPT ![d] = IF mark[d] THEN @ ELSE "st1"]     \* the CAS fails when the mark is set
                /\ UNCHANGED <<wires, nextW, idle, size, holder, pw, mark, hasInv, sctx, sn, se, stores, foreign, lateUse, shist>>

\* ---------------------------------------------------------------------------------------------- blocking callers
BAcq(b) == /\ pc[b] = "start" /\ ops[b] < MaxRounds /\ CanAcquire("d")
           /\ Acquire(b, "d") /\ pc' = [pc EXCEPT ![b] = "held"]
           /\ UNCHANGED <<mark, hasInv, ops, sctx, sn, se, stores, foreign, lateUse, shist>>
\* wire.Do / wire.DoMulti of mux.blocking / blockingMulti.  Outcomes:
\*   ok         the reply arrived
\*   broken     the connection failed (also: the deadline of the context hit a wire in synchronous mode, which sets the
\*              deadline on the socket): the wire reports the error itself
\*   abandoned  the caller's context ended while the command was queued on a pipelining wire (cancel-only context, or a
\*              deadline on a wire whose background loop runs): the call returns ctx.Err(), the wire is healthy and the
\*              command is still in flight on it.  mux.blocking closes the wire on ANY non-Redis error
BDo(b) == /\ pc[b] = "held" /\ pc' = [pc EXCEPT ![b] = "store"] /\ Sent(b, pw[b])
          /\ \E c \in {"ok", "broken", "abandoned"} :
               wires' = [wires EXCEPT ![pw[b]] =
                          CASE c = "ok" -> @
                            [] c = "broken" -> [@ EXCEPT !.open = FALSE]
                            [] OTHER -> [@ EXCEPT !.blck = TRUE, !.bg = TRUE, !.infl = b, !.open = @ /\ BugKeepAbandoned]]
          /\ UNCHANGED <<nextW, idle, size, holder, pw, mark, hasInv, ops, sctx, sn, se, stores, lateUse, shist>>
\* the same outcome as a step of its own (trace validation: the command was received, then the caller gives up)
BAbandon(b) == /\ pc[b] = "store" /\ wires[pw[b]].infl = 0
               /\ wires' = [wires EXCEPT ![pw[b]] = [@ EXCEPT !.blck = TRUE, !.bg = TRUE, !.infl = b, !.open = @ /\ BugKeepAbandoned]]
               /\ UNCHANGED <<nextW, idle, size, holder, pc, pw, mark, hasInv, ops, sctx, sn, se, stores, foreign, lateUse, shist>>
\* the context ended before anything was written (pipe.Do returns ctx.Err() at once): also a non-Redis error
BGiveUp(b) == /\ pc[b] = "held" /\ pc' = [pc EXCEPT ![b] = "store"]
              /\ wires' = [wires EXCEPT ![pw[b]].open = @ /\ BugKeepAbandoned]
              /\ UNCHANGED <<nextW, idle, size, holder, pw, mark, hasInv, ops, sctx, sn, se, stores, foreign, lateUse, shist>>
BStore(b) == /\ pc[b] = "store" /\ Store(b, pw[b]) /\ pc' = [pc EXCEPT ![b] = "start"] /\ ops' = [ops EXCEPT ![b] = @ + 1]
             /\ UNCHANGED <<nextW, pw, mark, hasInv, sctx, sn, se, stores, foreign, lateUse, shist>>

\* ---------------------------------------------------------------------------------------------- streams
Hist(s, rec) == shist' = (IF Emit THEN [shist EXCEPT ![s] = Append(@, rec)] ELSE shist)
\* the caller's context ends (only observable before pipe.DoStream has tested it)
SCtxEnd(s) == /\ pc[s] \in {"start", "acq"} /\ sctx[s] = "live" /\ ops[s] < MaxRounds
              /\ sctx' = [sctx EXCEPT ![s] = "done"] /\ Hist(s, [op |-> "ctxend", at |-> pc[s]])
              /\ UNCHANGED <<wires, nextW, idle, size, holder, pc, pw, mark, hasInv, ops, sn, se, stores, foreign, lateUse>>
\* spool.Acquire(ctx): a done context gets a placeholder that occupies no slot
SAcq(s) == /\ pc[s] = "start" /\ ops[s] < MaxRounds
           /\ pc' = [pc EXCEPT ![s] = "acq"] /\ stores' = [stores EXCEPT ![s] = 0]
           /\ IF sctx[s] = "done"
              THEN pw' = [pw EXCEPT ![s] = -1] /\ UNCHANGED <<wires, nextW, idle, size, holder>> /\ Hist(s, [op |-> "acquire", got |-> "placeholder"])
              ELSE /\ CanAcquire("s") /\ Acquire(s, "s")
                   /\ Hist(s, [op |-> "acquire", got |-> IF Len(idle["s"]) > 0 THEN "reused" ELSE "new"])
           /\ UNCHANGED <<mark, hasInv, ops, sctx, sn, se, foreign, lateUse>>
\* ... or the context ends while pool.Acquire is making the connection (dial, _newPipe): the pool hands out the dead
\* wire it got, which does occupy a slot
SAcqDead(s) == /\ pc[s] = "start" /\ ops[s] < MaxRounds /\ sctx[s] = "live"
               /\ Len(idle["s"]) = 0 /\ CanAcquire("s")
               /\ pc' = [pc EXCEPT ![s] = "acq"] /\ stores' = [stores EXCEPT ![s] = 0] /\ sctx' = [sctx EXCEPT ![s] = "done"]
               /\ wires' = [wires EXCEPT ![nextW] = [Fresh("s") EXCEPT !.open = FALSE]]
               /\ holder' = [holder EXCEPT ![nextW] = s] /\ pw' = [pw EXCEPT ![s] = nextW]
               /\ nextW' = nextW + 1 /\ size' = [size EXCEPT !["s"] = @ + 1]
               /\ Hist(s, [op |-> "acquire", got |-> "dead"])
               /\ UNCHANGED <<idle, mark, hasInv, ops, sn, se, foreign, lateUse>>
\* pipe.DoStream / DoMultiStream
SDo(s) ==
  /\ pc[s] = "acq"
  /\ IF sctx[s] = "done"
     THEN /\ pc' = [pc EXCEPT ![s] = "fin"] /\ se' = [se EXCEPT ![s] = "err"] /\ sn' = [sn EXCEPT ![s] = 0]
          /\ IF FixStreamCtxStore
             THEN Store(s, pw[s]) /\ stores' = [stores EXCEPT ![s] = IF pw[s] > 0 THEN 1 ELSE 0]
             ELSE UNCHANGED <<idle, size, holder, wires, stores>>
          /\ Hist(s, [op |-> "dostream", n |-> 0, res |-> "ctxerr", stored |-> (FixStreamCtxStore /\ pw[s] > 0)]) /\ UNCHANGED foreign
     ELSE \E n \in 1..MaxCmds :
          /\ pc' = [pc EXCEPT ![s] = "active"] /\ se' = [se EXCEPT ![s] = "nil"] /\ sn' = [sn EXCEPT ![s] = n]
          /\ Sent(s, pw[s]) /\ Hist(s, [op |-> "dostream", n |-> n, res |-> "active", stored |-> FALSE])
          /\ UNCHANGED <<idle, size, holder, wires, stores>>
  /\ UNCHANGED <<nextW, pw, mark, hasInv, ops, sctx, lateUse>>
\* RedisResultStream.WriteTo: class of the next reply as streamTo sees it
\*   ok      payload copied, reply consumed            -> (n, nil, clean)
\*   nil     null reply                                -> (0, Nil, clean)
\*   rerr    error reply                               -> (0, RedisError, clean)
\*   werr    the io.Writer fails, reply still consumed -> (k, err, clean)
\*   cut     the connection ends inside the reply      -> (k, err, !clean)
SWrite(s) ==
  /\ pc[s] = "active" /\ se[s] = "nil" /\ sn[s] > 0
  /\ \E c \in Classes :
       LET e1 == IF c = "cut" THEN "err" ELSE "nil"
           n1 == (IF c = "cut" THEN 1 ELSE sn[s]) - 1
           last == n1 = 0
           e2 == IF last /\ e1 = "nil" THEN "eof" ELSE e1
           w == pw[s]
           closeIt == last /\ e1 # "nil" /\ ~BugNoCloseUnclean
       IN /\ sn' = [sn EXCEPT ![s] = n1] /\ se' = [se EXCEPT ![s] = e2]
          /\ IF last
             THEN /\ LET w1 == [wires EXCEPT ![w].dirty = (c = "cut"), ![w].open = ~closeIt]
                     IN IF w1[w].open
                        THEN /\ idle' = [idle EXCEPT !["s"] = @ \o (IF BugDoubleStore THEN <<w, w>> ELSE <<w>>)]
                             /\ wires' = w1 /\ UNCHANGED size
                        ELSE /\ size' = [size EXCEPT !["s"] = @ - (IF BugDoubleStore THEN 2 ELSE 1)]
                             /\ wires' = w1 /\ UNCHANGED idle
                  /\ holder' = [holder EXCEPT ![w] = 0]
                  /\ stores' = [stores EXCEPT ![s] = @ + (IF BugDoubleStore THEN 2 ELSE 1)]
                  /\ pc' = [pc EXCEPT ![s] = "fin"]
             ELSE /\ wires' = [wires EXCEPT ![w].dirty = (c = "cut")]
                  /\ UNCHANGED <<idle, size, holder, stores, pc>>
          /\ Hist(s, [op |-> "writeto", class |-> c, ret |-> (CASE c \in {"werr", "cut"} -> "err" [] c = "nil" -> "nil" [] c = "rerr" -> "rerr" [] OTHER -> "ok"),
                      left |-> n1, e |-> e2, stored |-> last, closed |-> closeIt])
  /\ UNCHANGED <<nextW, pw, mark, hasInv, ops, sctx, foreign, lateUse>>
\* WriteTo on a finished stream returns s.e and touches nothing; the caller then starts over
SAgain(s) == /\ pc[s] = "fin" /\ pc' = [pc EXCEPT ![s] = "start"] /\ ops' = [ops EXCEPT ![s] = @ + 1]
             /\ sctx' = [sctx EXCEPT ![s] = "live"] /\ pw' = [pw EXCEPT ![s] = 0]
             /\ Hist(s, [op |-> "extra-writeto", ret |-> se[s]])
             /\ UNCHANGED <<wires, nextW, idle, size, holder, mark, hasInv, sn, se, stores, foreign, lateUse>>

Step == \/ \E d \in Ded : DAcq(d) \/ DOp(d) \/ DClose(d) \/ DRelease(d) \/ DSt1(d) \/ DSt2(d) \/ DSt3(d) \/ DSt4(d)
                          \/ DLate(d) \/ DRelease2(d)
        \/ \E b \in Blk : BAcq(b) \/ BDo(b) \/ BGiveUp(b) \/ BStore(b)
        \/ \E s \in Str : SCtxEnd(s) \/ SAcq(s) \/ SAcqDead(s) \/ SDo(s) \/ SWrite(s) \/ SAgain(s)
\* pipe.go _backgroundRead panics ("SUBSCRIBE/UNSUBSCRIBE are not allowed in MULTI/EXEC block") when the UNSUBSCRIBE of
\* CleanSubscriptions is answered QUEUED, i.e. when the session left a MULTI open on a wire whose background loop runs
\* (DISCARD is the last of the four clean-up commands)
PanicStep == \E d \in Ded : /\ pc[d] = "st2" /\ pc'[d] = "st3" /\ ~BugSkipClean
                            /\ wires[pw[d]].bg /\ wires[pw[d]].open /\ ~wires[pw[d]].blck /\ wires[pw[d]].multi
Next == Step /\ UNCHANGED warm /\ crashed' = (crashed \/ PanicStep)
Spec == Init /\ [][Next]_vars

\* ---------------------------------------------------------------------------------------------- properties
InIdle(w) == \E pl \in {"d", "s"} : \E k \in 1..Len(idle[pl]) : idle[pl][k] = w
TypeOK == /\ nextW \in 1..MaxWires + 1 /\ \A w \in W : holder[w] \in Procs \cup {0}
          /\ \A s \in Str : sn[s] \in 0..MaxCmds /\ se[s] \in {"nil", "eof", "err"}

\* C25: from acquisition to the pool.Store of its wire a session's connection carries its own commands only
SessionIsolated == ~foreign
\* C24/C25: a wire is in one place: idle once, or with one holder
Holding(p) == pw[p] > 0 /\ pc[p] \in {"held", "closing", "st1", "st2", "st3", "st4", "store", "acq", "active"}
Exclusive == /\ \A pl \in {"d", "s"} : \A j, k \in 1..Len(idle[pl]) : j # k => idle[pl][j] # idle[pl][k]
             /\ \A w \in W : InIdle(w) => holder[w] = 0
             /\ \A p, q \in Procs : p # q /\ Holding(p) /\ Holding(q) => pw[p] # pw[q]
             /\ \A p \in Procs : Holding(p) => ~InIdle(pw[p])
\* C25: after release/Close every call is rejected before it touches a connection
RejectAfterRelease == ~lateUse
MarkedWhenReleased == \A d \in Ded : pc[d] \in {"st1", "st2", "st3", "st4", "released"} => mark[d]
\* C25: an idle connection of the dedicated pool has no subscriptions, no hooks, no tracking
CleanOnReturn == \A k \in 1..Len(idle["d"]) : LET x == wires[idle["d"][k]]
                                               IN ~x.subs /\ x.hooks = "none" /\ ~x.track /\ x.open /\ ~x.blck
\* C25: nobody else's command is in flight on a connection that is idle or held: what a holder finds on its wire is its own
NoForeignInFlight == /\ \A k \in 1..Len(idle["d"]) : wires[idle["d"][k]].infl = 0
                     /\ \A w \in W : (holder[w] # 0 /\ wires[w].open) => wires[w].infl \in {0, holder[w]}
\* (not part of C25's statement) an idle connection is not inside MULTI
NoOpenTxOnReturn == \A k \in 1..Len(idle["d"]) : ~wires[idle["d"][k]].multi
\* (known finding, not part of the positive configs) releasing a session never takes the process down
ReleaseNeverPanics == ~crashed
\* C29: the wire of a stream is stored exactly once, after the last reply (or when the stream could not start)
StreamStoreExactlyOnce == \A s \in Str : /\ stores[s] <= 1
                                         /\ (pc[s] = "fin" /\ pw[s] > 0 => stores[s] = 1)
                                         /\ (pc[s] = "active" => stores[s] = 0 /\ holder[pw[s]] = s)
\* C29: a wire with an unconsumed reply is closed before it is stored: no idle wire is dirty
UncleanClosedBeforeStore == \A pl \in {"d", "s"} : \A k \in 1..Len(idle[pl]) :
                               ~wires[idle[pl][k]].dirty /\ wires[idle[pl][k]].open
\* C24/C29: every counted connection is idle or held
NoLeak == \A pl \in {"d", "s"} :
            size[pl] = Len(idle[pl]) + Cardinality({w \in 1..(nextW - 1) : wires[w].pool = pl /\ holder[w] # 0})
\* bookkeeping of RedisResultStream
StreamBookkeeping == \A s \in Str : /\ (pc[s] = "active" => se[s] = "nil" /\ sn[s] > 0)
                                    /\ (pc[s] = "fin" => se[s] \in {"eof", "err"} /\ sn[s] = 0)

\* ---------------------------------------------------------------------------------------------- generation
Done == \A s \in Str : pc[s] = "start" /\ ops[s] = MaxRounds
Leaked == size["s"] = CapS /\ Len(idle["s"]) = 0
EmitCase == (Emit /\ Done) => \A s \in Str :
              PrintT(<<"CASE", ToJson([steps |-> shist[s], warm |-> warm, idle |-> Len(idle["s"]), size |-> size["s"], leaked |-> Leaked])>>)
=============================================================================
