------------------------------- MODULE Pool -------------------------------
(* pool.go of redis/rueidis: the blocking connection pool behind blocking commands, dedicated clients and
   streaming (property C24, and the pool part of C05).

   One action per critical section of the Go code.  Every action that the instrumented code reports through
   a `verif` hook (or that the driver logs itself) names the hook in its comment; the remaining actions
   (WaitEnq, AcqReturn, Signal, CloseBcast, CtxCancel) are not observable and are inferred by TLC during trace
   validation (PoolTrace.tla).

   BugBcastNoLock / BugDeadStore re-introduce the two defects found in the pinned commit (DESIGN.md section 7,
   #2 and #3): they are FALSE for the repaired code and TRUE only in the negative configs that show the
   invariants are not vacuous. *)
EXTENDS Integers, Sequences, FiniteSets, TLC

CONSTANTS Proc,            \* acquiring goroutines (positive integers)
          Cap,             \* BlockingPoolSize
          MinSize,         \* BlockingPoolMinSize (kept by removeIdleConns)
          MaxWires,        \* bound on wires ever made
          MaxAcq,          \* acquisitions per process
          Cancelable,      \* processes whose contexts have a Done channel (can be cancelled / time out)
          MaxBreaks,       \* bound on wires that break / whose lifetime timer expires
          MaxIdleRuns,     \* bound on removeIdleConns runs
          MaxCloses,       \* 0 or 1
          BugBcastNoLock, BugDeadStore

VARIABLES size, idle, down, lock, condQ,      \* the pool itself (idle = p.list, a LIFO)
          pc, held, nacq, ctxDone, watcher,   \* per process
          wstate, broken, expired, nextW,     \* wires: wstate[w] \in {"none","live","closed"}; broken: Error() # nil;
                                              \* expired: StopTimer() is false (lifetime timer fired)
          lateFires,                          \* watchers whose context ended before Acquire returned, still to broadcast
          sig, breaks, idleRuns, closes       \* pending Signal/Broadcast obligations and budgets

poolv == <<size, idle, down, lock, condQ>>
procv == <<pc, held, nacq, ctxDone, watcher>>
wirev == <<wstate, broken, expired, nextW>>
envv  == <<lateFires, sig, breaks, idleRuns, closes>>
vars  == <<poolv, procv, wirev, envv>>

NONE     == 0
POOLDEAD == -1      \* the pool's dead wire (returned after Close)
CTXDEAD  == -2      \* the placeholder pipe made for a done context
Wires    == 1..MaxWires

Init == /\ size = 0 /\ idle = <<>> /\ down = FALSE /\ lock = NONE /\ condQ = {}
        /\ pc = [p \in Proc |-> "idle"] /\ held = [p \in Proc |-> NONE] /\ nacq = [p \in Proc |-> 0]
        /\ ctxDone = [p \in Proc |-> FALSE] /\ watcher = [p \in Proc |-> "none"]
        /\ wstate = [w \in Wires |-> "none"] /\ broken = {} /\ expired = {} /\ nextW = 1
        /\ lateFires = 0 /\ sig = 0 /\ breaks = 0 /\ idleRuns = 0 /\ closes = 0

Range(s) == {s[i] : i \in 1..Len(s)}
Last(s)  == s[Len(s)]
Front(s) == SubSeq(s, 1, Len(s) - 1)

\* the loop condition of Acquire:  len(p.list) == 0 && p.size == p.cap && !p.down && ctx.Err() == nil
MustWait(p) == Len(idle) = 0 /\ size = Cap /\ ~down /\ ~ctxDone[p]

\* ---------------------------------------------------------------------------------------------- Acquire
\* p.cond.L.Lock(); arm the context watcher when the caller is going to wait         hook: pool.acq.lock
\* startDone: the caller's context is already done when Acquire is called
AcqLock(p, startDone) ==
    /\ pc[p] = "idle" /\ nacq[p] < MaxAcq /\ lock = NONE
    /\ (startDone => p \in Cancelable)
    /\ lock' = p /\ nacq' = [nacq EXCEPT ![p] = @ + 1]
    /\ ctxDone' = [ctxDone EXCEPT ![p] = startDone]
    /\ watcher' = [watcher EXCEPT ![p] =
                     IF Len(idle) = 0 /\ size = Cap /\ ~down /\ ~startDone /\ p \in Cancelable
                     THEN "armed" ELSE "none"]
    /\ pc' = [pc EXCEPT ![p] = "check"]
    /\ UNCHANGED <<size, idle, down, condQ, held, wirev, envv>>

\* loop condition true: about to call p.cond.Wait() (lock still held)                hook: pool.acq.wait
Check(p) == /\ pc[p] = "check" /\ MustWait(p)
            /\ pc' = [pc EXCEPT ![p] = "waitEnq"]
            /\ UNCHANGED <<poolv, held, nacq, ctxDone, watcher, wirev, envv>>

\* sync.Cond.Wait: add to the notify list, then unlock (atomic w.r.t. lock holders)   not observable
WaitEnq(p) == /\ pc[p] = "waitEnq"
              /\ condQ' = condQ \cup {p} /\ lock' = NONE
              /\ pc' = [pc EXCEPT ![p] = "parked"]
              /\ UNCHANGED <<size, idle, down, held, nacq, ctxDone, watcher, wirev, envv>>

\* woken and lock re-acquired                                                        hook: pool.acq.woken
Woken(p) == /\ pc[p] = "parked" /\ p \notin condQ /\ lock = NONE
            /\ lock' = p /\ pc' = [pc EXCEPT ![p] = "check"]
            /\ UNCHANGED <<size, idle, down, condQ, held, nacq, ctxDone, watcher, wirev, envv>>

\* Acquire returns: deferred cancel(errAcquireComplete).  An armed watcher whose context is still live exits
\* silently; one whose context already ended broadcasts later on (LateFire).                 not observable
AcqReturn(p) == /\ pc[p] = "returning"
                /\ watcher' = [watcher EXCEPT ![p] = "none"]
                /\ lateFires' = IF watcher[p] = "armed" /\ ctxDone[p] THEN lateFires + 1 ELSE lateFires
                /\ pc' = [pc EXCEPT ![p] = "using"]
                /\ UNCHANGED <<poolv, held, nacq, ctxDone, wirev, sig, breaks, idleRuns, closes>>

\* if ctx.Err() != nil { return a dead pipe carrying the context error }              hook: pool.acq.ctxdead
RetCtxDead(p) == /\ pc[p] = "check" /\ ~MustWait(p) /\ ctxDone[p]
                 /\ held' = [held EXCEPT ![p] = CTXDEAD] /\ lock' = NONE
                 /\ pc' = [pc EXCEPT ![p] = "returning"]
                 /\ UNCHANGED <<size, idle, down, condQ, nacq, ctxDone, watcher, wirev, envv>>

\* if p.down { return p.dead }                                                        hook: pool.acq.down
RetDown(p) == /\ pc[p] = "check" /\ ~MustWait(p) /\ ~ctxDone[p] /\ down
              /\ held' = [held EXCEPT ![p] = POOLDEAD] /\ lock' = NONE
              /\ pc' = [pc EXCEPT ![p] = "returning"]
              /\ UNCHANGED <<size, idle, down, condQ, nacq, ctxDone, watcher, wirev, envv>>

\* if len(p.list) == 0 { p.size++; unlock; v = p.make(ctx) ...                        hook: pool.acq.make
Make(p) == /\ pc[p] = "check" /\ ~MustWait(p) /\ ~ctxDone[p] /\ ~down /\ Len(idle) = 0
           /\ nextW <= MaxWires
           /\ size' = size + 1 /\ lock' = NONE
           /\ pc' = [pc EXCEPT ![p] = "making"]
           /\ UNCHANGED <<idle, down, condQ, held, nacq, ctxDone, watcher, wirev, envv>>

\* p.make(ctx) returned a wire (outside the lock)                                     driver: Made
\* ok: v.StopTimer() is true -> Acquire returns it; otherwise the wire is already expired (then MakeBad)
MakeDone(p, ok) ==
    /\ pc[p] = "making"
    /\ wstate' = [wstate EXCEPT ![nextW] = "live"] /\ nextW' = nextW + 1
    /\ held' = [held EXCEPT ![p] = nextW]
    /\ IF ok THEN /\ pc' = [pc EXCEPT ![p] = "returning"]
                  /\ UNCHANGED <<expired, breaks>>
             ELSE /\ breaks < MaxBreaks /\ breaks' = breaks + 1
                  /\ expired' = expired \cup {nextW}
                  /\ pc' = [pc EXCEPT ![p] = "makebad"]
    /\ UNCHANGED <<poolv, nacq, ctxDone, watcher, broken, lateFires, sig, idleRuns, closes>>

\* if !v.StopTimer() { Lock; p.size--; v.Close(); goto retry }                        hook: pool.acq.makebad
MakeBad(p) == /\ pc[p] = "makebad" /\ lock = NONE
              /\ lock' = p /\ size' = size - 1
              /\ wstate' = [wstate EXCEPT ![held[p]] = "closed"]
              /\ held' = [held EXCEPT ![p] = NONE]
              /\ pc' = [pc EXCEPT ![p] = "check"]
              /\ UNCHANGED <<idle, down, condQ, nacq, ctxDone, watcher, broken, expired, nextW, envv>>

\* take the most recently stored wire                                                 hook: pool.acq.take
Take(p) == /\ pc[p] = "check" /\ ~MustWait(p) /\ ~ctxDone[p] /\ ~down /\ Len(idle) > 0
           /\ Last(idle) \notin (broken \cup expired)
           /\ idle' = Front(idle) /\ held' = [held EXCEPT ![p] = Last(idle)] /\ lock' = NONE
           /\ pc' = [pc EXCEPT ![p] = "returning"]
           /\ UNCHANGED <<size, down, condQ, nacq, ctxDone, watcher, wirev, envv>>

\* the taken wire has an error or an expired timer: p.size--; v.Close(); goto retry   hook: pool.acq.takebad
TakeBad(p) == /\ pc[p] = "check" /\ ~MustWait(p) /\ ~ctxDone[p] /\ ~down /\ Len(idle) > 0
              /\ Last(idle) \in (broken \cup expired)
              /\ idle' = Front(idle) /\ size' = size - 1
              /\ wstate' = [wstate EXCEPT ![Last(idle)] = "closed"]
              /\ UNCHANGED <<down, lock, condQ, procv, broken, expired, nextW, envv>>

\* ---------------------------------------------------------------------------------------------- Store
\* Store(v): kept when the pool is up and the wire has no error                       hook: pool.store.keep
StoreKeep(p) == /\ pc[p] = "using" /\ lock = NONE /\ held[p] > 0
                /\ ~down /\ held[p] \notin broken
                /\ idle' = Append(idle, held[p]) /\ held' = [held EXCEPT ![p] = NONE]
                /\ sig' = sig + 1 /\ pc' = [pc EXCEPT ![p] = "idle"]
                /\ UNCHANGED <<size, down, lock, condQ, nacq, ctxDone, watcher, wirev, lateFires, breaks, idleRuns, closes>>

\* otherwise p.size--; v.Close()                                                      hook: pool.store.drop
\* (the repaired code does not count the placeholder made for a done context: it never took a slot;
\*  hook: pool.store.placeholder)
StoreDrop(p) == /\ pc[p] = "using" /\ lock = NONE /\ held[p] # NONE
                /\ (held[p] > 0 => (down \/ held[p] \in broken))
                /\ IF held[p] = CTXDEAD /\ ~BugDeadStore THEN UNCHANGED size ELSE size' = size - 1
                /\ wstate' = IF held[p] > 0 THEN [wstate EXCEPT ![held[p]] = "closed"] ELSE wstate
                /\ held' = [held EXCEPT ![p] = NONE]
                /\ sig' = sig + 1 /\ pc' = [pc EXCEPT ![p] = "idle"]
                /\ UNCHANGED <<idle, down, lock, condQ, nacq, ctxDone, watcher, broken, expired, nextW, lateFires,
                               breaks, idleRuns, closes>>

\* p.cond.Signal() after the unlock: wakes one waiter, if any                          not observable
Signal == /\ sig > 0 /\ sig < 100 /\ sig' = sig - 1
          /\ \/ condQ = {} /\ UNCHANGED condQ
             \/ \E q \in condQ : condQ' = condQ \ {q}
          /\ UNCHANGED <<size, idle, down, lock, procv, wirev, lateFires, breaks, idleRuns, closes>>

\* ---------------------------------------------------------------------------------------------- Close, idle cleanup
\* Close(): down = true; close every idle wire                                        hook: pool.close
Close == /\ closes < MaxCloses /\ lock = NONE /\ closes' = closes + 1
         /\ down' = TRUE
         /\ wstate' = [w \in Wires |-> IF w \in Range(idle) THEN "closed" ELSE wstate[w]]
         /\ sig' = sig + 100              \* Broadcast obligation (see CloseBcast)
         /\ UNCHANGED <<size, idle, lock, condQ, procv, broken, expired, nextW, lateFires, breaks, idleRuns>>

\* p.cond.Broadcast() after Close's unlock                                             not observable
CloseBcast == /\ sig >= 100 /\ sig' = sig - 100 /\ condQ' = {}
              /\ UNCHANGED <<size, idle, down, lock, procv, wirev, lateFires, breaks, idleRuns, closes>>

\* removeIdleConns (timer): keep MinSize idle wires, close the rest                   hook: pool.idle.removed
IdleRemove == /\ idleRuns < MaxIdleRuns /\ lock = NONE /\ idleRuns' = idleRuns + 1
              /\ LET keep == IF MinSize < Len(idle) THEN MinSize ELSE Len(idle)
                     gone == {idle[i] : i \in (keep + 1)..Len(idle)}
                 IN /\ idle' = SubSeq(idle, 1, keep)
                    /\ size' = size - Cardinality(gone)
                    /\ wstate' = [w \in Wires |-> IF w \in gone THEN "closed" ELSE wstate[w]]
              /\ UNCHANGED <<down, lock, condQ, procv, broken, expired, nextW, lateFires, sig, breaks, closes>>

\* ---------------------------------------------------------------------------------------------- environment
\* the caller's context ends while it is inside Acquire                               not observable (bracketed)
CtxCancel(p) == /\ p \in Cancelable /\ ~ctxDone[p]
                /\ pc[p] \in {"check", "waitEnq", "parked", "making", "makebad", "returning"}
                /\ ctxDone' = [ctxDone EXCEPT ![p] = TRUE]
                /\ UNCHANGED <<poolv, pc, held, nacq, watcher, wirev, envv>>

\* watcher goroutine: <-poolCtx.Done(); Lock; p.cond.Broadcast(); Unlock               hook: pool.watch.bcast
\* (the pinned commit broadcast without the lock: BugBcastNoLock)
WatcherFire(p) == /\ watcher[p] = "armed" /\ ctxDone[p]
                  /\ (~BugBcastNoLock => lock = NONE)
                  /\ condQ' = {} /\ watcher' = [watcher EXCEPT ![p] = "fired"]
                  /\ UNCHANGED <<size, idle, down, lock, pc, held, nacq, ctxDone, wirev, envv>>

\* a watcher whose Acquire already returned (its context had ended first)             hook: pool.watch.bcast
LateFire == /\ lateFires > 0 /\ (~BugBcastNoLock => lock = NONE)
            /\ lateFires' = lateFires - 1 /\ condQ' = {}
            /\ UNCHANGED <<size, idle, down, lock, procv, wirev, sig, breaks, idleRuns, closes>>

\* a held wire gets an error ("err": Store will drop it) or its lifetime timer fires   driver: Break
\* ("exp": Store keeps it, the next Acquire discards it)
WireBreak(w, kind) == /\ breaks < MaxBreaks /\ wstate[w] = "live" /\ w \notin (broken \cup expired)
                      /\ \E p \in Proc : held[p] = w /\ pc[p] = "using"
                      /\ breaks' = breaks + 1
                      /\ IF kind = "err" THEN broken' = broken \cup {w} /\ UNCHANGED expired
                                         ELSE expired' = expired \cup {w} /\ UNCHANGED broken
                      /\ UNCHANGED <<poolv, procv, wstate, nextW, lateFires, sig, idleRuns, closes>>

Next == \/ \E p \in Proc : \/ AcqLock(p, FALSE) \/ AcqLock(p, TRUE) \/ Check(p) \/ WaitEnq(p) \/ Woken(p)
                           \/ RetCtxDead(p) \/ RetDown(p) \/ Make(p) \/ MakeDone(p, TRUE) \/ MakeDone(p, FALSE) \/ AcqReturn(p)
                           \/ MakeBad(p) \/ Take(p) \/ TakeBad(p) \/ StoreKeep(p) \/ StoreDrop(p)
                           \/ CtxCancel(p) \/ WatcherFire(p)
        \/ Signal \/ Close \/ CloseBcast \/ IdleRemove \/ LateFire
        \/ \E w \in Wires : WireBreak(w, "err") \/ WireBreak(w, "exp")

Spec == Init /\ [][Next]_vars
\* fairness of the pool's own steps only: not of the environment's choices to start, cancel, break, close or
\* clean up, and not of Store -- a holder may keep its connection for as long as it likes
FairSpec == Spec /\ \A p \in Proc : WF_vars(Check(p) \/ WaitEnq(p) \/ Woken(p) \/ RetCtxDead(p) \/ RetDown(p)
                                            \/ Make(p) \/ MakeDone(p, TRUE) \/ MakeBad(p) \/ Take(p) \/ TakeBad(p)
                                            \/ AcqReturn(p) \/ WatcherFire(p))
                 /\ WF_vars(Signal) /\ WF_vars(CloseBcast) /\ WF_vars(LateFire)

\* ---------------------------------------------------------------------------------------------- properties (C24, C05)
InUse    == {p \in Proc : held[p] > 0}
Making   == {p \in Proc : pc[p] = "making"}
Live     == {w \in Wires : wstate[w] = "live"}

TypeOK == /\ size \in Int /\ lock \in Proc \cup {NONE} /\ condQ \subseteq Proc
          /\ \A p \in Proc : held[p] \in Wires \cup {NONE, POOLDEAD, CTXDEAD}

\* size counts exactly the wires in use, being made, or idle (whenever nobody is inside a critical section)
Accounting == (lock = NONE /\ ~down) =>
                 size = Cardinality(InUse) + Cardinality(Making) + Len(idle)
\* never more than BlockingPoolSize connections in use or idle at once (C24)
Bound == ~down => Cardinality(Live) + Cardinality(Making) <= Cap
SizeBound == ~down => size <= Cap
\* a connection is never handed to two holders, nor held while idle (C24)
Exclusive == /\ \A p, q \in Proc : (p # q /\ held[p] > 0) => held[p] # held[q]
             /\ \A p \in Proc : held[p] > 0 => held[p] \notin Range(idle)
             /\ \A i, j \in 1..Len(idle) : i # j => idle[i] # idle[j]
\* what is handed out is usable: never a closed wire
HandedOutLive == \A p \in Proc : (held[p] > 0 /\ pc[p] \in {"returning", "using"}) => wstate[held[p]] = "live"
\* every wire the pool made is held, idle or closed: nothing is leaked (C24)
NoLeak == \A w \in Wires : wstate[w] = "live" =>
             (w \in Range(idle) \/ \E p \in Proc : held[p] = w)
IdleAreLive == ~down => \A w \in Range(idle) : wstate[w] = "live"
\* after Close the pool hands out only its dead wire: a process can obtain a real wire while the pool is down
\* only by finishing a make that began before Close (and Store then closes it) (C24)
AfterClose == [][\A p \in Proc : (down /\ held[p] <= 0 /\ held'[p] > 0) => pc[p] = "making"]_vars
ClosedWiresStayClosed == [][\A w \in Wires : wstate[w] = "closed" => wstate'[w] = "closed"]_vars
\* a waiter whose context is done is not left parked: the lost wake-up of DESIGN.md section 7 #3 (C05, C24)
NoLostWakeup == \A p \in Proc : ~(pc[p] = "parked" /\ p \in condQ /\ ctxDone[p] /\ watcher[p] = "fired")

\* liveness (checked under FairSpec): a waiter whose context ended returns (C05); so does every waiter once the
\* pool is closed; a parked waiter is woken when a wire is idle
CtxDoneReturns == \A p \in Proc : (pc[p] \in {"waitEnq", "parked"} /\ ctxDone[p]) ~> (pc[p] \notin {"waitEnq", "parked"})
ClosedReturns  == \A p \in Proc : (pc[p] \in {"waitEnq", "parked"} /\ down) ~> (pc[p] \notin {"waitEnq", "parked"})
=============================================================================
