SPECIFICATION RedirSpec
CONSTANTS
  BugRedirectReturned = FALSE
  Steps = 5
INVARIANTS RedirectFollowed ErrorOnlyWhenUnreachable
CHECK_DEADLOCK FALSE
