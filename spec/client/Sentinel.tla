------------------------------ MODULE Sentinel ------------------------------
(* Detailed model of the sentinel client of redis/rueidis (sentinel.go) and of its environment: property C23.

   Environment: data nodes with a role that can flip and that can crash / come back; sentinels with a view
   (master address, replicas not s_down) that can be stale or wrong, that can crash, and that publish
   +switch-master / +reboot / +slave ... on the connection the client is subscribed on.  Every environment step
   costs one unit of `budget`.

   Client (one action per step of the code that another goroutine or the environment can interleave with):
     R*  _refresh under c.mu, started by refresh()/refreshRetry() through the single-flight `c.sc`: walk the
         sentinel list, listWatch (subscribe + ask), switch target(s), on failure close the sentinel connection,
         move the sentinel to the back and try the next; post-check of the installed connection
     A*  _switchTarget: begin, reuse-or-dial, ROLE, decide, swap                  (SentinelCore.tla actions = hooks)
     E*  the Pub/Sub callback: +switch-master / +reboot master -> switchTargetRetry (c.mu, _switchTarget, on failure
         `go refreshRetry()`), +slave / +sdown / -sdown / +reboot slave -> refreshRetry() inline when replicas are used
     S*  with SendToReplicas the two _switchTarget goroutines: _refresh moves on at the first failure, the other
         goroutine keeps running without c.mu (a straggler)
   The implementation state (conn: what pick() would load) is kept apart from the observable state of
   SentinelCore.tla (what the hooks and the servers reveal); the invariants connect the two.

   Bug* constants re-introduce plausible defects; they are FALSE except in the negative configs. *)
EXTENDS SentinelCore, Json

CONSTANTS Sentinels,        \* sentinel addresses
          InitList,         \* ClientOption.InitAddress as a sequence of sentinels
          InitMaster,       \* the master when the behaviour starts
          MaxEnv,           \* environment steps
          MaxEvq,           \* bound on undelivered Pub/Sub messages
          Views,            \* views a sentinel can be given: set of [m: address, r: set of addresses]
          Heal,             \* TRUE: the environment ends with a clean failover + event (liveness configs)
          Record,           \* TRUE: keep the environment steps in `hist` (scenario generation)
          SetNames,         \* master-set names the sentinels publish events about (MasterSet is the client's); a name is a
                            \* sequence of name parts, so that one name can be a prefix / a suffix of another
          BugNoRoleCheck, BugIgnoreSwitch, BugKeepOld, BugNoCloseWrong, BugAbsorb, BugInlineRefresh,
          BugPrefixMatch,   \* the callback compares the event's master-set name by prefix instead of equality
          BugAnySet         \* the callback does not look at the event's master-set name at all

VARIABLES role, up, sview, sup, budget, healed,     \* environment
          slist, sconn, conn, mu, rf, want, late, lost,   \* client: sentinel list, sentinel connection, installed conns, c.mu, _refresh
          evq, eh,                                  \* Pub/Sub messages in flight to the callback, the callback
          apc, own, got,                            \* per _switchTarget goroutine
          hist

envv  == <<role, up, sview, sup, budget, healed>>
cliv  == <<slist, sconn, conn, mu, rf, want, late, lost, evq, eh, apc, own, got>>
vars  == <<corev, envv, cliv, hist>>

Main     == IF Mode = "r" THEN "r" ELSE "m"
NoConn   == [a |-> "", open |-> FALSE]
IdleRf   == [pc |-> "idle", tried |-> 0, am |-> "", ar |-> "", wait |-> {}, err |-> FALSE]
IdleEh   == [pc |-> "idle", a |-> "", s |-> 0]
Min(S)   == CHOOSE x \in S : \A y \in S : x <= y
Rotate(q) == Append(Tail(q), Head(q))

Init == /\ CoreInit
        /\ role = [n \in Nodes |-> IF n = InitMaster THEN "master" ELSE "slave"]
        /\ up = [n \in Nodes |-> TRUE]
        /\ sview = [s \in Sentinels |-> [m |-> InitMaster, r |-> Nodes \ {InitMaster}]]
        /\ sup = [s \in Sentinels |-> TRUE]
        /\ budget = MaxEnv /\ healed = ""
        /\ slist = InitList /\ sconn = "" /\ conn = [k \in Kinds |-> NoConn]
        /\ mu = "free" /\ rf = IdleRf /\ want = TRUE /\ late = FALSE /\ lost = FALSE
        /\ evq = <<>> /\ eh = IdleEh
        /\ apc = [s \in Slots |-> "free"] /\ own = [s \in Slots |-> "R"] /\ got = [s \in Slots |-> ""]
        /\ hist = <<>>

\* ---------------------------------------------------------------------------------------------- helpers
Request == want' = (want \/ rf.pc = "idle")      \* refresh(): joins a running _refresh (and returns nil), else runs one
Quiet == /\ rf.pc = "idle" /\ ~want /\ ~late /\ eh.pc = "idle" /\ evq = <<>>
         /\ \A s \in Slots : apc[s] = "free"
Anchor == IF \E s \in Slots : apc[s] = "decide"
          THEN [at |-> "role", an |-> att[CHOOSE s \in Slots : apc[s] = "decide"].a]
          ELSE IF rf.pc = "answered" THEN [at |-> "answer", an |-> Head(slist)]
          ELSE IF \E s \in Slots : apc[s] = "swap"
          THEN [at |-> "swapbegin", an |-> att[CHOOSE s \in Slots : apc[s] = "swap"].a]
          ELSE IF Quiet THEN [at |-> "idle", an |-> ""] ELSE [at |-> "now", an |-> ""]
RecS(op, x, y, z, set) == hist' = IF Record THEN Append(hist, [op |-> op, x |-> x, y |-> y, z |-> z, set |-> set,
                                                               at |-> Anchor.at, an |-> Anchor.an])
                                  ELSE hist
Rec(op, x, y, z) == RecS(op, x, y, z, <<>>)
Spend == budget > 0 /\ healed = "" /\ budget' = budget - 1

\* ---------------------------------------------------------------------------------------------- environment
SetRole(n, r) == /\ Spend /\ role[n] # r /\ role' = [role EXCEPT ![n] = r] /\ Rec("role", n, r, "")
                 /\ UNCHANGED <<corev, up, sview, sup, healed, cliv>>
Crash(n) == /\ Spend /\ up[n] /\ up' = [up EXCEPT ![n] = FALSE] /\ Rec("crash", n, "", "")
            /\ UNCHANGED <<corev, role, sview, sup, healed, cliv>>
Restart(n) == /\ Spend /\ ~up[n] /\ up' = [up EXCEPT ![n] = TRUE] /\ Rec("restart", n, "", "")
              /\ UNCHANGED <<corev, role, sview, sup, healed, cliv>>
SCrash(s) == /\ Spend /\ sup[s] /\ sup' = [sup EXCEPT ![s] = FALSE] /\ Rec("scrash", s, "", "")
             /\ IF sconn = s THEN sconn' = "" /\ Request /\ lost' = TRUE ELSE UNCHANGED <<sconn, want, lost>>
             /\ UNCHANGED <<corev, role, up, sview, healed, slist, conn, mu, rf, late, evq, eh, apc, own, got>>
SRestart(s) == /\ Spend /\ ~sup[s] /\ sup' = [sup EXCEPT ![s] = TRUE] /\ Rec("srestart", s, "", "")
               /\ UNCHANGED <<corev, role, up, sview, healed, cliv>>
ViewCode(v) == IF v.r = {} THEN "none" ELSE IF v.m \in v.r THEN "all" ELSE "others"
SView(s, v) == /\ Spend /\ sview[s] # v /\ sview' = [sview EXCEPT ![s] = v] /\ Rec("sview", s, v.m, ViewCode(v))
               /\ UNCHANGED <<corev, role, up, sup, healed, cliv>>
\* a message on the connection the client is subscribed on (otherwise nobody hears it: no step).  The sentinels
\* monitor every master set of SetNames and publish the events of all of them on the same channels; only an event that
\* carries the client's own master-set name is a report about the client's master.
Msgs == [ch : {"switch", "rebootm", "slave"}, a : Nodes, set : SetNames]
Publish(s, m) == /\ Spend /\ sup[s] /\ sconn = s /\ Len(evq) < MaxEvq
                 /\ evq' = Append(evq, m) /\ RecS("pub", s, m.ch, m.a, m.set)
                 /\ IF m.ch \in {"switch", "rebootm"} /\ Concerns(m.set) THEN Report("m", {m.a}) ELSE UNCHANGED corev
                 /\ UNCHANGED <<role, up, sview, sup, healed, slist, sconn, conn, mu, rf, want, late, lost, eh, apc, own, got>>
\* clean end of a failover to f: everything is up, f is the only master, every sentinel knows it and says so
HealSwitch(f) ==
    /\ Heal /\ budget = 0 /\ healed = "" /\ healed' = f /\ Len(evq) < MaxEvq
    /\ up' = [n \in Nodes |-> TRUE] /\ role' = [n \in Nodes |-> IF n = f THEN "master" ELSE "slave"]
    /\ sup' = [s \in Sentinels |-> TRUE] /\ sview' = [s \in Sentinels |-> [m |-> f, r |-> Nodes \ {f}]]
    /\ IF sconn # "" /\ sup[sconn] THEN evq' = Append(evq, [ch |-> "switch", a |-> f, set |-> MasterSet]) /\ Report("m", {f})
                                   ELSE UNCHANGED <<evq, corev>>
    /\ UNCHANGED <<budget, slist, sconn, conn, mu, rf, want, late, lost, eh, apc, own, got, hist>>

EnvNext == \/ \E n \in Nodes, r \in {"master", "slave"} : SetRole(n, r)
           \/ \E n \in Nodes : Crash(n) \/ Restart(n)
           \/ \E s \in Sentinels : SCrash(s) \/ SRestart(s)
           \/ \E s \in Sentinels, v \in Views : SView(s, v)
           \/ \E s \in Sentinels, m \in Msgs : Publish(s, m)
           \/ \E f \in Nodes : HealSwitch(f)

\* ---------------------------------------------------------------------------------------------- _refresh
RStart == /\ rf.pc = "idle" /\ want /\ mu = "free"
          /\ mu' = "R" /\ want' = FALSE /\ rf' = [IdleRf EXCEPT !.pc = "pick"]
          /\ UNCHANGED <<corev, envv, slist, sconn, conn, late, lost, evq, eh, apc, own, got, hist>>

NeedsM == Mode # "r"
NeedsR == Mode # "m"
\* dial the head of the list (closing the previous sentinel connection), listWatch: subscribe, ask
\* (a callback that runs the refresh itself does not drain its subscription: with the channel full the reader of that
\* connection blocks and the replies to UNSUBSCRIBE / SENTINEL ... on it are never read)
ReaderBlocked == BugInlineRefresh /\ eh.pc = "refresh" /\ sconn = Head(slist) /\ sup[sconn] /\ Len(evq) = MaxEvq
RAsk == /\ rf.pc = "pick" /\ ~ReaderBlocked
        /\ LET s == Head(slist) IN
             IF sup[s] /\ (NeedsR => sview[s].r # {})
             THEN /\ \E ar \in (IF NeedsR THEN sview[s].r ELSE {""}) :
                       rf' = [rf EXCEPT !.pc = "answered", !.am = IF NeedsM THEN sview[s].m ELSE "", !.ar = ar]
                  /\ sconn' = s /\ late' = (late \/ sconn \notin {"", s}) /\ lost' = FALSE
                  /\ reported' = [k \in Kinds |-> reported[k] \cup (IF k = "m" THEN (IF NeedsM THEN {sview[s].m} ELSE {})
                                                                               ELSE (IF NeedsR THEN sview[s].r ELSE {}))]
                  /\ UNCHANGED <<att, cands, okInst, denied, swapping, group, lastSwap>>
             ELSE /\ rf' = [rf EXCEPT !.pc = "next"] /\ sconn' = IF sup[s] THEN s ELSE ""
                  /\ late' = (late \/ sconn \notin {"", s}) /\ lost' = (lost \/ sup[s]) /\ UNCHANGED corev
        /\ UNCHANGED <<envv, slist, conn, mu, want, evq, eh, apc, own, got, hist>>

Needed == IF Mode = "b" THEN 2 ELSE 1
RSpawn == /\ rf.pc = "answered"
          /\ LET free == {s \in Slots : apc[s] = "free"} IN
               /\ Cardinality(free) >= Needed
               /\ LET s1 == Min(free)
                      asg == IF Mode = "m" THEN (s1 :> [k |-> "m", a |-> rf.am])
                             ELSE IF Mode = "r" THEN (s1 :> [k |-> "r", a |-> rf.ar])
                             ELSE (s1 :> [k |-> "m", a |-> rf.am]) @@ (Min(free \ {s1}) :> [k |-> "r", a |-> rf.ar]) IN
                    /\ Begin(asg)
                    /\ apc' = [s \in Slots |-> IF s \in DOMAIN asg THEN "begun" ELSE apc[s]]
                    /\ own' = [s \in Slots |-> IF s \in DOMAIN asg THEN "R" ELSE own[s]]
                    /\ rf' = [rf EXCEPT !.pc = "wait", !.wait = DOMAIN asg]
          /\ UNCHANGED <<envv, slist, sconn, conn, mu, want, late, lost, evq, eh, got, hist>>

\* `for range 2 { if e := <-errs; e != nil { err = e; break } }`: results in completion order, first failure moves on
RJoin(s) == /\ rf.pc = "wait" /\ s \in rf.wait /\ apc[s] \in {"ok", "failed"}
            /\ apc' = [apc EXCEPT ![s] = "free"]
            /\ IF apc[s] = "ok"
               THEN /\ rf' = [rf EXCEPT !.wait = @ \ {s}, !.pc = IF rf.wait = {s} THEN "finish" ELSE "wait", !.err = FALSE]
                    /\ own' = own
               ELSE /\ rf' = [rf EXCEPT !.wait = {}, !.pc = "next"]
                    /\ own' = [x \in Slots |-> IF x \in rf.wait \ {s} THEN "S" ELSE own[x]]
            /\ UNCHANGED <<corev, envv, slist, sconn, conn, mu, want, late, lost, evq, eh, got, hist>>

\* c.sConn.Close(); MoveToBack; next sentinel unless every one was tried
RNext == /\ rf.pc = "next"
         /\ sconn' = "" /\ late' = (late \/ sconn # "") /\ lost' = (lost \/ sconn # "")
         /\ slist' = Rotate(slist)
         /\ rf' = [rf EXCEPT !.tried = @ + 1, !.err = TRUE,
                             !.pc = IF rf.tried + 1 >= Len(slist) THEN "finish" ELSE "pick"]
         /\ UNCHANGED <<corev, envv, conn, mu, want, evq, eh, apc, own, got, hist>>

\* unlock; post-check of the installed connection; refreshRetry repeats a failed _refresh
RFinish == /\ rf.pc = "finish"
           /\ mu' = "free" /\ rf' = IdleRf
           /\ want' = (rf.err \/ conn[Main].a = "" \/ ~conn[Main].open \/ ~up[conn[Main].a])
           /\ UNCHANGED <<corev, envv, slist, sconn, conn, late, lost, evq, eh, apc, own, got, hist>>

\* the Receive goroutine of a sentinel connection the client closed itself ends with an error and calls refreshRetry
LateRequest == /\ late /\ late' = FALSE /\ Request
               /\ UNCHANGED <<corev, envv, slist, sconn, conn, mu, rf, lost, evq, eh, apc, own, got, hist>>
\* ... and, in the repaired code, again until a listWatch newer than the failed subscription has happened (the refresh
\* it asked for may have been deduplicated into one that had subscribed to the very connection that then failed)
Resubscribe == /\ ~BugAbsorb /\ lost /\ rf.pc = "idle" /\ ~want /\ want' = TRUE
               /\ UNCHANGED <<corev, envv, slist, sconn, conn, mu, rf, late, lost, evq, eh, apc, own, got, hist>>

\* ---------------------------------------------------------------------------------------------- _switchTarget
\* after the begin hook: reuse the installed connection when it is for this address and healthy, else dial a new one
AStart(s) == /\ apc[s] = "begun"
             /\ LET k == att[s].k  a == att[s].a IN
                  IF conn[k].a = a /\ conn[k].open /\ up[a]
                  THEN apc' = [apc EXCEPT ![s] = "role"] /\ UNCHANGED corev
                  ELSE apc' = [apc EXCEPT ![s] = "dialing"] /\ Dial(s)
             /\ UNCHANGED <<envv, slist, sconn, conn, mu, rf, want, late, lost, evq, eh, own, got, hist>>
ADialDone(s) == /\ apc[s] = "dialing"
                /\ IF att[s].a \in Nodes /\ up[att[s].a]
                   THEN apc' = [apc EXCEPT ![s] = "role"] /\ UNCHANGED corev
                   ELSE apc' = [apc EXCEPT ![s] = "failed"] /\ DialErr(s)
                /\ UNCHANGED <<envv, slist, sconn, conn, mu, rf, want, late, lost, evq, eh, own, got, hist>>
ARole(s) == /\ apc[s] = "role"
            /\ LET k == att[s].k  a == att[s].a IN
                 IF up[a]
                 THEN /\ RoleAns(a, role[a]) /\ got' = [got EXCEPT ![s] = role[a]]
                      /\ apc' = [apc EXCEPT ![s] = "decide"] /\ conn' = conn
                 ELSE /\ RoleErr(s) /\ got' = got /\ apc' = [apc EXCEPT ![s] = "failed"]
                      /\ conn' = IF att[s].fresh THEN conn ELSE [conn EXCEPT ![k].open = FALSE]
            /\ UNCHANGED <<envv, slist, sconn, mu, rf, want, late, lost, evq, eh, own, hist>>
ADecide(s) == /\ apc[s] = "decide"
              /\ LET k == att[s].k IN
                   IF got[s] = Wanted(k) \/ BugNoRoleCheck
                   THEN /\ SwapBegin(s) /\ apc' = [apc EXCEPT ![s] = "swap"] /\ conn' = conn
                   ELSE /\ WrongRole(s) /\ apc' = [apc EXCEPT ![s] = "failed"]
                        /\ conn' = IF att[s].fresh \/ BugNoCloseWrong THEN conn ELSE [conn EXCEPT ![k].open = FALSE]
              /\ UNCHANGED <<envv, slist, sconn, mu, rf, want, late, lost, evq, eh, own, got, hist>>
ASwap(s) == /\ apc[s] = "swap"
            /\ LET k == att[s].k  a == att[s].a IN
                 conn' = IF BugKeepOld /\ conn[k].a # "" THEN conn ELSE [conn EXCEPT ![k] = [a |-> a, open |-> TRUE]]
            /\ SwapEnd(s) /\ apc' = [apc EXCEPT ![s] = "ok"]
            /\ UNCHANGED <<envv, slist, sconn, mu, rf, want, late, lost, evq, eh, own, got, hist>>
\* a goroutine _refresh no longer waits for
SReap(s) == /\ own[s] = "S" /\ apc[s] \in {"ok", "failed"}
            /\ apc' = [apc EXCEPT ![s] = "free"] /\ own' = [own EXCEPT ![s] = "R"]
            /\ UNCHANGED <<corev, envv, slist, sconn, conn, mu, rf, want, late, lost, evq, eh, got, hist>>

\* ---------------------------------------------------------------------------------------------- Pub/Sub callback
UsesReplicas == Mode \in {"r", "b"}
\* every handler compares the master-set name the event carries (+switch-master: first word, +reboot master: second,
\* replica events: the word after "@") with the configured one; events of other master sets are dropped
IsPrefixOf(p, q) == Len(p) <= Len(q) /\ SubSeq(q, 1, Len(p)) = p
Accepts(name) == IF BugAnySet THEN TRUE
                 ELSE IF BugPrefixMatch THEN IsPrefixOf(MasterSet, name)
                 ELSE Concerns(name)
EHandle == /\ eh.pc = "idle" /\ evq # <<>>
           /\ evq' = Tail(evq)
           /\ LET m == Head(evq) IN
                IF ~Accepts(m.set) THEN UNCHANGED <<eh, want>>
                ELSE IF m.ch \in {"switch", "rebootm"}
                THEN /\ eh' = IF BugIgnoreSwitch /\ m.ch = "switch" THEN eh ELSE [eh EXCEPT !.pc = "lock", !.a = m.a]
                     /\ want' = want
                ELSE IF UsesReplicas THEN eh' = (IF BugInlineRefresh THEN [eh EXCEPT !.pc = "refresh"] ELSE eh) /\ Request
                     ELSE UNCHANGED <<eh, want>>
           /\ UNCHANGED <<corev, envv, slist, sconn, conn, mu, rf, late, lost, apc, own, got, hist>>
\* switchTargetRetry: c.mu.Lock(); _switchTarget(addr, true)
ELock == /\ eh.pc = "lock" /\ mu = "free" /\ \E s \in Slots : apc[s] = "free"
         /\ LET s == Min({x \in Slots : apc[x] = "free"}) IN
              /\ Begin(s :> [k |-> "m", a |-> eh.a])
              /\ apc' = [apc EXCEPT ![s] = "begun"] /\ own' = [own EXCEPT ![s] = "E"]
              /\ eh' = [eh EXCEPT !.pc = "wait", !.s = s]
         /\ mu' = "E"
         /\ UNCHANGED <<envv, slist, sconn, conn, rf, want, late, lost, evq, got, hist>>
\* c.mu.Unlock(); if err != nil { go c.refreshRetry() }
EJoin == /\ eh.pc = "wait" /\ apc[eh.s] \in {"ok", "failed"}
         /\ apc' = [apc EXCEPT ![eh.s] = "free"] /\ mu' = "free" /\ eh' = IdleEh
         /\ IF apc[eh.s] = "failed" THEN Request ELSE want' = want
         /\ UNCHANGED <<corev, envv, slist, sconn, conn, rf, late, lost, evq, own, got, hist>>
\* refreshRetry() inline (before the repair; now `go c.refreshRetry()`): the callback goes on when a _refresh has succeeded
ERefreshed == /\ eh.pc = "refresh" /\ rf.pc = "idle" /\ ~want
              /\ eh' = IdleEh
              /\ UNCHANGED <<corev, envv, slist, sconn, conn, mu, rf, want, late, lost, evq, apc, own, got, hist>>

RNextAct == RStart \/ RAsk \/ RSpawn \/ (\E s \in Slots : RJoin(s)) \/ RNext \/ RFinish
ANext(s) == AStart(s) \/ ADialDone(s) \/ ARole(s) \/ ADecide(s) \/ ASwap(s) \/ SReap(s)
ENextAct == EHandle \/ ELock \/ EJoin \/ ERefreshed
ClientNext == RNextAct \/ LateRequest \/ Resubscribe \/ (\E s \in Slots : ANext(s)) \/ ENextAct

Next == EnvNext \/ ClientNext
Spec == Init /\ [][Next]_vars
FairSpec == /\ Spec /\ WF_vars(RNextAct) /\ WF_vars(LateRequest) /\ WF_vars(Resubscribe) /\ WF_vars(ENextAct)
            /\ \A s \in Slots : WF_vars(ANext(s))
            /\ WF_vars(\E f \in Nodes : HealSwitch(f))

\* ---------------------------------------------------------------------------------------------- properties
TypeOK == /\ CoreTypeOK
          /\ role \in [Nodes -> {"master", "slave"}] /\ up \in [Nodes -> BOOLEAN]
          /\ sup \in [Sentinels -> BOOLEAN] /\ budget \in 0..MaxEnv
          /\ sconn \in Sentinels \cup {""} /\ mu \in {"free", "R", "E"}
          /\ \A k \in Kinds : conn[k].a \in Nodes \cup {""} /\ conn[k].open \in BOOLEAN
          /\ rf.pc \in {"idle", "pick", "answered", "wait", "next", "finish"}
          /\ eh.pc \in {"idle", "lock", "wait", "refresh"}
          /\ \A s \in Slots : apc[s] \in {"free", "begun", "dialing", "role", "decide", "swap", "ok", "failed"}
          /\ Len(evq) <= MaxEvq

\* a user command of class k sent now would be delivered to conn[k].a
Deliverable(k) == conn[k].a # "" /\ conn[k].open /\ up[conn[k].a]
NowVerdict(k) == Verdict(k, conn[k].a, cands[k], denied[k])

\* C23: primary (replica) traffic only reaches an address that sentinels reported as master (replica) and that
\* answered ROLE master (slave) when it was installed
TrafficOnlyToVerifiedRole == \A k \in Kinds : Deliverable(k) => DelOK_Verified(NowVerdict(k))
\* ... and that is the address the latest switch installed (the old connection is not used any more)
TrafficFollowsInstalled   == \A k \in Kinds : Deliverable(k) => DelOK_Routed(NowVerdict(k))
\* ... and never a connection whose re-verification answered the wrong role
NoTrafficToWrongRole      == \A k \in Kinds : Deliverable(k) => DelOK_NotWrong(NowVerdict(k))
\* the observable state of the hooks describes the implementation state
CoreMatchesImpl == \A k \in Kinds : (conn[k].a # "" /\ conn[k].open) => conn[k].a \in cands[k]
\* the sentinel connection is only missing while a refresh runs or is due
SubscribedOrRefreshing == sconn = "" => (rf.pc # "idle" \/ want \/ late \/ (lost /\ ~BugAbsorb))

\* _refresh is never stuck behind the messages of its own sentinel connection
RefreshNotStuck == ~(rf.pc = "pick" /\ ReaderBlocked)

\* liveness (FairSpec): after the clean end of a failover to f the client follows, and stays
FollowsSwitch == \A f \in Nodes : [](healed = f => <>[](conn["m"] = [a |-> f, open |-> TRUE]))

\* scenario generation: print the environment steps of a finished behaviour
GenDone == budget = 0 => PrintT(<<"CASE", ToJson([mode |-> Mode, steps |-> hist])>>)
\* ... only behaviours in which a sentinel published an event of another master set
GenDoneForeign == (budget = 0 /\ \E i \in DOMAIN hist : hist[i].op = "pub" /\ ~Concerns(hist[i].set))
                  => PrintT(<<"CASE", ToJson([mode |-> Mode, steps |-> hist])>>)
=============================================================================
