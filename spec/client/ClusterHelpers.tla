---------------------------- MODULE ClusterHelpers ----------------------------
(* helper.go of redis/rueidis: MGet, MGetCache, JsonMGet, JsonMGetCache, MSet, MSetNX, MDel, JsonMSet (property C31).

   HelperMap: the returned map has exactly the input keys, and the entry of every key is the reply (or the error) the
   server gave for THAT key - however the helper groups keys into commands (one MGET on a single client, one MGET per
   slot on a cluster client, one GET per key for the caching variants, one SET / DEL per key for the writing variants on
   a cluster) and however the cluster client splits and re-assembles the batch.

   Four keys: 1 and 2 share a slot, 3 and 4 live in two other slots (on the simulated cluster: three different nodes).
   The state of a key before the call:  "val" (holds a value of the helper's type), "nil" (absent), "wrong" (holds a
   value of another type), "err" (holds a value, but the server answers every command that touches the key with
   -ERR injected).  Outcome of a key:
        "v"      the value stored under that key            "nil"    a nil reply
        "wrong"  a WRONGTYPE error for that key             "inj"    the injected error
        "ok"     no error                                   "notset" ErrMSetNXNotSet
   `fail` # "" : the helper returns (nil, err) as a whole.  `post`: what the store holds afterwards ("new" = the value
   written by this call, "old", "absent").

   The expectation is written from the documented semantics of the Redis commands the helpers promise to use, not
   from helper.go. TLC enumerates key lists (with duplicates, same-slot and cross-slot mixes) x key states x helper x
   client and prints one case per state; the Go driver prepares the stores, runs the real helper and compares. *)
EXTENDS Integers, Sequences, FiniteSets, TLC, Json

CONSTANTS Helpers, Clients, MaxLen, LongSeqs, MaxOdd

VARIABLES helper, client, keys, st

Keys == 1..4
SlotOfKey(k) == CASE k \in {1, 2} -> 0 [] k = 3 -> 1 [] OTHER -> 2
States == {"val", "nil", "wrong", "err"}
Range(s) == {s[i] : i \in 1..Len(s)}
Readers == {"MGet", "MGetCache", "JsonMGet", "JsonMGetCache"}
Writers == {"MSet", "MSetNX", "MDel", "JsonMSet"}

\* ---- the commands the helpers are documented to use
\* one multi-key read command (MGET / JSON.MGET) over ks: an error if any key is poisoned, otherwise per key
MultiRead(ks) == IF \E k \in ks : st[k] = "err" THEN "inj" ELSE ""
ReadOne(k) == CASE st[k] = "val" -> "v" [] st[k] = "nil" -> "nil" [] st[k] = "wrong" -> "nil" [] OTHER -> "inj"     \* inside MGET / JSON.MGET
GetOne(k)  == CASE st[k] = "val" -> "v" [] st[k] = "nil" -> "nil" [] st[k] = "wrong" -> "wrong" [] OTHER -> "inj"   \* GET / JSON.GET
Exists(k) == st[k] \in {"val", "wrong", "err"}

KS == Range(keys)
Groups == IF client = "single" THEN {KS} ELSE {{k \in KS : SlotOfKey(k) = s} : s \in {SlotOfKey(k) : k \in KS}}

Expect ==
    CASE helper \in {"MGet", "JsonMGet"} ->
           \* one command per group; one failing command fails the helper
           IF \E g \in Groups : MultiRead(g) # ""
           THEN [fail |-> "inj", out |-> <<>>, post |-> [k \in KS |-> "old"]]
           ELSE [fail |-> "", out |-> [k \in KS |-> ReadOne(k)], post |-> [k \in KS |-> "old"]]
      [] helper \in {"MGetCache", "JsonMGetCache"} ->
           \* one GET per key inside the client side caching transaction (MULTI PTTL GET EXEC).  A reply produced when the
           \* transaction runs (a value, nil, WRONGTYPE) is that key's entry; a command the server refuses when it is
           \* queued aborts the transaction, which the client reports as an error of the call, not as a reply: the
           \* helper then fails as a whole with that error, as MGet does for a failed MGET
           IF \E k \in KS : st[k] = "err"
           THEN [fail |-> "inj", out |-> <<>>, post |-> [k \in KS |-> "old"]]
           ELSE [fail |-> "", out |-> [k \in KS |-> GetOne(k)], post |-> [k \in KS |-> "old"]]
      [] helper = "MSet" ->
           IF client = "single"
           THEN LET e == IF \E k \in KS : st[k] = "err" THEN "inj" ELSE "ok" IN
                [fail |-> "", out |-> [k \in KS |-> e], post |-> [k \in KS |-> IF e = "ok" THEN "new" ELSE "old"]]
           ELSE [fail |-> "", out |-> [k \in KS |-> IF st[k] = "err" THEN "inj" ELSE "ok"],
                 post |-> [k \in KS |-> IF st[k] = "err" THEN "old" ELSE "new"]]
      [] helper = "MSetNX" ->
           IF client = "single"
           THEN LET e == IF \E k \in KS : st[k] = "err" THEN "inj" ELSE IF \E k \in KS : Exists(k) THEN "notset" ELSE "ok" IN
                [fail |-> "", out |-> [k \in KS |-> e], post |-> [k \in KS |-> IF e = "ok" THEN "new" ELSE "old"]]
           ELSE [fail |-> "", out |-> [k \in KS |-> IF st[k] = "err" THEN "inj" ELSE IF Exists(k) THEN "nil" ELSE "ok"],
                 post |-> [k \in KS |-> IF st[k] = "nil" THEN "new" ELSE "old"]]
      [] helper = "MDel" ->
           IF client = "single"
           THEN LET e == IF \E k \in KS : st[k] = "err" THEN "inj" ELSE "ok" IN
                [fail |-> "", out |-> [k \in KS |-> e], post |-> [k \in KS |-> IF e = "ok" THEN "absent" ELSE "old"]]
           ELSE [fail |-> "", out |-> [k \in KS |-> IF st[k] = "err" THEN "inj" ELSE "ok"],
                 post |-> [k \in KS |-> IF st[k] = "err" THEN "old" ELSE "absent"]]
      [] OTHER -> \* JsonMSet: JSON.MSET is atomic and refuses keys of another type; JSON.SET per key on a cluster
           IF client = "single"
           THEN LET e == IF \E k \in KS : st[k] = "err" THEN "inj" ELSE IF \E k \in KS : st[k] = "wrong" THEN "wrong" ELSE "ok" IN
                [fail |-> "", out |-> [k \in KS |-> e], post |-> [k \in KS |-> IF e = "ok" THEN "new" ELSE "old"]]
           ELSE [fail |-> "", out |-> [k \in KS |-> IF st[k] = "err" THEN "inj" ELSE IF st[k] = "wrong" THEN "wrong" ELSE "ok"],
                 post |-> [k \in KS |-> IF st[k] \in {"err", "wrong"} THEN "old" ELSE "new"]]

\* ---- enumeration
\* keys 1 and 2 share a slot, i.e. one connection of the single client's multiplexer and one node of the cluster: a repeated
\* key FOLLOWED by a new key of the same slot, two different repeated keys, a key three times - the shapes in which a joined
\* client-side-caching flight sits between genuinely new ones inside one DoMultiCache of one connection
DefaultLong == {<<1, 3, 2, 4, 1>>, <<3, 1, 3, 2, 4>>, <<1, 2, 3, 4>>, <<4, 3, 1>>,
                <<1, 1, 2>>, <<2, 2, 1, 3>>, <<1, 2, 1, 2>>, <<1, 1, 1, 2>>, <<2, 1, 1, 2, 4>>}
Seqs == UNION {[1..n -> Keys] : n \in 1..MaxLen} \cup LongSeqs
\* key lists of the writing helpers are maps: one canonical (increasing) list per key set
Canon(s) == \A i \in 1..(Len(s) - 1) : s[i] < s[i + 1]
Init == /\ helper \in Helpers /\ client \in Clients
        /\ keys \in {s \in Seqs : helper \in Readers \/ Canon(s)}
        /\ st \in {f \in [Keys -> States] : /\ Cardinality({k \in Keys : f[k] # "val"}) <= MaxOdd
                                            /\ \A k \in Keys : k \notin Range(keys) => f[k] = "val"}
Next == UNCHANGED <<helper, client, keys, st>>
Spec == Init /\ [][Next]_<<helper, client, keys, st>>

Emit == PrintT(<<"CASE", ToJson([helper |-> helper, client |-> client, keys |-> keys, st |-> st, expect |-> Expect])>>)
\* HelperMap on the expectation itself: exactly the input keys
HelperMap == Expect.fail = "" => DOMAIN Expect.out = KS
=============================================================================
