----------------------------- MODULE SentinelGen -----------------------------
(* Scenario generation from Sentinel.tla (TLC -simulate with Record = TRUE): behaviours of the full model, of which
   the environment steps are printed with the client step they followed (anchor) -- see GenDone in Sentinel.tla. *)
EXTENDS SentinelMC

\* scenario generation (-simulate): the environment acts when the client is at rest or has taken two steps since the
\* last environment step, so that its steps are spread over the client's refresh / switch sequences and carry anchors
VARIABLE pace
GenInit == Init /\ pace = 0
GenNext == \/ EnvNext /\ (pace >= 2 \/ Quiet) /\ pace' = 0
           \/ ClientNext /\ pace' = IF pace < 3 THEN pace + 1 ELSE pace
GenSpec == GenInit /\ [][GenNext]_<<vars, pace>>
=============================================================================
