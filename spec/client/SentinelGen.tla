----------------------------- MODULE SentinelGen -----------------------------
(* Scenario generation from Sentinel.tla (TLC -simulate with Record = TRUE): behaviours of the full model, of which
   the environment steps are printed with the client step they followed (anchor) -- see GenDone in Sentinel.tla. *)
EXTENDS SentinelMC

\* scenario generation (-simulate): the environment acts when the client is at rest or has taken two steps since the
\* last environment step, so that its steps are spread over the client's refresh / switch sequences and carry anchors
VARIABLE pace
GenInit == Init /\ pace = 0
GenNext == \/ EnvNext /\ (pace >= 2 \/ Quiet) /\ pace' = 0
           \/ ClientNext /\ pace' = IF pace < 3 THEN pace + 1 ELSE pace
GenSpec == GenInit /\ [][GenNext]_<<vars, pace>>

\* scenarios about events of other master sets (SetNames = NamesAll): roles flip, views change, the client's own set
\* fails over, and every event of a foreign set is a tempting one -- it names a node that is up, honestly answers ROLE
\* master (it is the master of that other set) and that no sentinel has reported as master of the client's set
Tempting(m) == /\ m.ch \in {"switch", "rebootm"} /\ ~Concerns(m.set)
               /\ up[m.a] /\ role[m.a] = "master" /\ m.a \notin reported["m"]
EnvForeign == \/ \E n \in Nodes, r \in {"master", "slave"} : SetRole(n, r)
              \/ \E s \in Sentinels, v \in Views : SView(s, v)
              \/ \E s \in Sentinels, m \in Msgs : /\ ((Concerns(m.set) /\ m.ch = "switch") \/ Tempting(m))
                                                   /\ Publish(s, m)
GenNextF == \/ EnvForeign /\ (pace >= 2 \/ Quiet) /\ pace' = 0
            \/ ClientNext /\ pace' = IF pace < 3 THEN pace + 1 ELSE pace
GenSpecF == GenInit /\ [][GenNextF]_<<vars, pace>>
=============================================================================
