SPECIFICATION TraceSpec
CONSTANTS
  OptSet = {}
  CallSet = {}
  ChangeSet = {}
  MaxCalls = 1000000
  MaxChanges = 0
  MaxGen = 1000000
  MaxAtt = 3
  EagerLazy = FALSE
  LazyMidCall = TRUE
  FixDenied = TRUE
  BugAskNoAsking = FALSE
  BugTxNoMulti = FALSE
  BugPredIgnored = FALSE
  BugNodeOrder = FALSE
  BugMovedIgnored = FALSE
  BugMaxOffByOne = FALSE
  BugSelClamp = FALSE
  BugRefreshDropsInit = FALSE
  BugAskRunNoInit = FALSE
  BugPoolStale = FALSE
  BugStreamKeyless = FALSE
  BugPromoteReplica = FALSE
INVARIANTS RedirectFollowed AskingPrecedes BoundedRedirects RetryHonoured BatchOrder TxContiguousOneNode TxResentWhole ReplicaOnlyWhenOptedIn OutOfRangeFallsBackToPrimary NoResendAfterDenied
CONSTRAINT HighWater
POSTCONDITION TraceAccepted
VIEW TraceView
CHECK_DEADLOCK FALSE
