SPECIFICATION Spec
CONSTANTS
  KindSet = {"single", "standalone", "sentinel", "dedicated", "cluster", "clusterbatch"}
  ClassSet = {"readonly", "retryable", "plain"}
  ShapeSet = {"one"}
  PathSet = {"sync", "pipelined"}
  MaxSends = 3
  MaxMoved = 0
  CtxKinds = {"none", "cancel", "deadline"}
  AllowExpiredSent = FALSE
  AllowBatchSibling = TRUE
  AllowTxResend = FALSE
  BugBatchAnyRetryable = FALSE
  BugSyncExpired = FALSE
  BugIgnoreRetryable = FALSE
  BugRetryErrReply = FALSE
  BugRetryAfterCtx = FALSE
  BugRetryAfterClose = FALSE
  GenMode = FALSE
INVARIANTS TypeOK InvWithinPolicy
CHECK_DEADLOCK FALSE
