SPECIFICATION Spec
CONSTANTS
  KindSet = {"single", "standalone", "sentinel", "dedicated", "clusterbatch"}
  ClassSet = {"readonly", "retryable", "plain"}
  ShapeSet = {"batch", "tx"}
  PathSet = {"sync", "pipelined"}
  MaxSends = 4
  MaxMoved = 0
  CtxKinds = {"none", "cancel", "deadline"}
  AllowExpiredSent = FALSE
  AllowBatchSibling = FALSE
  AllowTxResend = FALSE
  BugBatchAnyRetryable = FALSE
  BugSyncExpired = FALSE
  BugIgnoreRetryable = FALSE
  BugRetryErrReply = FALSE
  BugRetryAfterCtx = FALSE
  BugRetryAfterClose = FALSE
  GenMode = FALSE
INVARIANTS TypeOK InvRetryOnlyWhenSafe InvWithinPolicy InvNoRetryAfterCtxOrClose PlainRepliesReturnedAsIs NoSpin AtMostOnceNonRetryable
CHECK_DEADLOCK FALSE
