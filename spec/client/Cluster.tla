------------------------------- MODULE Cluster -------------------------------
(* cluster.go of redis/rueidis: routing of commands in Redis Cluster mode (properties C19, C20, C21-cluster and the
   decision of DESIGN.md section 7 #14).

   The module has two halves.

   CLIENT  - the learned topology (wslots / rslots / conns of clusterClient, kept per *connection object*
             <<node, generation>> because redirectOrNew compares connection objects), _refresh, _pick / _pickMulti /
             _pickMultiCache, the round structure of DoMulti / DoMultiCache (retries.m, one sub-batch per connection,
             commands first, ASK-redirected commands second), doresultfn / resultcachefn including the transaction
             detection, askingMulti, the redirect budget (MaxMovedRedirections) and the retry rule, and do / doCache
             for single commands.  These actions take the reply of the node as a parameter: the model checker takes
             it from the environment half, trace validation (ClusterTrace.tla) takes it from the recorded event.
   ENVIRONMENT - a cluster of four primaries and three replicas over four representative slots: slot ownership
             (truth), slots being migrated (ASK), stale views of non-owners (MOVED chains to a known node, to a node
             the client has never heard of, to the replying node itself), the topology the nodes report, dead nodes,
             scripted LOADING/TRYAGAIN/CLUSTERDOWN replies and RetryDelay answers.  The simulated cluster of the Go
             driver (harness/clustersim) implements exactly these rules.

   Deliberate oddities of the code that are modelled as they are: a batch containing MULTI/EXEC goes to the primary
   whatever SendToReplicas says; retries of a batch stay on the connection, retries of a single command pick again;
   a transaction hit by a retryable error counts as a redirect; in `do` the connection compared by redirectOrNew is
   always the one picked first; ASK-redirected members that are retried lose their ASKING.
   Round 2 (after the seeded changes, see design/cluster.md): the transaction flag hasInit is modelled as the value doretry
   hands to doresultfn (`tx` in Proc); DoStream / DoMultiStream (kinds stream / multistream) and commands without a key
   (class "n"); report entries of shards whose master is not online; an ASK target that bounces an ASKING command with
   MOVED (second hop); `pool` = what a pooled retry object carries from one call to the next.
   FixDenied = FALSE is doresultfn / resultcachefn as found in the pinned commit (#14): a member whose RetryDelay
   answer was negative is still put into retries.m and is re-sent when another member of the batch causes a new round. *)
EXTENDS Integers, Sequences, FiniteSets, TLC

CONSTANTS OptSet,          \* MC: option records the initial state chooses from
          CallSet,         \* MC: calls the environment may issue
          MaxCalls, MaxChanges, MaxGen,
          MaxAtt,          \* the driver's RetryDelay function answers -1 from this attempt number on
          ChangeSet,       \* MC: topology changes the environment may apply between calls
          LazyMidCall,     \* MC: the lazy refresh may also run in the middle of a call
          EagerLazy,       \* MC (scenario generation): an armed lazy refresh runs before the next call / topology change
          FixDenied,
          BugAskNoAsking, BugTxNoMulti, BugPredIgnored, BugNodeOrder, BugMovedIgnored, BugMaxOffByOne, BugSelClamp,
          \* round 2 (re-introduced defects of the classes the seeded changes stand for)
          BugRefreshDropsInit,   \* pickMulti forgets that the batch holds key-less commands when it had to refresh before picking
          BugAskRunNoInit,       \* doresultfn over the replies of the ASK sub-batch runs without transaction detection
          BugPoolStale,          \* the pooled retry / retrycache object keeps the length of its ASK index list from its previous use
          BugStreamKeyless,      \* DoMultiStream does not ask SendToReplicas about commands without a key
          BugPromoteReplica      \* a shard whose master is not online is kept with its first online replica as primary

VARIABLES truth, migr, stale, report, down, inj,                       \* environment
          opt, known, gen, ro, wmap, rgrp, rsel, lazy,                  \* client: options and learned topology
          ph, call, pk, pg, cc0, todo, run, nextm, redirs, rdelay, redirects, attempts, res, fresh,   \* client: the call in progress
          hist, nlog,                                                   \* observation of the call in progress
          calls, changes, script,                                       \* bookkeeping (script: behaviour for the Go driver)
          pool                                                          \* client, across calls: stale ASK index entries left in the pooled retry object (0 unless BugPoolStale)

envv  == <<truth, migr, stale, report, down>>
mapv  == <<known, gen, ro, wmap, rgrp, rsel>>
callv == <<ph, call, pk, pg, cc0, todo, run, nextm, redirs, rdelay, redirects, attempts, res, fresh>>
obsv  == <<hist, nlog>>
vars  == <<envv, inj, opt, mapv, lazy, callv, obsv, calls, changes, script, pool>>

\* ------------------------------------------------------------------------------------------------- universe
None   == "-"
Prim   == {"a", "b", "c", "d"}
Repl   == {"a1", "a2", "b1"}
Node   == Prim \cup Repl
PrimOf(n) == IF n \in {"a1", "a2"} THEN "a" ELSE IF n = "b1" THEN "b" ELSE n
ReplSeq(p) == IF p = "a" THEN <<"a1", "a2">> ELSE IF p = "b" THEN <<"b1">> ELSE <<>>
InitAddr == {"a", "b", "c"}
Slots  == 0..3
NodeOrd(n) == CASE n = "a" -> 1 [] n = "a1" -> 2 [] n = "a2" -> 3 [] n = "b" -> 4 [] n = "b1" -> 5
                [] n = "c" -> 6 [] n = "d" -> 7 [] OTHER -> 8
NoKey  == <<None, 0>>
Range(s) == {s[i] : i \in 1..Len(s)}
Idx(n) == [i \in 1..n |-> i]
Min(S) == CHOOSE x \in S : \A y \in S : x <= y
Max(S) == CHOOSE x \in S : \A y \in S : x >= y
EmptyF == <<>>
Put(f, k, v) == [x \in (DOMAIN f) \cup {k} |-> IF x = k THEN v ELSE f[x]]

NoRes == [k |-> "none", n |-> None, to |-> None, id |-> 0, ids |-> <<>>]
NoSlotRes == [k |-> "noslot", n |-> None, to |-> None, id |-> 0, ids |-> <<>>]

\* a call: [kind, mem, inj, migrated, deny]; a member: [s |-> slot or -1, c |-> "r" | "w" | "M" | "E" | "n", o |-> SendToReplicas(cmd)]
\* ("n" = a command without a key that is neither MULTI nor EXEC, e.g. PUBLISH / ECHO: every node serves it)
\* kinds: do docache multi multicache, and stream / multistream (DoStream / DoMultiStream: one node, the replies are handed
\* to the caller as they come - no redirect is followed, nothing is retried, no refresh is armed)
Single   == call.kind \in {"do", "docache"}
Stream   == call.kind \in {"stream", "multistream"}
CacheK   == call.kind \in {"docache", "multicache"}
Unordered == call.kind = "multicache"      \* mux.DoMultiCache spreads a sub-batch over the multiplexed connections
NMem     == Len(call.mem)
IsM(i)   == call.mem[i].c = "M"
IsE(i)   == call.mem[i].c = "E"
\* `init` of _pickMulti: some command of the batch has no slot (MULTI, EXEC, PUBLISH ...)
HasInit  == \E i \in 1..NMem : call.mem[i].c \in {"M", "E", "n"}
Keyed(i) == call.mem[i].c \in {"r", "w"}
FirstKeyedSlot == IF \E i \in 1..NMem : Keyed(i) THEN call.mem[Min({i \in 1..NMem : Keyed(i)})].s ELSE -1
\* a DoMulti batch without any key goes to the first slot that has a connection ("we pick a non-nil slot")
AnySlot  == IF \E s \in Slots : wmap[s] # NoKey THEN Min({s \in Slots : wmap[s] # NoKey}) ELSE -1
SlotOf(i) == IF Keyed(i) THEN call.mem[i].s
             ELSE IF FirstKeyedSlot # -1 THEN FirstKeyedSlot
             ELSE IF call.kind = "multi" THEN AnySlot ELSE -1
Retryable(i) == call.mem[i].c = "r"
Denied(i) == i \in call.deny \/ attempts >= MaxAtt           \* RetryDelay(attempts, cmd, err) < 0
OpOf(i) == IF IsM(i) THEN "multi" ELSE IF IsE(i) THEN "exec" ELSE "cmd"
ModeOf(rep) == CASE rep = "moved" -> "moved" [] rep = "ask" -> "ask" [] rep \in {"retry", "neterr"} -> "retry" [] OTHER -> "none"

\* ------------------------------------------------------------------------------------------------- _refresh
\* A report entry [p |-> None, rs |-> <<..>>] with replicas stands for a shard whose master is listed but not online
\* (CLUSTER SHARDS health fail / loading - the window of a failover): the client must drop the whole shard, the slot has
\* no owner and the replicas are not dialled.
Usable(r) == [s \in Slots |-> IF r[s].p # None THEN r[s]
                               ELSE IF BugPromoteReplica /\ r[s].rs # <<>> THEN [p |-> Head(r[s].rs), rs |-> Tail(r[s].rs)]
                               ELSE [p |-> None, rs |-> <<>>]]
RNodes(r) == ({r[s].p : s \in Slots} \cup UNION {Range(r[s].rs) : s \in Slots}) \ {None}
RRepl(r)  == UNION {Range(r[s].rs) : s \in Slots}

\* the outcome of one successful _refresh that parsed the report r, starting from the connections kn0/gn0/ro0.
\* The random choices of the code (util.FastRand for ReplicaOnly and for the default ReplicaSelector, one per slot) are
\* left unresolved (Unres) and are resolved when the slot is first used (action Resolve): the choice is not observable
\* earlier.
Unres == <<"?", 0>>
Learn(o, r0, kn0, gn0, ro0) ==
    LET r == Usable(r0)
        newKnown == RNodes(r) \cup InitAddr
        created  == newKnown \ kn0
        g2 == [n \in Node |-> IF n \in created THEN gn0[n] + 1 ELSE gn0[n]]
        K(n) == <<n, g2[n]>>
    IN  [known |-> newKnown, gen |-> g2,
         ro |-> {k \in ro0 : k[1] \in newKnown \ created}
                 \cup {K(n) : n \in {m \in created : o.mode = "replicaonly" \/ (o.mode = "sendto" /\ m \in RRepl(r))}},
         wmap |-> [s \in Slots |-> IF r[s].p = None THEN NoKey
                                    ELSE IF o.mode = "replicaonly" /\ r[s].rs # <<>> THEN Unres ELSE K(r[s].p)],
         rgrp |-> [s \in Slots |-> IF r[s].p = None THEN <<>>
                                    ELSE <<K(r[s].p)>> \o [j \in 1..Len(r[s].rs) |-> K(r[s].rs[j])]],
         rsel |-> [s \in Slots |-> IF r[s].p = None \/ o.mode # "sendto" THEN NoKey
                                    ELSE IF r[s].rs = <<>> THEN K(r[s].p)
                                    ELSE IF o.selKind = "rs"
                                         THEN (IF o.selIdx \in 0..(Len(r[s].rs) - 1) THEN K(r[s].rs[o.selIdx + 1])
                                               ELSE IF BugSelClamp THEN K(r[s].rs[Len(r[s].rs)]) ELSE K(r[s].p))
                                         ELSE Unres]]
ApplyReport(r) ==
    LET L == Learn(opt, r, known, gen, ro) IN
    /\ known' = L.known /\ gen' = L.gen /\ ro' = L.ro /\ wmap' = L.wmap /\ rgrp' = L.rgrp /\ rsel' = L.rsel

\* ------------------------------------------------------------------------------------------------- _pick
\* DoMultiStream: the whole batch goes to one node, to a replica only when SendToReplicas says yes for every command
AllOpt == \A j \in 1..NMem : call.mem[j].o \/ (BugStreamKeyless /\ ~Keyed(j))
PickKey(i) ==
    LET s == SlotOf(i) m == call.mem[i]
        repl == IF call.kind = "multistream" THEN AllOpt ELSE (m.o \/ BugPredIgnored) /\ ~HasInit
    IN
    IF s = -1 THEN NoKey
    ELSE IF opt.mode = "sendto" /\ repl
         THEN IF opt.selKind = "rns"
              THEN LET g == rgrp[s] IN
                   IF g = <<>> THEN NoKey
                   ELSE IF opt.selIdx \in 0..(Len(g) - 1) THEN g[opt.selIdx + 1]
                   ELSE IF BugSelClamp THEN g[Len(g)] ELSE g[1]
              ELSE rsel[s]
         ELSE wmap[s]

Wire(lst, ask) == [j \in 1..Len(lst) |-> [op |-> OpOf(lst[j]), i |-> lst[j], ask |-> ask]]
NoRep == [rep |-> "none", to |-> None, i |-> 0, ids |-> <<>>]
StartRun(e) ==
    LET c == e.c # <<>>
        lst == IF c THEN e.c ELSE e.a
    IN [st |-> IF c THEN "c" ELSE "a", lst |-> lst, w |-> Wire(lst, IF c THEN FALSE ELSE ~BugAskNoAsking),
        pp |-> 1..Len(lst), r |-> [j \in 1..Len(lst) |-> NoRep], q |-> <<>>, intx |-> FALSE, dirty |-> FALSE, conn |-> 0]

StartRound(td) == /\ todo' = td
                  /\ run' = [k \in DOMAIN td |-> StartRun(td[k])]
                  /\ nextm' = EmptyF /\ redirs' = FALSE /\ rdelay' = FALSE /\ ph' = "round"

\* the random choice made by the last _refresh for a slot this call uses becomes definite
Resolve ==
    /\ ph = "pick"
    /\ \E i \in 1..NMem : LET s == SlotOf(i) IN
         /\ s # -1 /\ PickKey(i) = Unres
         /\ \E j \in 2..Len(rgrp[s]) :
              IF wmap[s] = Unres /\ opt.mode = "replicaonly"
              THEN wmap' = [wmap EXCEPT ![s] = rgrp[s][j]] /\ UNCHANGED rsel
              ELSE rsel' = [rsel EXCEPT ![s] = rgrp[s][j]] /\ UNCHANGED wmap
    /\ UNCHANGED <<envv, inj, opt, known, gen, ro, rgrp, lazy, callv, obsv, calls, changes, script, pool>>

Pick == /\ ph = "pick"
        /\ \A i \in 1..NMem : PickKey(i) # Unres
        /\ LET keys == [i \in 1..NMem |-> PickKey(i)] IN
           IF \E i \in 1..NMem : keys[i] = NoKey
           THEN \* pick() refreshes once and gives up with ErrNoSlot (every member of a batch gets it)
                /\ fresh
                /\ res' = [i \in 1..NMem |-> NoSlotRes] /\ ph' = "done"
                /\ UNCHANGED <<pk, pg, cc0, todo, run, nextm, redirs, rdelay>>
           ELSE /\ pk' = keys /\ cc0' = keys[1] /\ pg' = [i \in 1..NMem |-> IF SlotOf(i) = -1 THEN <<>> ELSE rgrp[SlotOf(i)]]
                /\ StartRound([k \in {keys[i] : i \in 1..NMem} |->
                                  [c |-> SelectSeq(Idx(NMem), LAMBDA i : keys[i] = k), a |-> <<>>]])
                /\ UNCHANGED res
        /\ UNCHANGED <<envv, inj, opt, mapv, lazy, call, redirects, attempts, fresh, obsv, calls, changes, script, pool>>

\* ------------------------------------------------------------------------------------------------- one command at a node
\* connection k receives the command at position p of its sub-batch and answers rp = [rep, to]; cn is the server-side
\* connection id (trace validation only)
Recv(k, p, rp, cn) ==
    LET rn == run[k]
        e == rn.w[p]
        full == [rep |-> rp.rep, to |-> rp.to, i |-> e.i, ids |-> IF rp.rep = "exec" THEN rn.q ELSE <<>>]
    IN  /\ run' = [run EXCEPT ![k] = [rn EXCEPT
                     !.pp = @ \ {p}, !.r = [@ EXCEPT ![p] = full], !.conn = cn,
                     !.intx = IF e.op = "multi" THEN rp.rep = "ok" ELSE IF e.op = "exec" THEN FALSE ELSE @,
                     !.q = IF e.op = "multi" THEN <<>> ELSE IF rp.rep = "queued" THEN Append(@, e.i) ELSE @,
                     !.dirty = IF e.op \in {"multi", "exec"} THEN FALSE ELSE @ \/ (rn.intx /\ rp.rep # "queued")]]
        /\ hist' = [hist EXCEPT ![e.i] = Append(@, [n |-> k[1], g |-> k[2], ask |-> e.ask, rep |-> rp.rep, to |-> rp.to])]
        /\ nlog' = Put(nlog, k, Append(IF k \in DOMAIN nlog THEN nlog[k] ELSE <<>>, [op |-> e.op, i |-> e.i]))

\* ------------------------------------------------------------------------------------------------- doresultfn / resultcachefn
KeyLess(a, b) == NodeOrd(a[1]) < NodeOrd(b[1]) \/ (a[1] = b[1] /\ a[2] < b[2])
ResIdx(ii) == IF BugNodeOrder
              THEN 1 + Cardinality({j \in 1..NMem : KeyLess(pk[j], pk[ii]) \/ (pk[j] = pk[ii] /\ j < ii)})
              ELSE ii
MkRes(k, rp) == [k |-> rp.rep, n |-> IF rp.rep \in {"val", "exec"} THEN k[1] ELSE None, to |-> rp.to, id |-> rp.i, ids |-> rp.ids]

\* redirectOrNew(addr, prev, slot, mode) on the accumulated client state
RedirectOrNew(addr, prev, slot, mode, acc) ==
    LET cur == <<addr, acc.gn[addr]>> IN
    IF addr \in acc.kn /\ cur # prev
    THEN [key |-> cur, kn |-> acc.kn, gn |-> acc.gn, wm |-> acc.wm, ro |-> acc.ro]
    ELSE LET nk == <<addr, acc.gn[addr] + 1>> IN
         [key |-> nk, kn |-> acc.kn \cup {addr}, gn |-> [acc.gn EXCEPT ![addr] = @ + 1],
          wm |-> IF mode = "moved" /\ slot # -1 THEN [acc.wm EXCEPT ![slot] = nk] ELSE acc.wm,
          ro |-> IF opt.mode = "replicaonly" THEN acc.ro \cup {nk} ELSE acc.ro]

AddTo(nx, k, asking, lst) ==
    LET old == IF k \in DOMAIN nx THEN nx[k] ELSE [c |-> <<>>, a |-> <<>>] IN
    Put(nx, k, IF asking THEN [old EXCEPT !.a = @ \o lst] ELSE [old EXCEPT !.c = @ \o lst])

ScanBack(lst, i) == IF \E j \in 1..i : IsM(lst[j]) \/ IsE(lst[j])
                    THEN CHOOSE j \in 1..i : (IsM(lst[j]) \/ IsE(lst[j])) /\ \A x \in (j + 1)..i : ~(IsM(lst[x]) \/ IsE(lst[x]))
                    ELSE 0
ScanFwd(lst, i) == IF \E j \in i..Len(lst) : IsM(lst[j]) \/ IsE(lst[j])
                   THEN CHOOSE j \in i..Len(lst) : (IsM(lst[j]) \/ IsE(lst[j])) /\ \A x \in i..(j - 1) : ~(IsM(lst[x]) \/ IsE(lst[x]))
                   ELSE Len(lst) + 1

\* in `do` / `doCache` the budget is tested before redirectOrNew, so an exhausted budget has no side effect
Exceeds(r) == opt.maxMoved > 0 /\ (IF BugMaxOffByOne THEN r > opt.maxMoved + 1 ELSE r > opt.maxMoved)

\* not a CONSTANT (the configurations need not name it): MC_cluster_neg_txloss.cfg overrides it with TRUE
BugTxResendAfterLoss == FALSE

RECURSIVE DoRes(_, _, _, _, _)
DoRes(k, lst, rps, i, acc) ==
    IF i > Len(lst) THEN acc ELSE
    LET ii == lst[i]
        rp == rps[i]
        \* BugPoolStale: the index list starts with acc.off stale zeros, so reply i is filed under the index at i - off
        ri == IF i <= acc.off THEN 1 ELSE ResIdx(lst[i - acc.off])
        acc1 == [acc EXCEPT !.rs[ri] = MkRes(k, rp), !.lz = @ \/ ModeOf(rp.rep) # "none"]
        mode == ModeOf(rp.rep)
        denied == mode = "retry" /\ Denied(ii)
    IN  IF Stream THEN DoRes(k, lst, rps, i + 1, [acc EXCEPT !.rs[ri] = MkRes(k, rp)])
        ELSE IF mode = "none" THEN DoRes(k, lst, rps, i + 1, acc1)
        ELSE IF mode = "retry" /\ (~opt.retryOn \/ ~(Retryable(ii) \/ CacheK)) THEN DoRes(k, lst, rps, i + 1, acc1)
        ELSE IF denied /\ (FixDenied \/ Single) THEN DoRes(k, lst, rps, i + 1, acc1)
        ELSE IF Single /\ mode # "retry" /\ Exceeds(redirects + 1)
             THEN DoRes(k, lst, rps, i + 1, [acc1 EXCEPT !.rd = TRUE, !.nx = AddTo(@, k, FALSE, <<ii>>)])
        ELSE
        LET rn == IF mode = "retry" \/ BugMovedIgnored
                  THEN [key |-> k, kn |-> acc1.kn, gn |-> acc1.gn, wm |-> acc1.wm, ro |-> acc1.ro]
                  ELSE RedirectOrNew(rp.to, IF Single THEN cc0 ELSE k, SlotOf(ii), mode, acc1)
            nc == rn.key
            scan == acc1.tx /\ acc1.ei < i
            mi2 == IF scan THEN ScanBack(lst, i) ELSE acc1.mi
            ei2 == IF scan THEN ScanFwd(lst, i) ELSE acc1.ei
            acc2 == [acc1 EXCEPT !.kn = rn.kn, !.gn = rn.gn, !.wm = rn.wm, !.ro = rn.ro, !.mi = mi2, !.ei = ei2]
            \* a block is sent again as a whole only when the server REFUSED one of its queued members (MOVED / ASK / a retryable
            \* error reply: EXEC then discards the block); after a reply lost to a connection failure EXEC may have run, so the
            \* block is not repeated (fix 173cee7 in /repo; BugTxResendAfterLoss = doresultfn as it was before)
            txFound == scan /\ (rp.rep # "neterr" \/ BugTxResendAfterLoss) /\ mi2 >= 1 /\ ei2 <= Len(lst) /\ IsM(lst[mi2]) /\ IsE(lst[ei2]) /\ rps[mi2].rep = "ok"
        IN  IF txFound
            THEN DoRes(k, lst, rps, i + 1, [acc2 EXCEPT !.rd = TRUE,
                          !.nx = AddTo(@, nc, mode = "ask", SubSeq(lst, IF BugTxNoMulti THEN mi2 + 1 ELSE mi2, ei2))])
            ELSE IF acc1.tx /\ mi2 < i /\ i < ei2 /\ mi2 >= 1 /\ IsM(lst[mi2])
            THEN DoRes(k, lst, rps, i + 1, acc2)
            ELSE DoRes(k, lst, rps, i + 1, [acc2 EXCEPT !.rd = @ \/ mode # "retry", !.dl = @ \/ (mode = "retry" /\ ~denied),
                          !.nx = AddTo(@, nc, mode = "ask", <<ii>>)])

\* the goroutine of connection k has all replies of its current sub-batch and runs doresultfn over them; afterwards it
\* sends its ASK-redirected commands (askingMulti) or is finished for this round
Proc(k) ==
    /\ ph = "round" /\ k \in DOMAIN run /\ run[k].st \in {"c", "a"} /\ run[k].pp = {}
    /\ LET rn == run[k]
           \* hasInit as doretry hands it to doresultfn
           tx == HasInit /\ ~(BugRefreshDropsInit /\ fresh) /\ ~(BugAskRunNoInit /\ rn.st = "a")
           acc == DoRes(k, rn.lst, rn.r, 1, [nx |-> nextm, rd |-> redirs, dl |-> rdelay, mi |-> 0, ei |-> 0, rs |-> res,
                                              kn |-> known, gn |-> gen, wm |-> wmap, ro |-> ro, lz |-> lazy, tx |-> tx,
                                              off |-> IF BugPoolStale /\ rn.st = "a" /\ ~Single THEN pool ELSE 0])
       IN /\ nextm' = acc.nx /\ redirs' = acc.rd /\ rdelay' = acc.dl /\ res' = acc.rs
          /\ known' = acc.kn /\ gen' = acc.gn /\ wmap' = acc.wm /\ ro' = acc.ro /\ lazy' = acc.lz
          /\ run' = [run EXCEPT ![k] = IF rn.st = "c" /\ todo[k].a # <<>>
                                       THEN StartRun([c |-> <<>>, a |-> todo[k].a])
                                       ELSE [rn EXCEPT !.st = "x"]]
    /\ UNCHANGED <<envv, inj, opt, rgrp, rsel, ph, call, pk, pg, cc0, todo, redirects, attempts, fresh, obsv, calls, changes, script, pool>>

RoundEnd ==
    /\ ph = "round" /\ \A k \in DOMAIN run : run[k].st = "x"
    /\ IF DOMAIN nextm = {}
       THEN ph' = "done" /\ UNCHANGED <<todo, run, nextm, redirs, rdelay, redirects, attempts>>
       ELSE IF redirs
       THEN /\ redirects' = redirects + 1 /\ UNCHANGED attempts
            /\ IF Exceeds(redirects + 1)
               THEN ph' = "done" /\ UNCHANGED <<todo, run, nextm, redirs, rdelay>>
               ELSE StartRound(nextm)
       ELSE IF rdelay
       THEN /\ attempts' = attempts + 1 /\ UNCHANGED redirects
            /\ IF Single THEN ph' = "pick" /\ UNCHANGED <<todo, run, nextm, redirs, rdelay>>
               ELSE StartRound(nextm)
       ELSE ph' = "done" /\ UNCHANGED <<todo, run, nextm, redirs, rdelay, redirects, attempts>>
    /\ UNCHANGED <<envv, inj, opt, mapv, lazy, call, pk, pg, cc0, res, fresh, obsv, calls, changes, script, pool>>

\* ------------------------------------------------------------------------------------------------- environment: a node answers
Migrating(s) == migr[s] # None
\* the reply of node n = k[1] to the command e of member e.i.  `asking` is the connection's ASKING flag as Redis keeps it
EnvKeyed(k, e) ==
    LET n == k[1]
        m == call.mem[e.i]
        s == m.s
        moved == e.i \in call.migrated /\ Migrating(s)
        entitled == \/ n = truth[s] /\ ~moved
                    \/ n = migr[s] /\ e.ask
                    \/ n \in Repl /\ PrimOf(n) = truth[s] /\ k \in ro /\ m.c = "r" /\ ~moved
        \* the ASK target does not know yet (or no longer) that it imports the slot: ASKING does not help, it answers MOVED
        \* according to its own stale view (second hop of a redirected command)
        bounce == n = migr[s] /\ e.ask /\ n \in Prim /\ stale[n][s] # <<>>
    IN  IF truth[s] = None THEN [rep |-> "retry", to |-> None]                         \* CLUSTERDOWN Hash slot not served
        ELSE IF bounce THEN [rep |-> "moved", to |-> Head(stale[n][s])]
        ELSE IF entitled
             THEN IF inj[e.i] # <<>> THEN [rep |-> "retry", to |-> None]                \* LOADING / TRYAGAIN / CLUSTERDOWN
                  ELSE IF run[k].intx /\ ~CacheK THEN [rep |-> "queued", to |-> None] ELSE [rep |-> "val", to |-> None]
        ELSE IF PrimOf(n) = truth[s] /\ moved /\ (n \in Prim \/ (k \in ro /\ m.c = "r")) THEN [rep |-> "ask", to |-> migr[s]]
        ELSE IF n \in Prim /\ stale[n][s] # <<>> THEN [rep |-> "moved", to |-> Head(stale[n][s])]
        ELSE [rep |-> "moved", to |-> truth[s]]

EnvRep(k, e) == CASE e.op = "multi" -> [rep |-> "ok", to |-> None]
                  [] e.op = "exec"  -> IF run[k].dirty THEN [rep |-> "abort", to |-> None] ELSE [rep |-> "exec", to |-> None]
                  [] e.op = "cmd" /\ ~Keyed(e.i) -> IF run[k].intx THEN [rep |-> "queued", to |-> None] ELSE [rep |-> "val", to |-> None]
                  [] OTHER -> EnvKeyed(k, e)

ActiveKeys == {k \in DOMAIN run : run[k].st \in {"c", "a"} /\ run[k].pp # {}}
\* model-checking reduction: the nodes are independent of each other, so only the least active connection receives
LeastActive(k) == k \in ActiveKeys /\ \A x \in ActiveKeys : x = k \/ KeyLess(k, x)

NodeRecv(k) ==
    /\ ph = "round" /\ LeastActive(k) /\ k[1] \notin down
    /\ LET p == Min(run[k].pp)
           e == run[k].w[p]
           rp == EnvRep(k, e)
           n == k[1]
       IN /\ Recv(k, p, rp, 0)
          /\ inj' = IF e.op = "cmd" /\ rp.rep = "retry" /\ truth[call.mem[e.i].s] # None THEN [inj EXCEPT ![e.i] = Tail(@)] ELSE inj
          /\ stale' = IF e.op = "cmd" /\ rp.rep = "moved" /\ n \in Prim /\ stale[n][call.mem[e.i].s] # <<>>
                      THEN [stale EXCEPT ![n][call.mem[e.i].s] = Tail(@)] ELSE stale
    /\ UNCHANGED <<truth, migr, report, down, opt, mapv, lazy, ph, call, pk, pg, cc0, todo, nextm, redirs, rdelay, redirects, attempts,
                   res, fresh, calls, changes, script, pool>>

\* the node is dead: the whole sub-batch fails with a connection error
NetFail(k) ==
    /\ ph = "round" /\ k \in ActiveKeys /\ k[1] \in down
    /\ run' = [run EXCEPT ![k] = [@ EXCEPT !.pp = {},
                  !.r = [j \in 1..Len(@) |-> IF j \in run[k].pp THEN [rep |-> "neterr", to |-> None, i |-> run[k].w[j].i, ids |-> <<>>] ELSE @[j]]]]
    /\ UNCHANGED <<envv, inj, opt, mapv, lazy, ph, call, pk, pg, cc0, todo, nextm, redirs, rdelay, redirects, attempts, res, fresh,
                   obsv, calls, changes, script, pool>>

\* the connection is lost in the middle of a sub-batch: at least one reply was read, the node received (and may have executed)
\* the rest, whose replies are lost.  Only in the configurations that override MidBatchLoss (MC_cluster_txloss*.cfg): the
\* scenario generators do not script it; the real-code side of this fault is judged by Retry.tla (C03 / C28, cut-mid-reply).
MidBatchLoss == FALSE
MidLoss(k) ==
    /\ MidBatchLoss /\ ph = "round" /\ k \in ActiveKeys /\ k[1] \notin down
    /\ run[k].pp # 1..Len(run[k].r)
    /\ run' = [run EXCEPT ![k] = [@ EXCEPT !.pp = {},
                  !.r = [j \in 1..Len(@) |-> IF j \in run[k].pp THEN [rep |-> "neterr", to |-> None, i |-> run[k].w[j].i, ids |-> <<>>] ELSE @[j]]]]
    /\ hist' = [i \in DOMAIN hist |->
                  IF \E j \in run[k].pp : run[k].w[j].i = i
                  THEN LET e == run[k].w[CHOOSE j \in run[k].pp : run[k].w[j].i = i]
                       IN Append(hist[i], [n |-> k[1], g |-> k[2], ask |-> e.ask, rep |-> "neterr", to |-> None])
                  ELSE hist[i]]
    /\ nlog' = Put(nlog, k, (IF k \in DOMAIN nlog THEN nlog[k] ELSE <<>>)
                            \o [x \in 1..Cardinality(run[k].pp) |->
                                  LET j == CHOOSE y \in run[k].pp : Cardinality({z \in run[k].pp : z < y}) = x - 1
                                  IN [op |-> run[k].w[j].op, i |-> run[k].w[j].i]])
    /\ UNCHANGED <<envv, inj, opt, mapv, lazy, ph, call, pk, pg, cc0, todo, nextm, redirs, rdelay, redirects, attempts, res, fresh,
                   calls, changes, script, pool>>

\* ------------------------------------------------------------------------------------------------- environment: calls, refresh, topology changes
\* mf: primaries the nodes list with health fail / loading (their shards have no usable master)
ReportOfF(t, dn, mf) == [s \in Slots |-> [p |-> IF t[s] \in mf THEN None ELSE t[s],
                                          rs |-> IF t[s] = None THEN <<>> ELSE SelectSeq(ReplSeq(t[s]), LAMBDA x : x \notin dn)]]
ReportOf(t, dn) == ReportOfF(t, dn, {})

Call(c) ==
    /\ ph = "idle" /\ calls < MaxCalls /\ (EagerLazy => ~lazy)
    /\ call' = c /\ inj' = c.inj /\ ph' = "pick" /\ fresh' = FALSE
    /\ res' = [i \in 1..Len(c.mem) |-> NoRes] /\ hist' = [i \in 1..Len(c.mem) |-> <<>>] /\ nlog' = EmptyF
    /\ redirects' = 0 /\ attempts' = 1 /\ todo' = EmptyF /\ run' = EmptyF /\ nextm' = EmptyF /\ redirs' = FALSE /\ rdelay' = FALSE
    /\ pk' = <<>> /\ pg' = <<>> /\ cc0' = NoKey
    /\ UNCHANGED <<envv, opt, mapv, lazy, calls, changes, script, pool>>

Return ==
    /\ ph = "done" /\ ph' = "idle" /\ calls' = calls + 1
    /\ script' = Append(script, [t |-> "call", kind |-> call.kind, mem |-> call.mem, inj |-> call.inj,
                                 migrated |-> call.migrated, deny |-> call.deny, res |-> res])
    /\ UNCHANGED <<envv, inj, opt, mapv, lazy, call, pk, pg, cc0, todo, run, nextm, redirs, rdelay, redirects, attempts, res, fresh,
                   obsv, changes>>
    \* BugPoolStale: the retry object that collected the ASK-redirected members goes back to the pool with its index list
    \* zeroed but not shortened
    /\ pool' = IF BugPoolStale /\ ~Single /\ ~Stream
               THEN Max({0} \cup {Cardinality({i \in 1..NMem : \E j \in 1..Len(hist[i]) : hist[i][j].ask /\ hist[i][j].n = n}) : n \in Node})
               ELSE 0

\* lazyRefresh (after any redirect / retryable error) and the refresh pick() runs when it finds no node
Refresh ==
    /\ \/ lazy /\ (LazyMidCall \/ ph = "idle")
       \/ ph = "pick" /\ ~fresh /\ \E i \in 1..NMem : PickKey(i) = NoKey
    /\ ApplyReport(report)
    /\ lazy' = FALSE /\ fresh' = (ph = "pick")
    /\ script' = IF ph = "idle" THEN Append(script, [t |-> "refresh"]) ELSE script
    /\ UNCHANGED <<envv, inj, opt, ph, call, pk, pg, cc0, todo, run, nextm, redirs, rdelay, redirects, attempts, res, obsv, calls, changes, pool>>

NoStale == [n \in Prim |-> [s \in Slots |-> <<>>]]
\* a topology change between two calls: ownership, migrations, stale views of non-owners, dead nodes; `lag` = the nodes
\* still report the previous topology
Change(c) ==
    /\ ph = "idle" /\ changes < MaxChanges /\ calls < MaxCalls /\ changes' = changes + 1 /\ (EagerLazy => ~lazy)
    /\ truth' = c.truth /\ migr' = c.migr /\ stale' = c.stale /\ down' = c.down
    \* c.rt: the ownership the nodes report (normally the truth; a report that is wrong from the start gives a redirect
    \* right after a refresh), c.mfail: primaries reported as failed
    /\ report' = IF c.lag THEN report ELSE ReportOfF(c.rt, c.down, c.mfail)
    /\ script' = Append(script, [t |-> "topo", truth |-> truth', migr |-> migr', stale |-> stale', report |-> report', down |-> down'])
    /\ UNCHANGED <<inj, opt, mapv, lazy, callv, obsv, calls, pool>>

Truth0 == [s \in Slots |-> CASE s = 0 -> "a" [] s = 1 -> "b" [] s = 2 -> "c" [] OTHER -> None]

Init ==
    /\ truth = Truth0 /\ migr = [s \in Slots |-> None] /\ stale = NoStale /\ report = ReportOf(Truth0, {}) /\ down = {}
    /\ inj = <<>> /\ opt \in OptSet /\ lazy = FALSE
    \* newClusterClient: init() dials InitAddress, refresh() learns the first report
    /\ LET L == Learn(opt, ReportOf(Truth0, {}), {}, [n \in Node |-> 0], {}) IN
         known = L.known /\ gen = L.gen /\ ro = L.ro /\ wmap = L.wmap /\ rgrp = L.rgrp /\ rsel = L.rsel
    /\ ph = "idle" /\ call = [kind |-> "do", mem |-> <<>>, inj |-> <<>>, migrated |-> {}, deny |-> {}]
    /\ pk = <<>> /\ pg = <<>> /\ cc0 = NoKey /\ todo = EmptyF /\ run = EmptyF /\ nextm = EmptyF /\ redirs = FALSE /\ rdelay = FALSE
    /\ redirects = 0 /\ attempts = 1 /\ res = <<>> /\ fresh = FALSE /\ hist = <<>> /\ nlog = EmptyF
    /\ calls = 0 /\ changes = 0 /\ script = <<>> /\ pool = 0

Next == \/ \E c \in CallSet : Call(c)
        \/ Pick \/ Resolve \/ Refresh \/ RoundEnd \/ Return
        \/ \E c \in ChangeSet : Change(c)
        \/ \E k \in DOMAIN run : NodeRecv(k) \/ NetFail(k) \/ MidLoss(k) \/ Proc(k)

Spec == Init /\ [][Next]_vars

GenBound == \A n \in Node : gen[n] <= MaxGen

\* ------------------------------------------------------------------------------------------------- properties
Active == ph \in {"round", "done"}
Mem == 1..NMem
Sends(i) == Len(hist[i])
RedirRep(h) == h.rep \in {"moved", "ask"}
Followed(i) == Cardinality({j \in 1..(Sends(i) - 1) : RedirRep(hist[i][j])})

\* the members of the transaction block that contains member i (empty when i is outside MULTI ... EXEC)
BlockOf(i) == LET ms == {j \in 1..i : IsM(j) /\ \A x \in j..(i - 1) : ~IsE(x)}
                  es == {j \in i..NMem : IsE(j) /\ \A x \in (i + 1)..j : ~IsM(x)}
              IN IF ms = {} \/ es = {} THEN {} ELSE Max(ms)..Min(es)

TypeOK == /\ ph \in {"idle", "pick", "round", "done"}
          /\ known \subseteq Node /\ \A s \in Slots : wmap[s] \in {NoKey, Unres} \/ wmap[s][1] \in Node
          /\ redirects >= 0 /\ attempts >= 1

\* C19 ------------------------------------------------------------------------------------------------
\* a MOVED / ASK reply is followed by a send to the named node (ASK: with the ASKING flag up, MOVED: without), and a
\* finished call never ends on an unfollowed redirect unless the redirect budget is exhausted.
\* A MULTI ... EXEC block is one unit: the first member of the block that failed in a round decides where the block goes
\* next (a LOADING on an earlier member keeps the block on the node for one more round even if a later member was
\* answered MOVED - observed on the real client with a ReplicaOnly client whose block holds a read and a write).
Leads(i, j) == \A m \in BlockOf(i) : (m < i /\ Sends(m) >= j) => ModeOf(hist[m][j].rep) = "none"
RedirectFollowed ==
    Active /\ ~Stream => \A i \in Mem :
        /\ \A j \in 1..(Sends(i) - 1) :
              LET h == hist[i][j] nx == hist[i][j + 1] IN
              (RedirRep(h) /\ Leads(i, j)) => /\ nx.n = h.to
                                             /\ (h.rep = "moved" => ~nx.ask)
        /\ (ph = "done" /\ Sends(i) > 0 /\ RedirRep(hist[i][Sends(i)]) /\ res[i].k \in {"moved", "ask"})
               => (opt.maxMoved > 0 /\ redirects > opt.maxMoved)
AskingPrecedes ==
    Active => \A i \in Mem : \A j \in 1..(Sends(i) - 1) :
        (hist[i][j].rep = "ask" /\ Leads(i, j)) => hist[i][j + 1].ask /\ hist[i][j + 1].n = hist[i][j].to
BoundedRedirects ==
    Active => (opt.maxMoved > 0 => /\ redirects <= opt.maxMoved + 1
                                   /\ \A i \in Mem : Followed(i) <= opt.maxMoved)
\* a value is only ever produced by a node entitled to serve the slot, and a finished call holds a value for every
\* keyed member unless it failed for a reason the options allow
Entitled(i, n) == LET s == call.mem[i].s IN
                  \/ PrimOf(n) = truth[s] \/ n = migr[s]
LegitFail(i) == \/ res[i].k \in {"moved", "ask"} /\ opt.maxMoved > 0 /\ redirects > opt.maxMoved
                \/ res[i].k \in {"retry", "neterr"}
                \/ res[i].k = "noslot"
                \/ res[i].k \in {"queued"}
                \/ HasInit /\ i \in UNION {BlockOf(j) : j \in Mem}      \* judged through the EXEC reply
ReachesOwner ==
    /\ Active => \A i \in Mem : (Keyed(i) /\ res[i].k = "val") => Entitled(i, res[i].n)
    /\ ph = "done" /\ ~Stream => \A i \in Mem : Keyed(i) => (res[i].k = "val" \/ LegitFail(i))
    /\ ph = "done" => \A i \in Mem : (IsE(i) /\ res[i].k = "exec") => (res[i].ids = SelectSeq(Idx(NMem), LAMBDA j : j \in BlockOf(i) /\ Keyed(j)))
\* retryable errors end a call only when retrying is not allowed
RetryHonoured ==
    ph = "done" /\ ~Stream => \A i \in Mem :
        (res[i].k = "retry" /\ Keyed(i) /\ ~HasInit /\ ~(opt.maxMoved > 0 /\ redirects > opt.maxMoved))
            => (~opt.retryOn \/ ~(Retryable(i) \/ CacheK) \/ Denied(i) \/ i \in call.deny \/ attempts >= MaxAtt)

\* C20 ------------------------------------------------------------------------------------------------
BatchOrder == Active => \A i \in Mem : res[i].k # "none" /\ res[i].k # "noslot" => res[i].id = i
\* on every connection the commands of a transaction block appear as the complete block, in order, with nothing in between
BlocksIn(lg) == \A p \in 1..Len(lg) :
                  LET i == lg[p].i b == BlockOf(i) IN
                  b # {} => LET m0 == Min(b) off == i - m0 IN
                            /\ p - off >= 1
                            /\ \A x \in 0..(Cardinality(b) - 1) : (p - off + x <= Len(lg)) => lg[p - off + x].i = m0 + x
TxContiguousOneNode == Active /\ HasInit => \A k \in DOMAIN nlog : BlocksIn(nlog[k])
\* every member of a block is sent as often as the others and always to the same connection with the same ASKING state
TxResentWhole ==
    Active /\ HasInit /\ (\A k \in DOMAIN run : run[k].pp = {}) => \A i \in Mem : \A j \in BlockOf(i) :
        /\ Sends(i) = Sends(j)
        /\ \A x \in 1..Sends(i) : hist[i][x].n = hist[j][x].n /\ hist[i][x].g = hist[j][x].g /\ hist[i][x].ask = hist[j][x].ask
        \* and never again after a send of it whose replies were lost with the connection (the server may have run EXEC), unless
        \* the server had refused a member of that send before (EXEC then discards the block)
        /\ \A x \in 1..(Sends(j) - 1) : hist[j][x].rep = "neterr" => \E m \in BlockOf(j) : hist[m][x].rep \in {"moved", "ask", "retry"}

\* C21 ------------------------------------------------------------------------------------------------
\* DoMultiStream is a one-node batch: it may go to a replica only when SendToReplicas answers true for every command of it,
\* also for the ones without a key; a DoMulti batch that holds a command without a key stays on the primary
OptedIn(i) == IF call.kind = "multistream" THEN \A j \in Mem : call.mem[j].o ELSE call.mem[i].o /\ ~HasInit
ReplicaOnlyWhenOptedIn ==
    Active => \A i \in Mem : \A j \in 1..Sends(i) :
        hist[i][j].n \in Repl => (opt.mode = "replicaonly" \/ (opt.mode = "sendto" /\ OptedIn(i)))
\* a selector answer outside the candidate list sends the command to the primary (first send of the member, on the
\* topology learned at that moment)
OutOfRangeFallsBackToPrimary ==
    (Active /\ opt.mode = "sendto" /\ opt.selKind \in {"rns", "rs"} /\ pk # <<>> /\ ~HasInit) => \A i \in Mem :
        (Keyed(i) /\ OptedIn(i) /\ pg[i] # <<>>) =>
            LET cand == IF opt.selKind = "rns" THEN pg[i] ELSE Tail(pg[i]) IN
            IF opt.selIdx \in 0..(Len(cand) - 1) THEN pk[i] = cand[opt.selIdx + 1] ELSE pk[i] = pg[i][1]

\* #14 -------------------------------------------------------------------------------------------------
\* a member whose RetryDelay answer was negative is not sent again
NoResendAfterDenied ==
    Active /\ ~HasInit => \A i \in Mem : \A j \in 1..(Sends(i) - 1) :
        ~(hist[i][j].rep \in {"retry", "neterr"} /\ i \in call.deny /\ opt.retryOn /\ (Retryable(i) \/ CacheK))

\* the view used by model-checking configs: the script is a history variable
MCView == <<envv, inj, opt, mapv, lazy, callv, obsv, calls, changes, pool>>
=============================================================================
