SPECIFICATION Spec
CONSTANTS
  KindSet = {"single", "standalone", "sentinel", "dedicated", "cluster", "clusterbatch"}
  ClassSet = {"readonly", "retryable", "plain"}
  MaxSends = 3
  MaxMoved = 0
  CtxKinds = {"none", "cancel", "deadline"}
  AllowExpiredSent = FALSE
  AllowBatchSibling = FALSE
  BugIgnoreRetryable = FALSE
  BugRetryErrReply = FALSE
  BugRetryAfterCtx = FALSE
  BugRetryAfterClose = TRUE
  GenMode = FALSE
INVARIANTS TypeOK NoSpin
CHECK_DEADLOCK FALSE
