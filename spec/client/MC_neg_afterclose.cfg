SPECIFICATION Spec
CONSTANTS
  KindSet = {"single", "standalone", "sentinel", "dedicated", "cluster", "clusterbatch"}
  ClassSet = {"readonly", "retryable", "plain"}
  ShapeSet = {"one"}
  PathSet = {"sync", "pipelined"}
  MaxSends = 3
  MaxMoved = 0
  CtxKinds = {"none", "cancel", "deadline"}
  AllowExpiredSent = FALSE
  AllowBatchSibling = FALSE
  AllowTxResend = FALSE
  BugBatchAnyRetryable = FALSE
  BugSyncExpired = FALSE
  BugIgnoreRetryable = FALSE
  BugRetryErrReply = FALSE
  BugRetryAfterCtx = FALSE
  BugRetryAfterClose = TRUE
  GenMode = FALSE
INVARIANTS TypeOK NoSpin
CHECK_DEADLOCK FALSE
