SPECIFICATION Spec
CONSTANTS
  MaxDev = 1
  NRandom = 0
  FaultKinds = {"unkhello"}
  Topos = {"single"}
  SrvKinds = {"v7", "nohello", "proto2"}
  Emit = FALSE
  BugDropSelectR2 = FALSE
  BugAuthLate = FALSE
  BugTolerateNoEvict = FALSE
  BugFallbackAnyHelloErr = FALSE
  ErrTexts = "one"
  StrictHelloStep = TRUE
  BugMixCreds = FALSE
  BugNopermFallback = FALSE
INVARIANTS TypeOK FailedStepFailsConnection
CHECK_DEADLOCK FALSE
