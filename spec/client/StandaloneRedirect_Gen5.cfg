SPECIFICATION RedirSpec
CONSTANTS
  BugRedirectReturned = FALSE
  Steps = 5
INVARIANTS RedirectFollowed ErrorOnlyWhenUnreachable GenRedir
CHECK_DEADLOCK FALSE
