SPECIFICATION Spec
CONSTANTS
  Kind = "shards"
  MaxLen = 2
  Templates = {1,2,3,4,5,6,7,8,9,10,11,12,13}
INVARIANTS Emit Sane
CHECK_DEADLOCK FALSE
