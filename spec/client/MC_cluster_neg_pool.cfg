SPECIFICATION Spec
CONSTANTS
  OptSet <- OptsOne
  CallSet <- PoolCalls
  ChangeSet <- PoolChanges
  MaxCalls = 2
  MaxChanges = 1
  MaxGen = 3
  MaxAtt = 3
  EagerLazy = FALSE
  LazyMidCall = FALSE
  FixDenied = TRUE
  BugAskNoAsking = FALSE
  BugTxNoMulti = FALSE
  BugPredIgnored = FALSE
  BugNodeOrder = FALSE
  BugMovedIgnored = FALSE
  BugMaxOffByOne = FALSE
  BugSelClamp = FALSE
  BugRefreshDropsInit = FALSE
  BugAskRunNoInit = FALSE
  BugPoolStale = TRUE
  BugStreamKeyless = FALSE
  BugPromoteReplica = FALSE
INVARIANTS TypeOK BatchOrder
CONSTRAINT GenBound
VIEW MCView
CHECK_DEADLOCK FALSE
