SPECIFICATION Spec
CONSTANTS
  MaxDev = 1
  NRandom = 0
  FaultKinds = {"err"}
  Topos = {"redirect"}
  SrvKinds = {"v7", "nohello", "proto2"}
  Emit = FALSE
  BugDropSelectR2 = FALSE
  BugAuthLate = FALSE
  BugTolerateNoEvict = FALSE
  BugFallbackAnyHelloErr = FALSE
  ErrTexts = "one"
  StrictHelloStep = FALSE
  BugMixCreds = TRUE
  BugNopermFallback = FALSE
INVARIANTS TypeOK AuthAsSupplied
CHECK_DEADLOCK FALSE
