--------------------------- MODULE StandaloneRedirect ---------------------------
(* EnableRedirect of the standalone client (standalone.go handleRedirect / redirectToPrimary), part of C21:
   two addresses p0, p1; a node that has become a replica answers -REDIRECT <primary>; the client dials the named
   address, swaps its primary and sends the call again.  StandaloneRedirect_Gen.cfg prints every behaviour of
   `Steps` steps that contains a followed redirect, with the deliveries and the result the specification predicts. *)
EXTENDS Routing, TLC, Json

CONSTANTS BugRedirectReturned,       \* the REDIRECT reply is returned to the caller instead of being followed
          Steps                      \* length of a behaviour

VARIABLES cur,     \* the address the client uses as its primary
          redir,   \* [P -> P \cup {""}]  a node that answers -REDIRECT <address>
          upn,     \* [P -> BOOLEAN]     reachable
          hist     \* steps so far, calls with the predicted deliveries and result

redirv == <<cur, redir, upn, hist>>
P == {"p0", "p1"}
Other(x) == IF x = "p0" THEN "p1" ELSE "p0"
RApis == {"Do", "DoMulti", "DoCache", "DoMultiCache"}

RedirInit == cur = "p0" /\ redir = [x \in P |-> ""] /\ upn = [x \in P |-> TRUE] /\ hist = <<>>

\* environment: x is demoted and names the other node (which then serves); or the named node is unreachable
Demote(x) == /\ redir[x] = "" /\ redir[Other(x)] = ""
             /\ redir' = [redir EXCEPT ![x] = Other(x)]
             /\ hist' = Append(hist, [op |-> "demote", x |-> x, api |-> "", recv |-> <<>>, result |-> "", after |-> cur])
             /\ UNCHANGED <<cur, upn>>
Promote(x) == /\ redir[x] # ""
              /\ redir' = [redir EXCEPT ![x] = ""]
              /\ hist' = Append(hist, [op |-> "promote", x |-> x, api |-> "", recv |-> <<>>, result |-> "", after |-> cur])
              /\ UNCHANGED <<cur, upn>>
Down(x) == /\ upn[x] /\ x # cur
           /\ upn' = [upn EXCEPT ![x] = FALSE]
           /\ hist' = Append(hist, [op |-> "down", x |-> x, api |-> "", recv |-> <<>>, result |-> "", after |-> cur])
           /\ UNCHANGED <<cur, redir>>
Up(x) == /\ ~upn[x]
         /\ upn' = [upn EXCEPT ![x] = TRUE]
         /\ hist' = Append(hist, [op |-> "up", x |-> x, api |-> "", recv |-> <<>>, result |-> "", after |-> cur])
         /\ UNCHANGED <<cur, redir>>

\* one user call: sent to the current primary; a REDIRECT reply naming a reachable node is followed (dial, swap the
\* primary, send again); when the named node cannot be dialed the call is retried within its deadline and finally
\* returns the REDIRECT error
Call(a) ==
    LET t == redir[cur]
        follows == t # "" /\ upn[t] /\ ~BugRedirectReturned
        recv == IF t = "" THEN <<cur>> ELSE IF follows THEN <<cur, t>> ELSE <<cur>>
        res == IF t = "" \/ follows THEN "served" ELSE "redirect-error" IN
      /\ upn[cur]
      /\ cur' = IF follows THEN t ELSE cur
      /\ hist' = Append(hist, [op |-> "call", x |-> "", api |-> a, recv |-> recv, result |-> res, after |-> cur'])
      /\ UNCHANGED <<redir, upn>>

RedirNext == /\ Len(hist) < Steps
             /\ \/ \E x \in P : Demote(x) \/ Promote(x) \/ Down(x) \/ Up(x)
                \/ \E a \in RApis : Call(a)
RedirSpec == RedirInit /\ [][RedirNext]_redirv

\* a REDIRECT naming a reachable primary is followed: the call is served there and the client stays there
LastCall == hist[Len(hist)]
RedirectFollowed ==
    (hist # <<>> /\ LastCall.op = "call") =>
        LET before == IF Len(LastCall.recv) > 0 THEN LastCall.recv[1] ELSE "" IN
          (redir[before] # "" /\ upn[redir[before]]) =>
              (LastCall.result = "served" /\ LastCall.after = redir[before] /\ LastCall.recv[Len(LastCall.recv)] = redir[before])
\* the REDIRECT error reaches the caller only when the named node could not be reached
ErrorOnlyWhenUnreachable ==
    (hist # <<>> /\ LastCall.op = "call" /\ LastCall.result = "redirect-error") => ~upn[redir[LastCall.recv[1]]]

GenRedir == (Len(hist) = Steps /\ \E i \in 1..Len(hist) : hist[i].op = "call" /\ Len(hist[i].recv) > 1)
                => PrintT(<<"CASE", ToJson([kind |-> "redirect", steps |-> hist])>>)
=============================================================================
