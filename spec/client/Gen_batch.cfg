SPECIFICATION Spec
CONSTANTS
  KindSet = {"single", "standalone", "sentinel", "dedicated", "clusterbatch"}
  ClassSet = {"readonly", "retryable", "plain"}
  ShapeSet = {"batch", "tx"}
  PathSet = {"sync", "pipelined"}
  MaxSends = 3
  MaxMoved = 0
  CtxKinds = {"none", "cancel", "deadline"}
  AllowExpiredSent = TRUE
  AllowBatchSibling = FALSE
  AllowTxResend = FALSE
  BugBatchAnyRetryable = FALSE
  BugSyncExpired = FALSE
  BugIgnoreRetryable = FALSE
  BugRetryErrReply = FALSE
  BugRetryAfterCtx = FALSE
  BugRetryAfterClose = FALSE
  GenMode = TRUE
INVARIANTS GenCase
CHECK_DEADLOCK FALSE
