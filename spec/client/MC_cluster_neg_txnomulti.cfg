SPECIFICATION Spec
CONSTANTS
  OptSet <- OptsPlain
  CallSet <- TxCalls
  ChangeSet <- MoveChanges
  MaxCalls = 1
  MaxChanges = 1
  MaxGen = 3
  MaxAtt = 3
  EagerLazy = FALSE
  LazyMidCall = FALSE
  FixDenied = TRUE
  BugAskNoAsking = FALSE
  BugTxNoMulti = TRUE
  BugPredIgnored = FALSE
  BugNodeOrder = FALSE
  BugMovedIgnored = FALSE
  BugMaxOffByOne = FALSE
  BugSelClamp = FALSE
  BugRefreshDropsInit = FALSE
  BugAskRunNoInit = FALSE
  BugPoolStale = FALSE
  BugStreamKeyless = FALSE
  BugPromoteReplica = FALSE
INVARIANTS TypeOK TxResentWhole
CONSTRAINT GenBound
VIEW MCView
CHECK_DEADLOCK FALSE
