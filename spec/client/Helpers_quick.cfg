SPECIFICATION Spec
CONSTANTS
  Helpers = {"MGet", "MGetCache", "JsonMGet", "JsonMGetCache", "MSet", "MSetNX", "MDel", "JsonMSet"}
  Clients = {"single", "cluster"}
  MaxLen = 2
  LongSeqs <- DefaultLong
  MaxOdd = 1
INVARIANTS Emit HelperMap
CHECK_DEADLOCK FALSE
