SPECIFICATION Spec
CONSTANTS
  KindSet = {"single", "standalone", "sentinel", "dedicated", "clusterbatch"}
  ClassSet = {"readonly", "retryable", "plain"}
  ShapeSet = {"batch", "tx"}
  PathSet = {"sync", "pipelined"}
  MaxSends = 2
  MaxMoved = 0
  CtxKinds = {"none", "deadline"}
  AllowExpiredSent = FALSE
  AllowBatchSibling = FALSE
  AllowTxResend = FALSE
  BugBatchAnyRetryable = TRUE
  BugSyncExpired = FALSE
  BugIgnoreRetryable = FALSE
  BugRetryErrReply = FALSE
  BugRetryAfterCtx = FALSE
  BugRetryAfterClose = FALSE
  GenMode = FALSE
INVARIANTS TypeOK AtMostOnceNonRetryable
CHECK_DEADLOCK FALSE
