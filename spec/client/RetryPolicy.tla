---------------------------- MODULE RetryPolicy ----------------------------
(* The retry policy of properties C28 and C03 as predicates over one *re-send justification*:
   a record describing why a request that the server had already received is transmitted again.

     r.kind      client wrapper: "single" | "standalone" | "sentinel" | "dedicated" | "cluster" | "clusterbatch"
     r.class     "readonly" | "retryable" (tagged with ToRetryable) | "plain"
     r.disable   ClientOption.DisableRetry
     r.prev      outcome of the previous attempt (alphabet below)
     r.verdict   what RetryDelay returned when it was consulted after that outcome: "neg" | "zero" | "pos" | "none"
     r.ctx       the call's context was done when the re-send was decided
     r.closed    Close() had returned when the re-send was decided

   A command may be one member of a DoMulti batch (possibly an explicit MULTI ... EXEC block): the predicates are about one
   *member*, with its own class -- what its neighbours are allowed to do never makes its own re-send legitimate.

   Retry.tla (the decision logic of the client wrappers) is model-checked against these predicates and
   RetryTrace.tla applies the same predicates to the re-sends observed in traces of the real client. *)
EXTENDS Integers, Sequences, FiniteSets

Classes     == {"readonly", "retryable", "plain"}
SafeClasses == {"readonly", "retryable"}
ClusterKinds == {"cluster", "clusterbatch"}
Kinds       == {"single", "standalone", "sentinel", "dedicated"} \cup ClusterKinds

\* outcomes of one attempt
Replies     == {"ok", "nil", "errreply"}                       \* ordinary replies: returned as they are
LoadingLike == {"LOADING", "TRYAGAIN", "CLUSTERDOWN"}
Redirects   == {"MOVED", "ASK", "REDIRECT"}                    \* prove that the command was not executed
Transport   == {"cut-before-exec", "cut-after-exec", "cut-mid-reply",   \* the connection broke during the attempt
                "expired-io"}       \* ... because the client's own ConnLifetime timer closed it under a request in flight on the
                                    \* synchronous path (reply later than the 1 s close grace): the caller gets the I/O error
ExpiredOut  == {"expired-unsent", "expired-sent"}              \* the connection reached ConnLifetime (client closed it)
Local       == {"ctxdone", "closing"}                          \* nothing was transmitted
Outcomes    == Replies \cup LoadingLike \cup Redirects \cup Transport \cup ExpiredOut \cup Local
\* outcomes after which the server has executed the command
Executes(o) == o \in {"ok", "nil", "cut-after-exec", "cut-mid-reply", "expired-sent", "expired-io"}

\* a redirection is followed by the wrappers that understand it, whatever the command class: not a retry
IsRedirect(r) == \/ r.prev \in {"MOVED", "ASK"} /\ r.kind \in ClusterKinds
                 \/ r.prev = "REDIRECT" /\ r.kind = "standalone"
\* the transparent re-dial when a connection reached its lifetime: harmless when the server never received the
\* request, tolerated for retry-safe commands, a violation of C03/C28 for the others
IsExpiryResend(r) == r.prev \in ExpiredOut

RetryCauses(kind) == Transport \cup {"LOADING"} \cup (IF kind \in ClusterKinds THEN {"TRYAGAIN", "CLUSTERDOWN"} ELSE {})

\* C28: only read-only / retryable commands, never with DisableRetry
RetryOnlyWhenSafe(r) == \/ IsRedirect(r)
                        \/ r.prev = "expired-unsent"
                        \/ r.class \in SafeClasses /\ (IsExpiryResend(r) \/ ~r.disable)
\* C28: only after a transport error or LOADING (cluster: TRYAGAIN, CLUSTERDOWN), only while RetryDelay is non-negative
WithinPolicy(r) == \/ IsRedirect(r) \/ IsExpiryResend(r)
                   \/ r.prev \in RetryCauses(r.kind) /\ r.verdict \in {"zero", "pos"}
\* C28: not once the context is done or the client is closed
NoRetryAfterCtxOrClose(r) == IsRedirect(r) \/ IsExpiryResend(r) \/ (~r.ctx /\ ~r.closed)
\* C28: plain error / nil / value replies are never the cause of a re-send
PlainRepliesFinal(r) == r.prev \notin Replies /\ (r.prev \in Redirects => IsRedirect(r))

Permitted(r) == RetryOnlyWhenSafe(r) /\ WithinPolicy(r) /\ NoRetryAfterCtxOrClose(r) /\ PlainRepliesFinal(r)
=============================================================================
