SPECIFICATION Spec
CONSTANTS
  MaxDev = 1
  NRandom = 0
  FaultKinds = {"err", "unkhello", "cut", "authfn", "proto2map"}
  Topos = {"single", "redirect", "cluster", "sentinel"}
  SrvKinds = {"v7", "nohello", "proto2"}
  Emit = FALSE
  BugDropSelectR2 = FALSE
  BugAuthLate = FALSE
  BugTolerateNoEvict = FALSE
  BugFallbackAnyHelloErr = FALSE
  ErrTexts = "rotate"
  StrictHelloStep = FALSE
  BugMixCreds = FALSE
  BugNopermFallback = FALSE
INVARIANTS TypeOK AuthLeadsResp2 AuthAsSupplied NoUserCommandBeforeSetup ServedOnlyWhenConfigured FallbackOnlyOnHelloRejected NoFallbackWithCache
  FailedStepFailsConnection ToleratedOnly NoCacheOnlyWithCacheOrClient CleanRunSucceeds OldServerWorksWithoutCache
CHECK_DEADLOCK FALSE
