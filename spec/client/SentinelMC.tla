----------------------------- MODULE SentinelMC -----------------------------
(* Constant definitions for the TLC configurations of Sentinel.tla. *)
EXTENDS Sentinel

List2 == <<"s1", "s2">>
\* views that are consistent in themselves, but can be stale: any node as the master, the others as replicas
ViewsStale == {[m |-> n, r |-> Nodes \ {n}] : n \in Nodes}
\* ... plus wrong ones: no usable replica (all s_down), the master listed among the replicas
ViewsWrong == ViewsStale \cup {[m |-> n, r |-> {}] : n \in Nodes} \cup {[m |-> n, r |-> Nodes] : n \in Nodes}

\* master-set names as sequences of name parts (the driver joins the parts: "mymaster", "mymaster-sessions", ...)
Own       == <<"my", "master">>
NameExt   == <<"my", "master", "-sessions">>   \* the client's name is a strict prefix of it
NamePre   == <<"my">>                          \* it is a strict prefix of the client's name
NameSuf   == <<"x-", "my", "master">>          \* the client's name is a strict suffix of it
NameCase  == <<"MY", "MASTER">>                \* differs in case only
NameOther == <<"other", "master">>
NamesOwn     == {Own}
NamesQuick   == {Own, NameExt}
NamesOther   == {Own, NameOther}
NamesAll     == {Own, NameExt, NamePre, NameSuf, NameCase, NameOther}
NamesExtOnly   == {NameExt}      \* negative configs: only events of the other master set
NamesOtherOnly == {NameOther}
=============================================================================
