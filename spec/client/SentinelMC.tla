----------------------------- MODULE SentinelMC -----------------------------
(* Constant definitions for the TLC configurations of Sentinel.tla. *)
EXTENDS Sentinel

List2 == <<"s1", "s2">>
\* views that are consistent in themselves, but can be stale: any node as the master, the others as replicas
ViewsStale == {[m |-> n, r |-> Nodes \ {n}] : n \in Nodes}
\* ... plus wrong ones: no usable replica (all s_down), the master listed among the replicas
ViewsWrong == ViewsStale \cup {[m |-> n, r |-> {}] : n \in Nodes} \cup {[m |-> n, r |-> Nodes] : n \in Nodes}

=============================================================================
