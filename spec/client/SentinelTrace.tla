---------------------------- MODULE SentinelTrace ----------------------------
(* Trace validation for the sentinel client (C23, sentinel part of C21): every line of the ndjson trace recorded by
   harness/cmd/sentineldrv from the real client -- server side events of the fakeredis sentinels and data nodes, the
   `verif` hooks of sentinel.go _switchTarget, the driver's Call / Ret / Expect -- is one action of SentinelCore.tla.
   All events are logged into one sequence under one mutex, each at the point the comments of SentinelCore.tla name,
   so no silent steps are needed.  The invariants of SentinelCore.tla are evaluated after every event.

   User traffic: a call is logged before it is made (Call), the data node logs every tagged command it receives
   (Recv), Ret is logged after the call returned.  pick() happens between Call and Recv, possibly several times
   (retries), so the addresses a call may legitimately reach are: the candidates of its class when it began plus every
   address whose swap began before the command was received. *)
EXTENDS SentinelCore, Json, IOUtils

VARIABLES l,         \* position in TraceLog
          calls,     \* call id -> [cls, may, banned] for the calls that have not returned yet, and for the Keep
                     \* calls that returned most recently (a command can reach the server after its call gave up)
          recent,    \* ids of the latter, oldest first
          lastDel,   \* verdict on the latest delivery
          lastExp,   \* the driver's latest expectation (liveness observed on the real run)
          viol       \* property violations seen so far: [pos, inv, scen, note] (validation goes on after a violation)

TraceLog == ndJsonDeserialize(IOEnv.VERIF_TRACE)
tvars == <<corev, l, calls, recent, lastDel, lastExp, viol>>
KeepN == 6

Ev == TraceLog[l]
Is(e) == l <= Len(TraceLog) /\ TraceLog[l].ev = e
Step == l' = l + 1
ToSet(q) == {q[i] : i \in DOMAIN q}
NoExp == [k |-> "m", ok |-> TRUE, note |-> ""]
Keep == UNCHANGED <<calls, recent, lastDel, lastExp>>

TraceInit == CoreInit /\ l = 1 /\ calls = <<>> /\ recent = <<>> /\ lastDel = NoDel /\ lastExp = NoExp /\ viol = <<>> /\ TLCSet(1, 1) /\ TLCSet(2, <<>>)

TReset == /\ Is("RESET") /\ Step
          /\ reported' = [k \in Kinds |-> {}] /\ att' = [s \in Slots |-> FreeAtt]
          /\ cands' = [k \in Kinds |-> {}] /\ okInst' = [k \in Kinds |-> {}] /\ denied' = [k \in Kinds |-> {}]
          /\ swapping' = [k \in Kinds |-> {}] /\ group' = [k \in Kinds |-> {}] /\ lastSwap' = NoSwap
          /\ calls' = <<>> /\ recent' = <<>> /\ lastDel' = NoDel /\ lastExp' = NoExp

\* informational lines of the driver (environment steps it applied)
TEnv == Is("Env") /\ Step /\ UNCHANGED corev /\ Keep

\* ---- sentinel side (replies: logged under the sentinel's dispatcher mutex before the reply is queued; announcements:
\*      logged by the driver before the sentinel publishes them)
TMaster   == Is("Master") /\ Step /\ Report("m", {Ev.a}) /\ Keep
TReplicas == Is("Replicas") /\ Step /\ Report("r", ToSet(Ev.list)) /\ Keep
\* (Ev.set: the master-set name the announcement carries; the sentinels publish the events of every master set they
\*  monitor, only those of the client's own set are reports about its master)
TPush     == /\ Is("Push") /\ Step /\ Keep
             /\ IF Ev.ch \in {"switch", "rebootm"} /\ Concerns(Ev.set) THEN Report("m", {Ev.a}) ELSE UNCHANGED corev

\* ---- data node side: ROLE answered (logged under the node's dispatcher mutex)
TRole == Is("Role") /\ Step /\ RoleAns(Ev.a, Ev.ans) /\ Keep

\* ---- hooks of _switchTarget (logged by the goroutine that runs it)
TBegin     == Is("Begin") /\ Step /\ Begin(Ev.slot :> [k |-> Ev.k, a |-> Ev.a]) /\ Keep
TDial      == Is("Dial") /\ Step /\ Dial(Ev.slot) /\ Keep
TDialErr   == Is("DialErr") /\ Step /\ DialErr(Ev.slot) /\ Keep
TRoleErr   == Is("RoleErr") /\ Step /\ RoleErr(Ev.slot) /\ Keep
TWrongRole == Is("WrongRole") /\ Step /\ WrongRole(Ev.slot) /\ Keep
TSwapBegin == /\ Is("SwapBegin") /\ Step /\ SwapBegin(Ev.slot)
              /\ LET k == att[Ev.slot].k  a == att[Ev.slot].a IN
                   calls' = [i \in DOMAIN calls |->
                               IF i \notin ToSet(recent) /\ calls[i].cls = k
                               THEN [calls[i] EXCEPT !.may = @ \cup {a}, !.banned = @ \ {a}] ELSE calls[i]]
              /\ UNCHANGED <<recent, lastDel, lastExp>>
TSwapEnd   == Is("SwapEnd") /\ Step /\ SwapEnd(Ev.slot) /\ Keep

\* ---- user traffic
TCall == /\ Is("Call") /\ Step /\ Ev.id \notin DOMAIN calls
         /\ LET c == Cls(Ev.ch, Ev.flags) IN
              calls' = calls @@ (Ev.id :> [cls |-> c, may |-> cands[c], banned |-> denied[c]])
         /\ UNCHANGED <<corev, recent, lastDel, lastExp>>
\* (a command that arrives later than KeepN returned calls after its own call returned is not judged)
TRecv == /\ Is("Recv") /\ Step
         /\ IF Ev.id \in DOMAIN calls
            THEN LET c == calls[Ev.id] IN lastDel' = Verdict(c.cls, Ev.a, c.may, c.banned)
            ELSE lastDel' = lastDel
         /\ UNCHANGED <<corev, calls, recent, lastExp>>
TRet  == /\ Is("Ret") /\ Step /\ Ev.id \in DOMAIN calls
         /\ LET r2 == Append(recent, Ev.id)
                drop == IF Len(r2) > KeepN THEN {Head(r2)} ELSE {} IN
              /\ recent' = IF Len(r2) > KeepN THEN Tail(r2) ELSE r2
              /\ calls' = [i \in DOMAIN calls \ drop |-> calls[i]]
         /\ UNCHANGED <<corev, lastDel, lastExp>>

\* ---- the driver waited (bounded) for primary traffic to reach the node that ended as the only master, announced
\*      by +switch-master on every sentinel; Ev.ans tells how the wait ended
TExpect == /\ Is("Expect") /\ Step
           /\ lastExp' = [k |-> Ev.k, ok |-> cands[Ev.k] # {} /\ cands[Ev.k] \subseteq ToSet(Ev.list), note |-> Ev.ans]
           /\ UNCHANGED <<corev, calls, recent, lastDel>>

TraceStep == \/ TReset \/ TEnv \/ TMaster \/ TReplicas \/ TPush \/ TRole
             \/ TBegin \/ TDial \/ TDialErr \/ TRoleErr \/ TWrongRole \/ TSwapBegin \/ TSwapEnd
             \/ TCall \/ TRecv \/ TRet \/ TExpect

\* ---- properties on the recorded behaviour, evaluated on the state after the event that can break them
TrafficOnlyToVerifiedRole == DelOK_Verified(lastDel)
TrafficFollowsInstalled   == DelOK_Routed(lastDel)
NoTrafficToWrongRole      == DelOK_NotWrong(lastDel)
FollowsSwitchObserved     == lastExp.ok /\ lastExp.note \notin {"stuck", "deaf"}

If(c, name) == IF c THEN <<>> ELSE <<name>>
Broken == IF Ev.ev = "Recv"
          THEN If(TrafficOnlyToVerifiedRole', "TrafficOnlyToVerifiedRole") \o If(TrafficFollowsInstalled', "TrafficFollowsInstalled")
               \o If(NoTrafficToWrongRole', "NoTrafficToWrongRole")
          ELSE IF Ev.ev = "SwapBegin"
          THEN If(SwapOnlyVerified', "SwapOnlyVerified") \o If(SwapOnlyReported', "SwapOnlyReported")
          ELSE IF Ev.ev = "Expect" THEN If(FollowsSwitchObserved', "FollowsSwitchObserved")
          ELSE <<>>
TraceNext == /\ TraceStep
             /\ viol' = IF Len(viol) >= 40 THEN viol
                        ELSE viol \o [i \in 1..Len(Broken) |-> [pos |-> l, inv |-> Broken[i], ev |-> Ev.ev, note |-> Ev.ans]]
TraceSpec == TraceInit /\ [][TraceNext]_tvars

HighWater == TLCSet(1, IF l > TLCGet(1) THEN l ELSE TLCGet(1)) /\ TLCSet(2, viol)
TraceAccepted == /\ PrintT(<<"CASE", ToJson([found |-> TLCGet(2)])>>)
                 /\ \/ TLCGet(1) = Len(TraceLog) + 1
                    \/ PrintT(<<"REJECTED-AT", TLCGet(1), TraceLog[TLCGet(1)]>>) /\ FALSE
=============================================================================
