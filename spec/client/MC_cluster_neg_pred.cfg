SPECIFICATION Spec
CONSTANTS
  OptSet <- OptsRepl
  CallSet <- ReplCalls
  ChangeSet <- NoChanges
  MaxCalls = 1
  MaxChanges = 1
  MaxGen = 3
  MaxAtt = 3
  EagerLazy = FALSE
  LazyMidCall = FALSE
  FixDenied = TRUE
  BugAskNoAsking = FALSE
  BugTxNoMulti = FALSE
  BugPredIgnored = TRUE
  BugNodeOrder = FALSE
  BugMovedIgnored = FALSE
  BugMaxOffByOne = FALSE
  BugSelClamp = FALSE
  BugRefreshDropsInit = FALSE
  BugAskRunNoInit = FALSE
  BugPoolStale = FALSE
  BugStreamKeyless = FALSE
  BugPromoteReplica = FALSE
INVARIANTS TypeOK ReplicaOnlyWhenOptedIn
CONSTRAINT GenBound
VIEW MCView
CHECK_DEADLOCK FALSE
