SPECIFICATION Spec
CONSTANTS
  Helpers = {"MGet", "MGetCache", "JsonMGet", "JsonMGetCache", "MSet", "MSetNX", "MDel", "JsonMSet"}
  Clients = {"single", "cluster"}
  MaxLen = 3
  LongSeqs <- DefaultLong
  MaxOdd = 2
INVARIANTS Emit HelperMap
CHECK_DEADLOCK FALSE
