SPECIFICATION Spec
CONSTANTS
  OptSet <- OptsPlain
  CallSet <- ThoroughCalls
  ChangeSet <- AllChanges
  MaxCalls = 2
  MaxChanges = 2
  MaxGen = 3
  MaxAtt = 3
  EagerLazy = FALSE
  LazyMidCall = TRUE
  FixDenied = TRUE
  BugAskNoAsking = FALSE
  BugTxNoMulti = FALSE
  BugPredIgnored = FALSE
  BugNodeOrder = FALSE
  BugMovedIgnored = FALSE
  BugMaxOffByOne = FALSE
  BugSelClamp = FALSE
  BugRefreshDropsInit = FALSE
  BugAskRunNoInit = FALSE
  BugPoolStale = FALSE
  BugStreamKeyless = FALSE
  BugPromoteReplica = FALSE
INVARIANTS TypeOK RedirectFollowed AskingPrecedes BoundedRedirects ReachesOwner RetryHonoured BatchOrder TxContiguousOneNode TxResentWhole ReplicaOnlyWhenOptedIn OutOfRangeFallsBackToPrimary NoResendAfterDenied
CONSTRAINT GenBound
VIEW MCView
CHECK_DEADLOCK FALSE
