------------------------------ MODULE Standalone ------------------------------
(* The standalone client of redis/rueidis (standalone.go): a primary plus 0-2 fixed replicas, SendToReplicas,
   ReadNodeSelector, EnableReplicaAZInfo -- the standalone part of property C21 (EnableRedirect: StandaloneRedirect.tla).

   Every initial state is one configuration x call.  `Impl` is what standalone.go does (Do / DoMulti / DoStream /
   DoMultiStream / Receive consult the predicate and pick(); DoCache / DoMultiCache / Dedicated always use the
   primary; pick(): selector index into [primary, replicas...] when EnableReplicaAZInfo filled the node list, out of
   range -> 0 = primary; without selector a random replica), `Allowed` is what the property admits.  The invariants
   compare the two; the Bug* constants re-introduce defects.  Standalone_Gen.cfg prints one CASE per initial state
   with the admissible targets; harness/cmd/sentineldrv applies them to the real client. *)
EXTENDS Routing, TLC, Json

CONSTANTS MaxRep,                    \* largest number of replicas
          BugPickIgnoresPredicate,   \* commands the predicate rejected go to pick() as well
          BugBatchFirstOnly,         \* a batch is routed by its first command only
          BugOutOfRange,             \* an out-of-range selector result is used (clamped to the last replica)
          BugNoReplicaPanic          \* pick() with no replica and no selector: rand.IntN(0) panics (standalone.go before the repair)

VARIABLES nrep,      \* replicas configured (Standalone.ReplicaAddress)
          redirect,  \* Standalone.EnableRedirect
          pred,      \* SendToReplicas is set
          sel,       \* "none" or the value ReadNodeSelector returns, as a string: "-1" "0" "1" "2" "3"
          az,        \* EnableReplicaAZInfo
          api, flags

routev == <<nrep, redirect, pred, sel, az, api, flags>>

SelVal == CASE sel = "-1" -> -1 [] sel = "0" -> 0 [] sel = "1" -> 1 [] sel = "2" -> 2 [] sel = "3" -> 3 [] OTHER -> 99

\* what NewClient does with the configuration (rueidis.go)
Construct == IF redirect /\ nrep > 0 THEN "error-redirect-with-replicas"
             ELSE IF nrep > 0 /\ ~pred THEN "error-no-SendToReplicas"
             ELSE "ok"

RouteInit == /\ nrep \in 0..MaxRep /\ redirect \in BOOLEAN /\ pred \in BOOLEAN /\ az \in BOOLEAN
             /\ sel \in {"none", "-1", "0", "1", "2", "3"}
             /\ api \in Apis
             /\ flags \in FlagsOf(api)
             /\ (nrep = 0 => redirect)                 \* otherwise it is not a standalone client at all
             /\ (Construct # "ok" => (api = "Do" /\ flags = <<TRUE>> /\ sel = "none" /\ ~az))   \* one case per rejected configuration

Rep(i) == IF i = 1 THEN "r1" ELSE "r2"
Replicas == {Rep(i) : i \in 1..nrep}
\* s.nodes = [primary, replicas...] is only filled under this condition (newStandaloneClient)
NodesLen == IF az /\ (sel # "none" \/ nrep > 1) THEN nrep + 1 ELSE 0
InRange == SelVal >= 0 /\ SelVal < NodesLen
Consults(a) == a \in {"Do", "DoMulti", "DoStream", "DoMultiStream", "Receive"}
OptedIn == pred /\ Consults(api) /\ AllTrue(flags)

\* the property's view: where the call may go
Allowed == IF ~OptedIn THEN {"p"}
           ELSE IF sel # "none" THEN (IF InRange /\ SelVal > 0 THEN {Rep(SelVal)} ELSE {"p"})
           ELSE IF nrep = 0 THEN {"p"} ELSE Replicas

\* standalone.go
ImplOpted == pred /\ Consults(api)
             /\ (IF BugPickIgnoresPredicate THEN TRUE
                 ELSE IF Multi(api) /\ BugBatchFirstOnly THEN flags[1] ELSE AllTrue(flags))
ImplPick == IF sel # "none"
            THEN (IF InRange THEN (IF SelVal = 0 THEN {"p"} ELSE {Rep(SelVal)})
                  ELSE IF BugOutOfRange /\ nrep > 0 THEN {Rep(nrep)} ELSE {"p"})
            ELSE IF nrep = 0 THEN (IF BugNoReplicaPanic THEN {"panic"} ELSE {"p"})
            ELSE Replicas
Impl == IF ImplOpted THEN ImplPick ELSE {"p"}

RouteNext == UNCHANGED routev
RouteSpec == RouteInit /\ [][RouteNext]_routev

ReplicaOnlyWhenOptedIn       == Construct = "ok" => (\A n \in Impl : n # "p" => OptedIn)
OutOfRangeFallsBackToPrimary == (Construct = "ok" /\ OptedIn /\ sel # "none" /\ ~InRange) => Impl = {"p"}
NoReplicaMeansPrimary        == (Construct = "ok" /\ nrep = 0) => Impl = {"p"}
ImplWithinAllowed            == Construct = "ok" => Impl \subseteq Allowed

SetToSeq(S) == LET RECURSIVE f(_) f(T) == IF T = {} THEN <<>> ELSE LET x == CHOOSE y \in T : TRUE IN <<x>> \o f(T \ {x}) IN f(S)
GenRoute == PrintT(<<"CASE", ToJson([kind |-> "route", client |-> "standalone", nrep |-> nrep, redirect |-> redirect, pred |-> pred,
                                     sel |-> sel, az |-> az, api |-> api, flags |-> flags, construct |-> Construct,
                                     optedin |-> OptedIn, target |-> SetToSeq(Allowed), mode |-> ""])>>)
=============================================================================
