SPECIFICATION Spec
CONSTANTS
  OptSet <- OptsStream
  CallSet <- StreamCalls
  ChangeSet <- NoChanges
  MaxCalls = 1
  MaxChanges = 0
  MaxGen = 3
  MaxAtt = 3
  EagerLazy = FALSE
  LazyMidCall = FALSE
  FixDenied = TRUE
  BugAskNoAsking = FALSE
  BugTxNoMulti = FALSE
  BugPredIgnored = FALSE
  BugNodeOrder = FALSE
  BugMovedIgnored = FALSE
  BugMaxOffByOne = FALSE
  BugSelClamp = FALSE
  BugRefreshDropsInit = FALSE
  BugAskRunNoInit = FALSE
  BugPoolStale = FALSE
  BugStreamKeyless = TRUE
  BugPromoteReplica = FALSE
INVARIANTS TypeOK ReplicaOnlyWhenOptedIn
CONSTRAINT GenBound
VIEW MCView
CHECK_DEADLOCK FALSE
