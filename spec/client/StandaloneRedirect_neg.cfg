SPECIFICATION RedirSpec
CONSTANTS
  BugRedirectReturned = TRUE
  Steps = 5
INVARIANTS RedirectFollowed
CHECK_DEADLOCK FALSE
