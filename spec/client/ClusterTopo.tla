----------------------------- MODULE ClusterTopo -----------------------------
(* Topology parsing of cluster.go (parseSlots, parseShards, parseEndpoint) - the ParseTotal part of C19.

   A reply of CLUSTER SLOTS / CLUSTER SHARDS is described abstractly as a sequence of entries built from templates
   (well-formed ones and the malformed shapes a node or a proxy can produce); Tree(..) renders the description as the
   RESP value tree that goes over the wire, Expect(..) is the group map the client must learn from it:

     * every listed range of a usable entry belongs to the entry's primary; ranges of several entries of one primary add up;
     * a node whose endpoint is "?" is not usable, an empty or null endpoint means "the host I was asked on";
     * SLOTS: an entry that is too short / not an array / whose primary is unusable is ignored, unusable replicas are dropped;
     * SHARDS: only nodes with health "online" count; a shard without an online master is ignored; with TLS the tls-port
       is used when there is one; entries that are not maps are ignored;
     * nothing makes the parser crash.

   TLC enumerates replies of up to MaxLen entries; every state is printed as one case
   [kind, tree, fallback, tls, groups, exact] for the Go driver, which encodes the tree with the fake server's RESP
   encoder, decodes it with the real decoder and calls the real parser through the export wrappers.  `exact` is FALSE
   when the reply contains an entry whose malformation makes the result of that entry unspecified (a port that is not
   an integer): then only the absence of a crash and the groups of the other entries are compared. *)
EXTENDS Integers, Sequences, FiniteSets, TLC, Json

CONSTANTS Kind,      \* "slots" | "shards" | "endpoint"
          MaxLen,    \* entries per reply
          Templates  \* template numbers used

VARIABLES reply, tls

R == <<100, 5000, 9000, 16383>>         \* concrete numbers of the representative slots 0..3
Fallback == "b:7001"                    \* the address the client asked
FallbackHost == "b"
Range(s) == {s[i] : i \in 1..Len(s)}

\* ---- value trees
I(n) == [t |-> "int", n |-> n]
S(s) == [t |-> "str", s |-> s]
Nil == [t |-> "nil"]
A(v) == [t |-> "arr", v |-> v]
Mp(v) == [t |-> "map", v |-> v]         \* v = <<key, value, key, value ...>>

HostPort(h, p) == IF h = "::1" THEN "[::1]:" \o ToString(p) ELSE h \o ":" \o ToString(p)
\* parseEndpoint: "" -> host of the fallback address, "?" -> unusable
Endpoint(ep, p) == IF ep = "?" THEN "" ELSE IF ep = "" THEN HostPort(FallbackHost, p) ELSE HostPort(ep, p)

\* ------------------------------------------------------------------------------------------------- CLUSTER SLOTS
\* a node of an entry: [ep |-> endpoint text or "nil", port, shape |-> "ok" | "short" | "meta" | "strport"]
N(ep, port, shape) == [ep |-> ep, port |-> port, shape |-> shape]
NodeTree(n) == LET e == IF n.ep = "nil" THEN Nil ELSE S(n.ep) IN
               CASE n.shape = "short" -> A(<<e>>)
                 [] n.shape = "meta"  -> A(<<e, I(n.port), S("id"), A(<<S("hostname"), S("h.example")>>)>>)
                 [] n.shape = "strport" -> A(<<e, S(ToString(n.port)), S("id")>>)
                 [] OTHER -> A(<<e, I(n.port), S("id")>>)
NodeAddr(n) == IF n.shape = "short" THEN "" ELSE Endpoint(IF n.ep = "nil" THEN "" ELSE n.ep, n.port)

\* an entry: [shape |-> "ok" | "short" | "int" | "empty", lo, hi, nodes]
SlotTemplates == <<
  [shape |-> "ok", lo |-> 0, hi |-> 1, nodes |-> <<N("a", 7000, "ok"), N("a1", 7000, "ok"), N("a2", 7002, "meta")>>],      \* 1 plain
  [shape |-> "ok", lo |-> 2, hi |-> 2, nodes |-> <<N("b", 7000, "meta")>>],                                               \* 2 no replica
  [shape |-> "ok", lo |-> 3, hi |-> 3, nodes |-> <<N("a", 7000, "ok"), N("a1", 7000, "ok")>>],                           \* 3 second range of a
  [shape |-> "ok", lo |-> 1, hi |-> 2, nodes |-> <<N("c", 7000, "ok"), N("?", 7000, "ok"), N("c1", 7000, "ok")>>],       \* 4 overlaps 1 and 2, unknown replica
  [shape |-> "ok", lo |-> 0, hi |-> 3, nodes |-> <<N("", 7003, "ok"), N("", 7004, "ok")>>],                              \* 5 empty endpoints
  [shape |-> "ok", lo |-> 2, hi |-> 3, nodes |-> <<N("nil", 7005, "ok"), N("10.0.0.5", 6379, "ok")>>],                   \* 6 null endpoint, ip
  [shape |-> "ok", lo |-> 0, hi |-> 0, nodes |-> <<N("?", 7000, "ok"), N("d1", 7000, "ok")>>],                           \* 7 unusable primary
  [shape |-> "ok", lo |-> 1, hi |-> 1, nodes |-> <<N("d", 7000, "short"), N("d1", 7000, "ok")>>],                        \* 8 short primary
  [shape |-> "ok", lo |-> 1, hi |-> 1, nodes |-> <<N("node-1.example.com", 7000, "ok"), N("d1", 7000, "short"), N("::1", 7000, "ok")>>], \* 9 hostname, short replica, ipv6
  [shape |-> "short", lo |-> 0, hi |-> 3, nodes |-> <<>>],                                                               \* 10 two elements only
  [shape |-> "int", lo |-> 0, hi |-> 0, nodes |-> <<>>],                                                                 \* 11 not an array
  [shape |-> "empty", lo |-> 0, hi |-> 0, nodes |-> <<>>],                                                               \* 12 empty array
  [shape |-> "ok", lo |-> 3, hi |-> 0, nodes |-> <<N("e", 7000, "ok")>>],                                                \* 13 inverted range (kept as listed)
  [shape |-> "ok", lo |-> 2, hi |-> 3, nodes |-> <<N("f", 7000, "strport"), N("f1", 7000, "ok")>>]                       \* 14 port sent as a string
>>
SlotEntryTree(e) == CASE e.shape = "short" -> A(<<I(R[e.lo + 1]), I(R[e.hi + 1])>>)
                      [] e.shape = "int" -> I(7)
                      [] e.shape = "empty" -> A(<<>>)
                      [] OTHER -> A(<<I(R[e.lo + 1]), I(R[e.hi + 1])>> \o [j \in 1..Len(e.nodes) |-> NodeTree(e.nodes[j])])
SlotUsable(e) == e.shape = "ok" /\ NodeAddr(e.nodes[1]) # ""
SlotUnspec(e) == e.shape = "ok" /\ \E j \in 1..Len(e.nodes) : e.nodes[j].shape = "strport"
\* groups: primary address -> [nodes (the first listing of the primary decides), slots]
ExpectSlots(es) ==
    LET us == SelectSeq(es, LAMBDA e : SlotUsable(e) /\ ~SlotUnspec(e))
        prims == {NodeAddr(us[j].nodes[1]) : j \in 1..Len(us)}
        first(p) == us[CHOOSE j \in 1..Len(us) : NodeAddr(us[j].nodes[1]) = p /\ \A x \in 1..(j - 1) : NodeAddr(us[x].nodes[1]) # p]
        mine(p) == SelectSeq(us, LAMBDA e : NodeAddr(e.nodes[1]) = p)
    IN [p \in prims |-> [p |-> p,
                         rs |-> {NodeAddr(first(p).nodes[j]) : j \in 2..Len(first(p).nodes)} \ {""},
                         nrs |-> Len(SelectSeq(Tail(first(p).nodes), LAMBDA n : NodeAddr(n) # "")),
                         slots |-> [j \in 1..Len(mine(p)) |-> <<R[mine(p)[j].lo + 1], R[mine(p)[j].hi + 1]>>]]]

\* ------------------------------------------------------------------------------------------------- CLUSTER SHARDS
\* a node: [ep, port, tlsport (0 = none), role, health, shape |-> "ok" | "int" | "odd" | "noep" | "strport"]
SN(ep, port, tp, role, health, shape) == [ep |-> ep, port |-> port, tlsport |-> tp, role |-> role, health |-> health, shape |-> shape]
SNodeTree(n) ==
    LET ep == IF n.ep = "nil" THEN Nil ELSE S(n.ep)
        base == <<S("id"), S("x")>> \o (IF n.shape = "strport" THEN <<S("port"), S(ToString(n.port))>> ELSE <<S("port"), I(n.port)>>)
                \o (IF n.tlsport > 0 THEN <<S("tls-port"), I(n.tlsport)>> ELSE <<>>)
                \o <<S("ip"), S("10.1.1.1")>>
                \o (IF n.shape = "noep" THEN <<>> ELSE <<S("endpoint"), ep>>)
                \o <<S("role"), S(n.role), S("replication-offset"), I(1), S("health"), S(n.health)>>
    IN CASE n.shape = "int" -> I(3)
         [] n.shape = "odd" -> Mp(base \o <<S("dangling")>>)
         [] OTHER -> Mp(base)
SPort(n) == IF tls /\ n.tlsport > 0 THEN n.tlsport ELSE n.port
SUsable(n) == n.shape \in {"ok", "noep", "strport"} /\ n.health = "online"
SAddr(n) == IF ~SUsable(n) THEN "" ELSE Endpoint(IF n.ep = "nil" \/ n.shape = "noep" THEN "" ELSE n.ep, SPort(n))

\* a shard: [shape |-> "ok" | "int" | "strslots" | "oddslots" | "noslots", ranges |-> seq of <<lo, hi>>, nodes]
ShardTemplates == <<
  [shape |-> "ok", ranges |-> <<<<0, 1>>>>, nodes |-> <<SN("a", 7000, 0, "master", "online", "ok"), SN("a1", 7000, 0, "replica", "online", "ok"), SN("a2", 7000, 0, "replica", "fail", "ok")>>], \* 1
  [shape |-> "ok", ranges |-> <<<<2, 2>>, <<3, 3>>>>, nodes |-> <<SN("b1", 7000, 7443, "replica", "online", "ok"), SN("b", 7000, 7443, "master", "online", "ok")>>],  \* 2 replica first, tls ports
  [shape |-> "ok", ranges |-> <<<<1, 3>>>>, nodes |-> <<SN("c", 7000, 0, "master", "fail", "ok"), SN("c1", 7000, 0, "replica", "online", "ok")>>],               \* 3 master not online
  [shape |-> "ok", ranges |-> <<<<0, 0>>>>, nodes |-> <<SN("d", 7000, 0, "master", "online", "ok"), SN("d1", 7000, 0, "replica", "loading", "ok"), SN("?", 7000, 0, "replica", "online", "ok")>>], \* 4
  [shape |-> "ok", ranges |-> <<<<1, 1>>>>, nodes |-> <<SN("", 7003, 0, "master", "online", "ok"), SN("nil", 7004, 7444, "replica", "online", "ok")>>],           \* 5 empty and null endpoints
  [shape |-> "ok", ranges |-> <<<<2, 3>>>>, nodes |-> <<SN("e1", 7000, 0, "replica", "online", "ok"), SN("e2", 7000, 0, "replica", "online", "ok")>>],            \* 6 no master
  [shape |-> "ok", ranges |-> <<<<3, 3>>>>, nodes |-> <<SN("?", 7000, 0, "master", "online", "ok"), SN("f1", 7000, 0, "replica", "online", "ok")>>],             \* 7 master endpoint unknown
  [shape |-> "ok", ranges |-> <<<<0, 3>>>>, nodes |-> <<SN("g", 7000, 0, "master", "online", "ok"), SN("g1", 7000, 0, "replica", "online", "int"), SN("g2", 7000, 0, "replica", "online", "odd"), SN("::1", 7000, 0, "replica", "online", "ok")>>], \* 8 malformed nodes
  [shape |-> "int", ranges |-> <<>>, nodes |-> <<>>],                                                                                                        \* 9 shard is not a map
  [shape |-> "strslots", ranges |-> <<<<1, 2>>>>, nodes |-> <<SN("h", 7000, 0, "master", "online", "noep"), SN("node-1.example.com", 7000, 0, "replica", "online", "ok")>>], \* 10 slots as strings, endpoint field missing
  [shape |-> "oddslots", ranges |-> <<<<0, 1>>>>, nodes |-> <<SN("i", 7000, 0, "master", "online", "ok")>>],                                                   \* 11 dangling slot number
  [shape |-> "noslots", ranges |-> <<>>, nodes |-> <<SN("j", 7000, 0, "master", "online", "ok")>>],                                                           \* 12 no slots (empty primary)
  [shape |-> "ok", ranges |-> <<<<2, 2>>>>, nodes |-> <<SN("k", 7000, 0, "master", "online", "strport"), SN("k1", 7000, 0, "replica", "online", "ok")>>]        \* 13 port sent as a string
>>
ShardTree(sh) ==
    LET flat == [j \in 1..(2 * Len(sh.ranges)) |-> R[sh.ranges[(j + 1) \div 2][IF j % 2 = 1 THEN 1 ELSE 2] + 1]]
        slots == CASE sh.shape = "strslots" -> A([j \in 1..Len(flat) |-> S(ToString(flat[j]))])
                   [] sh.shape = "oddslots" -> A([j \in 1..Len(flat) |-> I(flat[j])] \o <<I(42)>>)
                   [] OTHER -> A([j \in 1..Len(flat) |-> I(flat[j])])
    IN IF sh.shape = "int" THEN I(9)
       ELSE Mp(<<S("slots"), slots, S("nodes"), A([j \in 1..Len(sh.nodes) |-> SNodeTree(sh.nodes[j])])>>)
ShardMaster(sh) == LET ms == {j \in 1..Len(sh.nodes) : sh.nodes[j].role = "master" /\ SAddr(sh.nodes[j]) # ""} IN
                   IF sh.shape = "int" \/ ms = {} THEN 0 ELSE CHOOSE j \in ms : \A x \in ms : x <= j
ShardUnspec(sh) == sh.shape # "int" /\ \E j \in 1..Len(sh.nodes) : sh.nodes[j].shape = "strport"
ExpectShards(shs) ==
    LET us == SelectSeq(shs, LAMBDA sh : ShardMaster(sh) # 0 /\ ~ShardUnspec(sh))
        addr(sh) == SAddr(sh.nodes[ShardMaster(sh)])
        prims == {addr(us[j]) : j \in 1..Len(us)}
        last(p) == us[CHOOSE j \in 1..Len(us) : addr(us[j]) = p /\ \A x \in (j + 1)..Len(us) : addr(us[x]) # p]
    IN [p \in prims |-> LET sh == last(p) IN
          [p |-> p,
           rs |-> {SAddr(sh.nodes[j]) : j \in (1..Len(sh.nodes)) \ {ShardMaster(sh)}} \ {""},
           nrs |-> Cardinality({j \in (1..Len(sh.nodes)) \ {ShardMaster(sh)} : SAddr(sh.nodes[j]) # ""}),
           slots |-> [j \in 1..Len(sh.ranges) |-> <<R[sh.ranges[j][1] + 1], R[sh.ranges[j][2] + 1]>>]]]

\* ------------------------------------------------------------------------------------------------- parseEndpoint alone
EndpointCases == {<<fb, ep, p>> : fb \in {"b:7001", "10.0.0.9:6379", "[::1]:7001", "host.example:1"},
                                  ep \in {"", "?", "a", "10.0.0.5", "::1", "node-1.example.com"}, p \in {0, 6379, 65535}}
FbHost(fb) == CASE fb = "b:7001" -> "b" [] fb = "10.0.0.9:6379" -> "10.0.0.9" [] fb = "[::1]:7001" -> "::1" [] OTHER -> "host.example"
ExpectEndpoint(c) == IF c[2] = "?" THEN "" ELSE HostPort(IF c[2] = "" THEN FbHost(c[1]) ELSE c[2], c[3])

\* ------------------------------------------------------------------------------------------------- enumeration
Pool == IF Kind = "slots" THEN SlotTemplates ELSE ShardTemplates
Init == /\ reply \in UNION {[1..n -> Templates] : n \in 1..MaxLen} \cup {<<>>}
        /\ tls \in (IF Kind = "shards" THEN BOOLEAN ELSE {FALSE})
Next == UNCHANGED <<reply, tls>>
Spec == Init /\ [][Next]_<<reply, tls>>

Entries == [j \in 1..Len(reply) |-> Pool[reply[j]]]
Case == IF Kind = "slots"
        THEN [kind |-> "slots", templates |-> reply, tree |-> A([j \in 1..Len(reply) |-> SlotEntryTree(Entries[j])]), fallback |-> Fallback,
              tls |-> FALSE, groups |-> ExpectSlots(Entries), exact |-> ~\E j \in 1..Len(reply) : SlotUnspec(Entries[j])]
        ELSE [kind |-> "shards", templates |-> reply, tree |-> A([j \in 1..Len(reply) |-> ShardTree(Entries[j])]), fallback |-> Fallback,
              tls |-> tls, groups |-> ExpectShards(Entries), exact |-> ~\E j \in 1..Len(reply) : ShardUnspec(Entries[j])]
Emit == PrintT(<<"CASE", ToJson(Case)>>)

\* parseEndpoint cases are printed from one state
EmitEndpoints == \A c \in EndpointCases :
                    PrintT(<<"CASE", ToJson([kind |-> "endpoint", fallback |-> c[1], endpoint |-> c[2], port |-> c[3], expect |-> ExpectEndpoint(c)])>>)
InitE == reply = <<>> /\ tls = FALSE
SpecE == InitE /\ [][Next]_<<reply, tls>>

\* the expectation itself is sane: every group has a usable primary, and a slot range is listed for every usable entry
Sane == \A p \in DOMAIN Case.groups : p # "" /\ Case.groups[p].p = p /\ "" \notin Case.groups[p].rs
=============================================================================
