SPECIFICATION SRouteSpec
INVARIANTS SentinelReplicaOnlyWhenOptedIn GenSRoute
CHECK_DEADLOCK FALSE
