SPECIFICATION SRouteSpec
CONSTANTS
  BugRepickRemainder = FALSE
INVARIANTS SentinelReplicaOnlyWhenOptedIn WholeCallOneClass GenSRoute
CHECK_DEADLOCK FALSE
