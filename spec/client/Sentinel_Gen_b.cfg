SPECIFICATION GenSpec
CONSTANTS
  Nodes = {"n1", "n2", "n3"}
  Sentinels = {"s1", "s2"}
  InitList <- List2
  InitMaster = "n1"
  Mode = "b"
  Slots = {1, 2, 3, 4}
  MaxEnv = 4
  MaxEvq = 3
  Views <- ViewsWrong
  Heal = FALSE
  Record = TRUE
  BugNoRoleCheck = FALSE
  BugIgnoreSwitch = FALSE
  BugKeepOld = FALSE
  BugNoCloseWrong = FALSE
  BugAbsorb = FALSE
  BugInlineRefresh = FALSE
  BugPrefixMatch = FALSE
  BugAnySet = FALSE
  MasterSet <- Own
  SetNames <- NamesOwn
INVARIANTS GenDone
CHECK_DEADLOCK FALSE
