------------------------------- MODULE Routing -------------------------------
(* The routing rule of the non-cluster clients of redis/rueidis (property C21): which kind of node a user call must
   reach, as a function of the client configuration, the API and -- per command of the call -- the value
   SendToReplicas returns for it.  Pure operators; used by SentinelCore.tla (trace validation of the sentinel client),
   Standalone.tla (standalone client with replicas) and the case generators. *)
EXTENDS Integers, Sequences, FiniteSets

AllTrue(flags) == \A i \in DOMAIN flags : flags[i]

Apis == {"Do", "DoMulti", "DoCache", "DoMultiCache", "DoStream", "DoMultiStream", "Receive", "Dedicated"}

Multi(a) == a \in {"DoMulti", "DoMultiCache", "DoMultiStream"}
Flags1 == {<<TRUE>>, <<FALSE>>}
Flags2 == {<<TRUE, TRUE>>, <<TRUE, FALSE>>, <<FALSE, TRUE>>, <<FALSE, FALSE>>}
FlagsOf(a) == IF Multi(a) THEN Flags2 ELSE Flags1

\* sentinel client (sentinel.go pick / pickMulti / sendAllToReplica / Dedicated):
\*   mode "r" (ReplicaOnly): everything is replica traffic;  mode "m" (no SendToReplicas): everything is primary traffic;
\*   mode "b" (SendToReplicas set): replica traffic iff the predicate holds for every command of the call;
\*   Dedicated / Dedicate never consult the predicate.
SentinelClass(mode, api, flags) ==
    IF mode = "r" THEN "r"
    ELSE IF mode = "b" /\ api # "Dedicated" /\ AllTrue(flags) THEN "r"
    ELSE "m"
=============================================================================
