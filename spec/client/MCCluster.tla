----------------------------- MODULE MCCluster -----------------------------
(* Model-checking instances of Cluster.tla: option sets and call sets (TLC configuration files cannot write records). *)
EXTENDS Cluster, Json

O(mm, mode, sk, si, ron) == [maxMoved |-> mm, mode |-> mode, selKind |-> sk, selIdx |-> si, retryOn |-> ron]
M(s, c, o) == [s |-> s, c |-> c, o |-> o]
NoInj(n) == [i \in 1..n |-> <<>>]
C(kind, mem, ij, mg, dn) == [kind |-> kind, mem |-> mem, inj |-> ij, migrated |-> mg, deny |-> dn]
ConstTRUE == TRUE
MUL == M(-1, "M", FALSE)
EXE == M(-1, "E", FALSE)

T(p0, p1, p2, p3) == [s \in Slots |-> CASE s = 0 -> p0 [] s = 1 -> p1 [] s = 2 -> p2 [] OTHER -> p3]
NoMigr == [s \in Slots |-> None]
St1(n, s, q) == [NoStale EXCEPT ![n][s] = q]
Ch(t, mg, st, lag, dn) == [truth |-> t, migr |-> mg, stale |-> st, lag |-> lag, down |-> dn, rt |-> t, mfail |-> {}]
\* round 2: the nodes report the ownership rt (which may be wrong from the start) and the primaries mf as failed
ChR(t, rt, mg, st, mf) == [truth |-> t, migr |-> mg, stale |-> st, lag |-> FALSE, down |-> {}, rt |-> rt, mfail |-> mf]
\* slot 0 leaves a: to a known node, to the unknown node d, with a chain of stale views (a -> c -> b), with a naming itself
\* once, with a chain of length three (a -> b -> c -> d); the report is fresh or still the old one
MoveChanges ==
    {Ch(T("b", "b", "c", None), NoMigr, NoStale, lag, {}) : lag \in BOOLEAN}
    \cup {Ch(T("d", "b", "c", None), NoMigr, NoStale, lag, {}) : lag \in BOOLEAN}
    \cup {Ch(T("b", "b", "c", None), NoMigr, St1("a", 0, <<"c">>), TRUE, {}),
          Ch(T("b", "b", "c", None), NoMigr, St1("a", 0, <<"a">>), TRUE, {}),
          Ch(T("d", "b", "c", None), NoMigr, [St1("a", 0, <<"b">>) EXCEPT !["b"][0] = <<"c">>], TRUE, {})}
\* slot 0 is being migrated from a to b, slot 1 from b to the unknown node d
MigrChanges == {Ch(Truth0, [NoMigr EXCEPT ![0] = "b"], NoStale, FALSE, {}),
                Ch(Truth0, [NoMigr EXCEPT ![0] = "b", ![1] = "d"], NoStale, FALSE, {})}
KillChanges == {Ch(T("a", "b", "a", None), NoMigr, NoStale, FALSE, {"c"})}
AllChanges == MoveChanges \cup MigrChanges \cup KillChanges
NoChanges == {}
\* replica routing under a topology change: slot 0 moves to b (which has replica b1), slot 1 is being migrated
ReplChanges == {Ch(T("b", "b", "c", None), NoMigr, NoStale, FALSE, {}), Ch(T("b", "b", "c", None), NoMigr, NoStale, TRUE, {}),
                Ch(Truth0, [NoMigr EXCEPT ![1] = "c"], NoStale, FALSE, {})}
\* two calls in a row with a lazy refresh that may run at any moment
TwoChanges == {Ch(T("b", "b", "c", None), NoMigr, NoStale, FALSE, {}), Ch(T("d", "b", "c", None), NoMigr, St1("a", 0, <<"a">>), TRUE, {}),
               Ch(Truth0, [NoMigr EXCEPT ![0] = "b"], NoStale, FALSE, {})}

OptsPlain == {O(mm, "none", "dflt", 0, TRUE) : mm \in {0, 1, 2}}
OptsRepl  == {O(0, "sendto", sk, si, TRUE) : sk \in {"rns"}, si \in {-1, 0, 1, 2, 3}}
             \cup {O(0, "sendto", "rs", si, TRUE) : si \in {-1, 0, 1, 2}}
             \cup {O(0, "sendto", "dflt", 0, TRUE), O(1, "replicaonly", "dflt", 0, TRUE), O(0, "none", "dflt", 0, TRUE)}

\* single commands: read / write, with and without a scripted retryable error, key already migrated, RetryDelay < 0
SingleCalls ==
    {C(k, <<M(s, c, FALSE)>>, <<ij>>, mg, dn) :
        k \in {"do"}, s \in {0, 1}, c \in {"r", "w"}, ij \in {<<>>, <<"retry">>}, mg \in {{}, {1}}, dn \in {{}, {1}}}
    \cup {C("docache", <<M(s, "r", FALSE)>>, <<ij>>, mg, {}) : s \in {0, 1}, ij \in {<<>>, <<"retry">>}, mg \in {{}, {1}}}
    \cup {C("do", <<M(3, "r", FALSE)>>, <<<<>>>>, {}, {})}
    \cup {C("do", <<M(2, c, FALSE)>>, <<<<>>>>, {}, {}) : c \in {"r", "w"}}      \* slot 2 lives on c, the node that dies

\* batches: members over three slots, interleaved so that grouping by node reorders them
BatchCalls ==
    {C("multi", <<M(0, "r", FALSE), M(1, "w", FALSE), M(0, "w", FALSE), M(2, "r", FALSE)>>, ij, mg, dn) :
        ij \in {NoInj(4), <<<<"retry">>, <<>>, <<>>, <<>>>>, <<<<>>, <<>>, <<>>, <<"retry">>>>}, mg \in {{}, {3}, {1, 3}}, dn \in {{}, {1}}}
    \cup {C("multicache", <<M(0, "r", FALSE), M(1, "r", FALSE), M(0, "r", FALSE)>>, ij, mg, dn) :
        ij \in {NoInj(3), <<<<"retry">>, <<>>, <<>>>>}, mg \in {{}, {3}}, dn \in {{}, {1}}}

\* batches with one MULTI ... EXEC block (all keyed members in one slot, as _pickMulti demands)
TxCalls ==
    {C("multi", <<M(0, "r", FALSE), MUL, M(0, "w", FALSE), M(0, "r", FALSE), EXE>>, ij, mg, {}) :
        ij \in {NoInj(5), <<<<>>, <<>>, <<>>, <<"retry">>, <<>>>>}, mg \in {{}, {3}, {1}, {1, 4}}}
    \cup {C("multi", <<MUL, M(1, "w", FALSE), EXE, M(1, "r", FALSE)>>, NoInj(4), mg, {}) : mg \in {{}, {2}, {4}}}

\* replica routing: opted-in and not opted-in members
ReplCalls ==
    {C(k, <<M(s, c, o)>>, <<<<>>>>, {}, {}) : k \in {"do"}, s \in {0, 1, 2}, c \in {"r", "w"}, o \in BOOLEAN}
    \cup {C("docache", <<M(s, "r", o)>>, <<<<>>>>, {}, {}) : s \in {0, 1}, o \in BOOLEAN}
    \cup {C("multi", <<M(0, "r", TRUE), M(1, "r", FALSE), M(0, "w", FALSE), M(1, "r", TRUE)>>, NoInj(4), {}, {}),
          C("multicache", <<M(0, "r", TRUE), M(1, "r", FALSE), M(1, "r", TRUE)>>, NoInj(3), {}, {}),
          C("multi", <<MUL, M(0, "r", TRUE), EXE>>, NoInj(3), {}, {}),
          \* a block with a read and a write: on a ReplicaOnly client the replica serves the read and answers the write with MOVED
          C("multi", <<MUL, M(0, "r", FALSE), M(0, "w", FALSE), EXE>>, <<<<>>, <<"retry">>, <<>>, <<>>>>, {}, {}),
          C("multi", <<M(1, "r", TRUE), MUL, M(1, "w", FALSE), M(1, "r", FALSE), EXE>>, NoInj(5), {}, {})}

TwoCalls ==
    {C("do", <<M(0, c, FALSE)>>, <<<<>>>>, mg, {}) : c \in {"r", "w"}, mg \in {{}, {1}}}
    \cup {C("multi", <<M(0, "r", FALSE), M(1, "w", FALSE), M(0, "w", FALSE)>>, NoInj(3), mg, {}) : mg \in {{}, {3}}}
    \cup {C("do", <<M(3, "r", FALSE)>>, <<<<>>>>, {}, {})}

\* thorough, replica routing: two calls around a topology change, lazy refresh at any moment
ReplCalls2 ==
    {C("do", <<M(s, c, o)>>, <<<<>>>>, {}, {}) : s \in {0, 1}, c \in {"r"}, o \in BOOLEAN}
    \cup {C("do", <<M(0, "w", TRUE)>>, <<<<>>>>, {}, {}),
          C("multi", <<M(0, "r", TRUE), M(1, "r", FALSE), M(0, "w", FALSE), M(1, "r", TRUE)>>, NoInj(4), {}, {}),
          C("multicache", <<M(0, "r", TRUE), M(1, "r", FALSE), M(1, "r", TRUE)>>, NoInj(3), {}, {}),
          C("multi", <<MUL, M(0, "r", FALSE), M(0, "w", FALSE), EXE>>, <<<<>>, <<"retry">>, <<>>, <<>>>>, {}, {})}

\* thorough: two calls, two topology changes, the lazy refresh at any moment
ThoroughCalls ==
    TwoCalls
    \cup {C("multi", <<M(0, "r", FALSE), MUL, M(0, "w", FALSE), M(0, "r", FALSE), EXE>>, NoInj(5), mg, {}) : mg \in {{}, {3}}}
    \cup {C("multicache", <<M(0, "r", FALSE), M(1, "r", FALSE), M(0, "r", FALSE)>>, <<<<"retry">>, <<>>, <<>>>>, {3}, {1}),
          C("docache", <<M(0, "r", FALSE)>>, <<<<"retry">>>>, {1}, {})}

\* #14: one member answers LOADING and RetryDelay says no, another member is redirected
DeniedCalls ==
    {C("multi", <<M(1, "r", FALSE), M(0, "r", FALSE)>>, <<<<"retry">>, <<>>>>, {}, {1}),
     C("multicache", <<M(1, "r", FALSE), M(0, "r", FALSE)>>, <<<<"retry">>, <<>>>>, {}, {1})}

\* ------------------------------------------------------------------------------------------------- round 2
\* Transactions whose slot the client has to look up first (refresh on pick) and which are redirected in the same DoMulti:
\* slot 3 gets an owner; X1 the owner is migrating it (ASK), X2 the nodes report a as owner although it is b (MOVED right
\* after the refresh), X3 ownership is fragmented (a: 0 and 2, b: 1 and 3 - several ranges of one master) and b is migrating
\* slot 3 to the unknown node d
T4(p0, p1, p2, p3) == T(p0, p1, p2, p3)
InitTxChanges ==
    {ChR(T4("a", "b", "c", "b"), T4("a", "b", "c", "b"), [NoMigr EXCEPT ![3] = "c"], NoStale, {}),
     ChR(T4("a", "b", "c", "b"), T4("a", "b", "c", "a"), NoMigr, NoStale, {}),
     ChR(T4("a", "b", "a", "b"), T4("a", "b", "a", "b"), [NoMigr EXCEPT ![3] = "d"], NoStale, {})}
InitTxCalls ==
    {C("multi", <<MUL, M(3, "w", FALSE), EXE>>, NoInj(3), mg, {}) : mg \in {{}, {2}}}
    \cup {C("multi", <<M(3, "r", FALSE), MUL, M(3, "w", FALSE), M(3, "r", FALSE), EXE, M(3, "w", FALSE)>>, NoInj(6), mg, {}) : mg \in {{}, {3}, {3, 4}, {1, 6}}}
    \cup {C("multi", <<M(3, "r", FALSE), M(2, "w", FALSE), M(3, "w", FALSE)>>, NoInj(3), mg, {}) : mg \in {{}, {1}}}
    \cup {C("do", <<M(3, "r", FALSE)>>, <<<<>>>>, mg, {}) : mg \in {{}, {1}}}

\* Two-hop redirects of a transaction: H1 ASK to b, which does not know that it imports the slot and answers MOVED c
\* (c sends it back to the owner a, a says ASK b again, now b serves); H2 the same with b naming the owner a directly;
\* H3 MOVED (client has the old owner a) to b, which is migrating the slot to c: ASK; H4 MOVED to the unknown node d,
\* which is migrating to b: ASK
HopChanges ==
    {Ch(Truth0, [NoMigr EXCEPT ![0] = "b"], St1("b", 0, <<"c">>), FALSE, {}),
     Ch(Truth0, [NoMigr EXCEPT ![0] = "b"], St1("b", 0, <<"a">>), FALSE, {}),
     Ch(T("b", "b", "c", None), [NoMigr EXCEPT ![0] = "c"], NoStale, TRUE, {}),
     Ch(T("d", "b", "c", None), [NoMigr EXCEPT ![0] = "b"], NoStale, TRUE, {})}
HopCalls ==
    {C("multi", <<M(0, "r", FALSE), MUL, M(0, "w", FALSE), M(0, "r", FALSE), EXE>>, NoInj(5), mg, {}) : mg \in {{3}, {3, 4}, {1, 3, 4}}}
    \cup {C("multi", <<MUL, M(0, "w", FALSE), EXE, M(0, "r", FALSE)>>, NoInj(4), {2}, {}),
          C("multi", <<M(0, "r", FALSE), M(1, "w", FALSE), M(0, "w", FALSE)>>, NoInj(3), {1, 3}, {}),
          C("multicache", <<M(0, "r", FALSE), M(1, "r", FALSE), M(0, "r", FALSE)>>, NoInj(3), {1, 3}, {})}
OptsHop == {O(mm, "none", "dflt", 0, TRUE) : mm \in {0, 3}}

\* Consecutive batches on one client (the retry bookkeeping objects are pooled and reused): batches whose members are
\* ASK-redirected at several positions, two calls in a row
PoolChanges == {Ch(Truth0, [NoMigr EXCEPT ![0] = "b"], NoStale, FALSE, {})}
PoolCalls ==
    {C(k, <<M(0, "r", FALSE), M(0, "r", FALSE), M(0, "r", FALSE)>>, NoInj(3), mg, {}) : k \in {"multi", "multicache"}, mg \in {{1, 2, 3}, {2, 3}}}
    \cup {C(k, <<M(1, "r", FALSE), M(0, "r", FALSE), M(0, "r", FALSE)>>, NoInj(3), {2, 3}, {}) : k \in {"multi", "multicache"}}
OptsOne == {O(0, "none", "dflt", 0, TRUE)}

\* Commands without a key and the streaming calls (C21): PUB = a command without a key for which SendToReplicas says no,
\* ECH = one for which it says yes
PUB == M(-1, "n", FALSE)
ECH == M(-1, "n", TRUE)
StreamCalls ==
    {C("stream", <<M(s, c, o)>>, <<<<>>>>, {}, {}) : s \in {0, 1}, c \in {"r", "w"}, o \in BOOLEAN}
    \cup {C("multistream", <<M(0, "r", TRUE), M(0, "r", o)>>, NoInj(2), {}, {}) : o \in BOOLEAN}
    \cup {C("multistream", <<M(1, "r", TRUE), x>>, NoInj(2), {}, {}) : x \in {PUB, ECH}}
    \cup {C("multistream", <<x, M(0, "r", TRUE), M(0, "r", TRUE)>>, NoInj(3), {}, {}) : x \in {PUB, ECH}}
    \cup {C("multi", <<M(1, "r", TRUE), x, M(1, "r", TRUE)>>, NoInj(3), {}, {}) : x \in {PUB, ECH}}
    \cup {C("multi", <<ECH, ECH>>, NoInj(2), {}, {}), C("multi", <<M(1, "r", TRUE), M(0, "r", TRUE)>>, NoInj(2), {}, {})}
\* the master of b's (resp. a's) shard is reported as failed while its replicas are online: the slot has no owner
FailChanges == {ChR(Truth0, Truth0, NoMigr, NoStale, {"b"}), ChR(Truth0, Truth0, NoMigr, NoStale, {"a"})}
FailCalls ==
    {C("do", <<M(s, c, o)>>, <<<<>>>>, {}, {}) : s \in {0, 1}, c \in {"r", "w"}, o \in BOOLEAN}
    \cup {C("multi", <<M(1, "w", FALSE), M(0, "r", TRUE)>>, NoInj(2), {}, {}),
          C("multicache", <<M(1, "r", TRUE), M(2, "r", FALSE)>>, NoInj(2), {}, {})}
OptsFail == {O(0, "sendto", "rns", 1, TRUE), O(0, "sendto", "rs", 0, TRUE), O(0, "sendto", "dflt", 0, TRUE),
             O(0, "replicaonly", "dflt", 0, TRUE), O(0, "none", "dflt", 0, TRUE)}
OptsStream == {O(0, "sendto", "rns", si, TRUE) : si \in {0, 1, 7}} \cup {O(0, "sendto", "rs", 0, TRUE), O(0, "replicaonly", "dflt", 0, TRUE), O(0, "none", "dflt", 0, TRUE)}

\* C19 ingredients: the redirect budget over MOVED -> retryable error -> MOVED (the owner b answers LOADING once or twice),
\* an ASK to a node the client has never heard of followed by another command for the slot
BudgetChanges == {Ch(T("b", "b", "c", None), NoMigr, NoStale, TRUE, {}), Ch(T("d", "b", "c", None), NoMigr, NoStale, TRUE, {})}
BudgetCalls == {C(k, <<M(0, "r", FALSE)>>, <<ij>>, {}, {}) : k \in {"do", "docache"}, ij \in {<<"retry">>, <<"retry", "retry">>}}
OptsBudget == {O(mm, "none", "dflt", 0, TRUE) : mm \in {1, 2, 3}}
AskNewChanges == {Ch(Truth0, [NoMigr EXCEPT ![0] = "d"], NoStale, FALSE, {})}
AskNewCalls == {C(k, <<M(0, "r", FALSE)>>, <<<<>>>>, mg, {}) : k \in {"do", "docache"}, mg \in {{}, {1}}}
               \cup {C("multi", <<M(0, "r", FALSE), M(1, "w", FALSE), M(0, "w", FALSE)>>, NoInj(3), mg, {}) : mg \in {{}, {1}}}

\* the first call looks for slot 3 (nobody owns it): the refresh it forces makes the client learn the report with the failed master
FailCalls2 == FailCalls \cup {C("do", <<M(3, "r", FALSE)>>, <<<<>>>>, {}, {})}
FailFirst == (calls = 0 /\ ph # "idle") => (changes = 1 /\ call.mem[1].s = 3)
\* fragmented ownership (every master appears in two CLUSTER SLOTS entries / owns two ranges of its shard)
FragChanges == {ChR(T4("a", "b", "a", "b"), T4("a", "b", "a", "b"), mg, NoStale, {}) : mg \in {NoMigr, [NoMigr EXCEPT ![3] = "d"]}}
FragCalls == {C("do", <<M(s, "r", FALSE)>>, <<<<>>>>, mg, {}) : s \in {2, 3}, mg \in {{}, {1}}}
             \cup {C("multi", <<M(3, "r", FALSE), M(2, "w", FALSE), M(3, "w", FALSE), M(1, "r", FALSE)>>, NoInj(4), {}, {}),
                   C("multicache", <<M(3, "r", FALSE), M(2, "r", FALSE), M(0, "r", FALSE)>>, NoInj(3), {}, {})}

\* scenario generation: every finished behaviour is printed with the results Cluster.tla predicts for each call
GenDone == (ph = "idle" /\ calls = MaxCalls /\ ~lazy) => PrintT(<<"CASE", ToJson([opt |-> opt, script |-> script])>>)
GenCalls1 == SingleCalls \cup BatchCalls \cup TxCalls
=============================================================================
