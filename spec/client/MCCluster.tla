----------------------------- MODULE MCCluster -----------------------------
(* Model-checking instances of Cluster.tla: option sets and call sets (TLC configuration files cannot write records). *)
EXTENDS Cluster, Json

O(mm, mode, sk, si, ron) == [maxMoved |-> mm, mode |-> mode, selKind |-> sk, selIdx |-> si, retryOn |-> ron]
M(s, c, o) == [s |-> s, c |-> c, o |-> o]
NoInj(n) == [i \in 1..n |-> <<>>]
C(kind, mem, ij, mg, dn) == [kind |-> kind, mem |-> mem, inj |-> ij, migrated |-> mg, deny |-> dn]
MUL == M(-1, "M", FALSE)
EXE == M(-1, "E", FALSE)

T(p0, p1, p2, p3) == [s \in Slots |-> CASE s = 0 -> p0 [] s = 1 -> p1 [] s = 2 -> p2 [] OTHER -> p3]
NoMigr == [s \in Slots |-> None]
St1(n, s, q) == [NoStale EXCEPT ![n][s] = q]
Ch(t, mg, st, lag, dn) == [truth |-> t, migr |-> mg, stale |-> st, lag |-> lag, down |-> dn]
\* slot 0 leaves a: to a known node, to the unknown node d, with a chain of stale views (a -> c -> b), with a naming itself
\* once, with a chain of length three (a -> b -> c -> d); the report is fresh or still the old one
MoveChanges ==
    {Ch(T("b", "b", "c", None), NoMigr, NoStale, lag, {}) : lag \in BOOLEAN}
    \cup {Ch(T("d", "b", "c", None), NoMigr, NoStale, lag, {}) : lag \in BOOLEAN}
    \cup {Ch(T("b", "b", "c", None), NoMigr, St1("a", 0, <<"c">>), TRUE, {}),
          Ch(T("b", "b", "c", None), NoMigr, St1("a", 0, <<"a">>), TRUE, {}),
          Ch(T("d", "b", "c", None), NoMigr, [St1("a", 0, <<"b">>) EXCEPT !["b"][0] = <<"c">>], TRUE, {})}
\* slot 0 is being migrated from a to b, slot 1 from b to the unknown node d
MigrChanges == {Ch(Truth0, [NoMigr EXCEPT ![0] = "b"], NoStale, FALSE, {}),
                Ch(Truth0, [NoMigr EXCEPT ![0] = "b", ![1] = "d"], NoStale, FALSE, {})}
KillChanges == {Ch(T("a", "b", "a", None), NoMigr, NoStale, FALSE, {"c"})}
AllChanges == MoveChanges \cup MigrChanges \cup KillChanges
NoChanges == {}
\* replica routing under a topology change: slot 0 moves to b (which has replica b1), slot 1 is being migrated
ReplChanges == {Ch(T("b", "b", "c", None), NoMigr, NoStale, FALSE, {}), Ch(T("b", "b", "c", None), NoMigr, NoStale, TRUE, {}),
                Ch(Truth0, [NoMigr EXCEPT ![1] = "c"], NoStale, FALSE, {})}
\* two calls in a row with a lazy refresh that may run at any moment
TwoChanges == {Ch(T("b", "b", "c", None), NoMigr, NoStale, FALSE, {}), Ch(T("d", "b", "c", None), NoMigr, St1("a", 0, <<"a">>), TRUE, {}),
               Ch(Truth0, [NoMigr EXCEPT ![0] = "b"], NoStale, FALSE, {})}

OptsPlain == {O(mm, "none", "dflt", 0, TRUE) : mm \in {0, 1, 2}}
OptsRepl  == {O(0, "sendto", sk, si, TRUE) : sk \in {"rns"}, si \in {-1, 0, 1, 2, 3}}
             \cup {O(0, "sendto", "rs", si, TRUE) : si \in {-1, 0, 1, 2}}
             \cup {O(0, "sendto", "dflt", 0, TRUE), O(1, "replicaonly", "dflt", 0, TRUE), O(0, "none", "dflt", 0, TRUE)}

\* single commands: read / write, with and without a scripted retryable error, key already migrated, RetryDelay < 0
SingleCalls ==
    {C(k, <<M(s, c, FALSE)>>, <<ij>>, mg, dn) :
        k \in {"do"}, s \in {0, 1}, c \in {"r", "w"}, ij \in {<<>>, <<"retry">>}, mg \in {{}, {1}}, dn \in {{}, {1}}}
    \cup {C("docache", <<M(s, "r", FALSE)>>, <<ij>>, mg, {}) : s \in {0, 1}, ij \in {<<>>, <<"retry">>}, mg \in {{}, {1}}}
    \cup {C("do", <<M(3, "r", FALSE)>>, <<<<>>>>, {}, {})}
    \cup {C("do", <<M(2, c, FALSE)>>, <<<<>>>>, {}, {}) : c \in {"r", "w"}}      \* slot 2 lives on c, the node that dies

\* batches: members over three slots, interleaved so that grouping by node reorders them
BatchCalls ==
    {C("multi", <<M(0, "r", FALSE), M(1, "w", FALSE), M(0, "w", FALSE), M(2, "r", FALSE)>>, ij, mg, dn) :
        ij \in {NoInj(4), <<<<"retry">>, <<>>, <<>>, <<>>>>, <<<<>>, <<>>, <<>>, <<"retry">>>>}, mg \in {{}, {3}, {1, 3}}, dn \in {{}, {1}}}
    \cup {C("multicache", <<M(0, "r", FALSE), M(1, "r", FALSE), M(0, "r", FALSE)>>, ij, mg, dn) :
        ij \in {NoInj(3), <<<<"retry">>, <<>>, <<>>>>}, mg \in {{}, {3}}, dn \in {{}, {1}}}

\* batches with one MULTI ... EXEC block (all keyed members in one slot, as _pickMulti demands)
TxCalls ==
    {C("multi", <<M(0, "r", FALSE), MUL, M(0, "w", FALSE), M(0, "r", FALSE), EXE>>, ij, mg, {}) :
        ij \in {NoInj(5), <<<<>>, <<>>, <<>>, <<"retry">>, <<>>>>}, mg \in {{}, {3}, {1}, {1, 4}}}
    \cup {C("multi", <<MUL, M(1, "w", FALSE), EXE, M(1, "r", FALSE)>>, NoInj(4), mg, {}) : mg \in {{}, {2}, {4}}}

\* replica routing: opted-in and not opted-in members
ReplCalls ==
    {C(k, <<M(s, c, o)>>, <<<<>>>>, {}, {}) : k \in {"do"}, s \in {0, 1, 2}, c \in {"r", "w"}, o \in BOOLEAN}
    \cup {C("docache", <<M(s, "r", o)>>, <<<<>>>>, {}, {}) : s \in {0, 1}, o \in BOOLEAN}
    \cup {C("multi", <<M(0, "r", TRUE), M(1, "r", FALSE), M(0, "w", FALSE), M(1, "r", TRUE)>>, NoInj(4), {}, {}),
          C("multicache", <<M(0, "r", TRUE), M(1, "r", FALSE), M(1, "r", TRUE)>>, NoInj(3), {}, {}),
          C("multi", <<MUL, M(0, "r", TRUE), EXE>>, NoInj(3), {}, {}),
          \* a block with a read and a write: on a ReplicaOnly client the replica serves the read and answers the write with MOVED
          C("multi", <<MUL, M(0, "r", FALSE), M(0, "w", FALSE), EXE>>, <<<<>>, <<"retry">>, <<>>, <<>>>>, {}, {}),
          C("multi", <<M(1, "r", TRUE), MUL, M(1, "w", FALSE), M(1, "r", FALSE), EXE>>, NoInj(5), {}, {})}

TwoCalls ==
    {C("do", <<M(0, c, FALSE)>>, <<<<>>>>, mg, {}) : c \in {"r", "w"}, mg \in {{}, {1}}}
    \cup {C("multi", <<M(0, "r", FALSE), M(1, "w", FALSE), M(0, "w", FALSE)>>, NoInj(3), mg, {}) : mg \in {{}, {3}}}
    \cup {C("do", <<M(3, "r", FALSE)>>, <<<<>>>>, {}, {})}

\* thorough, replica routing: two calls around a topology change, lazy refresh at any moment
ReplCalls2 ==
    {C("do", <<M(s, c, o)>>, <<<<>>>>, {}, {}) : s \in {0, 1}, c \in {"r"}, o \in BOOLEAN}
    \cup {C("do", <<M(0, "w", TRUE)>>, <<<<>>>>, {}, {}),
          C("multi", <<M(0, "r", TRUE), M(1, "r", FALSE), M(0, "w", FALSE), M(1, "r", TRUE)>>, NoInj(4), {}, {}),
          C("multicache", <<M(0, "r", TRUE), M(1, "r", FALSE), M(1, "r", TRUE)>>, NoInj(3), {}, {}),
          C("multi", <<MUL, M(0, "r", FALSE), M(0, "w", FALSE), EXE>>, <<<<>>, <<"retry">>, <<>>, <<>>>>, {}, {})}

\* thorough: two calls, two topology changes, the lazy refresh at any moment
ThoroughCalls ==
    TwoCalls
    \cup {C("multi", <<M(0, "r", FALSE), MUL, M(0, "w", FALSE), M(0, "r", FALSE), EXE>>, NoInj(5), mg, {}) : mg \in {{}, {3}}}
    \cup {C("multicache", <<M(0, "r", FALSE), M(1, "r", FALSE), M(0, "r", FALSE)>>, <<<<"retry">>, <<>>, <<>>>>, {3}, {1}),
          C("docache", <<M(0, "r", FALSE)>>, <<<<"retry">>>>, {1}, {})}

\* #14: one member answers LOADING and RetryDelay says no, another member is redirected
DeniedCalls ==
    {C("multi", <<M(1, "r", FALSE), M(0, "r", FALSE)>>, <<<<"retry">>, <<>>>>, {}, {1}),
     C("multicache", <<M(1, "r", FALSE), M(0, "r", FALSE)>>, <<<<"retry">>, <<>>>>, {}, {1})}

\* scenario generation: every finished behaviour is printed with the results Cluster.tla predicts for each call
GenDone == (ph = "idle" /\ calls = MaxCalls /\ ~lazy) => PrintT(<<"CASE", ToJson([opt |-> opt, script |-> script])>>)
GenCalls1 == SingleCalls \cup BatchCalls \cup TxCalls
=============================================================================
