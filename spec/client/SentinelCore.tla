---------------------------- MODULE SentinelCore ----------------------------
(* Observable core of the sentinel client of redis/rueidis (sentinel.go), property C23 and the sentinel part of C21.

   It talks only about facts that can be seen from outside the client:
     * what sentinels reported (replies to SENTINEL GET-MASTER-ADDR-BY-NAME / SENTINEL REPLICAS, pushes
       +switch-master / +reboot on the subscribed connection)                               -> Report
     * the life of one _switchTarget(addr, isMaster) call, reported by the `verif` hooks of sentinel.go
         sentinel.switch.begin   -> Begin       sentinel.switch.dial      -> Dial (a fresh connection is used)
         sentinel.switch.dialerr -> DialErr     sentinel.switch.roleerr   -> RoleErr
         sentinel.switch.wrongrole -> WrongRole sentinel.swap.begin/.end  -> SwapBegin / SwapEnd
     * what a data node answered to ROLE (server side)                                       -> RoleAns
     * which node received a user command (server side) and when the call began (driver)     -> Verdict

   The detailed model Sentinel.tla drives these actions from a model of _refresh / listWatch / the Pub/Sub handler
   and of the environment; SentinelTrace.tla drives them from a trace recorded from the real client.  The
   invariants are the same in both.

   Deliberate shape of the code that is modelled as it is:
     * verification is per address and per _switchTarget call: a node is asked ROLE once, the answer decides; the
       multiplexed connection re-dials the same address later without asking again;
     * when a re-verification of the installed connection fails (wrong role or ROLE error) the code closes that very
       connection and leaves it installed: calls fail with ErrClosing until a later switch succeeds;
     * with SendToReplicas the master and the replica are switched by two goroutines, and _refresh goes on to the
       next sentinel when the first of them fails, so several _switchTarget calls of one kind can overlap. *)
EXTENDS Routing, TLC

CONSTANTS Nodes,      \* data node addresses
          Mode,       \* "m": default client, "r": ReplicaOnly, "b": SendToReplicas is set
          Slots,      \* goroutines that can be inside _switchTarget at the same time
          MasterSet   \* ClientOption.Sentinel.MasterSet: the name of the master set this client follows

VARIABLES reported,   \* [Kinds -> SUBSET Nodes]  addresses sentinels reported as master / as replica not s_down
          att,        \* [Slots -> attempt]       the running _switchTarget calls
          cands,      \* [Kinds -> SUBSET Nodes]  addresses the installed connection (mConn / rConn) may point to, and be open
          okInst,     \* [Kinds -> SUBSET Nodes]  addresses whose latest installation was verified and reported
          denied,     \* [Kinds -> SUBSET Nodes]  addresses whose installed connection was closed after a failed re-verification
          swapping,   \* [Kinds -> SUBSET Slots]  calls between swap.begin and swap.end
          group,      \* [Kinds -> SUBSET Nodes]  addresses of the swaps that overlap the running ones
          lastSwap    \* monitor: the latest swap.begin

corev == <<reported, att, cands, okInst, denied, swapping, group, lastSwap>>

Kinds     == {"m", "r"}
Wanted(k) == IF k = "m" THEN "master" ELSE "slave"
FreeAtt   == [st |-> "free", k |-> "m", a |-> "", fresh |-> FALSE, ans |-> {}]
NoSwap    == [k |-> "m", a |-> "", verified |-> TRUE, reported |-> TRUE]

CoreInit == /\ reported = [k \in Kinds |-> {}]
            /\ att = [s \in Slots |-> FreeAtt]
            /\ cands = [k \in Kinds |-> {}] /\ okInst = [k \in Kinds |-> {}] /\ denied = [k \in Kinds |-> {}]
            /\ swapping = [k \in Kinds |-> {}] /\ group = [k \in Kinds |-> {}]
            /\ lastSwap = NoSwap

CoreTypeOK == /\ reported \in [Kinds -> SUBSET Nodes]
              /\ \A s \in Slots : /\ att[s].st \in {"free", "run", "swap"} /\ att[s].k \in Kinds
                                  /\ att[s].a \in Nodes \cup {""} /\ att[s].fresh \in BOOLEAN
                                  /\ att[s].ans \subseteq {"master", "slave", "other"}
              /\ cands \in [Kinds -> SUBSET Nodes] /\ okInst \in [Kinds -> SUBSET Nodes]
              /\ denied \in [Kinds -> SUBSET Nodes] /\ swapping \in [Kinds -> SUBSET Slots]
              /\ group \in [Kinds -> SUBSET Nodes]

\* ------------------------------------------------------------------------------------------ routing class (C21)
\* flags[i]: SendToReplicas(command i of the call); see Routing.tla
Cls(api, flags) == SentinelClass(Mode, api, flags)

\* ------------------------------------------------------------------------------------------ sentinel reports
\* One sentinel group monitors several master sets and publishes the events of all of them on the same channels; an
\* event (or reply) is a report about this client's master only when it carries exactly the client's master-set name.
\* (A name is whatever value the environment uses for it: a sequence of name parts in Sentinel.tla, so that prefix
\* relations between names can be expressed, the string itself in SentinelTrace.tla.  The rule is equality in both.)
Concerns(name) == name = MasterSet

Report(k, as) == /\ reported' = [reported EXCEPT ![k] = @ \cup as]
                 /\ UNCHANGED <<att, cands, okInst, denied, swapping, group, lastSwap>>

\* ------------------------------------------------------------------------------------------ _switchTarget
\* asg: function from the slots that begin to [k, a]                                     hook sentinel.switch.begin
Begin(asg) ==
    /\ \A s \in DOMAIN asg : att[s].st = "free"
    /\ att' = [s \in Slots |-> IF s \in DOMAIN asg
                               THEN [st |-> "run", k |-> asg[s].k, a |-> asg[s].a, fresh |-> FALSE, ans |-> {}]
                               ELSE att[s]]
    /\ UNCHANGED <<reported, cands, okInst, denied, swapping, group, lastSwap>>

\* the installed connection is not reused: a new one is made and dialed               hook sentinel.switch.dial
Dial(s) == /\ att[s].st = "run" /\ ~att[s].fresh
           /\ att' = [att EXCEPT ![s].fresh = TRUE]
           /\ UNCHANGED <<reported, cands, okInst, denied, swapping, group, lastSwap>>

\* node n answered a ROLE query of this client with r: every running call that targets n may be the one that asked
RoleAns(n, r) == /\ att' = [s \in Slots |-> IF att[s].st = "run" /\ att[s].a = n
                                            THEN [att[s] EXCEPT !.ans = @ \cup {r}] ELSE att[s]]
                 /\ UNCHANGED <<reported, cands, okInst, denied, swapping, group, lastSwap>>

\* the addresses that stay possible when the installed connection of kind k to a is closed
CloseInstalled(k, a) == (cands[k] \ {a}) \cup {att[x].a : x \in swapping[k]}

\* Dial failed: only a fresh connection is dialed                                     hook sentinel.switch.dialerr
DialErr(s) == /\ att[s].st = "run" /\ att[s].fresh
              /\ att' = [att EXCEPT ![s] = FreeAtt]
              /\ UNCHANGED <<reported, cands, okInst, denied, swapping, group, lastSwap>>

\* ROLE failed in transport; target.Close() -- closes the installed connection when it was reused
\*                                                                                     hook sentinel.switch.roleerr
RoleErr(s) == /\ att[s].st = "run"
              /\ LET k == att[s].k  a == att[s].a IN
                   cands' = IF att[s].fresh THEN cands ELSE [cands EXCEPT ![k] = CloseInstalled(k, a)]
              /\ att' = [att EXCEPT ![s] = FreeAtt]
              /\ UNCHANGED <<reported, okInst, denied, swapping, group, lastSwap>>

\* the node answered, but not with the wanted role; target.Close()                   hook sentinel.switch.wrongrole
WrongRole(s) == /\ att[s].st = "run"
                /\ LET k == att[s].k  a == att[s].a IN
                     /\ cands'  = IF att[s].fresh THEN cands  ELSE [cands EXCEPT ![k] = CloseInstalled(k, a)]
                     /\ denied' = IF att[s].fresh THEN denied ELSE [denied EXCEPT ![k] = @ \cup {a}]
                /\ att' = [att EXCEPT ![s] = FreeAtt]
                /\ UNCHANGED <<reported, okInst, swapping, group, lastSwap>>

\* the call is about to store the address and swap the connection in                 hook sentinel.swap.begin
\* (logged before the swap: from here on both the old and the new connection may be picked)
SwapBegin(s) ==
    /\ att[s].st = "run"
    /\ LET k == att[s].k  a == att[s].a
           v == Wanted(k) \in att[s].ans
           r == a \in reported[k] IN
         /\ lastSwap' = [k |-> k, a |-> a, verified |-> v, reported |-> r]
         /\ cands'  = [cands EXCEPT ![k] = @ \cup {a}]
         /\ okInst' = [okInst EXCEPT ![k] = IF v /\ r THEN @ \cup {a} ELSE @ \ {a}]
         /\ denied' = [denied EXCEPT ![k] = @ \ {a}]
         /\ group'  = [group EXCEPT ![k] = IF swapping[k] = {} THEN {a} ELSE @ \cup {a}]
         /\ swapping' = [swapping EXCEPT ![k] = @ \cup {s}]
    /\ att' = [att EXCEPT ![s].st = "swap"]
    /\ UNCHANGED reported

\* swapped, previous connection closed                                                hook sentinel.swap.end
\* (when swaps overlapped, any of their addresses may be the one that stayed)
SwapEnd(s) ==
    /\ att[s].st = "swap"
    /\ LET k == att[s].k IN
         /\ swapping' = [swapping EXCEPT ![k] = @ \ {s}]
         /\ cands' = [cands EXCEPT ![k] = IF swapping[k] = {s} THEN group[k] ELSE @]
    /\ att' = [att EXCEPT ![s] = FreeAtt]
    /\ UNCHANGED <<reported, okInst, denied, group, lastSwap>>

\* ------------------------------------------------------------------------------------------ user traffic
\* verdict on one user command of class k that reached node n; may / banned are the candidate and denied sets the
\* call could see (for a call that overlaps switches: accumulated from the moment the call began)
Verdict(k, n, may, banned) == [k |-> k, n |-> n, inMay |-> n \in may, inst |-> n \in okInst[k],
                               banned |-> n \in banned]
NoDel == [k |-> "m", n |-> "", inMay |-> TRUE, inst |-> TRUE, banned |-> FALSE]

\* ------------------------------------------------------------------------------------------ properties (C23)
\* a connection is only installed for an address that answered ROLE with the wanted role inside this very
\* _switchTarget call, and that a sentinel reported for this kind
SwapOnlyVerified == lastSwap.verified
SwapOnlyReported == lastSwap.reported

DelOK_Verified(d) == d.inst        \* TrafficOnlyToVerifiedRole
DelOK_Routed(d)   == d.inMay       \* traffic goes to the connection installed for its class (follows every switch)
DelOK_NotWrong(d) == ~d.banned     \* NoTrafficToWrongRole
=============================================================================
