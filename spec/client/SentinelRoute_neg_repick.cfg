SPECIFICATION SRouteSpec
CONSTANTS
  BugRepickRemainder = TRUE
INVARIANTS SentinelReplicaOnlyWhenOptedIn
CHECK_DEADLOCK FALSE
