SPECIFICATION Spec
CONSTANTS
  KindSet = {"single", "standalone", "sentinel", "dedicated", "cluster", "clusterbatch"}
  ClassSet = {"readonly", "retryable", "plain"}
  ShapeSet = {"one"}
  PathSet = {"sync", "pipelined"}
  MaxSends = 2
  MaxMoved = 0
  CtxKinds = {"none", "cancel", "deadline"}
  AllowExpiredSent = FALSE
  AllowBatchSibling = FALSE
  AllowTxResend = FALSE
  BugBatchAnyRetryable = FALSE
  BugSyncExpired = TRUE
  BugIgnoreRetryable = FALSE
  BugRetryErrReply = FALSE
  BugRetryAfterCtx = FALSE
  BugRetryAfterClose = FALSE
  GenMode = FALSE
INVARIANTS TypeOK AtMostOnceNonRetryable
CHECK_DEADLOCK FALSE
