SPECIFICATION RouteSpec
CONSTANTS
  MaxRep = 2
  BugPickIgnoresPredicate = FALSE
  BugBatchFirstOnly = FALSE
  BugOutOfRange = FALSE
  BugNoReplicaPanic = FALSE
INVARIANTS GenRoute
CHECK_DEADLOCK FALSE
