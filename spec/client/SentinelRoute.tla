----------------------------- MODULE SentinelRoute -----------------------------
(* The routing classes of the sentinel client (Routing.tla, sentinel part of C21) as cases for the driver: client mode
   x API x SendToReplicas value per command -> class of the node that must receive the call ("m" the verified master,
   "r" the verified replica). *)
EXTENDS Routing, TLC, Json

VARIABLES smode, api, flags
sroutev == <<smode, api, flags>>
SRouteInit == smode \in {"m", "r", "b"} /\ api \in Apis /\ flags \in FlagsOf(api)
SRouteSpec == SRouteInit /\ [][UNCHANGED sroutev]_sroutev
GenSRoute == PrintT(<<"CASE", ToJson([kind |-> "route", client |-> "sentinel", nrep |-> 2, redirect |-> FALSE, pred |-> smode = "b",
                                      sel |-> "none", az |-> FALSE, api |-> api, flags |-> flags, construct |-> "ok",
                                      optedin |-> SentinelClass(smode, api, flags) = "r",
                                      target |-> <<SentinelClass(smode, api, flags)>>, mode |-> smode])>>)
\* the class rule itself: replica class only for ReplicaOnly, or when every command of the call opted in
SentinelReplicaOnlyWhenOptedIn ==
    SentinelClass(smode, api, flags) = "r" => (smode = "r" \/ (smode = "b" /\ AllTrue(flags)))
=============================================================================
