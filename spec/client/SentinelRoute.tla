----------------------------- MODULE SentinelRoute -----------------------------
(* The routing classes of the sentinel client (Routing.tla, sentinel part of C21) as cases for the driver: client mode
   x API x SendToReplicas value per command -> class of the node that must receive the call ("m" the verified master,
   "r" the verified replica).

   Round 2: a call is not always one transmission.  With ClientOption.ConnLifetime the connection picked for a call
   can reach its lifetime while the call is in flight (`fault.kind = "expire"`): the replies of the first `after`
   commands arrived, the rest of the call comes back as errConnExpired and sentinel.go sends that rest again
   (Do / DoCache: the command itself).  A transport failure (`"cut"`) makes the retry handler send a retryable call
   again as a whole.  `Sends` lists every transmission of the call with the class of connection it goes to.  The rule
   (C21: "a batch goes to a replica only if SendToReplicas is true for every command in the batch") is about the call:
   the routing decision is made once, for all commands of the call, and every later transmission of a part of it stays
   in that class.  A read-only tail of a batch that did not opt in as a whole must not be re-routed to the replica
   (it would also lose read-your-writes inside one pipeline). *)
EXTENDS Routing, TLC, Json

CONSTANT BugRepickRemainder   \* the lifetime recovery picks the connection again, looking at the re-sent rest only

VARIABLES smode, api, flags,
          lft,      \* ConnLifetime is set
          fault     \* what happens to the first transmission: [kind: none | expire | cut, after: replies delivered before]
sroutev == <<smode, api, flags, lft, fault>>

Flags3 == {<<a, b, c>> : a \in BOOLEAN, b \in BOOLEAN, c \in BOOLEAN}
\* the calls that travel on the shared (pipelined) connection: the ones with a recovery path in sentinel.go
Pipelined(a) == a \in {"Do", "DoMulti", "DoCache", "DoMultiCache"}
NoFault == [kind |-> "none", after |-> 0]
FaultsOf(a, f) == IF ~Pipelined(a) THEN {NoFault}
                  ELSE {NoFault} \cup {[kind |-> "expire", after |-> k] : k \in 0..(Len(f) - 1)}
                       \cup (IF Len(f) <= 2 THEN {[kind |-> "cut", after |-> k] : k \in 0..(Len(f) - 1)} ELSE {})
\* batches of three commands (write prefix + read-only tail of two, ...) only where the predicate matters
LftFlagsOf(m, a) == FlagsOf(a) \cup (IF m = "b" /\ a \in {"DoMulti", "DoMultiCache"} THEN Flags3 ELSE {})

SRouteInit == /\ smode \in {"m", "r", "b"} /\ api \in Apis
              /\ \/ lft = FALSE /\ flags \in FlagsOf(api) /\ fault = NoFault
                 \/ lft = TRUE /\ Pipelined(api) /\ flags \in LftFlagsOf(smode, api) /\ fault \in FaultsOf(api, flags)
SRouteSpec == SRouteInit /\ [][UNCHANGED sroutev]_sroutev

\* ---- the transmissions of the call (sentinel.go Do / DoMulti / DoCache / DoMultiCache)
Rest(f, k) == SubSeq(f, k + 1, Len(f))
Class == SentinelClass(smode, api, flags)
Sends == IF fault.kind = "none" THEN <<[from |-> 1, cls |-> Class]>>
         ELSE IF fault.kind = "expire"
         THEN <<[from |-> 1, cls |-> Class],
                [from |-> fault.after + 1,
                 cls |-> IF BugRepickRemainder THEN SentinelClass(smode, api, Rest(flags, fault.after)) ELSE Class]>>
         ELSE <<[from |-> 1, cls |-> Class], [from |-> 1, cls |-> Class]>>   \* retried as a whole

OptedIn == smode = "r" \/ (smode = "b" /\ api # "Dedicated" /\ AllTrue(flags))

GenSRoute == PrintT(<<"CASE", ToJson([kind |-> "route", client |-> "sentinel", nrep |-> 2, redirect |-> FALSE, pred |-> smode = "b",
                                      sel |-> "none", az |-> FALSE, api |-> api, flags |-> flags, construct |-> "ok",
                                      optedin |-> OptedIn, target |-> <<Class>>, mode |-> smode,
                                      lft |-> lft, fault |-> fault.kind, after |-> fault.after, sends |-> Sends])>>)
\* the class rule itself: replica class only for ReplicaOnly, or when every command of the call opted in -- for
\* every transmission of the call or of a part of it
SentinelReplicaOnlyWhenOptedIn == \A i \in DOMAIN Sends : Sends[i].cls = "r" => OptedIn
\* a call is never split between the master and the replica connection
WholeCallOneClass == \A i \in DOMAIN Sends : Sends[i].cls = Class
=============================================================================
