SPECIFICATION Spec
CONSTANTS
  OptSet <- OptsPlain
  CallSet <- SingleCalls
  ChangeSet <- MoveChanges
  MaxCalls = 1
  MaxChanges = 1
  MaxGen = 3
  MaxAtt = 3
  EagerLazy = FALSE
  LazyMidCall = FALSE
  FixDenied = TRUE
  BugAskNoAsking = FALSE
  BugTxNoMulti = FALSE
  BugPredIgnored = FALSE
  BugNodeOrder = FALSE
  BugMovedIgnored = TRUE
  BugMaxOffByOne = FALSE
  BugSelClamp = FALSE
INVARIANTS TypeOK RedirectFollowed
CONSTRAINT GenBound
VIEW MCView
CHECK_DEADLOCK FALSE
