SPECIFICATION Spec
CONSTANTS
  OptSet <- OptsFail
  CallSet <- FailCalls2
  ChangeSet <- FailChanges
  MaxCalls = 2
  MaxChanges = 1
  MaxGen = 3
  MaxAtt = 3
  EagerLazy = FALSE
  LazyMidCall = FALSE
  FixDenied = TRUE
  BugAskNoAsking = FALSE
  BugTxNoMulti = FALSE
  BugPredIgnored = FALSE
  BugNodeOrder = FALSE
  BugMovedIgnored = FALSE
  BugMaxOffByOne = FALSE
  BugSelClamp = FALSE
  BugRefreshDropsInit = FALSE
  BugAskRunNoInit = FALSE
  BugPoolStale = FALSE
  BugStreamKeyless = FALSE
  BugPromoteReplica = TRUE
INVARIANTS TypeOK ReplicaOnlyWhenOptedIn
CONSTRAINT GenBound
CONSTRAINT FailFirst
VIEW MCView
CHECK_DEADLOCK FALSE
