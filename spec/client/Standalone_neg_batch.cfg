SPECIFICATION RouteSpec
CONSTANTS
  MaxRep = 2
  BugPickIgnoresPredicate = FALSE
  BugBatchFirstOnly = TRUE
  BugOutOfRange = FALSE
  BugNoReplicaPanic = FALSE
INVARIANTS ReplicaOnlyWhenOptedIn
CHECK_DEADLOCK FALSE
