SPECIFICATION Spec
CONSTANTS
  OptSet <- OptsPlain
  CallSet <- SingleCalls
  ChangeSet <- MoveChanges
  MaxCalls = 1
  MaxChanges = 1
  MaxGen = 3
  MaxAtt = 3
  EagerLazy = FALSE
  LazyMidCall = FALSE
  FixDenied = TRUE
  BugAskNoAsking = FALSE
  BugTxNoMulti = FALSE
  BugPredIgnored = FALSE
  BugNodeOrder = FALSE
  BugMovedIgnored = FALSE
  BugMaxOffByOne = TRUE
  BugSelClamp = FALSE
  BugRefreshDropsInit = FALSE
  BugAskRunNoInit = FALSE
  BugPoolStale = FALSE
  BugStreamKeyless = FALSE
  BugPromoteReplica = FALSE
INVARIANTS TypeOK BoundedRedirects
CONSTRAINT GenBound
VIEW MCView
CHECK_DEADLOCK FALSE
