SPECIFICATION Spec
CONSTANTS
  Nodes = {"n1", "n2", "n3"}
  Sentinels = {"s1", "s2"}
  InitList <- List2
  InitMaster = "n1"
  Mode = "m"
  Slots = {1}
  MaxEnv = 2
  MaxEvq = 2
  Views <- ViewsStale
  Heal = FALSE
  Record = FALSE
  BugNoRoleCheck = FALSE
  BugIgnoreSwitch = FALSE
  BugKeepOld = FALSE
  BugNoCloseWrong = FALSE
  BugAbsorb = FALSE
  BugInlineRefresh = FALSE
  BugPrefixMatch = FALSE
  BugAnySet = TRUE
  MasterSet <- Own
  SetNames <- NamesOtherOnly
INVARIANTS SwapOnlyReported
CHECK_DEADLOCK FALSE
