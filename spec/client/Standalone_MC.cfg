SPECIFICATION RouteSpec
CONSTANTS
  MaxRep = 2
  BugPickIgnoresPredicate = FALSE
  BugBatchFirstOnly = FALSE
  BugOutOfRange = FALSE
  BugNoReplicaPanic = FALSE
INVARIANTS ReplicaOnlyWhenOptedIn OutOfRangeFallsBackToPrimary NoReplicaMeansPrimary ImplWithinAllowed
CHECK_DEADLOCK FALSE
