SPECIFICATION RedirSpec
CONSTANTS
  BugRedirectReturned = FALSE
  Steps = 4
INVARIANTS RedirectFollowed ErrorOnlyWhenUnreachable GenRedir
CHECK_DEADLOCK FALSE
