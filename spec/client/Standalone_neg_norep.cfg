SPECIFICATION RouteSpec
CONSTANTS
  MaxRep = 2
  BugPickIgnoresPredicate = FALSE
  BugBatchFirstOnly = FALSE
  BugOutOfRange = FALSE
  BugNoReplicaPanic = TRUE
INVARIANTS NoReplicaMeansPrimary
CHECK_DEADLOCK FALSE
