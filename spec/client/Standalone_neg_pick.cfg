SPECIFICATION RouteSpec
CONSTANTS
  MaxRep = 2
  BugPickIgnoresPredicate = TRUE
  BugBatchFirstOnly = FALSE
  BugOutOfRange = FALSE
  BugNoReplicaPanic = FALSE
INVARIANTS ReplicaOnlyWhenOptedIn
CHECK_DEADLOCK FALSE
