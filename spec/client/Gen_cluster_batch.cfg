SPECIFICATION Spec
CONSTANTS
  OptSet <- OptsPlain
  CallSet <- BatchCalls
  ChangeSet <- AllChanges
  MaxCalls = 1
  MaxChanges = 1
  MaxGen = 3
  MaxAtt = 3
  EagerLazy = TRUE
  LazyMidCall = FALSE
  FixDenied = TRUE
  BugAskNoAsking = FALSE
  BugTxNoMulti = FALSE
  BugPredIgnored = FALSE
  BugNodeOrder = FALSE
  BugMovedIgnored = FALSE
  BugMaxOffByOne = FALSE
  BugSelClamp = FALSE
  BugRefreshDropsInit = FALSE
  BugAskRunNoInit = FALSE
  BugPoolStale = FALSE
  BugStreamKeyless = FALSE
  BugPromoteReplica = FALSE
INVARIANTS TypeOK RedirectFollowed AskingPrecedes BoundedRedirects ReachesOwner RetryHonoured BatchOrder TxContiguousOneNode TxResentWhole ReplicaOnlyWhenOptedIn OutOfRangeFallsBackToPrimary NoResendAfterDenied GenDone
CONSTRAINT GenBound
CHECK_DEADLOCK FALSE
