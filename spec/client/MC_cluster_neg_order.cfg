SPECIFICATION Spec
CONSTANTS
  OptSet <- OptsPlain
  CallSet <- BatchCalls
  ChangeSet <- NoChanges
  MaxCalls = 1
  MaxChanges = 1
  MaxGen = 3
  MaxAtt = 3
  EagerLazy = FALSE
  LazyMidCall = FALSE
  FixDenied = TRUE
  BugAskNoAsking = FALSE
  BugTxNoMulti = FALSE
  BugPredIgnored = FALSE
  BugNodeOrder = TRUE
  BugMovedIgnored = FALSE
  BugMaxOffByOne = FALSE
  BugSelClamp = FALSE
  BugRefreshDropsInit = FALSE
  BugAskRunNoInit = FALSE
  BugPoolStale = FALSE
  BugStreamKeyless = FALSE
  BugPromoteReplica = FALSE
INVARIANTS TypeOK BatchOrder
CONSTRAINT GenBound
VIEW MCView
CHECK_DEADLOCK FALSE
