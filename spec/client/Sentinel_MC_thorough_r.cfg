SPECIFICATION Spec
CONSTANTS
  Nodes = {"n1", "n2", "n3"}
  Sentinels = {"s1", "s2"}
  InitList <- List2
  InitMaster = "n1"
  Mode = "r"
  Slots = {1}
  MaxEnv = 2
  MaxEvq = 2
  Views <- ViewsWrong
  Heal = FALSE
  Record = FALSE
  BugNoRoleCheck = FALSE
  BugIgnoreSwitch = FALSE
  BugKeepOld = FALSE
  BugNoCloseWrong = FALSE
  BugAbsorb = FALSE
  BugInlineRefresh = FALSE
  BugPrefixMatch = FALSE
  BugAnySet = FALSE
  MasterSet <- Own
  SetNames <- NamesQuick
INVARIANTS TypeOK TrafficOnlyToVerifiedRole TrafficFollowsInstalled NoTrafficToWrongRole SwapOnlyVerified SwapOnlyReported CoreMatchesImpl SubscribedOrRefreshing RefreshNotStuck
CHECK_DEADLOCK FALSE
