--------------------------- MODULE ClusterTrace ---------------------------
(* Trace validation for Cluster.tla (properties C19, C20, C21-cluster).

   The trace is recorded from the REAL rueidis cluster client talking to a simulated cluster of fakeredis servers
   (harness/clustersim): every line is one event, logged under the dispatcher mutex of the node that produced it (all
   nodes share one sequence) or by the driver around its calls.

     RESET  a new client is created with the options in `opt`
     Topo   the nodes start to report topology version `ver` (trep: per representative slot the primary and its replicas)
     CL     node `node` answered CLUSTER SLOTS / CLUSTER SHARDS on connection `conn` with version `ver`
     Call   the driver is about to call Do / DoCache / DoMulti / DoMultiCache with the members `mem`
     X      node `node` received a command on connection `conn`: op (cmd / multi / exec / aux), the member id carried by
            the key, the connection's ASKING flag as Redis keeps it, and the reply the node gives (val, queued, ok, exec,
            abort, moved, ask, retry) with the redirect target
     Ret    the call returned `res`
     Down   the driver is about to kill node `node`

   What the client does between the events is not observable: applying a topology reply (any reply sent and not yet
   superseded may be applied at any later moment - lazyRefresh runs in the background), picking, doresultfn, the end of a
   round.  TLC places these as silent steps.  A recorded event that no action of Cluster.tla explains - a command on a
   node other than the one the learned topology / the redirect names, a missing or spurious ASKING, a broken
   transaction block, a result in the wrong position - rejects the trace. *)
EXTENDS Cluster, Json, IOUtils

VARIABLES l,         \* position in TraceLog
          reports,   \* version -> reported topology
          pend       \* topology replies sent and possibly not applied yet: <<position, version>>

TraceLog == ndJsonDeserialize(IOEnv.VERIF_TRACE)
tvars == <<vars, l, reports, pend>>
Ev == TraceLog[l]
Is(e) == l <= Len(TraceLog) /\ TraceLog[l].ev = e
Step == l' = l + 1
TSame == UNCHANGED <<reports, pend>>

ToRep(tr) == [s \in Slots |-> [p |-> tr[s + 1].p, rs |-> tr[s + 1].rs]]
NoMap == [s \in Slots |-> NoKey]

TraceInit ==
    /\ truth = [s \in Slots |-> None] /\ migr = [s \in Slots |-> None] /\ stale = NoStale
    /\ report = [s \in Slots |-> [p |-> None, rs |-> <<>>]] /\ down = {} /\ inj = <<>>
    /\ opt = [maxMoved |-> 0, mode |-> "none", selKind |-> "dflt", selIdx |-> 0, retryOn |-> TRUE] /\ lazy = FALSE
    /\ known = {} /\ gen = [n \in Node |-> 0] /\ ro = {} /\ wmap = NoMap /\ rgrp = [s \in Slots |-> <<>>] /\ rsel = NoMap
    /\ ph = "idle" /\ call = [kind |-> "do", mem |-> <<>>, inj |-> <<>>, migrated |-> {}, deny |-> {}]
    /\ pk = <<>> /\ pg = <<>> /\ cc0 = NoKey /\ todo = EmptyF /\ run = EmptyF /\ nextm = EmptyF /\ redirs = FALSE /\ rdelay = FALSE
    /\ redirects = 0 /\ attempts = 1 /\ res = <<>> /\ fresh = FALSE /\ hist = <<>> /\ nlog = EmptyF
    /\ calls = 0 /\ changes = 0 /\ script = <<>> /\ pool = 0
    /\ l = 1 /\ reports = EmptyF /\ pend = {} /\ TLCSet(1, 1)

TReset ==
    /\ Is("RESET") /\ Step
    /\ opt' = Ev.opt /\ lazy' = FALSE /\ down' = {}
    /\ known' = {} /\ gen' = [n \in Node |-> 0] /\ ro' = {} /\ wmap' = NoMap /\ rgrp' = [s \in Slots |-> <<>>] /\ rsel' = NoMap
    /\ ph' = "idle" /\ call' = [kind |-> "do", mem |-> <<>>, inj |-> <<>>, migrated |-> {}, deny |-> {}]
    /\ pk' = <<>> /\ pg' = <<>> /\ cc0' = NoKey /\ todo' = EmptyF /\ run' = EmptyF /\ nextm' = EmptyF /\ redirs' = FALSE /\ rdelay' = FALSE
    /\ redirects' = 0 /\ attempts' = 1 /\ res' = <<>> /\ fresh' = FALSE /\ hist' = <<>> /\ nlog' = EmptyF
    /\ reports' = EmptyF /\ pend' = {}
    /\ UNCHANGED <<truth, migr, stale, report, inj, calls, changes, script, pool>>

TTopo == /\ Is("Topo") /\ Step /\ reports' = Put(reports, Ev.ver, ToRep(Ev.trep)) /\ UNCHANGED <<vars, pend>>

\* a node answers CLUSTER SLOTS / SHARDS; the answer never falls into the middle of a pipelined sub-batch on that connection
TCL == /\ Is("CL") /\ Step
       /\ \A k \in DOMAIN run : (k[1] = Ev.node /\ run[k].conn = Ev.conn /\ ~Unordered)
                                   => (run[k].pp = {} \/ run[k].pp = 1..Len(run[k].lst))
       /\ pend' = pend \cup {<<l, Ev.ver>>} /\ UNCHANGED <<vars, reports>>

\* silent: _refresh installs the topology of one of the replies (replies older than the one installed are dead)
\* (only placed where the order matters: while the call picks, or right before a doresultfn step - it commutes with
\* everything else)
Apply == /\ \/ ph = "pick"
            \/ ph = "round" /\ \E k \in DOMAIN run : run[k].st \in {"c", "a"} /\ run[k].pp = {}
         /\ \E e \in pend :
              /\ e[2] \in DOMAIN reports
              /\ ApplyReport(reports[e[2]])
              /\ pend' = {x \in pend : x[1] > e[1]}
         /\ fresh' = (fresh \/ ph = "pick")
         /\ UNCHANGED <<envv, inj, opt, lazy, ph, call, pk, pg, cc0, todo, run, nextm, redirs, rdelay, redirects, attempts, res,
                        obsv, calls, changes, script, pool, l, reports>>

TCall == /\ Is("Call") /\ Step /\ TSame
         /\ Call([kind |-> Ev.kind, mem |-> Ev.mem, inj |-> [i \in 1..Len(Ev.mem) |-> <<>>], migrated |-> {}, deny |-> Range(Ev.deny)])

TX == /\ Is("X") /\ Ev.op # "aux" /\ Step /\ TSame
      /\ ph = "round"
      /\ \E k \in DOMAIN run :
           /\ k[1] = Ev.node /\ run[k].st \in {"c", "a"} /\ run[k].pp # {}
           /\ \E p \in (IF Unordered THEN run[k].pp ELSE {Min(run[k].pp)}) :
                LET e == run[k].w[p] IN
                /\ e.op = Ev.op /\ (Ev.op = "cmd" => e.i = Ev.id) /\ e.ask = Ev.ask
                /\ (Unordered \/ run[k].conn \in {0, Ev.conn})
                /\ Recv(k, p, [rep |-> Ev.rep, to |-> Ev.to], Ev.conn)
      /\ UNCHANGED <<envv, inj, opt, mapv, lazy, ph, call, pk, pg, cc0, todo, nextm, redirs, rdelay, redirects, attempts, res, fresh,
                     calls, changes, script, pool>>

\* ASKING, CLIENT CACHING YES and the PTTL / MULTI / EXEC wrapper of client side caching carry no routing decision
TAux == Is("X") /\ Ev.op = "aux" /\ Step /\ TSame /\ UNCHANGED vars

ResMatch(r, er) ==
    /\ Len(r) = Len(er)
    /\ \A i \in 1..Len(r) :
         /\ r[i].k = er[i].k
         /\ (r[i].k = "val" => r[i].n = er[i].n /\ r[i].id = er[i].id)
         /\ (r[i].k = "exec" => r[i].n = er[i].n /\ r[i].ids = er[i].ids)
         /\ (r[i].k \in {"moved", "ask"} => r[i].to = er[i].to)

TRet == /\ Is("Ret") /\ Step /\ TSame
        /\ ph = "done" /\ ResMatch(res, Ev.res)
        /\ ph' = "idle"
        /\ UNCHANGED <<envv, inj, opt, mapv, lazy, call, pk, pg, cc0, todo, run, nextm, redirs, rdelay, redirects, attempts, res, fresh,
                       obsv, calls, changes, script, pool>>

TDown == /\ Is("Down") /\ Step /\ TSame /\ down' = down \cup {Ev.node}
         /\ UNCHANGED <<truth, migr, stale, report, inj, opt, mapv, lazy, callv, obsv, calls, changes, script, pool>>

Silent == \/ Apply
          \/ /\ UNCHANGED <<l, reports, pend>>
             /\ \/ Pick \/ Resolve \/ RoundEnd
                \/ \E k \in DOMAIN run : Proc(k) \/ NetFail(k)

TraceNext == TReset \/ TTopo \/ TCL \/ TCall \/ TX \/ TAux \/ TRet \/ TDown \/ Silent

TraceSpec == TraceInit /\ [][TraceNext]_tvars

HighWater == TLCSet(1, IF l > TLCGet(1) THEN l ELSE TLCGet(1))
TraceAccepted == \/ TLCGet(1) = Len(TraceLog) + 1
                 \/ PrintT(<<"REJECTED-AT", TLCGet(1), TraceLog[TLCGet(1)]>>) /\ FALSE
TraceView == <<envv, inj, opt, mapv, callv, obsv, l, reports, pend>>
=============================================================================
