------------------------------- MODULE Retry -------------------------------
(* One call through the retry wrappers of redis/rueidis: singleClient.Do/DoMulti (client.go; also behind the standalone
   client, standalone.go), sentinelClient.Do/DoMulti (sentinel.go), dedicatedSingleClient.Do/DoMulti (client.go),
   clusterClient.do and clusterClient.DoMulti/doresultfn (cluster.go), with retryer.WaitOrSkipRetry (retry.go).
   Properties C28 and C03.

   The model is the wrappers' decision logic: after every attempt the server / the network / the connection lifetime
   timer produces an outcome; `Decide` is the code's choice between returning and sending again.  The policy the
   decisions are checked against is RetryPolicy.tla.  `executed` counts executions by the server.

   Shape of the call (`shape`):
     "one"    one command (Do).  For kind "clusterbatch": one member of a cluster DoMulti plus a read-only sibling that
              is redirected in the rounds the script says (the per-entry retry of doresultfn).
     "batch"  DoMulti of two commands, the tracked member (class `class`) followed by a partner (class `pclass`).  The
              single / standalone / sentinel / dedicated wrappers transmit and re-transmit the batch as a whole and may do so
              only when *every* member is retry-safe (allRetryable).
     "tx"     DoMulti of MULTI, member, partner, EXEC.  MULTI and EXEC are never retry-safe, so the non-cluster wrappers
              never retry the block; the cluster wrapper re-sends the whole block when a queued member was refused with
              MOVED / ASK (EXEC answered EXECABORT: nothing ran) and otherwise leaves it alone.
   Connection mode (`path`): "sync" = the request is written and its reply read by the caller itself (first caller on an idle
   connection); "pipelined" = queue + background reader (AlwaysPipelining, concurrent callers, cancel-only contexts).  It
   decides what a ConnLifetime expiry under a request in flight looks like: pipelined -> errConnExpired ("expired-sent", which
   every wrapper answers with a blind re-send: DESIGN.md section 7 #10); sync -> the I/O error of the closed socket
   ("expired-io", a transport error like any other).

   Code-version constants:
     AllowExpiredSent   TRUE = errConnExpired can be handed to a call whose request the server already executed
                        (pipelined connection, reply later than the 1 s Close grace; #10, proved possible by
                        spec/fault/Pipe.tla, MC_expiry_asis.cfg).  The code as it is: TRUE.
     AllowBatchSibling  TRUE = in clusterClient.DoMulti an entry whose RetryDelay was negative is sent again when a
                        sibling entry causes another round (#14, the pinned commit).  FALSE = the repaired doresultfn.
     AllowTxResend      TRUE = doresultfn treats a MULTI ... EXEC block whose MULTI was answered +OK as "redirectable" also
                        when a retry-safe member of the block failed with a network error, and re-sends the whole block.
     BugIgnoreRetryable, BugRetryErrReply, BugRetryAfterCtx, BugRetryAfterClose, BugBatchAnyRetryable (a batch is retried as
     soon as one member is retry-safe), BugSyncExpired (the synchronous path reports errConnExpired for a request in
     flight)   mutations (negative configs). *)
EXTENDS RetryPolicy, TLC, Json

CONSTANTS KindSet, ClassSet,        \* which wrappers / command classes to explore
          ShapeSet, PathSet,        \* subsets of {"one", "batch", "tx"} / {"sync", "pipelined"}
          MaxSends,                 \* bound on transmissions of the command
          MaxMoved,                 \* ClusterOption.MaxMovedRedirections (0 = unlimited)
          CtxKinds,                 \* subset of {"none", "cancel", "deadline"}
          AllowExpiredSent, AllowBatchSibling, AllowTxResend,
          BugIgnoreRetryable, BugRetryErrReply, BugRetryAfterCtx, BugRetryAfterClose, BugBatchAnyRetryable, BugSyncExpired,
          GenMode                   \* TRUE: contexts end / Close happens only right after a server outcome (scenario generation)

VARIABLES kind, class, disable, ctxKind, shape, pclass, path,     \* the scenario (chosen in Init)
          phase, sends, executed, last, result,                   \* the call
          attempts, redirects, just, resend, spins,
          ctxDone, closed, hist

scen == <<kind, class, disable, ctxKind, shape, pclass, path>>
vars == <<kind, class, disable, ctxKind, shape, pclass, path, phase, sends, executed, last, result, attempts, redirects, just,
          resend, spins, ctxDone, closed, hist>>

NONE == [prev |-> "none"]
RedisErrors == {"errreply"} \cup LoadingLike \cup Redirects
NonRedisErrors == Transport \cup Local \cup ExpiredOut

\* which shapes a wrapper has: clusterClient.do is one command; the cluster DoMulti member always has company
ShapesOf(k) == IF k = "cluster" THEN {"one"} ELSE IF k = "clusterbatch" THEN {"one", "tx"} ELSE {"one", "batch", "tx"}
ClusterTx == kind = "clusterbatch" /\ shape = "tx"
\* the members travel (and are re-transmitted) together and are executed together
Together == shape = "tx" \/ (shape = "batch" /\ kind \notin ClusterKinds)

Init == /\ kind \in KindSet /\ class \in ClassSet /\ disable \in BOOLEAN /\ ctxKind \in CtxKinds
        /\ shape \in ShapeSet \cap ShapesOf(kind)
        /\ pclass \in (IF Together THEN ClassSet ELSE {"readonly"})        \* (the cluster batch sibling is a GET)
        /\ path \in PathSet
        /\ ctxKind = "cancel" => path = "pipelined"                        \* pipe.Do: a cancel-only context starts the pipeline
        /\ phase = "send" /\ sends = 0 /\ executed = 0 /\ last = "none" /\ result = "none"
        /\ attempts = 1 /\ redirects = 0 /\ just = NONE /\ resend = NONE /\ spins = 0
        /\ ctxDone = FALSE /\ closed = FALSE /\ hist = <<>>

\* what the server side can do with one transmission
Expiries == (IF kind # "dedicated" THEN {"expired-unsent"} ELSE {})
            \cup (IF AllowExpiredSent /\ kind # "dedicated" /\ path = "pipelined" THEN {"expired-sent"} ELSE {})
            \cup (IF kind # "dedicated" /\ path = "sync" THEN {"expired-io"} ELSE {})
ServerOutcomes ==
    IF ClusterTx
    THEN {"ok", "errreply", "MOVED", "ASK", "cut-before-exec", "cut-after-exec", "cut-mid-reply"}
         \* (a refused block -- LOADING etc. at queueing time -- and lifetime expiry inside a block are not modelled)
    ELSE ((Replies \cup LoadingLike \cup Redirects \cup Transport) \ ({"expired-io"} \cup (IF shape = "tx" THEN {"nil"} ELSE {})))
         \cup Expiries             \* (inside a block a member is answered QUEUED or refused: no nil)

\* conn.Do(ctx, cmd): pipe.Do returns ctx.Err() at once for a done context, the mux's dead wire ErrClosing after Close
Send == /\ phase = "send"
        /\ GenMode => Len(hist) <= MaxSends                \* generated scripts stay short
        /\ IF ctxDone THEN /\ last' = "ctxdone" /\ UNCHANGED <<sends, executed, resend>>
           ELSE IF closed THEN /\ last' = "closing" /\ UNCHANGED <<sends, executed, resend>>
           ELSE /\ sends < MaxSends
                /\ \E o \in ServerOutcomes :
                     /\ last' = o
                     /\ sends' = IF o = "expired-unsent" THEN sends ELSE sends + 1
                     /\ executed' = executed + (IF Executes(o) THEN 1 ELSE 0)
                /\ resend' = IF just # NONE /\ sends > 0 THEN just ELSE resend      \* the latest re-send's justification
        /\ phase' = "decide" /\ just' = NONE
        /\ UNCHANGED <<scen, result, attempts, redirects, spins, ctxDone, closed, hist>>

\* environment: the caller's context ends / the caller closes the client
\* scenario generation places them where the driver can place them deterministically: a context ends while the server
\* holds the request (before it answers) or inside the RetryDelay callback; Close is called inside the RetryDelay callback
InCallback == phase = "send" /\ just # NONE /\ just.verdict \in {"zero", "pos"}
CtxEnd == /\ ctxKind # "none" /\ ~ctxDone /\ phase # "done" /\ ctxDone' = TRUE
          /\ GenMode => ((phase = "decide" /\ last \notin Local \cup ExpiredOut \cup {"expired-io"}) \/ InCallback)
          /\ UNCHANGED <<scen, phase, sends, executed, last, result, attempts, redirects, just, resend, spins, closed, hist>>
\* (a dedicated client keeps its own wire, which Client.Close() does not touch until the wire is given back: Close of the
\*  parent client is not an event of a dedicated call)
Close == /\ ~closed /\ phase # "done" /\ closed' = TRUE /\ kind # "dedicated"
         /\ GenMode => InCallback
         /\ UNCHANGED <<scen, phase, sends, executed, last, result, attempts, redirects, just, resend, spins, ctxDone, hist>>

MemberSafe == class \in SafeClasses
\* allRetryable(multi): every member of the batch; MULTI and EXEC are neither read-only nor retryable
AllSafe == MemberSafe /\ (shape = "one" \/ (shape = "batch" /\ pclass \in SafeClasses))
AnySafe == MemberSafe \/ (shape # "one" /\ pclass \in SafeClasses)
Safe == \/ BugIgnoreRetryable
        \/ IF kind \in ClusterKinds THEN MemberSafe                  \* doresultfn decides entry by entry
           ELSE IF BugBatchAnyRetryable THEN AnySafe ELSE AllSafe
CtxLive == ~ctxDone \/ BugRetryAfterCtx
NotStopped == ~closed \/ BugRetryAfterClose
\* singleClient.isRetryable / sentinelClient.isRetryable (err, ctx)
IsRetryableErr == /\ last \notin {"ok", "nil"} /\ NotStopped /\ CtxLive
                  /\ last \in RedisErrors => (last = "LOADING" \/ (BugRetryErrReply /\ last = "errreply"))
\* isRetryable(err, w, ctx) of the dedicated client: a wire that carries an error is never retried on
IsRetryableDedicated == /\ last \notin {"ok", "nil"} /\ last \notin Transport /\ last # "closing" /\ CtxLive
                        /\ last \in RedisErrors => (last = "LOADING" \/ (BugRetryErrReply /\ last = "errreply"))
\* clusterClient.shouldRefreshRetry(err, ctx)
ClusterMode == IF last \in {"ok", "nil"} \/ ~NotStopped THEN "none"
               ELSE IF last = "MOVED" THEN "move" ELSE IF last = "ASK" THEN "ask"
               ELSE IF last \in LoadingLike THEN "retry"
               ELSE IF last = "errreply" /\ BugRetryErrReply THEN "retry"
               ELSE IF last \in RedisErrors THEN "none"
               ELSE IF CtxLive THEN "retry" ELSE "none"
\* what the wrappers take for errConnExpired ("the request was not sent, use a new connection")
LooksExpired == last \in ExpiredOut \/ (BugSyncExpired /\ last = "expired-io")

J(v) == [kind |-> kind, class |-> class, disable |-> disable, prev |-> last, verdict |-> v, ctx |-> ctxDone, closed |-> closed]
H(v, soon, sib, d) == [o |-> last, v |-> v, soon |-> soon, sib |-> sib, ctx |-> ctxDone, closed |-> closed, d |-> d]

Log(h) == IF GenMode THEN Append(hist, h) ELSE hist       \* the script is only kept for scenario generation
Again(v, soon, sib, consulted) ==
    /\ phase' = "send" /\ just' = J(v)
    /\ attempts' = IF consulted THEN attempts + 1 ELSE attempts
    /\ spins' = IF last \in Local THEN spins + 1 ELSE spins
    /\ hist' = Log(H(v, soon, sib, "again"))
    /\ UNCHANGED <<result, redirects>>
Return(v, soon, sib) ==
    /\ phase' = "done" /\ result' = last /\ just' = NONE
    /\ hist' = Log(H(v, soon, sib, "return"))
    /\ UNCHANGED <<attempts, spins, redirects>>
\* retryer.WaitOrSkipRetry: delay == 0 -> retry; delay > 0 -> retry unless the deadline comes first; delay < 0 -> no
\* (in a batch the failing members are asked one after the other until one says yes: one consultation round per attempt)
Consult == \E v \in {"neg", "zero", "pos"} : \E soon \in BOOLEAN :
              /\ soon => (v = "pos" /\ ctxKind = "deadline")
              /\ IF v = "zero" \/ (v = "pos" /\ ~soon) THEN Again(v, soon, FALSE, TRUE) ELSE Return(v, soon, FALSE)

DecideSingle ==     \* singleClient.Do/DoMulti, sentinelClient.Do/DoMulti; standalone.Do/DoMulti wrap singleClient's
    IF LooksExpired THEN Again("none", FALSE, FALSE, FALSE)                  \* if err == errConnExpired { goto retry } / recover:
    ELSE IF ~disable /\ Safe /\ IsRetryableErr THEN Consult
    ELSE IF kind = "standalone" /\ last = "REDIRECT" THEN Again("none", FALSE, FALSE, FALSE)   \* handleRedirect
    ELSE Return("none", FALSE, FALSE)
DecideDedicated ==
    IF ~disable /\ Safe /\ IsRetryableDedicated THEN Consult ELSE Return("none", FALSE, FALSE)
Redirected ==
    /\ redirects' = redirects + 1
    /\ IF MaxMoved > 0 /\ redirects + 1 > MaxMoved
       THEN /\ phase' = "done" /\ result' = last /\ just' = NONE /\ hist' = Log(H("none", FALSE, FALSE, "return"))
            /\ UNCHANGED <<attempts, spins>>
       ELSE /\ phase' = "send" /\ just' = J("none") /\ hist' = Log(H("none", FALSE, FALSE, "again"))
            /\ UNCHANGED <<attempts, spins, result>>
DecideCluster ==    \* clusterClient.do
    IF LooksExpired THEN Again("none", FALSE, FALSE, FALSE)
    ELSE IF ClusterMode \in {"move", "ask"} THEN Redirected
    ELSE IF ClusterMode = "retry" /\ ~disable /\ Safe THEN Consult
    ELSE Return("none", FALSE, FALSE)
DecideBatch ==      \* one entry of clusterClient.DoMulti: doretry / doresultfn, then the round decision of DoMulti
    IF LooksExpired THEN Again("none", FALSE, FALSE, FALSE)
    ELSE IF ClusterMode \in {"move", "ask"} THEN Redirected
    ELSE IF ClusterMode = "retry" /\ ~disable /\ Safe THEN
         \E v \in {"neg", "zero", "pos"} : \E sib \in BOOLEAN :      \* sib: a sibling entry causes another round
            /\ IF (sib /\ AllowBatchSibling) \/ v \in {"zero", "pos"} THEN Again(v, FALSE, sib, TRUE) ELSE Return(v, FALSE, sib)
    ELSE Return("none", FALSE, FALSE)
\* a MULTI ... EXEC block in clusterClient.DoMulti: doresultfn asks RetryDelay for every retry-safe member that failed with
\* a retryable error, but a block is only ever sent again as a whole, and only because a member was refused with MOVED / ASK
DecideTx ==
    IF ClusterMode \in {"move", "ask"} THEN Redirected
    ELSE IF ClusterMode = "retry" /\ ~disable /\ (AnySafe \/ BugIgnoreRetryable) THEN
         \E v \in {"neg", "zero", "pos"} :
            \* (as-is variant: the block counts as redirectable once MULTI's +OK was read -- a reply cut in the middle)
            IF AllowTxResend /\ v \in {"zero", "pos"} /\ last = "cut-mid-reply"
            THEN Again(v, FALSE, FALSE, FALSE) ELSE Return(v, FALSE, FALSE)
    ELSE Return("none", FALSE, FALSE)

Decide == /\ phase = "decide"
          /\ CASE kind \in {"single", "sentinel", "standalone"} -> DecideSingle
               [] kind = "dedicated" -> DecideDedicated
               [] kind = "cluster" -> DecideCluster
               [] kind = "clusterbatch" /\ shape = "one" -> DecideBatch
               [] ClusterTx -> DecideTx
          /\ UNCHANGED <<scen, sends, executed, last, resend, ctxDone, closed>>

Next == Send \/ Decide \/ CtxEnd \/ Close
Spec == Init /\ [][Next]_vars

\* ------------------------------------------------------------------------------------------ properties
TypeOK == /\ kind \in Kinds /\ class \in Classes /\ pclass \in Classes /\ phase \in {"send", "decide", "done"}
          /\ shape \in {"one", "batch", "tx"} /\ path \in {"sync", "pipelined"}
          /\ last \in Outcomes \cup {"none"} /\ sends \in 0..MaxSends /\ executed \in 0..MaxSends
\* every re-send passes through `resend`, so checking the latest one in every state checks all of them; a re-send of
\* members that travel together is a re-send of each of them, to be justified for each of them with its own class
AllResends(P(_)) == resend # NONE => /\ P(resend)
                                     /\ Together => P([resend EXCEPT !.class = pclass])
InvRetryOnlyWhenSafe      == AllResends(RetryOnlyWhenSafe)
InvWithinPolicy           == AllResends(WithinPolicy)
InvNoRetryAfterCtxOrClose == AllResends(NoRetryAfterCtxOrClose)
\* an ordinary reply ends the call and is what the call returns
PlainRepliesReturnedAsIs  == /\ AllResends(PlainRepliesFinal)
                             /\ phase = "done" => result = last
\* a done context or a closed client never keeps the wrapper looping (nothing would be sent, the call would spin)
NoSpin == spins <= 1
\* C03: MOVED / ASK / REDIRECT replies are not executions, every other re-send of a non-retryable command is excluded
\* (for members that travel together one execution of the transmission is an execution of each of them)
AnyPlain == class = "plain" \/ (Together /\ pclass = "plain")
AtMostOnceNonRetryable == AnyPlain => executed <= 1

\* ------------------------------------------------------------------------------------------ scenario generation
\* every finished call is one scenario: the inputs, the outcome script, and what the specification predicts
\* (a reply stream cut in the middle of a batch: the tracked member's own reply may have been delivered)
Results == {result} \cup (IF ctxDone THEN {"ctxdone"} ELSE {}) \cup (IF closed THEN {"closing"} \cup Transport ELSE {})
           \cup (IF shape # "one" /\ result = "cut-mid-reply" THEN {"ok"} ELSE {})
GenCase == phase = "done" =>
             PrintT(<<"CASE", ToJson([kind |-> kind, class |-> class, disable |-> disable, ctxKind |-> ctxKind,
                                      shape |-> shape, pclass |-> pclass, path |-> path,
                                      script |-> hist, sends |-> sends, executed |-> executed,
                                      results |-> Results, resent |-> (resend # NONE)])>>)
=============================================================================
