------------------------------- MODULE Retry -------------------------------
(* One call (one command; for "clusterbatch" one member of a DoMulti batch) through the retry wrappers of
   redis/rueidis: singleClient.Do (client.go; also behind the standalone client, standalone.go), sentinelClient.Do
   (sentinel.go), dedicatedSingleClient.Do (client.go), clusterClient.do and clusterClient.DoMulti/doresultfn
   (cluster.go), with retryer.WaitOrSkipRetry (retry.go).  Properties C28 and C03.

   The model is the wrappers' decision logic: after every attempt the server / the network / the connection lifetime
   timer produces an outcome; `Decide` is the code's choice between returning and sending again.  The policy the
   decisions are checked against is RetryPolicy.tla.  `executed` counts executions by the server.

   Code-version constants:
     AllowExpiredSent   TRUE = errConnExpired can be handed to a call whose request the server already executed
                        (pipelined connection, reply later than the 1 s Close grace; DESIGN.md section 7 #10, proved
                        possible by spec/pipe/Pipe.tla, MC_expiry_asis.cfg).  The code as it is: TRUE.
     AllowBatchSibling  TRUE = in clusterClient.DoMulti an entry whose RetryDelay was negative is sent again when a
                        sibling entry causes another round (DESIGN.md section 7 #14, the pinned commit).  FALSE = the
                        repaired doresultfn/resultcachefn.
     BugIgnoreRetryable, BugRetryErrReply, BugRetryAfterCtx, BugRetryAfterClose   mutations (negative configs). *)
EXTENDS RetryPolicy, TLC, Json

CONSTANTS KindSet, ClassSet,        \* which wrappers / command classes to explore
          MaxSends,                 \* bound on transmissions of the command
          MaxMoved,                 \* ClusterOption.MaxMovedRedirections (0 = unlimited)
          CtxKinds,                 \* subset of {"none", "cancel", "deadline"}
          AllowExpiredSent, AllowBatchSibling,
          BugIgnoreRetryable, BugRetryErrReply, BugRetryAfterCtx, BugRetryAfterClose,
          GenMode                   \* TRUE: contexts end / Close happens only right after a server outcome (scenario generation)

VARIABLES kind, class, disable, ctxKind,            \* the scenario (chosen in Init)
          phase, sends, executed, last, result,     \* the call
          attempts, redirects, just, resend, spins,
          ctxDone, closed, hist

vars == <<kind, class, disable, ctxKind, phase, sends, executed, last, result, attempts, redirects, just, resend,
          spins, ctxDone, closed, hist>>

NONE == [prev |-> "none"]
RedisErrors == {"errreply"} \cup LoadingLike \cup Redirects
NonRedisErrors == Transport \cup Local \cup ExpiredOut

Init == /\ kind \in KindSet /\ class \in ClassSet /\ disable \in BOOLEAN /\ ctxKind \in CtxKinds
        /\ phase = "send" /\ sends = 0 /\ executed = 0 /\ last = "none" /\ result = "none"
        /\ attempts = 1 /\ redirects = 0 /\ just = NONE /\ resend = NONE /\ spins = 0
        /\ ctxDone = FALSE /\ closed = FALSE /\ hist = <<>>

\* what the server side can do with one transmission
ServerOutcomes == Replies \cup LoadingLike \cup Redirects \cup Transport
                  \cup (IF kind # "dedicated" THEN {"expired-unsent"} ELSE {})
                  \cup (IF AllowExpiredSent /\ kind # "dedicated" THEN {"expired-sent"} ELSE {})

\* conn.Do(ctx, cmd): pipe.Do returns ctx.Err() at once for a done context, the mux's dead wire ErrClosing after Close
Send == /\ phase = "send"
        /\ GenMode => Len(hist) <= MaxSends                \* generated scripts stay short
        /\ IF ctxDone THEN /\ last' = "ctxdone" /\ UNCHANGED <<sends, executed, resend>>
           ELSE IF closed THEN /\ last' = "closing" /\ UNCHANGED <<sends, executed, resend>>
           ELSE /\ sends < MaxSends
                /\ \E o \in ServerOutcomes :
                     /\ last' = o
                     /\ sends' = IF o = "expired-unsent" THEN sends ELSE sends + 1
                     /\ executed' = executed + (IF Executes(o) THEN 1 ELSE 0)
                /\ resend' = IF just # NONE /\ sends > 0 THEN just ELSE resend      \* the latest re-send's justification
        /\ phase' = "decide" /\ just' = NONE
        /\ UNCHANGED <<kind, class, disable, ctxKind, result, attempts, redirects, spins, ctxDone, closed, hist>>

\* environment: the caller's context ends / the caller closes the client
\* scenario generation places them where the driver can place them deterministically: a context ends while the server
\* holds the request (before it answers) or inside the RetryDelay callback; Close is called inside the RetryDelay callback
InCallback == phase = "send" /\ just # NONE /\ just.verdict \in {"zero", "pos"}
CtxEnd == /\ ctxKind # "none" /\ ~ctxDone /\ phase # "done" /\ ctxDone' = TRUE
          /\ GenMode => ((phase = "decide" /\ last \notin Local \cup ExpiredOut) \/ InCallback)
          /\ UNCHANGED <<kind, class, disable, ctxKind, phase, sends, executed, last, result, attempts, redirects, just,
                         resend, spins, closed, hist>>
\* (a dedicated client keeps its own wire, which Client.Close() does not touch until the wire is given back: Close of the
\*  parent client is not an event of a dedicated call)
Close == /\ ~closed /\ phase # "done" /\ closed' = TRUE /\ kind # "dedicated"
         /\ GenMode => InCallback
         /\ UNCHANGED <<kind, class, disable, ctxKind, phase, sends, executed, last, result, attempts, redirects, just,
                        resend, spins, ctxDone, hist>>

Safe == class \in SafeClasses \/ BugIgnoreRetryable
CtxLive == ~ctxDone \/ BugRetryAfterCtx
NotStopped == ~closed \/ BugRetryAfterClose
\* singleClient.isRetryable / sentinelClient.isRetryable (err, ctx)
IsRetryableErr == /\ last \notin {"ok", "nil"} /\ NotStopped /\ CtxLive
                  /\ last \in RedisErrors => (last = "LOADING" \/ (BugRetryErrReply /\ last = "errreply"))
\* isRetryable(err, w, ctx) of the dedicated client: a wire that carries an error is never retried on
IsRetryableDedicated == /\ last \notin {"ok", "nil"} /\ last \notin Transport /\ last # "closing" /\ CtxLive
                        /\ last \in RedisErrors => (last = "LOADING" \/ (BugRetryErrReply /\ last = "errreply"))
\* clusterClient.shouldRefreshRetry(err, ctx)
ClusterMode == IF last \in {"ok", "nil"} \/ ~NotStopped THEN "none"
               ELSE IF last = "MOVED" THEN "move" ELSE IF last = "ASK" THEN "ask"
               ELSE IF last \in LoadingLike THEN "retry"
               ELSE IF last = "errreply" /\ BugRetryErrReply THEN "retry"
               ELSE IF last \in RedisErrors THEN "none"
               ELSE IF CtxLive THEN "retry" ELSE "none"

J(v) == [kind |-> kind, class |-> class, disable |-> disable, prev |-> last, verdict |-> v, ctx |-> ctxDone, closed |-> closed]
H(v, soon, sib, d) == [o |-> last, v |-> v, soon |-> soon, sib |-> sib, ctx |-> ctxDone, closed |-> closed, d |-> d]

Log(h) == IF GenMode THEN Append(hist, h) ELSE hist       \* the script is only kept for scenario generation
Again(v, soon, sib, consulted) ==
    /\ phase' = "send" /\ just' = J(v)
    /\ attempts' = IF consulted THEN attempts + 1 ELSE attempts
    /\ spins' = IF last \in Local THEN spins + 1 ELSE spins
    /\ hist' = Log(H(v, soon, sib, "again"))
    /\ UNCHANGED <<result, redirects>>
Return(v, soon, sib) ==
    /\ phase' = "done" /\ result' = last /\ just' = NONE
    /\ hist' = Log(H(v, soon, sib, "return"))
    /\ UNCHANGED <<attempts, spins, redirects>>
\* retryer.WaitOrSkipRetry: delay == 0 -> retry; delay > 0 -> retry unless the deadline comes first; delay < 0 -> no
Consult == \E v \in {"neg", "zero", "pos"} : \E soon \in BOOLEAN :
              /\ soon => (v = "pos" /\ ctxKind = "deadline")
              /\ IF v = "zero" \/ (v = "pos" /\ ~soon) THEN Again(v, soon, FALSE, TRUE) ELSE Return(v, soon, FALSE)

DecideSingle ==     \* singleClient.Do, sentinelClient.Do; standalone.Do wraps singleClient.Do
    IF last \in ExpiredOut THEN Again("none", FALSE, FALSE, FALSE)                  \* if err == errConnExpired { goto retry }
    ELSE IF ~disable /\ Safe /\ IsRetryableErr THEN Consult
    ELSE IF kind = "standalone" /\ last = "REDIRECT" THEN Again("none", FALSE, FALSE, FALSE)   \* handleRedirect
    ELSE Return("none", FALSE, FALSE)
DecideDedicated ==
    IF ~disable /\ Safe /\ IsRetryableDedicated THEN Consult ELSE Return("none", FALSE, FALSE)
Redirected ==
    /\ redirects' = redirects + 1
    /\ IF MaxMoved > 0 /\ redirects + 1 > MaxMoved
       THEN /\ phase' = "done" /\ result' = last /\ just' = NONE /\ hist' = Log(H("none", FALSE, FALSE, "return"))
            /\ UNCHANGED <<attempts, spins>>
       ELSE /\ phase' = "send" /\ just' = J("none") /\ hist' = Log(H("none", FALSE, FALSE, "again"))
            /\ UNCHANGED <<attempts, spins, result>>
DecideCluster ==    \* clusterClient.do
    IF last \in ExpiredOut THEN Again("none", FALSE, FALSE, FALSE)
    ELSE IF ClusterMode \in {"move", "ask"} THEN Redirected
    ELSE IF ClusterMode = "retry" /\ ~disable /\ Safe THEN Consult
    ELSE Return("none", FALSE, FALSE)
DecideBatch ==      \* one entry of clusterClient.DoMulti: doretry / doresultfn, then the round decision of DoMulti
    IF last \in ExpiredOut THEN Again("none", FALSE, FALSE, FALSE)
    ELSE IF ClusterMode \in {"move", "ask"} THEN Redirected
    ELSE IF ClusterMode = "retry" /\ ~disable /\ Safe THEN
         \E v \in {"neg", "zero", "pos"} : \E sib \in BOOLEAN :      \* sib: a sibling entry causes another round
            /\ IF (sib /\ AllowBatchSibling) \/ v \in {"zero", "pos"} THEN Again(v, FALSE, sib, TRUE) ELSE Return(v, FALSE, sib)
    ELSE Return("none", FALSE, FALSE)

Decide == /\ phase = "decide"
          /\ CASE kind \in {"single", "sentinel", "standalone"} -> DecideSingle
               [] kind = "dedicated" -> DecideDedicated
               [] kind = "cluster" -> DecideCluster
               [] kind = "clusterbatch" -> DecideBatch
          /\ UNCHANGED <<kind, class, disable, ctxKind, sends, executed, last, resend, ctxDone, closed>>

Next == Send \/ Decide \/ CtxEnd \/ Close
Spec == Init /\ [][Next]_vars

\* ------------------------------------------------------------------------------------------ properties
TypeOK == /\ kind \in Kinds /\ class \in Classes /\ phase \in {"send", "decide", "done"}
          /\ last \in Outcomes \cup {"none"} /\ sends \in 0..MaxSends /\ executed \in 0..MaxSends
\* every re-send passes through `resend`, so checking the latest one in every state checks all of them
AllResends(P(_)) == resend # NONE => P(resend)
InvRetryOnlyWhenSafe      == AllResends(RetryOnlyWhenSafe)
InvWithinPolicy           == AllResends(WithinPolicy)
InvNoRetryAfterCtxOrClose == AllResends(NoRetryAfterCtxOrClose)
\* an ordinary reply ends the call and is what the call returns
PlainRepliesReturnedAsIs  == /\ AllResends(PlainRepliesFinal)
                             /\ phase = "done" => result = last
\* a done context or a closed client never keeps the wrapper looping (nothing would be sent, the call would spin)
NoSpin == spins <= 1
\* C03: MOVED / ASK / REDIRECT replies are not executions, every other re-send of a non-retryable command is excluded
AtMostOnceNonRetryable == class = "plain" => executed <= 1

\* ------------------------------------------------------------------------------------------ scenario generation
\* every finished call is one scenario: the inputs, the outcome script, and what the specification predicts
Results == {result} \cup (IF ctxDone THEN {"ctxdone"} ELSE {}) \cup (IF closed THEN {"closing"} \cup Transport ELSE {})
GenCase == phase = "done" =>
             PrintT(<<"CASE", ToJson([kind |-> kind, class |-> class, disable |-> disable, ctxKind |-> ctxKind,
                                      script |-> hist, sends |-> sends, executed |-> executed,
                                      results |-> Results, resent |-> (resend # NONE)])>>)
=============================================================================
