#!/usr/bin/env python3
"""Developer helper: run TLC on a module/config of spec/client through lib/vlib.py (scratch directory handled there).
usage: run_tlc.py Module cfg [workers] [tail-lines] [extra tlc args...]"""
import os, sys
sys.path.insert(0, os.path.join(os.path.dirname(os.path.abspath(__file__)), '..', '..'))
from lib import vlib

mod, cfg = sys.argv[1], sys.argv[2]
workers = int(sys.argv[3]) if len(sys.argv) > 3 else 8
tail = int(sys.argv[4]) if len(sys.argv) > 4 else 40
extra = sys.argv[5:]
env = {}
if os.environ.get('VERIF_TRACE'):
    env['VERIF_TRACE'] = os.environ['VERIF_TRACE']
r = vlib.tlc('client', mod, cfg, workers=workers, timeout=int(os.environ.get('TLC_TIMEOUT', '900')), extra=extra, env=env,
             collect_cases=bool(os.environ.get('CASES')))
print('\n'.join(r.output.splitlines()[-tail:]))
print(r.summary(), 'cases=%d' % len(r.cases))
