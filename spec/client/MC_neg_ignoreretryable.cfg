SPECIFICATION Spec
CONSTANTS
  KindSet = {"single", "standalone", "sentinel", "dedicated", "cluster", "clusterbatch"}
  ClassSet = {"readonly", "retryable", "plain"}
  MaxSends = 3
  MaxMoved = 0
  CtxKinds = {"none", "cancel", "deadline"}
  AllowExpiredSent = FALSE
  AllowBatchSibling = FALSE
  BugIgnoreRetryable = TRUE
  BugRetryErrReply = FALSE
  BugRetryAfterCtx = FALSE
  BugRetryAfterClose = FALSE
  GenMode = FALSE
INVARIANTS TypeOK InvRetryOnlyWhenSafe
CHECK_DEADLOCK FALSE
