SPECIFICATION Spec
CONSTANTS
  KindSet = {"single", "standalone", "sentinel", "dedicated", "cluster", "clusterbatch"}
  ClassSet = {"readonly", "retryable", "plain"}
  ShapeSet = {"one"}
  PathSet = {"sync", "pipelined"}
  MaxSends = 3
  MaxMoved = 0
  CtxKinds = {"none", "cancel", "deadline"}
  AllowExpiredSent = FALSE
  AllowBatchSibling = FALSE
  AllowTxResend = FALSE
  BugBatchAnyRetryable = FALSE
  BugSyncExpired = FALSE
  BugIgnoreRetryable = TRUE
  BugRetryErrReply = FALSE
  BugRetryAfterCtx = FALSE
  BugRetryAfterClose = FALSE
  GenMode = FALSE
INVARIANTS TypeOK InvRetryOnlyWhenSafe
CHECK_DEADLOCK FALSE
