----------------------------- MODULE RetryTrace -----------------------------
(* Observable specification for traces of the real client recorded by harness/cmd/faultdrv -mode retry
   (properties C28 and C03).  One JSON object per line:

     RESET       a new scenario (ck = its name, n = its ordinal); several runs are concatenated
     Call        id, cls (command class), ck (client kind), dis (DisableRetry), v (shape of the call: "one" | "batch" | "tx"),
                 val (for batches: "mixed" when retry-safe and other members travel together, else "uniform").  Every member
                 of a DoMulti is a call of its own here, with its own id and class: it is judged on its own
     Sync        the client is about to write request id itself on the synchronous path (hook pipe.sync of pipe.syncDo /
                 syncDoMulti, logged before the write): the next transmission of id is not pipelined
     SRecv       a server received the request id on connection conn   (the n-th SRecv of an id is its n-th transmission)
     SExec       a server executed it
     SRep        a server queued the reply (kind, val) to it
     SRepHeld    a server produced the reply but keeps it (the scenario's stalled server): the client cannot have seen it
     SBreak      connection conn ended: kind = "cut" | "midreply" (server side) | "clientclose" (the client closed it)
     Delay       the client consulted RetryDelay for id (n = attempts, kind = error class, v = verdict)
     CancelBegin/CancelEnd   the context of call id is being / has been ended.  The driver ends contexts only from inside the
                 server's intercept (before the outcome of the pending attempt is produced) or from inside the RetryDelay
                 callback, so a CancelEnd is causally before every later decision of that call
     CloseBegin/CloseEnd     client.Close() called from inside the RetryDelay callback (same causality argument)
     Ret         the call id returned (kind, val);  Hang: it had not returned after 25 s

   The module is deterministic: every line has exactly one successor state, so TLC simply walks the trace.  For every
   re-send it builds the justification record of RetryPolicy.tla from what the servers saw and evaluates the policy
   predicates; a failed predicate is reported as a VERDICT line (the run continues, so one pass lists every finding).
   Acceptance (POSTCONDITION): the whole trace was consumed. *)
EXTENDS RetryPolicy, TLC, Json, IOUtils

VARIABLES l, scn, calls, closeBegun, closed, anyBreak

TraceLog == ndJsonDeserialize(IOEnv.VERIF_TRACE)
tvars == <<l, scn, calls, closeBegun, closed, anyBreak>>
Ev == TraceLog[l]
Is(e) == l <= Len(TraceLog) /\ TraceLog[l].ev = e
Known == Ev.id \in DOMAIN calls

ReplyKinds == Replies \cup LoadingLike \cup Redirects
\* the policy-relevant class of the previous attempt's outcome.  "pending": the client abandoned a connection on which
\* the request was still unanswered and the server has not noticed the close yet -- the expiry re-send seen early.
\* A connection the client closes under a request in flight hands errConnExpired to a pipelined request ("expired-sent")
\* and the I/O error of the closed socket to a request on the synchronous path ("expired-io", a transport error).
ClosedUnder(c) == IF c.path = "sync" THEN "expired-io" ELSE "expired-sent"
PrevOf(c) == IF c.last = "pending" THEN ClosedUnder(c) ELSE c.last
Verdict(what, c, detail) ==
   PrintT(<<"VERDICT", ToJson([scn |-> scn, what |-> what, kind |-> c.ck, class |-> c.cls, disable |-> c.dis,
                               prev |-> PrevOf(c), cause |-> (IF c.culprit # "none" THEN c.culprit ELSE c.cause), verdict |-> c.verdict, sends |-> c.sends, execs |-> c.execs,
                               shape |-> c.shape, mix |-> c.mix, path |-> c.cpath, detail |-> detail, line |-> l])>>)
\* (IF, not \/: TLC would evaluate both disjuncts of an action-level disjunction)
Check(ok, what, c, detail) == IF ok THEN TRUE ELSE Verdict(what, c, detail)

NewCall == [cls |-> Ev.cls, ck |-> Ev.ck, dis |-> Ev.dis, sends |-> 0, execs |-> 0, execNow |-> FALSE,
            conn |-> 0, last |-> "none", lastVal |-> "", verdict |-> "none", cause |-> "none", culprit |-> "none",
            ctxBegun |-> FALSE, ctxEnded |-> FALSE, broke |-> FALSE, afterEnd |-> 0, ret |-> FALSE,
            shape |-> Ev.v, mix |-> Ev.val,
            grp |-> IF Ev.v = "one" THEN 0 ELSE Ev.n,   \* members of one DoMulti that are transmitted together
            repKind |-> "none",                        \* the reply queued to the latest transmission (lastVal: its value)
            syncNext |-> FALSE, path |-> "none",     \* connection mode of the latest transmission
            cpath |-> "none"]                        \* ... of the transmission that preceded the first re-send after an execution

Just(c) == [kind |-> c.ck, class |-> c.cls, disable |-> c.dis, prev |-> PrevOf(c), verdict |-> c.verdict,
            ctx |-> c.ctxEnded, closed |-> closed]

TraceInit == l = 1 /\ scn = "" /\ calls = <<>> /\ closeBegun = FALSE /\ closed = FALSE /\ anyBreak = FALSE /\ TLCSet(1, 1)

Step == l' = l + 1
Same == UNCHANGED <<scn, calls, closeBegun, closed, anyBreak>>
Upd(id, c) == calls' = [calls EXCEPT ![id] = c]

Reset == /\ Is("RESET") /\ Step /\ scn' = Ev.ck /\ calls' = <<>> /\ closeBegun' = FALSE /\ closed' = FALSE /\ anyBreak' = FALSE
Call == /\ Is("Call") /\ Step /\ calls' = (Ev.id :> NewCall) @@ calls /\ UNCHANGED <<scn, closeBegun, closed, anyBreak>>

SRecv == /\ Is("SRecv") /\ Step
         /\ IF ~Known THEN Same
            ELSE LET c == calls[Ev.id] r == Just(c)
                     cv == [c EXCEPT !.cpath = c.path]       \* (reported with the mode of the transmission that `prev` ended)
                 IN
                 /\ c.sends >= 1 =>
                      /\ Check(RetryOnlyWhenSafe(r), "resend-not-permitted pred=RetryOnlyWhenSafe", cv, "")
                      /\ Check(WithinPolicy(r), "resend-not-permitted pred=WithinPolicy", cv, "")
                      /\ Check(NoRetryAfterCtxOrClose(r), "resend-not-permitted pred=NoRetryAfterCtxOrClose", cv,
                               IF r.closed THEN "closed" ELSE "ctx")
                      /\ Check(PlainRepliesFinal(r), "resend-not-permitted pred=PlainRepliesFinal", cv, "")
                 /\ Upd(Ev.id, [c EXCEPT !.sends = @ + 1, !.conn = Ev.conn, !.last = "pending", !.lastVal = "", !.repKind = "none",
                                         !.verdict = "none", !.execNow = FALSE,
                                         !.path = IF c.syncNext THEN "sync" ELSE "pipelined", !.syncNext = FALSE,
                                         !.cpath = IF c.culprit = "none" THEN c.path ELSE c.cpath,
                                         !.cause = IF c.sends >= 1 THEN PrevOf(c) ELSE "none",     \* why this transmission happened
                                         \* the first re-send made although the server had already executed the request
                                         !.culprit = IF c.culprit = "none" /\ c.execs >= 1 THEN PrevOf(c) ELSE c.culprit])
                 /\ UNCHANGED <<scn, closeBegun, closed, anyBreak>>
SExec == /\ Is("SExec") /\ Step
         /\ IF ~Known THEN Same
            ELSE LET c == calls[Ev.id] IN
                 /\ Check(c.cls # "plain" \/ c.execs = 0, "exec-twice", c, "")           \* C03 AtMostOnceNonRetryable
                 /\ Upd(Ev.id, [c EXCEPT !.execs = @ + 1, !.execNow = TRUE])
                 /\ UNCHANGED <<scn, closeBegun, closed, anyBreak>>
SRep == /\ Is("SRep") /\ Step
        /\ IF ~Known THEN Same
           ELSE /\ Upd(Ev.id, [calls[Ev.id] EXCEPT !.last = Ev.kind, !.lastVal = Ev.val, !.repKind = Ev.kind])
                /\ UNCHANGED <<scn, closeBegun, closed, anyBreak>>
\* a connection ended: every unreturned call whose latest transmission went over it has lost that attempt
\* (a connection the client closes after the server has answered the attempt -- the old connection of a standalone client
\*  that follows a REDIRECT, a connection retired by the sentinel client -- does not change the outcome of that attempt)
BreakOutcome(c) == IF Ev.kind = "clientclose" THEN (IF c.last = "pending" THEN ClosedUnder(c) ELSE c.last)
                   ELSE IF Ev.kind = "midreply" THEN "cut-mid-reply"
                   ELSE IF c.last = "pending" THEN (IF c.execNow THEN "cut-after-exec" ELSE "cut-before-exec")
                   ELSE "cut-mid-reply"
SBreak == /\ Is("SBreak") /\ Step /\ anyBreak' = TRUE
          /\ calls' = [id \in DOMAIN calls |->
                         IF calls[id].conn = Ev.conn /\ ~calls[id].ret /\ calls[id].sends > 0
                         THEN [calls[id] EXCEPT !.last = BreakOutcome(calls[id]), !.broke = TRUE] ELSE calls[id]]
          /\ UNCHANGED <<scn, closeBegun, closed>>
Delay == /\ Is("Delay") /\ Step
         /\ IF ~Known THEN Same
            ELSE LET c == calls[Ev.id]
                     n == IF c.ctxEnded \/ closed THEN c.afterEnd + 1 ELSE c.afterEnd IN
                 \* C28/C05: a done context or a closed client must not keep the wrapper asking for another attempt
                 /\ Check(n < 3, "retry-spin-after-ctx-or-close", c, IF closed THEN "closed" ELSE "ctx")
                 \* the members of a batch that is transmitted as a whole are asked about one after the other until
                 \* RetryDelay says yes to one of them: that verdict is the verdict of the round, for each member
                 /\ calls' = [id \in DOMAIN calls |->
                                IF id = Ev.id THEN [c EXCEPT !.verdict = Ev.v, !.afterEnd = n]
                                ELSE IF c.grp # 0 /\ calls[id].grp = c.grp THEN [calls[id] EXCEPT !.verdict = Ev.v]
                                ELSE calls[id]]
                 /\ UNCHANGED <<scn, closeBegun, closed, anyBreak>>
SyncEv == /\ Is("Sync") /\ Step
          /\ IF Known THEN Upd(Ev.id, [calls[Ev.id] EXCEPT !.syncNext = TRUE]) ELSE UNCHANGED calls
          /\ UNCHANGED <<scn, closeBegun, closed, anyBreak>>
CancelBegin == /\ Is("CancelBegin") /\ Step
               /\ IF Known THEN Upd(Ev.id, [calls[Ev.id] EXCEPT !.ctxBegun = TRUE]) ELSE UNCHANGED calls
               /\ UNCHANGED <<scn, closeBegun, closed, anyBreak>>
CancelEnd == /\ Is("CancelEnd") /\ Step
             /\ IF Known THEN Upd(Ev.id, [calls[Ev.id] EXCEPT !.ctxEnded = TRUE]) ELSE UNCHANGED calls
             /\ UNCHANGED <<scn, closeBegun, closed, anyBreak>>
CloseBegin == Is("CloseBegin") /\ Step /\ closeBegun' = TRUE /\ UNCHANGED <<scn, calls, closed, anyBreak>>
CloseEnd == Is("CloseEnd") /\ Step /\ closed' = TRUE /\ UNCHANGED <<scn, calls, closeBegun, anyBreak>>
\* C28 PlainRepliesReturnedAsIs: what the call returns is the last reply, unchanged; a local error needs its cause
Ret == /\ Is("Ret") /\ Step
       /\ IF ~Known THEN Same
          ELSE LET c == calls[Ev.id] IN
               \* (the reply of the latest transmission, also when the connection broke after it had been delivered: the
               \*  first member of a batch whose second reply was cut)
               /\ Check(CASE Ev.kind \in ReplyKinds -> c.repKind = Ev.kind /\ c.lastVal = Ev.val
                          [] Ev.kind = "ctx"     -> c.ctxBegun
                          \* ErrClosing also reaches callers whose connection the client itself replaced (sentinel
                          \* switch-over, expired or redirected connections), not only after Close()
                          [] Ev.kind = "closing" -> closeBegun \/ c.broke \/ anyBreak
                          [] Ev.kind \in {"neterr", "expired"} -> c.broke \/ anyBreak
                          [] OTHER -> FALSE,
                        "result-not-as-replied", c, Ev.kind)
               /\ Upd(Ev.id, [c EXCEPT !.ret = TRUE])
               /\ UNCHANGED <<scn, closeBegun, closed, anyBreak>>
Hang == /\ Is("Hang") /\ Step
        /\ IF Known THEN Check(FALSE, "call-did-not-return", calls[Ev.id], "") ELSE TRUE
        /\ Same
Other == /\ l <= Len(TraceLog)
         /\ Ev.ev \notin {"RESET", "Call", "SRecv", "SExec", "SRep", "SBreak", "Delay", "Sync", "CancelBegin", "CancelEnd",
                          "CloseBegin", "CloseEnd", "Ret", "Hang"}       \* (SRepHeld: not an outcome the client can know)
         /\ Step /\ Same

TraceNext == Reset \/ Call \/ SRecv \/ SExec \/ SRep \/ SBreak \/ Delay \/ SyncEv \/ CancelBegin \/ CancelEnd \/ CloseBegin \/ CloseEnd
             \/ Ret \/ Hang \/ Other
TraceSpec == TraceInit /\ [][TraceNext]_tvars

HighWater == TLCSet(1, IF l > TLCGet(1) THEN l ELSE TLCGet(1))
TraceAccepted == \/ TLCGet(1) = Len(TraceLog) + 1
                 \/ PrintT(<<"REJECTED-AT", TLCGet(1), TraceLog[TLCGet(1)]>>) /\ FALSE
=============================================================================
