SPECIFICATION Spec
CONSTANTS
  MaxDev = 1
  NRandom = 0
  FaultKinds = {"err"}
  Topos = {"single"}
  SrvKinds = {"v7", "nohello", "proto2"}
  Emit = FALSE
  BugDropSelectR2 = FALSE
  BugAuthLate = FALSE
  BugTolerateNoEvict = FALSE
  BugFallbackAnyHelloErr = TRUE
  ErrTexts = "one"
  StrictHelloStep = FALSE
  BugMixCreds = FALSE
  BugNopermFallback = FALSE
INVARIANTS TypeOK AuthLeadsResp2 AuthAsSupplied NoUserCommandBeforeSetup ServedOnlyWhenConfigured FallbackOnlyOnHelloRejected NoFallbackWithCache
  FailedStepFailsConnection ToleratedOnly NoCacheOnlyWithCacheOrClient CleanRunSucceeds OldServerWorksWithoutCache
CHECK_DEADLOCK FALSE
