SPECIFICATION Spec
CONSTANTS
  OptSet <- OptsPlain
  CallSet <- TxCalls
  ChangeSet <- AllChanges
  MaxCalls = 1
  MaxChanges = 1
  MaxGen = 3
  MaxAtt = 3
  EagerLazy = FALSE
  LazyMidCall = FALSE
  FixDenied = TRUE
  BugAskNoAsking = FALSE
  BugTxNoMulti = FALSE
  BugPredIgnored = FALSE
  BugNodeOrder = FALSE
  BugMovedIgnored = FALSE
  BugMaxOffByOne = FALSE
  BugSelClamp = FALSE
  BugRefreshDropsInit = FALSE
  BugAskRunNoInit = FALSE
  BugPoolStale = FALSE
  BugStreamKeyless = FALSE
  BugPromoteReplica = FALSE
  MidBatchLoss <- ConstTRUE
INVARIANTS TypeOK RedirectFollowed AskingPrecedes BoundedRedirects ReachesOwner RetryHonoured BatchOrder TxContiguousOneNode TxResentWhole ReplicaOnlyWhenOptedIn OutOfRangeFallsBackToPrimary NoResendAfterDenied
CONSTRAINT GenBound
VIEW MCView
CHECK_DEADLOCK FALSE
