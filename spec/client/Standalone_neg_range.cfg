SPECIFICATION RouteSpec
CONSTANTS
  MaxRep = 2
  BugPickIgnoresPredicate = FALSE
  BugBatchFirstOnly = FALSE
  BugOutOfRange = TRUE
  BugNoReplicaPanic = FALSE
INVARIANTS OutOfRangeFallsBackToPrimary
CHECK_DEADLOCK FALSE
