SPECIFICATION Spec
CONSTANTS
  MaxDev = 1
  NRandom = 0
  FaultKinds = {"err"}
  Topos = {"single"}
  SrvKinds = {"v7", "nohello", "proto2"}
  Emit = FALSE
  BugDropSelectR2 = FALSE
  BugAuthLate = FALSE
  BugTolerateNoEvict = FALSE
  BugFallbackAnyHelloErr = FALSE
  ErrTexts = "rotate"
  StrictHelloStep = FALSE
  BugMixCreds = FALSE
  BugNopermFallback = TRUE
INVARIANTS TypeOK FallbackOnlyOnHelloRejected
CHECK_DEADLOCK FALSE
