------------------------------- MODULE Setup -------------------------------
(* Connection setup of redis/rueidis: a transcription of pipe.go `_newPipe` (the setup state machine every new
   connection runs before it is handed to anybody), of sentinel.go `newSentinelOpt` and of the way the clients
   (single / standalone-with-redirect / cluster / sentinel) open their first connection and the extra connection a
   blocking command, a stream or a RESP2 SUBSCRIBE needs (property C47).

   One behaviour = one CASE: an option record, a server kind, at most one injected fault and one user command.
   The server side is an explicit environment model (session state per connection, reply class per command), the
   client side is one action per protocol step of `_newPipe`:

     Begin      dial, AuthCredentialsFn
     Send3      the RESP3 list goes out as ONE pipelined batch (so every command of it reaches the server even
                when an early one fails)
     Chk3       one iteration of the reply loop (AsMap / ToString / Error, READONLY tolerated, noHello -> r2,
                CLIENT error -> ErrNoCache, errors ignored once r2 is set, the last two CLIENT SETINFO unchecked)
     Post3      `proto < 3 -> r2`, RESP3 done or ErrNoCache or fall back
     Send2/Chk2 the RESP2 list and its reply loop
     Ready      post-setup traffic of the client (CLUSTER SLOTS, ROLE), next connection or the user command
     Abort      p.Close() of a failed connection (sends PING through the queue when it can)

   Deliberate oddities of the code are kept: a NOPROTO answer fails the connection (no fall-back); after HELLO was
   rejected every non-CLIENT error of the RESP3 batch is ignored but a CLIENT error still fails with ErrNoCache;
   AuthCredentialsFn overrides the sentinel credentials; the sentinel connection inherits the tracking options.

   Round 2 (strengthening): credentials are explicit <<user, password>> pairs; an option record carries BOTH the static
   credentials (`cred`, `scred`) and the result class of AuthCredentialsFn (`dcred`: off / empty pair / password only /
   user+password / user only; the provider answers per address, so the sentinel connection gets its own pair), the
   server model checks every AUTH against the one pair the property allows (`WantPair`: the provider's result replaces
   the static pair as a whole) and `AuthAsSupplied` states it.  An injected error reply now has a TEXT (`fault.txt`):
   generic ERR, NOPERM, NOAUTH, LOADING, READONLY, WRONGPASS, "unknown command '<the command itself>'" and "unknown
   command 'HELLO'" aimed at non-HELLO steps.  The client model knows two classes only - "unk" (the text names HELLO
   as unknown) and "err" (anything else) - which IS the rule: whatever the text, a failing checked step fails the
   connection.  Known oddity kept as it is (`OddHelloText`): the code matches the "unknown command HELLO" text at every
   step, not only at the HELLO step; with StrictHelloStep = TRUE the invariants stop excusing it (the two MC_setup_known_hellotext configs).

   TLC enumerates the cases (option records within MaxDev single-field changes of four base records plus NRandom random ones),
   checks the invariants on every intermediate state and, with Emit, prints one CASE record per finished behaviour:
   inputs + the per-connection command log, session state and outcome the specification predicts.  The driver
   harness/cmd/sessiondrv replays every record against the real client over fakeredis. *)
EXTENDS Integers, Sequences, FiniteSets, TLC, Json, Randomization

CONSTANTS MaxDev, NRandom, FaultKinds, Topos, SrvKinds, Emit,
          BugDropSelectR2,        \* SELECT missing in the RESP2 list
          BugAuthLate,            \* RESP2 list sends AUTH after the other setup commands
          BugTolerateNoEvict,     \* a CLIENT NO-EVICT error is skipped like a READONLY error
          BugFallbackAnyHelloErr, \* any error reply to HELLO 3 switches to RESP2
          ErrTexts,               \* "one": generic text only | "rotate": one text per (step, record), all texts for base records
          StrictHelloStep,        \* TRUE: the invariants do not excuse the "unknown command HELLO" text at other steps
          BugMixCreds,            \* AuthCredentialsFn overrides the static user / password field by field, only when non-empty
          BugNopermFallback       \* a NOPERM reply is taken for a rejected HELLO at whatever step it arrives

VARIABLES cs,      \* the case: [o, srv, ucmd]
          fault,   \* the one fault of the case, chosen when the step it hits is reached (NoFault = none so far)
          slot,    \* connection being set up / last set up: "S1" sentinel, "M1" first data connection, "M2" extra
          pc,
          log,     \* slot -> commands the server received on that connection, in order
          sess,    \* slot -> server-side session state
          batch, reps, i,
          r2,      \* the r2 flag of _newPipe
          info,    \* proto entry of p.info: 0 (no map), 2, 3
          out,     \* slot -> "none" | "ok3" | "ok2" | "fail" | "nocache"
          hrej,    \* history: slots whose HELLO 3 was answered "unknown command"
          bad,     \* history: slot -> set of <<phase, index, class>> of error replies seen by the client
          hit,     \* history: the fault fired
          served,  \* slot that served the user command ("" = none)
          result   \* "" | "ok" | "newclient-fail" | "newclient-nocache" | "cmd-fail" | "cmd-nocache"

vars == <<cs, fault, slot, pc, log, sess, batch, reps, i, r2, info, out, hrej, bad, hit, served, result>>

Slots == {"S1", "M1", "M2"}
NoFault == [slot |-> "", step |-> -1, kind |-> "none", txt |-> ""]

\* ------------------------------------------------------------------------------------------------ options
Base1 == [cred |-> "none", dcred |-> "off", name |-> "", db |-> 0, cache |-> "default", ro |-> FALSE,
          notouch |-> FALSE, noevict |-> FALSE, setinfo |-> "nil", r2 |-> FALSE, az |-> "off", topo |-> "single",
          scred |-> "none", sname |-> ""]
Base2 == [Base1 EXCEPT !.cache = "off"]
\* two "rich" records so that single deviations also probe the interplay of many settings
Base3 == [Base1 EXCEPT !.topo = "sentinel", !.cred = "pass", !.db = 3, !.name = "cn", !.scred = "spass", !.sname = "sn",
                       !.cache = "off"]
\* (static user+password AND a provider that supplies a password only: the two must not be mixed)
Base4 == [Base1 EXCEPT !.topo = "redirect", !.cred = "userpass", !.dcred = "pass", !.db = 3, !.name = "cn", !.cache = "off",
                       !.ro = TRUE, !.notouch = TRUE, !.noevict = TRUE, !.setinfo = "two", !.az = "info"]
Bases == {b \in {Base1, Base2, Base3, Base4} : b.topo \in Topos}
Fields == DOMAIN Base1

DomF == [cred |-> {"none", "pass", "userpass", "useronly"}, dcred |-> {"off", "empty", "pass", "userpass", "useronly"}, name |-> {"", "cn"}, db |-> {0, 3},
         cache |-> {"default", "custom", "bcast", "off"}, ro |-> BOOLEAN, notouch |-> BOOLEAN, noevict |-> BOOLEAN,
         setinfo |-> {"nil", "two", "other"}, r2 |-> BOOLEAN, az |-> {"off", "enable", "info"}, topo |-> Topos,
         scred |-> {"none", "spass"}, sname |-> {"", "sn"}]
FV == UNION {{<<f, v>> : v \in DomF[f]} : f \in Fields}

\* ReplicaOnly is refused by the single client and means "talk to replicas" for sentinel: READONLY is only reachable
\* through the standalone (EnableRedirect) and cluster clients; sentinel sub-options only exist for sentinel
ValidOpt(o) == /\ (o.ro => o.topo \in {"redirect", "cluster"})
               /\ (o.topo # "sentinel" => o.scred = "none" /\ o.sname = "")
               /\ o.topo \in Topos
\* records within MaxDev single-field changes of a base record
Vary(S) == S \cup {[o EXCEPT ![p[1]] = p[2]] : o \in S, p \in FV}
RECURSIVE VaryN(_, _)
VaryN(S, n) == IF n = 0 THEN S ELSE VaryN(Vary(S), n - 1)
\* random records of the full product, repaired to satisfy ValidOpt (seeded by TLC's -seed)
Repair(o) == LET o1 == IF o.topo \in {"redirect", "cluster"} THEN o ELSE [o EXCEPT !.ro = FALSE]
             IN IF o1.topo = "sentinel" THEN o1 ELSE [o1 EXCEPT !.scred = "none", !.sname = ""]
Rand == {Repair([f \in Fields |-> RandomElement(DomF[f])]) : n \in 1..NRandom}
Opts == {o \in VaryN(Bases, MaxDev) \cup Rand : ValidOpt(o)}

\* credentials are <<user, password>> pairs
P(u, p) == [u |-> u, p |-> p]
NoCred == P("", "")
StaticPair(c) == CASE c = "pass" -> P("", "pw") [] c = "userpass" -> P("u1", "pw") [] c = "useronly" -> P("u1", "")
                   [] c = "spass" -> P("", "spw") [] OTHER -> NoCred
\* what AuthCredentialsFn returns for the address of connection s (the sentinel address has its own credentials)
DynPair(d, s) == LET x == IF s = "S1" THEN "s" ELSE ""
                 IN CASE d = "pass" -> P("", "tok" \o x) [] d = "userpass" -> P("u2" \o x, "tok2" \o x)
                      [] d = "useronly" -> P("u2" \o x, "") [] OTHER -> NoCred
\* sentinel.go newSentinelOpt: sentinel credentials / name, db 0; everything else (tracking!) is inherited
ConnOpt(o, s) == IF s = "S1" THEN [o EXCEPT !.cred = o.scred, !.name = o.sname, !.db = 0] ELSE o
\* C47 "the configured or dynamically supplied credentials": the provider's result replaces the static pair of
\* whatever option copy is used AS A WHOLE, empty fields included (this is also what the server is configured to accept)
WantPair(o, s) == IF o.dcred # "off" THEN DynPair(o.dcred, s) ELSE StaticPair(ConnOpt(o, s).cred)
\* what the client sends
EffCred(o, s) == IF BugMixCreds /\ o.dcred # "off"
                 THEN LET st == StaticPair(ConnOpt(o, s).cred)
                          d == DynPair(o.dcred, s)
                      IN P(IF d.u # "" THEN d.u ELSE st.u, IF d.p # "" THEN d.p ELSE st.p)
                 ELSE WantPair(o, s)

\* ------------------------------------------------------------------------------------------------ command lists
Opt1(b, c) == IF b THEN <<c>> ELSE <<>>
AuthArgs(c) == IF c.p # "" /\ c.u = "" THEN <<"AUTH", "default", c.p>>
               ELSE IF c.u # "" THEN <<"AUTH", c.u, c.p>> ELSE <<>>
Auth2(c) == IF c.p # "" /\ c.u = "" THEN << <<"AUTH", c.p>> >>
            ELSE IF c.u # "" THEN << <<"AUTH", c.u, c.p>> >> ELSE <<>>
TrackCmd(o) == CASE o.cache = "custom" -> <<"CLIENT", "TRACKING", "ON", "OPTIN", "NOLOOP">>
                 [] o.cache = "bcast" -> <<"CLIENT", "TRACKING", "ON", "BCAST", "PREFIX", "p:">>
                 [] OTHER -> <<"CLIENT", "TRACKING", "ON", "OPTIN">>
SetInfo(o) == CASE o.setinfo = "nil" -> << <<"CLIENT", "SETINFO", "LIB-NAME", "$LIBNAME">>,
                                           <<"CLIENT", "SETINFO", "LIB-VER", "$LIBVER">> >>
                [] o.setinfo = "two" -> << <<"CLIENT", "SETINFO", "LIB-NAME", "mylib">>,
                                           <<"CLIENT", "SETINFO", "LIB-VER", "1.2.3">> >>
                [] OTHER -> <<>>
Unchecked(o) == IF o.setinfo = "other" THEN 0 ELSE 2
\* option.ReplicaOnly && option.Sentinel.MasterSet == ""
SendsReadOnly(o) == o.ro /\ o.topo # "sentinel"
CmdTail(o, dropSelect) ==
     Opt1(o.db # 0 /\ ~dropSelect, <<"SELECT", ToString(o.db)>>)
  \o Opt1(SendsReadOnly(o), <<"READONLY">>)
  \o Opt1(o.notouch, <<"CLIENT", "NO-TOUCH", "ON">>)
  \o Opt1(o.noevict, <<"CLIENT", "NO-EVICT", "ON">>)
  \o Opt1(o.topo = "redirect", <<"CLIENT", "CAPA", "redirect">>)
  \o SetInfo(o)

\* c = effective credentials of the connection, o = the option copy it is created with
Init3(o, c) == << <<"HELLO", "3">> \o AuthArgs(c) \o (IF o.name # "" THEN <<"SETNAME", o.name>> ELSE <<>>) >>
            \o Opt1(o.az = "info", <<"INFO", "SERVER">>)
            \o Opt1(o.cache # "off", TrackCmd(o))
            \o CmdTail(o, FALSE)
Init2(o, c) == (IF BugAuthLate THEN <<>> ELSE Auth2(c))
            \o << <<"HELLO", "2">> >>
            \o Opt1(o.az = "info", <<"INFO", "SERVER">>)
            \o Opt1(o.name # "", <<"CLIENT", "SETNAME", o.name>>)
            \o (IF BugAuthLate THEN Auth2(c) ELSE <<>>)
            \o CmdTail(o, BugDropSelectR2)
HelloIndex2(c) == IF BugAuthLate THEN 1 ELSE Len(Auth2(c)) + 1

\* ------------------------------------------------------------------------------------------------ server model
NewSess == [authed |-> FALSE, user |-> "", proto |-> 2, name |-> "", db |-> 0, track |-> "off", ro |-> FALSE,
            notouch |-> FALSE, noevict |-> FALSE, capa |-> FALSE, lib |-> "", ver |-> ""]
FreshSess(need) == [NewSess EXCEPT !.authed = (need = NoCred), !.user = "default"]
\* the user table of the server is made from the pair it has to accept: no users at all for the empty pair, the
\* default user's password for a password-only pair, otherwise an ACL user (empty password = nopass) next to a
\* default user with an unrelated password
AuthOK(u, p, need) ==
  IF need = NoCred THEN u = "default"
  ELSE \/ u = "default" /\ p = (IF need.u = "" THEN need.p ELSE "dpw")
       \/ need.u # "" /\ u = need.u /\ (need.p = "" \/ p = need.p)

IndexOf(c, w) == IF \E k \in 1..Len(c) : c[k] = w THEN CHOOSE k \in 1..Len(c) : c[k] = w ELSE 0

\* reply class and session effect of one command (fakeredis follows Redis: lookup, then NOAUTH, then the handler)
Exec(c, s, srv, need) ==
  IF c[1] = "HELLO" THEN
     IF srv = "nohello" THEN [rep |-> "unk", s |-> s]
     ELSE IF c[2] = "3" /\ srv = "proto2" THEN [rep |-> "err", s |-> s]
     ELSE LET a == IndexOf(c, "AUTH")
              n == IndexOf(c, "SETNAME")
              s1 == IF a > 0 THEN [s EXCEPT !.authed = TRUE, !.user = c[a + 1]] ELSE s
          IN IF a > 0 /\ ~AuthOK(c[a + 1], c[a + 2], need) THEN [rep |-> "err", s |-> s]      \* WRONGPASS
             ELSE IF ~s1.authed THEN [rep |-> "err", s |-> s]
             ELSE [rep |-> IF c[2] = "3" THEN "map3" ELSE "map2",
                   s |-> [s1 EXCEPT !.proto = IF c[2] = "3" THEN 3 ELSE 2,
                                    !.name = IF n > 0 THEN c[n + 1] ELSE s1.name]]
  ELSE IF c[1] = "AUTH" THEN
     \* AUTH <password> without any password configured is an error; a wrong pair is WRONGPASS
     IF (Len(c) = 2 /\ (need = NoCred \/ ~AuthOK("default", c[2], need))) \/ (Len(c) = 3 /\ ~AuthOK(c[2], c[3], need))
     THEN [rep |-> "err", s |-> s]
     ELSE [rep |-> "ok", s |-> [s EXCEPT !.authed = TRUE, !.user = IF Len(c) = 3 THEN c[2] ELSE "default"]]
  ELSE IF ~s.authed THEN [rep |-> "err", s |-> s]
  ELSE IF c[1] = "SELECT" THEN [rep |-> "ok", s |-> [s EXCEPT !.db = 3]]
  ELSE IF c[1] = "READONLY" THEN [rep |-> "ok", s |-> [s EXCEPT !.ro = TRUE]]
  ELSE IF c[1] = "CLIENT" THEN
     CASE c[2] = "TRACKING" -> [rep |-> "ok", s |-> [s EXCEPT !.track =
                                   IF Len(c) = 3 THEN "on" ELSE IF c[4] = "BCAST" THEN "bcast"
                                   ELSE IF Len(c) = 5 THEN "optin-noloop" ELSE "optin"]]
       [] c[2] = "SETNAME" -> [rep |-> "ok", s |-> [s EXCEPT !.name = c[3]]]
       [] c[2] = "NO-TOUCH" -> [rep |-> "ok", s |-> [s EXCEPT !.notouch = TRUE]]
       [] c[2] = "NO-EVICT" -> [rep |-> "ok", s |-> [s EXCEPT !.noevict = TRUE]]
       [] c[2] = "CAPA" -> [rep |-> "ok", s |-> [s EXCEPT !.capa = TRUE]]
       [] c[2] = "SETINFO" -> [rep |-> "ok", s |-> IF c[3] = "LIB-NAME" THEN [s EXCEPT !.lib = c[4]]
                                                   ELSE [s EXCEPT !.ver = c[4]]]
       [] OTHER -> [rep |-> "ok", s |-> s]
  ELSE [rep |-> "ok", s |-> s]     \* INFO, PING, CLUSTER, ROLE, the user command

\* the server works through a pipelined batch; f = the fault aimed at this connection (or NoFault); base = number of
\* commands the connection has received before
\* the class of an injected error reply as the client sees it: "unk" = the text says that HELLO is an unknown command
\* (whatever command it answers), "err" = every other text
ErrClass(txt, c) == IF txt = "unkhello" \/ (txt = "unkself" /\ c[1] = "HELLO") \/ (BugNopermFallback /\ txt = "noperm")
                    THEN "unk" ELSE "err"
RECURSIVE Run(_, _, _, _, _, _, _)
Run(b, k, s, base, f, srv, need) ==
  IF k > Len(b) THEN [reps |-> <<>>, s |-> s, n |-> 0, cut |-> FALSE, hit |-> FALSE]
  ELSE LET h == f.kind \in {"err", "cut", "proto2map"} /\ f.step = base + k - 1
       IN IF h /\ f.kind = "cut" THEN [reps |-> <<>>, s |-> s, n |-> 1, cut |-> TRUE, hit |-> TRUE]
          ELSE LET r == IF h /\ f.kind = "err" THEN [rep |-> ErrClass(f.txt, b[k]), s |-> s]
                        ELSE IF h THEN [rep |-> "map2", s |-> s]
                        ELSE Exec(b[k], s, srv, need)
                   t == Run(b, k + 1, r.s, base, f, srv, need)
               IN [reps |-> <<r.rep>> \o t.reps, s |-> t.s, n |-> 1 + t.n, cut |-> t.cut, hit |-> h \/ t.hit]

IsErr(r) == r \in {"err", "unk", "cut"}
IsRedisErr(r) == r \in {"err", "unk"}

\* ------------------------------------------------------------------------------------------------ cases
O == cs.o
CO == ConnOpt(O, slot)
Cred == EffCred(O, slot)
R2ps == slot = "M2" /\ cs.ucmd = "subscribe"      \* the RESP2 Pub/Sub connection made by r2p
NoBg == slot = "M2" /\ cs.ucmd = "stream"         \* newPipeNoBg: no queue, Close sends nothing
UCmds(o) == IF o.topo \in {"single", "redirect"} THEN {"get", "blpop", "stream", "subscribe"} ELSE {"get", "blpop"}
Cases == UNION {[o : {o}, srv : SrvKinds, ucmd : UCmds(o)] : o \in Opts}
\* faults are aimed at the first connections only together with the plain GET (the command is never issued when they
\* fail), at the extra connection with the commands that need one
FaultAllowedHere == fault = NoFault /\ (slot \in {"S1", "M1"} => cs.ucmd = "get")
\* texts of class "err" (whatever the text, the client must treat the reply as a plain failure of that step):
\*   err      ERR injected failure                       noperm    NOPERM ... has no permissions to run the '<cmd>' command
\*   noauth   NOAUTH Authentication required.            loading   LOADING Redis is loading the dataset in memory
\*   unkself  ERR unknown command '<CMD>', ...  (class "unk" when <CMD> is HELLO: a one-time rejection of HELLO)
\*   readonly READONLY You can't write against ...       wrongpass WRONGPASS invalid username-password pair ...
\* and "unkhello" (ERR unknown command 'HELLO', ...) aimed at steps that are not HELLO
TextSeq == <<"err", "noperm", "noauth", "loading", "unkself", "readonly", "wrongpass", "unkhello">>
Ord(S, v) == CHOOSE k \in 1..Len(S) : S[k] = v
Salt == (IF O.db = 3 THEN 1 ELSE 0) + Len(O.name) + (IF O.notouch THEN 3 ELSE 0) + (IF O.noevict THEN 5 ELSE 0)
        + (IF O.ro THEN 2 ELSE 0) + Ord(<<"default", "custom", "bcast", "off">>, O.cache)
        + Ord(<<"nil", "two", "other">>, O.setinfo) + 3 * Ord(<<"off", "enable", "info">>, O.az) + (IF O.r2 THEN 4 ELSE 0)
        + Ord(<<"none", "pass", "userpass", "useronly">>, O.cred) + 2 * Ord(<<"off", "empty", "pass", "userpass", "useronly">>, O.dcred)
        + Len(O.sname) + Ord(<<"v7", "nohello", "proto2">>, cs.srv) + Ord(<<"get", "blpop", "stream", "subscribe">>, cs.ucmd)
\* (a LOADING reply makes the cluster client refresh its topology in the background: extra traffic that is not setup;
\*  at a HELLO step "unknown command HELLO" is simply unkself; the HELLO text is not aimed at AUTH: the code would skip
\*  the step like any other and what an unauthenticated session answers afterwards is the server's business)
FixTxt(t, c) == IF t = "loading" /\ O.topo = "cluster" THEN "err"
                ELSE IF t = "unkhello" /\ c[1] \in {"HELLO", "AUTH"} THEN "unkself" ELSE t
\* "rotate": the records of Bases get every text at every step of their first connections, every other (record, step)
\* gets one text, rotating with the step and the record so that every (command, text) pair occurs many times
TextsAt(b, k) ==
  LET n == Len(log[slot]) + k
      c == b[k]
      want == IF ErrTexts = "one" THEN {"err"} \cup (IF c[1] \notin {"HELLO", "AUTH"} THEN {"unkhello"} ELSE {})
              ELSE IF O \in Bases /\ slot # "M2" THEN {FixTxt(TextSeq[j], c) : j \in 1..Len(TextSeq)}
              ELSE {FixTxt(TextSeq[((n + Salt) % Len(TextSeq)) + 1], c)}
  IN {t \in want : IF t = "unkhello" THEN "unkhello" \in FaultKinds ELSE "err" \in FaultKinds}
BatchFaults(b) ==
  {NoFault} \cup
  (IF ~FaultAllowedHere THEN {}
   ELSE {[slot |-> slot, step |-> Len(log[slot]) + k - 1, kind |-> "cut", txt |-> ""] : k \in (IF "cut" \in FaultKinds THEN 1..Len(b) ELSE {})}
        \cup UNION {{[slot |-> slot, step |-> Len(log[slot]) + k - 1, kind |-> "err", txt |-> t] : t \in TextsAt(b, k)} : k \in 1..Len(b)}
        \cup (IF "proto2map" \in FaultKinds /\ b[1][1] = "HELLO" /\ b[1][2] = "3"
              THEN {[slot |-> slot, step |-> Len(log[slot]), kind |-> "proto2map", txt |-> ""]} ELSE {}))

UserCmd(u) == CASE u = "get" -> <<"GET", "uk">> [] u = "blpop" -> <<"BLPOP", "ubl", "1">>
                [] u = "stream" -> <<"GET", "usk">> [] OTHER -> <<"SUBSCRIBE", "uch">>

\* ------------------------------------------------------------------------------------------------ actions
Init == /\ cs \in Cases /\ fault = NoFault
        /\ slot = (IF cs.o.topo = "sentinel" THEN "S1" ELSE "M1")
        /\ pc = "begin"
        /\ log = [s \in Slots |-> <<>>]
        /\ sess = [s \in Slots |-> FreshSess(WantPair(cs.o, s))]
        /\ batch = <<>> /\ reps = <<>> /\ i = 0 /\ r2 = FALSE /\ info = 0
        /\ out = [s \in Slots |-> "none"]
        /\ hrej = {} /\ bad = [s \in Slots |-> {}] /\ hit = FALSE /\ served = "" /\ result = ""

Fail(kind) == /\ out' = [out EXCEPT ![slot] = kind] /\ pc' = "abort"

Begin == /\ pc = "begin"
         /\ r2' = CO.r2 /\ info' = 0 /\ i' = 0 /\ batch' = <<>> /\ reps' = <<>>
         /\ \/ /\ pc' = (IF ~CO.r2 /\ ~R2ps THEN "send3" ELSE "post3") /\ UNCHANGED <<out, hit, fault>>
            \/ /\ O.dcred # "off" /\ "authfn" \in FaultKinds /\ FaultAllowedHere   \* AuthCredentialsFn returns an error
               /\ fault' = [slot |-> slot, step |-> 0, kind |-> "authfn", txt |-> ""] /\ hit' = TRUE /\ Fail("fail")
         /\ UNCHANGED <<cs, slot, log, sess, hrej, bad, served, result>>

SendBatch(b, next) ==
  \E f \in BatchFaults(b) :
    LET t == Run(b, 1, sess[slot], Len(log[slot]), f, cs.srv, WantPair(O, slot))
    IN /\ batch' = b
       /\ fault' = (IF f = NoFault THEN fault ELSE f)
       /\ log' = [log EXCEPT ![slot] = @ \o SubSeq(b, 1, t.n)]
       /\ sess' = [sess EXCEPT ![slot] = t.s]
       /\ reps' = IF t.cut THEN [k \in 1..Len(b) |-> "cut"] ELSE t.reps   \* syncDoMulti: every result = the error
       /\ hit' = (hit \/ t.hit)
       /\ i' = 1 /\ pc' = next

Send3 == /\ pc = "send3" /\ SendBatch(Init3(CO, Cred), "chk3")
         /\ UNCHANGED <<cs, slot, r2, info, out, hrej, bad, served, result>>

Chk3 == /\ pc = "chk3"
        /\ IF i > Len(batch) - Unchecked(CO) THEN pc' = "post3" /\ UNCHANGED <<i, r2, info, out, hrej, bad>>
           ELSE LET r == reps[i]
                    c == batch[i]
                IN /\ info' = (IF i = 1 /\ r \in {"map2", "map3"} THEN (IF r = "map3" THEN 3 ELSE 2) ELSE info)
                   /\ bad' = (IF IsErr(r) THEN [bad EXCEPT ![slot] = @ \cup {<<3, i, r>>}] ELSE bad)
                   /\ hrej' = (IF i = 1 /\ r = "unk" THEN hrej \cup {slot} ELSE hrej)
                   /\ IF ~IsErr(r) THEN i' = i + 1 /\ UNCHANGED <<pc, r2, out>>
                      ELSE IF c[1] = "READONLY" THEN i' = i + 1 /\ UNCHANGED <<pc, r2, out>>
                      ELSE IF BugTolerateNoEvict /\ Len(c) > 1 /\ c[2] = "NO-EVICT" THEN i' = i + 1 /\ UNCHANGED <<pc, r2, out>>
                      ELSE IF IsRedisErr(r) /\ ~r2 /\ (r = "unk" \/ (BugFallbackAnyHelloErr /\ i = 1))
                           THEN r2' = TRUE /\ i' = i + 1 /\ UNCHANGED <<pc, out>>
                      ELSE IF IsRedisErr(r) /\ c[1] = "CLIENT" THEN Fail("nocache") /\ UNCHANGED <<i, r2>>
                      ELSE IF IsRedisErr(r) /\ r2 THEN i' = i + 1 /\ UNCHANGED <<pc, r2, out>>
                      ELSE Fail("fail") /\ UNCHANGED <<i, r2>>
        /\ UNCHANGED <<cs, fault, slot, log, sess, batch, reps, hit, served, result>>

Post3 == /\ pc = "post3"
         /\ LET rr == r2 \/ info < 3
            IN /\ r2' = rr
               /\ IF ~rr /\ ~R2ps THEN out' = [out EXCEPT ![slot] = "ok3"] /\ pc' = "ready"
                  ELSE IF CO.cache # "off" THEN Fail("nocache")
                  ELSE pc' = "send2" /\ UNCHANGED out
         /\ UNCHANGED <<cs, fault, slot, log, sess, batch, reps, i, info, hrej, bad, hit, served, result>>

Send2 == /\ pc = "send2" /\ SendBatch(Init2(CO, Cred), "chk2")
         /\ UNCHANGED <<cs, slot, r2, info, out, hrej, bad, served, result>>

Chk2 == /\ pc = "chk2"
        /\ IF i > Len(batch) - Unchecked(CO)
           THEN out' = [out EXCEPT ![slot] = "ok2"] /\ pc' = "ready" /\ UNCHANGED <<i, info, bad>>
           ELSE LET r == reps[i]
                    c == batch[i]
                IN /\ bad' = (IF IsErr(r) /\ c[1] # "READONLY" THEN [bad EXCEPT ![slot] = @ \cup {<<2, i, r>>}] ELSE bad)
                   /\ IF c[1] = "READONLY" THEN i' = i + 1 /\ UNCHANGED <<pc, out, info>>
                      ELSE IF IsErr(r) THEN (IF r = "unk" THEN i' = i + 1 /\ UNCHANGED <<pc, out, info>>
                                             ELSE Fail("fail") /\ UNCHANGED <<i, info>>)
                      ELSE /\ i' = i + 1 /\ UNCHANGED <<pc, out>>
                           /\ info' = (IF i = HelloIndex2(Cred) /\ r = "map2" THEN 2 ELSE info)
        /\ UNCHANGED <<cs, fault, slot, log, sess, batch, reps, r2, hrej, hit, served, result>>

\* p.Close() on a connection that failed its setup: with a queue it pushes a PING through the background loop
Abort == /\ pc = "abort"
         /\ LET alive == ~(\E k \in 1..Len(reps) : reps[k] = "cut")
                ping == alive /\ ~NoBg
            IN log' = [log EXCEPT ![slot] = IF ping THEN Append(@, <<"PING">>) ELSE @]
         /\ result' = (IF slot = "M2" THEN "cmd-" ELSE "newclient-") \o out[slot]
         /\ pc' = "done"
         /\ UNCHANGED <<cs, fault, slot, sess, batch, reps, i, r2, info, out, hrej, bad, hit, served>>

Usable(s) == out[s] \in {"ok3", "ok2"}
\* which connection serves the user command once M1 is up
Target == CASE cs.ucmd = "get" -> "M1"
            [] cs.ucmd = "subscribe" -> (IF out["M1"] = "ok3" THEN "M1" ELSE "M2")
            [] OTHER -> "M2"
PostSetup == CASE slot = "M1" /\ O.topo = "cluster" -> << <<"CLUSTER", "SLOTS">> >>
               [] slot = "M1" /\ O.topo = "sentinel" -> << <<"ROLE">> >>
               [] OTHER -> <<>>

Ready == /\ pc = "ready" /\ Usable(slot)
         /\ \/ /\ slot = "S1" /\ slot' = "M1" /\ pc' = "begin" /\ UNCHANGED <<log, served, result>>
            \/ /\ slot = "M1" /\ Target = "M2" /\ slot' = "M2" /\ pc' = "begin"
               /\ log' = [log EXCEPT !["M1"] = @ \o PostSetup] /\ UNCHANGED <<served, result>>
            \/ /\ slot = Target
               /\ log' = [log EXCEPT ![slot] = @ \o PostSetup \o <<UserCmd(cs.ucmd)>>]
               /\ served' = slot /\ result' = "ok" /\ pc' = "done" /\ UNCHANGED slot
         /\ UNCHANGED <<cs, fault, sess, batch, reps, i, r2, info, out, hrej, bad, hit>>

Next == Begin \/ Send3 \/ Chk3 \/ Post3 \/ Send2 \/ Chk2 \/ Abort \/ Ready
Spec == Init /\ [][Next]_vars

\* ------------------------------------------------------------------------------------------------ properties
TypeOK == /\ pc \in {"begin", "send3", "chk3", "post3", "send2", "chk2", "abort", "ready", "done"}
          /\ slot \in Slots /\ \A s \in Slots : out[s] \in {"none", "ok3", "ok2", "fail", "nocache"}

\* what the options ask of a session (READONLY and the library info are best effort)
Configured(s) ==
  LET o == ConnOpt(O, s)
      c == WantPair(O, s)
      x == sess[s]
  IN /\ x.authed /\ (c # NoCred => x.user = (IF c.u = "" THEN "default" ELSE c.u))
     /\ x.name = o.name /\ x.db = o.db
     /\ x.proto = (IF out[s] = "ok3" THEN 3 ELSE 2)
     /\ (o.cache # "off" => /\ out[s] = "ok3"
                            /\ x.track = (CASE o.cache = "custom" -> "optin-noloop" [] o.cache = "bcast" -> "bcast"
                                            [] OTHER -> "optin"))
     /\ (o.notouch => x.notouch) /\ (o.noevict => x.noevict) /\ (o.topo = "redirect" => x.capa)

IsUser(c) == c \in {UserCmd("get"), UserCmd("blpop"), UserCmd("stream"), UserCmd("subscribe")}
ClientTraffic(c) == IsUser(c) \/ c \in {<<"CLUSTER", "SLOTS">>, <<"ROLE">>}

\* C47: nothing but setup traffic reaches a connection before its setup has completed with every configured
\* setting in force; in particular nothing is ever served on a connection whose setup failed
\* Known oddity of the code, kept: noHello is matched against the text of the error reply of EVERY step of both lists,
\* so a server that answers e.g. SELECT with "unknown command 'HELLO'" makes the RESP3 loop fall back and the RESP2 loop
\* skip the step.  No Redis does that (the text names the command it rejects); the invariants excuse exactly this
\* fault unless StrictHelloStep (the MC_setup_known_hellotext configs show what breaks without the excuse).
OddHelloText(s) == ~StrictHelloStep /\ hit /\ fault.slot = s /\ fault.kind = "err" /\ fault.txt = "unkhello"

NoUserCommandBeforeSetup ==
  \A s \in Slots : (\E k \in 1..Len(log[s]) : ClientTraffic(log[s][k])) => Usable(s) /\ (Configured(s) \/ OddHelloText(s))
ServedOnlyWhenConfigured == served # "" => Usable(served) /\ (Configured(served) \/ OddHelloText(served))

\* C47 "authenticates with the configured or dynamically supplied credentials": every credential that reaches a
\* server is exactly the pair the options designate for that connection - never a mix of the two sources
AuthAsSupplied ==
  \A s \in Slots : \A k \in 1..Len(log[s]) :
     LET c == log[s][k]
         a == IndexOf(c, "AUTH")
     IN /\ (c[1] = "AUTH" => <<c>> = Auth2(WantPair(O, s)))
        /\ (c[1] = "HELLO" /\ a > 0 => SubSeq(c, a, a + 2) = AuthArgs(WantPair(O, s)))
        /\ (c[1] = "HELLO" /\ c[2] = "3" /\ a = 0 => AuthArgs(WantPair(O, s)) = <<>>)

\* C47: RESP2 is used only if asked for, if HELLO 3 was rejected as an unknown command, or if the server's HELLO
\* reply announced a protocol below 3 (and the RESP2 Pub/Sub side connection of a RESP2 client)
FallbackOnlyOnHelloRejected ==
  \A s \in Slots : out[s] = "ok2" =>
      \/ ConnOpt(O, s).r2 \/ s \in hrej \/ (fault.kind = "proto2map" /\ fault.slot = s /\ hit) \/ OddHelloText(s)
      \/ (s = "M2" /\ cs.ucmd = "subscribe" /\ out["M1"] = "ok2")
NoFallbackWithCache == \A s \in Slots : out[s] = "ok2" => ConnOpt(O, s).cache = "off"

\* credentials go first in the RESP2 list (HELLO 2 would be refused with NOAUTH otherwise)
AuthLeadsResp2 == (pc = "chk2" /\ Cred # NoCred) => batch[1][1] = "AUTH"

\* C47: an error at a checked step of the list that is finally in force fails the connection
ToleratedStep(c, ph) == c[1] = "READONLY" \/ (Len(c) > 1 /\ c[2] = "SETINFO")
FailedStepFailsConnection ==
  \A s \in Slots : Usable(s) =>
     LET ph == IF out[s] = "ok3" THEN 3 ELSE 2
         o == ConnOpt(O, s)
         l == IF ph = 3 THEN Init3(o, EffCred(O, s)) ELSE Init2(o, EffCred(O, s))
     IN \A e \in bad[s] : e[1] = ph => \/ ToleratedStep(l[e[2]], ph)
                                       \/ (ph = 2 /\ l[e[2]][1] = "HELLO" /\ e[3] = "unk")
                                       \/ OddHelloText(s)
\* ... and tolerated errors alone never do: a failed connection saw a real failure
ToleratedOnly ==
  \A s \in Slots : out[s] = "fail" =>
     \/ (fault.slot = s /\ fault.kind = "authfn" /\ hit)
     \/ \E e \in bad[s] :
           LET o == ConnOpt(O, s)
               l == IF e[1] = 3 THEN Init3(o, EffCred(O, s)) ELSE Init2(o, EffCred(O, s))
           IN e[3] \in {"err", "cut"} /\ l[e[2]][1] # "READONLY"
NoCacheOnlyWithCacheOrClient ==
  \A s \in Slots : out[s] = "nocache" => ConnOpt(O, s).cache # "off" \/ (\E e \in bad[s] : e[1] = 3)
\* a fault-free run against a current server always ends with a served command
CleanRunSucceeds == (pc = "done" /\ fault = NoFault /\ cs.srv = "v7" /\ (~O.r2 \/ O.cache = "off")) => result = "ok"
\* a fault-free run against a server without HELLO works exactly when caching is disabled (and no CLIENT command is
\* refused for lack of authentication in the RESP3 batch)
OldServerWorksWithoutCache ==
  (pc = "done" /\ fault = NoFault /\ cs.srv = "nohello" /\ O.cache = "off" /\ O.cred = "none" /\ O.scred = "none"
     /\ O.dcred \in {"off", "empty"})
     => result = "ok"

\* ------------------------------------------------------------------------------------------------ case output
SlotRec(s) == [log |-> log[s], out |-> out[s], sess |-> sess[s], need |-> WantPair(O, s)]
CaseRec == [o |-> O, srv |-> cs.srv, fault |-> fault, ucmd |-> cs.ucmd, result |-> result, served |-> served,
            S1 |-> SlotRec("S1"), M1 |-> SlotRec("M1"), M2 |-> SlotRec("M2")]
EmitCase == (Emit /\ pc = "done") => PrintT(<<"CASE", ToJson(CaseRec)>>)
=============================================================================
