SPECIFICATION SpecE
CONSTANTS
  Kind = "endpoint"
  MaxLen = 0
  Templates = {1}
INVARIANTS EmitEndpoints
CHECK_DEADLOCK FALSE
