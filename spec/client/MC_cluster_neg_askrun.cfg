SPECIFICATION Spec
CONSTANTS
  OptSet <- OptsOne
  CallSet <- HopCalls
  ChangeSet <- HopChanges
  MaxCalls = 1
  MaxChanges = 1
  MaxGen = 4
  MaxAtt = 3
  EagerLazy = FALSE
  LazyMidCall = FALSE
  FixDenied = TRUE
  BugAskNoAsking = FALSE
  BugTxNoMulti = FALSE
  BugPredIgnored = FALSE
  BugNodeOrder = FALSE
  BugMovedIgnored = FALSE
  BugMaxOffByOne = FALSE
  BugSelClamp = FALSE
  BugRefreshDropsInit = FALSE
  BugAskRunNoInit = TRUE
  BugPoolStale = FALSE
  BugStreamKeyless = FALSE
  BugPromoteReplica = FALSE
INVARIANTS TypeOK TxResentWhole
CONSTRAINT GenBound
VIEW MCView
CHECK_DEADLOCK FALSE
