SPECIFICATION TraceSpec
CONSTRAINT HighWater
POSTCONDITION TraceAccepted
CHECK_DEADLOCK FALSE
