----------------------------- MODULE FaultTrace -----------------------------
(* Validation of traces recorded by harness/cmd/faultdrv -mode fault against the obligations of FaultObs.tla
   (C04, C05).  One JSON object per line, every line with the same fields:

     RESET      ck = scenario name, kind = queue implementation ("ring" | "flowbuffer"), v = fault, val = further ingredients of
                the scenario ("" or a list like "push=sunsubscribe traffic resp2", named in the findings)
     Call       id, cls = call kind, ck = context kind, kind = role: "warm" | "pend" | "trigger" | "after"
     SConn, SRecv(id, conn), SExec(id), SRep(id, conn, kind, val), SBreak(conn, kind)      server side (dispatcher mutex)
     CancelBegin(id) / CancelEnd(id)     the call's context is being / has been ended (CancelEnd is logged after
                                         ctx.Done() is closed, for deadlines too)
     CloseBegin / CloseEnd               client.Close();   DedCloseBegin(id) / DedCloseEnd(id): DedicatedClient.Close()
     Ret        id, kind, val, n = milliseconds between the end of the call's context and its return (-1: not applicable)
     Waited     n = milliseconds the driver has waited since the last Fault / CancelEnd / CloseEnd for the calls to return

   Deterministic walker (one successor per line); findings are VERDICT lines; POSTCONDITION: the trace was consumed. *)
EXTENDS FaultObs, IOUtils

VARIABLES l, scn, queue, fault, opts, calls, broken, anyBreak, closeBegun, closeDone

TraceLog == ndJsonDeserialize(IOEnv.VERIF_TRACE)
tvars == <<l, scn, queue, fault, opts, calls, broken, anyBreak, closeBegun, closeDone>>
Ev == TraceLog[l]
Is(e) == l <= Len(TraceLog) /\ TraceLog[l].ev = e
Known == Ev.id \in DOMAIN calls

\* what a pending call is waiting for: another caller's cache flight, room in the queue (it never reached a server), a reply
Waiting(c) == WaitingPlace(c.cls, c.conns # {})
Verdict(what, id, c, detail) ==
   PrintT(<<"VERDICT", ToJson([scn |-> scn, what |-> what, call |-> id, callkind |-> c.cls, ctx |-> c.ctxk, role |-> c.role,
                               fault |-> fault, queue |-> queue, opts |-> opts, waiting |-> Waiting(c), detail |-> detail, line |-> l])>>)
Check(ok, what, id, c, detail) == IF ok THEN TRUE ELSE Verdict(what, id, c, detail)

NewCall == [cls |-> Ev.cls, ctxk |-> Ev.ck, role |-> Ev.kind, conns |-> {}, replies |-> {}, ctxBegun |-> FALSE,
            ctxEnded |-> FALSE, dedClosed |-> FALSE, dedBegun |-> FALSE, ret |-> FALSE, afterClose |-> closeDone]
Broke(c) == (c.conns \cap broken # {}) \/ (c.conns = {} /\ anyBreak /\ c.cls # "block")

TraceInit == /\ l = 1 /\ scn = "" /\ queue = "" /\ fault = "" /\ opts = "" /\ calls = <<>> /\ broken = {} /\ anyBreak = FALSE
             /\ closeBegun = FALSE /\ closeDone = FALSE /\ TLCSet(1, 1)
Step == l' = l + 1
Upd(id, c) == calls' = [calls EXCEPT ![id] = c]
Rest == UNCHANGED <<scn, queue, fault, opts, broken, anyBreak, closeBegun, closeDone>>

Reset == /\ Is("RESET") /\ Step /\ scn' = Ev.ck /\ queue' = Ev.kind /\ fault' = Ev.v /\ opts' = Ev.val /\ calls' = <<>> /\ broken' = {}
         /\ anyBreak' = FALSE /\ closeBegun' = FALSE /\ closeDone' = FALSE
Call == /\ Is("Call") /\ Step /\ calls' = (Ev.id :> NewCall) @@ calls /\ Rest
SRecv == /\ Is("SRecv") /\ Step /\ Rest
         /\ IF ~Known THEN UNCHANGED calls
            ELSE LET c == calls[Ev.id] IN
                 \* C05: a call whose context is already done sends nothing
                 /\ Check(c.ctxk # "done", "sent-with-done-context", Ev.id, c, "")
                 /\ Upd(Ev.id, [c EXCEPT !.conns = @ \cup {Ev.conn}])
SRep == /\ Is("SRep") /\ Step /\ Rest
        /\ IF Known THEN Upd(Ev.id, [calls[Ev.id] EXCEPT !.replies = @ \cup {<<Ev.kind, Ev.val>>}]) ELSE UNCHANGED calls
SBreak == /\ Is("SBreak") /\ Step /\ broken' = broken \cup {Ev.conn} /\ anyBreak' = TRUE
          /\ UNCHANGED <<scn, queue, fault, opts, calls, closeBegun, closeDone>>
\* the server keeps a reply back.  Under the fault "pingtimeout" that is the silence of a dead peer: the connection is as good as
\* gone and the client has to find that out by itself (keep-alive ping, time-out of a call on the synchronous path), however
\* busy the connection is; every call pending on it must come back (a blocking command is not held: it blocks by itself)
SRepHeld == /\ Is("SRepHeld") /\ Step
            /\ broken' = IF fault = "pingtimeout" THEN broken \cup {Ev.conn} ELSE broken
            /\ UNCHANGED <<scn, queue, fault, opts, calls, anyBreak, closeBegun, closeDone>>
CancelBegin == /\ Is("CancelBegin") /\ Step /\ Rest
               /\ IF Known THEN Upd(Ev.id, [calls[Ev.id] EXCEPT !.ctxBegun = TRUE]) ELSE UNCHANGED calls
CancelEnd == /\ Is("CancelEnd") /\ Step /\ Rest
             /\ IF Known THEN Upd(Ev.id, [calls[Ev.id] EXCEPT !.ctxEnded = TRUE]) ELSE UNCHANGED calls
CloseBegin == Is("CloseBegin") /\ Step /\ closeBegun' = TRUE /\ UNCHANGED <<scn, queue, fault, opts, calls, broken, anyBreak, closeDone>>
CloseEnd == Is("CloseEnd") /\ Step /\ closeDone' = TRUE /\ UNCHANGED <<scn, queue, fault, opts, calls, broken, anyBreak, closeBegun>>
DedCloseBegin == /\ Is("DedCloseBegin") /\ Step /\ Rest
                 /\ IF Known THEN Upd(Ev.id, [calls[Ev.id] EXCEPT !.dedBegun = TRUE]) ELSE UNCHANGED calls
DedCloseEnd == /\ Is("DedCloseEnd") /\ Step /\ Rest
               /\ IF Known THEN Upd(Ev.id, [calls[Ev.id] EXCEPT !.dedClosed = TRUE]) ELSE UNCHANGED calls

Ret == /\ Is("Ret") /\ Step /\ Rest
       /\ IF ~Known THEN UNCHANGED calls
          ELSE LET c == calls[Ev.id] IN
               \* C04 ErrorAfterBreak / OwnReplies: values are the server's replies to this very call
               /\ Check(ValueOk(Ev.kind, Ev.val, c.replies), "fabricated-or-foreign-value", Ev.id, c, Ev.val)
               \* (a cache waiter is handed the flight owner's error, also the owner's context error)
               /\ Check(ErrOk(Ev.kind, c.ctxBegun \/ (c.cls = "cachewait" /\ \E o \in DOMAIN calls : calls[o].ctxBegun),
                              closeBegun \/ c.dedBegun, Broke(c) \/ anyBreak), "error-without-cause", Ev.id, c, Ev.kind)
               \* C05: a done context answers with the context's error
               /\ Check(c.ctxk = "done" => Ev.kind = "ctx", "done-context-not-reported", Ev.id, c, Ev.kind)
               \* C04: after Close() has returned new calls get ErrClosing; after a break they are served again
               /\ Check(c.role \in {"after", "after2"} => AfterOk(Ev.kind, c.afterClose, c.role),
                        IF c.afterClose THEN "after-close-error-not-ErrClosing" ELSE "after-break-not-served", Ev.id, c, Ev.val)
               \* C05 promptness
               /\ Check(Ev.n <= PromptMs, "ctx-not-prompt", Ev.id, c, ToString(Ev.n))
               /\ Upd(Ev.id, [c EXCEPT !.ret = TRUE])
\* the driver has waited n ms since the last obliging event: whoever must have returned and has not, hangs
Waited == /\ Is("Waited") /\ Step /\ Rest /\ UNCHANGED calls
          /\ \A id \in DOMAIN calls :
               LET c == calls[id] IN
               (~c.ret /\ Ev.n >= HangAfterMs) =>
                  Check(~MustReturn(c.cls, Broke(c), closeDone, c.ctxEnded, c.dedClosed),
                        \* (a call whose own context has ended hangs on its context, whatever else has happened before)
                        IF c.ctxEnded /\ c.cls # "sub" /\ fault = "ctxend" THEN "ctx-hang"
                        ELSE IF Broke(c) THEN "hang-after-break" ELSE IF closeDone \/ c.dedClosed THEN "hang-after-close" ELSE "ctx-hang",
                        id, c, "")
\* the server goes silent for good: from now on the keep-alive watchdog is expected to break the connection
\* (a refused dial is a failed connection as well)
Fault == /\ Is("Fault") /\ Step /\ anyBreak' = (anyBreak \/ Ev.kind \in {"pingtimeout", "dialfail"})
         /\ UNCHANGED <<scn, queue, fault, opts, calls, broken, closeBegun, closeDone>>
Other == /\ l <= Len(TraceLog)
         /\ Ev.ev \notin {"RESET", "Call", "SRecv", "SRep", "SRepHeld", "SBreak", "CancelBegin", "CancelEnd", "CloseBegin", "CloseEnd",
                          "DedCloseBegin", "DedCloseEnd", "Ret", "Waited", "Fault"}
         /\ Step /\ Rest /\ UNCHANGED calls

TraceNext == Reset \/ Call \/ SRecv \/ SRep \/ SRepHeld \/ SBreak \/ CancelBegin \/ CancelEnd \/ CloseBegin \/ CloseEnd
             \/ DedCloseBegin \/ DedCloseEnd \/ Ret \/ Waited \/ Fault \/ Other
TraceSpec == TraceInit /\ [][TraceNext]_tvars
HighWater == TLCSet(1, IF l > TLCGet(1) THEN l ELSE TLCGet(1))
TraceAccepted == \/ TLCGet(1) = Len(TraceLog) + 1
                 \/ PrintT(<<"REJECTED-AT", TLCGet(1), TraceLog[TLCGet(1)]>>) /\ FALSE
=============================================================================
