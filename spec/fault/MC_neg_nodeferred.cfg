SPECIFICATION Spec
CONSTANTS
  Callers = {1, 2}
  MaxCalls = 1
  Cap = 2
  Cancelable = {}
  Deadline = {}
  Batch = {1, 2}
  MaxCuts = 1
  MaxCloses = 0
  MaxExpires = 0
  MaxPush = 0
  MaxStalls = 0
  FixEntryRace = TRUE
  BugNoDrain = FALSE
  BugNoDeferred = TRUE
  BugCloseKeepsConn = FALSE
  QueueCtx = FALSE
  MaskE1 = FALSE
INVARIANTS TypeOK OwnReplies ErrorAfterBreak ClosingAfterClose SyncExclusive ProtocolOk NoHang
CHECK_DEADLOCK FALSE
