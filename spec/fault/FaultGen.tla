------------------------------ MODULE FaultGen ------------------------------
(* Enumerates the scenario space of FaultObs.tla: one initial state per scenario, printed as a CASE line. *)
EXTENDS FaultObs
VARIABLE scen
GenInit == scen \in {s \in Scenarios : ValidScenario(s)}
GenNext == UNCHANGED scen
GenSpec == GenInit /\ [][GenNext]_scen
GenCase == PrintT(<<"CASE", ToJson([pend |-> scen.pend, ctx |-> scen.ctx, fault |-> scen.fault,
                                    pipe |-> scen.pipe, warm |-> scen.warm, small |-> scen.small,
                                    push |-> scen.push, traffic |-> scen.traffic, resp2 |-> scen.resp2])>>)

=============================================================================
