------------------------------ MODULE FaultObs ------------------------------
(* Observable level of properties C04 (broken connections and Close never leave calls hanging) and C05 (calls honour
   deadlines and cancellation) for the real client driven by harness/cmd/faultdrv -mode fault:

   * the space of scenarios (which calls are pending, how the connection fails or the client is closed, whose context
     ends), enumerated by TLC (FaultGen.tla) and handed to the driver, and
   * the obligations a scenario puts on every call, as operators that FaultTrace.tla evaluates on the recorded trace.

   A scenario: some calls are answered normally (background traffic), then the calls in `pend` are issued and left
   unanswered by the server (replies held; BLPOP and SUBSCRIBE block by themselves), then the fault happens, then one more
   call is made ("after").  Detailed behaviour of pipe.go under all interleavings is Pipe.tla's business; this module
   only says what must be observable from outside. *)
EXTENDS Integers, Sequences, FiniteSets, TLC, Json

CallKinds == {"do",          \* Do of one command on the auto-pipelined connection
              "multi",       \* DoMulti of two commands
              "cachemiss",   \* DoCache that owns the flight
              "cachewait",   \* DoCache of the same key: waits for the other caller's flight (needs "cachemiss")
              "block",       \* BLPOP: a blocking command on a connection of the blocking pool
              "sub",         \* Receive(SUBSCRIBE)
              "dedsub",      \* Receive(SUBSCRIBE) on a dedicated client (only with the fault "dedbreak")
              \* --- further waiting places of C05 (only with the fault "ctxend")
              "poolwait",    \* a second BLPOP while the only connection of the blocking pool (BlockingPoolSize 1) is taken
                             \* by "block": waits in pool.Acquire
              "backoff",     \* Do of a read-only command that the server answers with LOADING: the call sits in the retry
                             \* back-off (RetryDelay = BackoffMs, retryer.WaitOrSkipRetry)
              "backoffm",    \* the same for a DoMulti of two read-only commands
              "hsblock",     \* BLPOP that has to create its pool connection; the server accepts the connection and never
                             \* answers HELLO: the call waits in the handshake of _newPipe (Dialer.Timeout = DialMs)
              "hsredial",    \* Do on the multiplexed connection after it broke: the re-dial's handshake is not answered
              "hspool"}      \* Do on a DisableAutoPipelining client (connection per call from the pool), handshake not answered
HandshakeKinds == {"hsblock", "hsredial", "hspool"}
BackoffKinds == {"backoff", "backoffm"}
\* done: the context is already cancelled when the call is made;  dlcancel: a context with a deadline far away (DlFarMs)
\* that is cancelled by hand;  deadline: WithTimeout(DeadlineMs) armed when the call starts
CtxKinds == {"none", "cancel", "deadline", "dlcancel", "done"}
DeadlineMs == 400
DlFarMs    == 60000
BackoffMs  == 9000      \* longer than PromptMs: a back-off that is slept through is late; shorter than HangAfterMs
DialMs     == 60000     \* far beyond every deadline of a scenario: only the caller's context can end the handshake in time
BreakFaults == {"cutall",        \* every connection is cut by the server
                "cutnow",        \* the connection is cut when the second command of a trigger DoMulti arrives
                "execcut",       \* ... after executing it, before replying
                "midreply",      \* ... in the middle of its reply (the first command's reply was delivered)
                "pingtimeout"}   \* the server goes silent; the keep-alive watchdog has to break the connection
Faults == BreakFaults \cup {"close",      \* client.Close() while the calls are pending (server silent: 1 s grace, then torn down)
                            "dedclose",   \* DedicatedClient.Close() while its blocking command is pending
                            "dedbreak",   \* the connection of a dedicated client that carries its commands is cut while its Receive
                                          \* is pending (RESP2: on the wire's second connection, which stays healthy), a command on
                                          \* the dedicated client fails, then the dedicated client is released
                            "dialfail",   \* the dial for the blocking command fails (it returns the dial error), then client.Close()
                            "ctxend"}     \* the contexts of the pending calls end (cancel / deadline); server silent

\* ------------------------------------------------------------------------------------------------ scenario space
OldKinds == {"do", "multi", "cachemiss", "cachewait", "block", "sub"}
\* further ingredients of a scenario (C04):
\*   push     before the fault the server sends an unsolicited unsubscribe notification (what Redis does on slot migration:
\*            sunsubscribe; or the extra notifications of a wildcard UNSUBSCRIBE): the reader of the pipeline takes the next
\*            pending call off the queue for it and goes on reading
\*   traffic  (fault "pingtimeout") while the server is silent new calls with short deadlines keep arriving: the connection
\*            is never idle between two keep-alive ticks, and still has to be found dead
\*   resp2    the client speaks RESP2 (AlwaysRESP2): Pub/Sub lives on a second connection of the wire
Pushes == {"none", "unsubscribe", "sunsubscribe"}
Pends == {P \in SUBSET CallKinds : /\ P # {} /\ Cardinality(P) <= 3 /\ ("cachewait" \in P => "cachemiss" \in P)
                                   /\ "poolwait" \in P => ("block" \in P /\ P \subseteq {"block", "poolwait", "do"})
                                   /\ P \cap BackoffKinds # {} => (P \subseteq BackoffKinds \cup {"do", "multi"} /\ Cardinality(P) <= 2)
                                   \* one connection in the making at a time: callers that share a dial (mux singleconnect)
                                   \* wait for the first caller's handshake whatever their own context says -- not scripted
                                   /\ P \cap HandshakeKinds # {} => Cardinality(P) = 1
                                   /\ "dedsub" \in P => P = {"dedsub"}}
CtxFor(P, f) == IF f = "ctxend" THEN [P -> {"none", "cancel", "deadline", "dlcancel"}] ELSE [P -> {"none", "done"}]
\* Where is the manual cancellation of a context that also has a deadline honoured?  README, "Canceling a Context Before Its
\* Deadline": only in pipeline mode (the synchronous path arms the connection deadline and cannot watch ctx.Done()); the
\* waiting places that select on ctx.Done() themselves (cache flight, retry back-off, pool wait) honour it in any mode; the
\* handshake of a new connection is never in pipeline mode (_newPipe puts the dial timeout on the context as a deadline, so
\* its set-up DoMulti takes the synchronous path also for a cancel-only context: observed, the call returns after
\* min(ConnWriteTimeout, Dialer.Timeout)).  Otherwise a cancel-only context makes the connection pipeline.
CancelHonoured(kind, ctxk, pipe) ==
   CASE ctxk = "dlcancel" -> kind \in {"cachewait", "poolwait"} \cup BackoffKinds \/ (pipe /\ kind \in {"do", "multi", "cachemiss", "block"})
     [] ctxk = "cancel"   -> kind \notin HandshakeKinds
     [] OTHER -> TRUE
Scenarios ==
  UNION { { [pend |-> P, ctx |-> cx, fault |-> f, pipe |-> pi, warm |-> wa, small |-> sm, push |-> pu, traffic |-> tr, resp2 |-> r2] :
               cx \in CtxFor(P, f), pi \in BOOLEAN, wa \in BOOLEAN,
               sm \in IF f = "ctxend" /\ P = {"do"} THEN BOOLEAN ELSE {FALSE},
               pu \in IF f \in {"cutall", "pingtimeout", "close"} THEN Pushes ELSE {"none"},
               tr \in IF f = "pingtimeout" THEN BOOLEAN ELSE {FALSE},
               r2 \in IF f = "dedbreak" THEN BOOLEAN ELSE {FALSE} } : P \in Pends, f \in Faults }
ValidScenario(s) ==
      \* small: a queue of 2 slots and four "do" calls, so that two of them wait for a slot
      /\ s.small => s.fault = "ctxend" /\ s.pend = {"do"} /\ s.pipe /\ ~s.warm
      /\ s.fault \in {"dedclose", "dialfail"} => s.pend = {"block"} /\ ~s.pipe
      /\ (s.fault = "dedbreak") = (s.pend = {"dedsub"})
      /\ s.fault = "dedbreak" => ~s.warm /\ s.ctx["dedsub"] = "none"
      \* the push matters when the reader is between two calls and a pipelined call is waiting for its reply
      /\ s.push # "none" => s.pend \cap {"do", "multi", "cachemiss"} # {} /\ \A k \in s.pend : s.ctx[k] = "none"
      \* the keep-alive ping is the only way out for calls without a deadline on a pipelining connection
      /\ s.traffic => s.pipe /\ s.pend \cap {"do", "multi"} # {} /\ \A k \in s.pend : s.ctx[k] = "none"
      /\ s.fault = "ctxend" => /\ \E k \in s.pend : s.ctx[k] \in {"cancel", "deadline", "dlcancel"}
                               /\ "sub" \notin s.pend                 \* Receive ends by unsubscribing, not by its context
                               \* only the combinations in which the end of the context obliges the call to return
                               /\ \A k \in s.pend : CancelHonoured(k, s.ctx[k], s.pipe)
                               \* (a call in back-off without a context would only keep the scenario waiting)
                               /\ \A k \in s.pend \cap BackoffKinds : s.ctx[k] # "none"
      /\ s.fault # "ctxend" => s.pend \subseteq OldKinds \cup {"dedsub"}
      /\ s.pend \cap (CallKinds \ OldKinds) # {} => ~s.warm /\ ~s.small
      /\ "hspool" \in s.pend => ~s.pipe
      /\ s.fault # "ctxend" => /\ \A k \in s.pend : s.ctx[k] \in {"none", "done"}
                               /\ Cardinality({k \in s.pend : s.ctx[k] = "done"}) <= 1
      /\ \A k \in s.pend \cap {"cachewait", "cachemiss"} : s.ctx[k] # "done"

\* ------------------------------------------------------------------------------------------------ obligations
\* T (ms) after the event that obliges a call to return, it must have returned (the alternative is "never")
HangAfterMs == 12000
\* C05: lateness (ms) of a return after the context ended that still counts as prompt
PromptMs == 5000

ValueKinds == {"ok", "nil"}
LocalErrs  == {"neterr", "closing", "ctx", "cacheaborted", "expired"}

\* a value handed to a caller must be the reply the server produced for that call (no fabricated / foreign values)
ValueOk(kind, val, replies) == kind \in ValueKinds => \E r \in replies : r[1] = kind /\ r[2] = val
\* which local errors a call may return, given what has happened to it
ErrOk(kind, ctxBegun, closeBegun, broke) ==
   CASE kind = "ctx"     -> ctxBegun
     [] kind = "closing" -> closeBegun
     [] kind \in {"neterr", "cacheaborted", "expired"} -> broke \/ closeBegun
     [] OTHER -> TRUE
\* what a pending call is waiting for (named in the findings)
WaitingPlace(kind, reached) ==
   CASE kind = "cachewait" -> "flight"
     [] kind = "poolwait"  -> "pool"
     [] kind \in BackoffKinds -> "backoff"
     [] kind \in HandshakeKinds -> "handshake"
     [] OTHER -> IF reached THEN "reply" ELSE "slot"
\* must a call that is still pending have returned by now?
\*   broke:     a connection it depends on is gone      (C04)
\*   closeDone: Close() has returned; a blocking command on a pool connection may legitimately wait for its reply
\*   ctxDone:   its own context has ended               (C05)
MustReturn(kind, broke, closeDone, ctxDone, dedicatedClosed) ==
   \/ broke
   \/ closeDone /\ kind # "block"
   \/ dedicatedClosed
   \/ ctxDone /\ kind # "sub"
\* a call made after Close() has returned gets ErrClosing and nothing else.  After a break calls are served again on a
\* fresh connection: the first call may still be the one that discovers the break of an idle connection (role "after"),
\* the one after it (role "after2") must be served
AfterOk(kind, closeDone, role) == IF closeDone THEN kind = "closing"
                                  ELSE IF role = "after" THEN kind \in ValueKinds \cup {"neterr"}
                                  ELSE kind \in ValueKinds
=============================================================================
