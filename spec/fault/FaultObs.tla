------------------------------ MODULE FaultObs ------------------------------
(* Observable level of properties C04 (broken connections and Close never leave calls hanging) and C05 (calls honour
   deadlines and cancellation) for the real client driven by harness/cmd/faultdrv -mode fault:

   * the space of scenarios (which calls are pending, how the connection fails or the client is closed, whose context
     ends), enumerated by TLC (FaultGen.tla) and handed to the driver, and
   * the obligations a scenario puts on every call, as operators that FaultTrace.tla evaluates on the recorded trace.

   A scenario: some calls are answered normally (background traffic), then the calls in `pend` are issued and left
   unanswered by the server (replies held; BLPOP and SUBSCRIBE block by themselves), then the fault happens, then one more
   call is made ("after").  Detailed behaviour of pipe.go under all interleavings is Pipe.tla's business; this module
   only says what must be observable from outside. *)
EXTENDS Integers, Sequences, FiniteSets, TLC, Json

CallKinds == {"do",          \* Do of one command on the auto-pipelined connection
              "multi",       \* DoMulti of two commands
              "cachemiss",   \* DoCache that owns the flight
              "cachewait",   \* DoCache of the same key: waits for the other caller's flight (needs "cachemiss")
              "block",       \* BLPOP: a blocking command on a connection of the blocking pool
              "sub"}         \* Receive(SUBSCRIBE)
CtxKinds == {"none", "cancel", "deadline", "done"}     \* done: the context is already cancelled when the call is made
BreakFaults == {"cutall",        \* every connection is cut by the server
                "cutnow",        \* the connection is cut when the second command of a trigger DoMulti arrives
                "execcut",       \* ... after executing it, before replying
                "midreply",      \* ... in the middle of its reply (the first command's reply was delivered)
                "pingtimeout"}   \* the server goes silent; the keep-alive watchdog has to break the connection
Faults == BreakFaults \cup {"close",      \* client.Close() while the calls are pending (server silent: 1 s grace, then torn down)
                            "dedclose",   \* DedicatedClient.Close() while its blocking command is pending
                            "dialfail",   \* the dial for the blocking command fails (it returns the dial error), then client.Close()
                            "ctxend"}     \* the contexts of the pending calls end (cancel / deadline); server silent

\* ------------------------------------------------------------------------------------------------ scenario space
Pends == {P \in SUBSET CallKinds : P # {} /\ Cardinality(P) <= 3 /\ ("cachewait" \in P => "cachemiss" \in P)}
CtxFor(P, f) == IF f = "ctxend" THEN [P -> {"none", "cancel", "deadline"}] ELSE [P -> {"none", "done"}]
Scenarios ==
  UNION { { [pend |-> P, ctx |-> cx, fault |-> f, pipe |-> pi, warm |-> wa, small |-> sm] :
               cx \in CtxFor(P, f), pi \in BOOLEAN, wa \in BOOLEAN,
               sm \in IF f = "ctxend" /\ P = {"do"} THEN BOOLEAN ELSE {FALSE} } : P \in Pends, f \in Faults }
ValidScenario(s) ==
      \* small: a queue of 2 slots and four "do" calls, so that two of them wait for a slot
      /\ s.small => s.fault = "ctxend" /\ s.pend = {"do"} /\ s.pipe /\ ~s.warm
      /\ s.fault \in {"dedclose", "dialfail"} => s.pend = {"block"} /\ ~s.pipe
      /\ s.fault = "ctxend" => /\ \E k \in s.pend : s.ctx[k] \in {"cancel", "deadline"}
                               /\ "sub" \notin s.pend                 \* Receive ends by unsubscribing, not by its context
      /\ s.fault # "ctxend" => /\ \A k \in s.pend : s.ctx[k] \in {"none", "done"}
                               /\ Cardinality({k \in s.pend : s.ctx[k] = "done"}) <= 1
      /\ \A k \in s.pend \cap {"cachewait", "cachemiss"} : s.ctx[k] # "done"

\* ------------------------------------------------------------------------------------------------ obligations
\* T (ms) after the event that obliges a call to return, it must have returned (the alternative is "never")
HangAfterMs == 12000
\* C05: lateness (ms) of a return after the context ended that still counts as prompt
PromptMs == 5000

ValueKinds == {"ok", "nil"}
LocalErrs  == {"neterr", "closing", "ctx", "cacheaborted", "expired"}

\* a value handed to a caller must be the reply the server produced for that call (no fabricated / foreign values)
ValueOk(kind, val, replies) == kind \in ValueKinds => \E r \in replies : r[1] = kind /\ r[2] = val
\* which local errors a call may return, given what has happened to it
ErrOk(kind, ctxBegun, closeBegun, broke) ==
   CASE kind = "ctx"     -> ctxBegun
     [] kind = "closing" -> closeBegun
     [] kind \in {"neterr", "cacheaborted", "expired"} -> broke \/ closeBegun
     [] OTHER -> TRUE
\* must a call that is still pending have returned by now?
\*   broke:     a connection it depends on is gone      (C04)
\*   closeDone: Close() has returned; a blocking command on a pool connection may legitimately wait for its reply
\*   ctxDone:   its own context has ended               (C05)
MustReturn(kind, broke, closeDone, ctxDone, dedicatedClosed) ==
   \/ broke
   \/ closeDone /\ kind # "block"
   \/ dedicatedClosed
   \/ ctxDone /\ kind # "sub"
\* a call made after Close() has returned gets ErrClosing and nothing else.  After a break calls are served again on a
\* fresh connection: the first call may still be the one that discovers the break of an idle connection (role "after"),
\* the one after it (role "after2") must be served
AfterOk(kind, closeDone, role) == IF closeDone THEN kind = "closing"
                                  ELSE IF role = "after" THEN kind \in ValueKinds \cup {"neterr"}
                                  ELSE kind \in ValueKinds
=============================================================================
