SPECIFICATION Spec
CONSTANTS
  Callers = {1, 2}
  MaxCalls = 1
  Cap = 1
  Cancelable = {2}
  Deadline = {1}
  Batch = {}
  MaxCuts = 1
  MaxCloses = 0
  MaxExpires = 0
  MaxPush = 0
  MaxStalls = 1
  FixEntryRace = TRUE
  BugNoDrain = FALSE
  BugNoDeferred = FALSE
  BugCloseKeepsConn = FALSE
  QueueCtx = TRUE
  MaskE1 = FALSE
INVARIANTS TypeOK OwnReplies ErrorAfterBreak ClosingAfterClose SyncExclusive ProtocolOk NoHang
CHECK_DEADLOCK FALSE
