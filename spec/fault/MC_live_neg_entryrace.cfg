SPECIFICATION FairSpec
CONSTANTS
  Callers = {1, 2}
  MaxCalls = 1
  Cap = 2
  Cancelable = {}
  Deadline = {}
  Batch = {}
  MaxCuts = 0
  MaxCloses = 1
  MaxExpires = 0
  MaxPush = 0
  MaxStalls = 0
  FixEntryRace = FALSE
  BugNoDrain = FALSE
  BugNoDeferred = FALSE
  BugCloseKeepsConn = FALSE
  QueueCtx = FALSE
  MaskE1 = FALSE
PROPERTIES BreakReturns
CHECK_DEADLOCK FALSE
