------------------------------- MODULE Pipe -------------------------------
(* The call path of pipe.go of redis/rueidis (properties C04, the pipeline part of C05, the expiry part of C03):
   Do / DoMulti entry (incrWaits, state load, sync-or-queue decision), syncDo, the queue (an abstract FIFO of capacity
   Cap; ring.go / flowbuffer.go are refined elsewhere), _backgroundWrite, _backgroundRead with its deferred error
   delivery, the clean-up loop of _background, _exit, Close with its PING grace period, expired().

   One action per atomic step / critical section of the Go code; the comment of each action names the statement.
   Calls of callers in Batch are two-command DoMulti calls, the others one-command Do calls.

   Constants that select the code version:
     FixEntryRace   TRUE  = the repaired Do/DoMulti (a caller that was first in, waits == 1, starts the background
                            loops when it leaves and others are waiting, whatever state it loaded);
                    FALSE = the pinned commit (DESIGN.md section 7 #15): NoHang is violated.
     BugNoDrain     the clean-up loop of _background does not fail the queued calls          (mutation)
     BugNoDeferred  the deferred error delivery of _backgroundRead is removed                (mutation)
     BugCloseKeepsConn  Close does not close the connection                                  (mutation)
     QueueCtx       TRUE = the queue's PutOne honours the context while it waits for room (flowbuffer),
                    FALSE = it does not (ring; documented limitation, DESIGN.md section 7 #11)
     MaskE1         TRUE hides the window between incrWaits() and the state load from Close (measurement only) *)
EXTENDS Integers, Sequences, FiniteSets, TLC

CONSTANTS Callers,      \* positive integers
          MaxCalls,     \* calls per caller
          Cap,          \* queue capacity
          Cancelable,   \* callers whose context has a Done channel but no deadline (forces the pipelined path)
          Deadline,     \* callers whose context has a deadline (sync path sets the connection deadline)
          Batch,        \* callers issuing two-command DoMulti calls
          MaxCuts, MaxCloses, MaxExpires, MaxPush, MaxStalls,
          FixEntryRace, BugNoDrain, BugNoDeferred, BugCloseKeepsConn, QueueCtx, MaskE1

VARIABLES state, bg, waits, err,          \* p.state, p.bgState, low half of p.wrCounter, p.error latch
          q, ff,                          \* the queue: entries [id, st \in {"q","w"}, n]; reader's fulfilled count on q[1]
          wout, win, connOpen, stalled,   \* bytes client->server, server->client, the socket, server stall
          closeCh, execd,                 \* close(p.close) happened; set of wire items the server executed
          pc, ncall, ld, mw, got, ctxDone, late, res,     \* per caller
          drainers, wpc, rpc, cpc, cexp,  \* abandoned receivers, writer, reader/clean-up, Close, Close is expired()
          cuts, closes, expires, pushes, stalls, pingput

pipev == <<state, bg, waits, err>>
wirev == <<wout, win, connOpen, stalled>>
callv == <<pc, ncall, ld, mw, got, ctxDone, late, res>>
loopv == <<wpc, rpc, cpc, cexp>>
envv  == <<cuts, closes, expires, pushes, stalls>>
vars  == <<pipev, q, ff, wirev, closeCh, execd, callv, drainers, loopv, envv, pingput>>

PING == 0
PUSH == <<-1, -1, -1>>
N(c) == IF c \in Batch THEN 2 ELSE 1
Id(c) == <<c, ncall[c]>>
Items(id, n) == [k \in 1..n |-> <<id[1], id[2], k>>]
CtxCallers == Cancelable \cup Deadline

Init == /\ state = 0 /\ bg = 0 /\ waits = 0 /\ err = "none" /\ q = <<>> /\ ff = 0
        /\ wout = <<>> /\ win = <<>> /\ connOpen = TRUE /\ stalled = FALSE /\ closeCh = FALSE /\ execd = {}
        /\ pc = [c \in Callers |-> "idle"] /\ ncall = [c \in Callers |-> 0]
        /\ ld = [c \in Callers |-> 0] /\ mw = [c \in Callers |-> 0] /\ got = [c \in Callers |-> 0]
        /\ ctxDone = [c \in Callers |-> FALSE] /\ late = [c \in Callers |-> FALSE]
        /\ res = [c \in Callers |-> <<>>] /\ drainers = {}
        /\ wpc = "off" /\ rpc = "off" /\ cpc = "none" /\ cexp = FALSE
        /\ cuts = 0 /\ closes = 0 /\ expires = 0 /\ pushes = 0 /\ stalls = 0 /\ pingput = FALSE

\* background():  CAS(&p.state, 0, 1); if CAS(&p.bgState, 0, 1) { go p._background() }
BgState(s) == IF s = 0 THEN 1 ELSE s
StartBg == /\ bg' = 1
           /\ wpc' = IF bg = 0 THEN "run" ELSE wpc
           /\ rpc' = IF bg = 0 THEN "run" ELSE rpc
ErrCAS(e) == IF err = "none" THEN e ELSE err           \* p.error.CompareAndSwap(nil, e)
Ret(c, r) == res' = [res EXCEPT ![c] = Append(@, r)]

\* ------------------------------------------------------------------------------------------ callers (Do / DoMulti)
\* a new call with a fresh context;  waits := p.incrWaits()                                  hook: pipe.enter
Enter1(c) == /\ pc[c] = "idle" /\ ncall[c] < MaxCalls
             /\ ncall' = [ncall EXCEPT ![c] = @ + 1]
             /\ waits' = waits + 1 /\ mw' = [mw EXCEPT ![c] = waits + 1]
             /\ ctxDone' = [ctxDone EXCEPT ![c] = FALSE] /\ got' = [got EXCEPT ![c] = 0]
             /\ late' = [late EXCEPT ![c] = (cpc = "done")]
             /\ pc' = [pc EXCEPT ![c] = "e1"]
             /\ UNCHANGED <<state, bg, err, q, ff, wirev, closeCh, execd, ld, res, drainers, loopv, envv, pingput>>
\* state := atomic.LoadInt32(&p.state)
Enter2(c) == /\ pc[c] = "e1"
             /\ ld' = [ld EXCEPT ![c] = state] /\ pc' = [pc EXCEPT ![c] = "route"]
             /\ UNCHANGED <<pipev, q, ff, wirev, closeCh, execd, ncall, mw, got, ctxDone, late, res, drainers, loopv, envv, pingput>>
\* state == 1 -> queue; state == 0: waits != 1 -> queue; cancel-only context -> background(), queue; else sync; else error
Route(c) == /\ pc[c] = "route"
            /\ IF ld[c] = 1 \/ (ld[c] = 0 /\ mw[c] # 1) THEN
                  /\ pc' = [pc EXCEPT ![c] = "put"] /\ UNCHANGED <<state, bg, wpc, rpc, res>>
               ELSE IF ld[c] = 0 /\ c \in Cancelable THEN
                  /\ state' = BgState(state) /\ StartBg
                  /\ pc' = [pc EXCEPT ![c] = "put"] /\ UNCHANGED res
               ELSE IF ld[c] = 0 THEN
                  /\ pc' = [pc EXCEPT ![c] = "syncW"] /\ UNCHANGED <<state, bg, wpc, rpc, res>>
               ELSE /\ Ret(c, <<"err", err>>)                       \* resp = NewErrorResult(p.Error())
                    /\ pc' = [pc EXCEPT ![c] = "leave"] /\ UNCHANGED <<state, bg, wpc, rpc>>
            /\ UNCHANGED <<waits, err, q, ff, wirev, closeCh, execd, ncall, ld, mw, got, ctxDone, late, drainers, cpc, cexp, envv, pingput>>
\* the failure path of syncDo/syncDoMulti: latch the error, p.conn.Close(), p.background()
SyncFailed(c, e) == /\ err' = ErrCAS(e) /\ state' = BgState(state) /\ StartBg
                    /\ connOpen' = FALSE
                    /\ Ret(c, <<"err", e>>) /\ pc' = [pc EXCEPT ![c] = "leave"]
\* flushCmd / writeCmd...Flush
SyncWrite(c) == /\ pc[c] = "syncW"
                /\ IF connOpen THEN /\ wout' = wout \o Items(Id(c), N(c)) /\ pc' = [pc EXCEPT ![c] = "syncR"]
                                    /\ UNCHANGED <<err, state, bg, wpc, rpc, res, connOpen, win>>
                   ELSE SyncFailed(c, "io") /\ UNCHANGED <<wout, win>>
                /\ UNCHANGED <<waits, q, ff, stalled, closeCh, execd, ncall, ld, mw, got, ctxDone, late, drainers, cpc, cexp, envv, pingput>>
\* syncRead (pushes are skipped); a context deadline is the connection's read deadline
SyncRead(c) == /\ pc[c] = "syncR"
               /\ \/ /\ win # <<>> /\ Head(win) = PUSH /\ win' = Tail(win)
                     /\ UNCHANGED <<pc, res, err, state, bg, wpc, rpc, connOpen, got>>
                  \/ /\ win # <<>> /\ Head(win) # PUSH /\ win' = Tail(win)
                     /\ IF Head(win) # <<c, ncall[c], got[c] + 1>>
                        THEN /\ Ret(c, <<"bad", Id(c)>>) /\ pc' = [pc EXCEPT ![c] = "leave"] /\ UNCHANGED got
                        ELSE IF got[c] + 1 = N(c)
                        THEN /\ Ret(c, <<"ok", Id(c)>>) /\ pc' = [pc EXCEPT ![c] = "leave"] /\ UNCHANGED got
                        ELSE /\ got' = [got EXCEPT ![c] = @ + 1] /\ UNCHANGED <<pc, res>>
                     /\ UNCHANGED <<err, state, bg, wpc, rpc, connOpen>>
                  \/ /\ win = <<>> /\ ~connOpen
                     /\ SyncFailed(c, "io") /\ UNCHANGED <<win, got>>
                  \/ /\ win = <<>> /\ connOpen /\ c \in Deadline /\ ctxDone[c]        \* os.ErrDeadlineExceeded
                     /\ SyncFailed(c, "ctx") /\ UNCHANGED <<win, got>>
               /\ UNCHANGED <<waits, q, ff, wout, stalled, closeCh, execd, ncall, ld, mw, ctxDone, late, drainers, cpc, cexp, envv, pingput>>
\* if left := p.decrWaitsAndIncrRecvs(); state == 0 && left != 0 { p.background() }
\* repaired:                              (state == 0 || waits == 1) && left != 0
Leave(c) == /\ pc[c] = "leave"
            /\ waits' = waits - 1
            /\ IF (ld[c] = 0 \/ (FixEntryRace /\ mw[c] = 1)) /\ waits - 1 # 0 THEN state' = BgState(state) /\ StartBg
               ELSE UNCHANGED <<state, bg, wpc, rpc>>
            /\ pc' = [pc EXCEPT ![c] = "idle"]
            /\ UNCHANGED <<err, q, ff, wirev, closeCh, execd, ncall, ld, mw, got, ctxDone, late, res, drainers, cpc, cexp, envv, pingput>>
\* ch, err := p.queue.PutOne(ctx, cmd)  (blocks while the queue is full)
Put(c) == /\ pc[c] = "put" /\ Len(q) < Cap
          /\ q' = Append(q, [id |-> Id(c), st |-> "q", n |-> N(c)]) /\ pc' = [pc EXCEPT ![c] = "wait"]
          /\ UNCHANGED <<pipev, ff, wirev, closeCh, execd, ncall, ld, mw, got, ctxDone, late, res, drainers, loopv, envv, pingput>>
\* flowbuffer only: PutOne returns ctx.Err() while waiting for room;  p.decrWaits(); return
PutAbort(c) == /\ QueueCtx /\ pc[c] = "put" /\ Len(q) >= Cap /\ ctxDone[c]
               /\ waits' = waits - 1 /\ Ret(c, <<"err", "ctx">>) /\ pc' = [pc EXCEPT ![c] = "idle"]
               /\ UNCHANGED <<state, bg, err, q, ff, wirev, closeCh, execd, ncall, ld, mw, got, ctxDone, late, drainers, loopv, envv, pingput>>
\* case <-ctxCh: goto abort   (a goroutine keeps waiting for the reply and releases the wait count)
Abort(c) == /\ pc[c] = "wait" /\ ctxDone[c]
            /\ Ret(c, <<"err", "ctx">>)
            /\ drainers' = drainers \cup {Id(c)} /\ pc' = [pc EXCEPT ![c] = "idle"]
            /\ UNCHANGED <<pipev, q, ff, wirev, closeCh, execd, ncall, ld, mw, got, ctxDone, late, loopv, envv, pingput>>
\* p.decrWaitsAndIncrRecvs() after resp = <-ch
Recvd(c) == /\ pc[c] = "recvd" /\ waits' = waits - 1 /\ pc' = [pc EXCEPT ![c] = "idle"]
            /\ UNCHANGED <<state, bg, err, q, ff, wirev, closeCh, execd, ncall, ld, mw, got, ctxDone, late, res, drainers, loopv, envv, pingput>>
\* the caller's context ends (cancel() or the deadline passes)
CtxEnd(c) == /\ c \in CtxCallers /\ pc[c] # "idle" /\ ~ctxDone[c]
             /\ ctxDone' = [ctxDone EXCEPT ![c] = TRUE]
             /\ UNCHANGED <<pipev, q, ff, wirev, closeCh, execd, pc, ncall, ld, mw, got, late, res, drainers, loopv, envv, pingput>>

\* ch <- r : hand result r to the receiver of entry e (caller, goroutine of an abandoned call, injected PING, Close's PING)
Deliver(e, r) ==
   IF e.id = <<PING, 0>> THEN /\ waits' = waits - 1 /\ UNCHANGED <<pc, res, drainers, cpc>>
   ELSE IF e.id \in drainers THEN /\ drainers' = drainers \ {e.id} /\ waits' = waits - 1 /\ UNCHANGED <<pc, res, cpc>>
   ELSE IF e.id = <<PING, 1>> THEN /\ cpc = "grace" /\ cpc' = "got" /\ UNCHANGED <<pc, res, drainers, waits>>
   ELSE LET c == e.id[1] IN
        /\ pc[c] = "wait" /\ Id(c) = e.id
        /\ Ret(c, r) /\ pc' = [pc EXCEPT ![c] = "recvd"]
        /\ UNCHANGED <<waits, drainers, cpc>>

\* ------------------------------------------------------------------------------------------ writer (_backgroundWrite)
FirstQ == CHOOSE i \in 1..Len(q) : q[i].st = "q" /\ \A j \in 1..(i-1) : q[j].st # "q"
HasQ == \E i \in 1..Len(q) : q[i].st = "q"
\* NextWriteCmd/WaitForWrite + writeCmd (+Flush); a write error ends the loop: _exit(err); close(p.close)
WTake == /\ wpc = "run" /\ HasQ
         /\ q' = [q EXCEPT ![FirstQ].st = "w"]
         /\ IF connOpen THEN /\ wout' = wout \o Items(q[FirstQ].id, q[FirstQ].n) /\ UNCHANGED <<wpc, err, state, closeCh>>
            ELSE /\ wpc' = "exited" /\ err' = ErrCAS("io") /\ state' = IF state = 1 THEN 2 ELSE state
                 /\ closeCh' = TRUE /\ UNCHANGED wout
         /\ UNCHANGED <<bg, waits, ff, win, connOpen, stalled, execd, callv, drainers, rpc, cpc, cexp, envv, pingput>>

\* ------------------------------------------------------------------------------------------ server and environment
SRecv == /\ connOpen /\ ~stalled /\ wout # <<>>
         /\ execd' = execd \cup {Head(wout)} /\ win' = Append(win, Head(wout)) /\ wout' = Tail(wout)
         /\ UNCHANGED <<pipev, q, ff, connOpen, stalled, closeCh, callv, drainers, loopv, envv, pingput>>
SPush == /\ connOpen /\ pushes < MaxPush /\ pushes' = pushes + 1 /\ win' = Append(win, PUSH)
         /\ UNCHANGED <<pipev, q, ff, wout, connOpen, stalled, closeCh, execd, callv, drainers, loopv, cuts, closes, expires, stalls, pingput>>
\* the server stops reading and answering (a stall; nothing is fair on the server side anyway)
Stall == /\ connOpen /\ ~stalled /\ stalls < MaxStalls /\ stalls' = stalls + 1 /\ stalled' = TRUE
         /\ UNCHANGED <<pipev, q, ff, wout, win, connOpen, closeCh, execd, callv, drainers, loopv, cuts, closes, expires, pushes, pingput>>
\* the connection breaks: unread requests are lost, replies in flight may be lost from any point on (also mid-batch)
Cut == /\ connOpen /\ cuts < MaxCuts /\ cuts' = cuts + 1 /\ connOpen' = FALSE /\ wout' = <<>>
       /\ \E k \in 0..Len(win) : win' = SubSeq(win, 1, k)
       /\ UNCHANGED <<pipev, q, ff, stalled, closeCh, execd, callv, drainers, loopv, closes, expires, pushes, stalls, pingput>>

\* ------------------------------------------------------------------------------------------ reader (_backgroundRead)
RRead == /\ rpc = "run" /\ win # <<>>
         /\ IF Head(win) = PUSH THEN /\ win' = Tail(win) /\ UNCHANGED <<q, ff, pc, res, drainers, waits, cpc>>
            ELSE /\ q # <<>> /\ q[1].st = "w"        \* otherwise the protocol-bug panic (invariant ProtocolOk)
                 /\ win' = Tail(win)
                 /\ IF Head(win) # <<q[1].id[1], q[1].id[2], ff + 1>>
                    THEN /\ Deliver(q[1], <<"bad", q[1].id>>) /\ q' = Tail(q) /\ ff' = 0
                    ELSE IF ff + 1 = q[1].n
                    THEN /\ Deliver(q[1], <<"ok", q[1].id>>)
                         /\ q' = Tail(q) /\ ff' = 0                       \* ch <- resp; p.queue.FinishResult()
                    ELSE /\ ff' = ff + 1 /\ UNCHANGED <<q, pc, res, drainers, waits, cpc>>
         /\ UNCHANGED <<state, bg, err, wout, connOpen, stalled, closeCh, execd, ncall, ld, mw, got, ctxDone, late, wpc, rpc, cexp, envv, pingput>>
\* readNextMessage fails: the deferred function fails the partially fulfilled call (with errConnExpired when that is
\* latched, else with the read error), then _exit(err)
RFail == /\ rpc = "run" /\ win = <<>> /\ ~connOpen
         /\ IF ff # 0 /\ ~BugNoDeferred
            THEN /\ Deliver(q[1], <<"err", IF err = "expired" THEN "expired" ELSE "io">>) /\ q' = Tail(q)
            ELSE IF ff # 0 THEN /\ q' = Tail(q) /\ UNCHANGED <<pc, res, drainers, waits, cpc>>     \* mutation: the call is lost
            ELSE UNCHANGED <<q, pc, res, drainers, waits, cpc>>
         /\ ff' = 0
         /\ err' = ErrCAS("io") /\ state' = IF state = 1 THEN 2 ELSE state
         /\ rpc' = "exit"
         /\ UNCHANGED <<bg, wirev, closeCh, execd, ncall, ld, mw, got, ctxDone, late, wpc, cexp, envv, pingput>>
\* select { case <-p.close: default: p.incrWaits(); go func() { PutOne(PING); <-ch; p.decrWaits() }() }
RExit == /\ rpc = "exit" /\ rpc' = "drain"
         /\ IF ~closeCh THEN /\ waits' = waits + 1 /\ pingput' = TRUE ELSE UNCHANGED <<waits, pingput>>
         /\ UNCHANGED <<state, bg, err, q, ff, wirev, closeCh, execd, callv, drainers, wpc, cpc, cexp, envv>>
PingPut == /\ pingput /\ Len(q) < Cap /\ q' = Append(q, [id |-> <<PING, 0>>, st |-> "q", n |-> 1]) /\ pingput' = FALSE
           /\ UNCHANGED <<pipev, ff, wirev, closeCh, execd, callv, drainers, loopv, envv>>
\* ------------------------------------------------------------------------------------------ clean-up loop of _background
\* for p.loadWaits() != 0 { select { case <-p.close: p.queue.NextWriteCmd() default: } ; NextResultCh -> ch <- err ... }
DrainMark == /\ ~BugNoDrain /\ rpc = "drain" /\ waits # 0 /\ closeCh /\ HasQ
             /\ q' = [q EXCEPT ![FirstQ].st = "w"]
             /\ UNCHANGED <<pipev, ff, wirev, closeCh, execd, callv, drainers, loopv, envv, pingput>>
DrainOne == /\ ~BugNoDrain /\ rpc = "drain" /\ waits # 0 /\ q # <<>> /\ q[1].st = "w"
            /\ Deliver(q[1], <<"err", err>>) /\ q' = Tail(q)
            /\ UNCHANGED <<state, bg, err, ff, wirev, closeCh, execd, ncall, ld, mw, got, ctxDone, late, wpc, rpc, cexp, envv, pingput>>
\* the loop ends; <-p.close; atomic.StoreInt32(&p.state, 4)
DrainEnd == /\ rpc = "drain" /\ waits = 0 /\ closeCh /\ rpc' = "finished" /\ state' = 4
            /\ UNCHANGED <<bg, waits, err, q, ff, wirev, closeCh, execd, callv, drainers, wpc, cpc, cexp, envv, pingput>>

\* ------------------------------------------------------------------------------------------ Close / expired
\* p.error.CompareAndSwap(nil, errClosing) (after errExpired in expired()); waits := p.incrWaits();
\* CAS(state,0,2), CAS(state,1,2); if stopping1 && waits == 1 { p.background() }           hooks: pipe.close.begin/cas
CloseStart(expire) ==
   /\ cpc \in {"none", "done"}
   /\ IF expire THEN expires < MaxExpires /\ expires' = expires + 1 /\ UNCHANGED closes
      ELSE closes < MaxCloses /\ closes' = closes + 1 /\ UNCHANGED expires
   /\ MaskE1 => \A c \in Callers : pc[c] # "e1"
   /\ err' = ErrCAS(IF expire THEN "expired" ELSE "closing") /\ waits' = waits + 1
   /\ state' = IF state \in {0, 1} THEN 2 ELSE state
   /\ IF state = 0 /\ waits + 1 = 1 THEN StartBg ELSE UNCHANGED <<bg, wpc, rpc>>
   /\ cpc' = IF state \in {0, 1} THEN "ping" ELSE "fin"
   /\ cexp' = expire
   /\ UNCHANGED <<q, ff, wirev, closeCh, execd, callv, drainers, cuts, pushes, stalls, pingput>>
\* p.incrWaits(); ch, _ := p.queue.PutOne(context.Background(), cmds.PingCmd)
ClosePing == /\ cpc = "ping" /\ Len(q) < Cap
             /\ waits' = waits + 1 /\ q' = Append(q, [id |-> <<PING, 1>>, st |-> "q", n |-> 1]) /\ cpc' = "grace"
             /\ UNCHANGED <<state, bg, err, ff, wirev, closeCh, execd, callv, drainers, wpc, rpc, cexp, envv, pingput>>
\* case <-ch: p.decrWaits()
CloseGot == /\ cpc = "got" /\ waits' = waits - 1 /\ cpc' = "fin"
            /\ UNCHANGED <<state, bg, err, q, ff, wirev, closeCh, execd, callv, drainers, wpc, rpc, cexp, envv, pingput>>
\* case <-time.After(time.Second): go func() { <-ch; p.decrWaits() }()
CloseTimeout == /\ cpc = "grace" /\ drainers' = drainers \cup {<<PING, 1>>} /\ cpc' = "fin"
                /\ UNCHANGED <<pipev, q, ff, wirev, closeCh, execd, callv, wpc, rpc, cexp, envv, pingput>>
\* p.decrWaits(); p.conn.Close()
CloseEnd == /\ cpc = "fin" /\ waits' = waits - 1 /\ cpc' = "done"
            /\ IF BugCloseKeepsConn THEN UNCHANGED <<connOpen, wout, win>>
               ELSE /\ connOpen' = FALSE /\ wout' = <<>> /\ \E k \in 0..Len(win) : win' = SubSeq(win, 1, k)
            /\ UNCHANGED <<state, bg, err, q, ff, stalled, closeCh, execd, callv, drainers, wpc, rpc, cexp, envv, pingput>>

Next == \/ \E c \in Callers : Enter1(c) \/ Enter2(c) \/ Route(c) \/ SyncWrite(c) \/ SyncRead(c) \/ Leave(c)
                              \/ Put(c) \/ PutAbort(c) \/ Abort(c) \/ Recvd(c) \/ CtxEnd(c)
        \/ WTake \/ SRecv \/ SPush \/ Stall \/ Cut \/ RRead \/ RFail \/ RExit \/ PingPut \/ DrainMark \/ DrainOne \/ DrainEnd
        \/ CloseStart(FALSE) \/ CloseStart(TRUE) \/ ClosePing \/ CloseGot \/ CloseTimeout \/ CloseEnd
Spec == Init /\ [][Next]_vars

\* fairness of the client's own goroutines and timers only: nothing is assumed about the server, the network, the
\* callers' decision to start calls, cancel contexts or call Close
ClientStep == \/ \E c \in Callers : Enter2(c) \/ Route(c) \/ SyncWrite(c) \/ SyncRead(c) \/ Leave(c)
                                    \/ Put(c) \/ PutAbort(c) \/ Abort(c) \/ Recvd(c)
FairSpec == /\ Spec
            /\ \A c \in Callers : WF_vars(Enter2(c) \/ Route(c) \/ SyncWrite(c) \/ SyncRead(c) \/ Leave(c)
                                          \/ Put(c) \/ PutAbort(c) \/ Abort(c) \/ Recvd(c))
            /\ WF_vars(WTake) /\ WF_vars(RRead \/ RFail \/ RExit) /\ WF_vars(PingPut)
            /\ WF_vars(DrainMark \/ DrainOne \/ DrainEnd)
            /\ WF_vars(ClosePing \/ CloseGot \/ CloseTimeout \/ CloseEnd)

\* ------------------------------------------------------------------------------------------ properties
TypeOK == /\ state \in 0..4 /\ bg \in 0..1 /\ waits \in 0..(2 * Cardinality(Callers) + 4)
          /\ err \in {"none", "io", "closing", "expired", "ctx"}
          /\ Len(q) <= Cap /\ ff \in 0..1
          /\ \A c \in Callers : pc[c] \in {"idle", "e1", "route", "syncW", "syncR", "leave", "put", "wait", "recvd"}
Results(c) == {res[c][i] : i \in 1..Len(res[c])}
\* C01/C04: a value handed to a call is the reply to that call's own request(s), and the server really produced it
OwnReplies == \A c \in Callers : \A i \in 1..Len(res[c]) :
                 /\ res[c][i][1] # "bad"
                 /\ res[c][i][1] = "ok" => /\ res[c][i][2] = <<c, i>>
                                           /\ \A k \in 1..N(c) : <<c, i, k>> \in execd
\* C04: an error result is never nil: it carries the latched or the local error
ErrorAfterBreak == \A c \in Callers : \A i \in 1..Len(res[c]) :
                      res[c][i][1] = "err" => res[c][i][2] \in {"io", "closing", "expired", "ctx"}
\* C04: a call that starts after Close returned is answered with the latched error (ErrClosing unless the pipe had
\* failed before; the mux answers ErrClosing from its dead wire) and puts nothing on the wire
ClosingAfterClose == \A c \in Callers : late[c] => /\ pc[c] \in {"idle", "e1", "route", "leave"}
                                                   /\ pc[c] \in {"idle", "leave"} =>
                                                        /\ Len(res[c]) = ncall[c]
                                                        /\ res[c][ncall[c]][1] = "err"
                                                        /\ res[c][ncall[c]][2] = err /\ err # "none"
SyncExclusive == \A c \in Callers : pc[c] = "syncR" => rpc # "run"
ProtocolOk == (rpc = "run" /\ win # <<>> /\ Head(win) # PUSH) => (q # <<>> /\ q[1].st = "w")
\* C04: once the connection is gone or Close has returned, no run can end with a call still pending
NoHang == (~ENABLED Next /\ (~connOpen \/ cpc = "done")) => \A c \in Callers : pc[c] = "idle"
\* C03 (expiry part): errConnExpired, which every client wrapper answers with a blind re-send, is only handed to calls
\* whose request the server has not executed.  Violated by the code as it is (DESIGN.md section 7 #10).
ExpiredOnlyIfNotExecuted ==
   \A c \in Callers : \A i \in 1..Len(res[c]) :
      (res[c][i] = <<"err", "expired">>) => \A k \in 1..N(c) : <<c, i, k>> \notin execd

\* liveness (FairSpec)
Pending(c) == pc[c] # "idle"
\* C04: calls pending when the connection breaks or Close returns do return
BreakReturns == \A c \in Callers : (Pending(c) /\ (~connOpen \/ cpc = "done")) ~> ~Pending(c)
\* C05: a pipelined call whose context ended returns
CtxDoneReturns == \A c \in CtxCallers : (Pending(c) /\ ctxDone[c]) ~> ~Pending(c)
===========================================================================
