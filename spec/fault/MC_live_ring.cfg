SPECIFICATION FairSpec
CONSTANTS
  Callers = {1, 2}
  MaxCalls = 1
  Cap = 1
  Cancelable = {2}
  Deadline = {}
  Batch = {}
  MaxCuts = 0
  MaxCloses = 0
  MaxExpires = 0
  MaxPush = 0
  MaxStalls = 1
  FixEntryRace = TRUE
  BugNoDrain = FALSE
  BugNoDeferred = FALSE
  BugCloseKeepsConn = FALSE
  QueueCtx = FALSE
  MaskE1 = FALSE
PROPERTIES CtxDoneReturns
CHECK_DEADLOCK FALSE
