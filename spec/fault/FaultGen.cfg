SPECIFICATION GenSpec
INVARIANTS GenCase
CHECK_DEADLOCK FALSE
