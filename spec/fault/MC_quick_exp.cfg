SPECIFICATION Spec
CONSTANTS
  Callers = {1, 2}
  MaxCalls = 1
  Cap = 2
  Cancelable = {}
  Deadline = {}
  Batch = {}
  MaxCuts = 0
  MaxCloses = 0
  MaxExpires = 1
  MaxPush = 0
  MaxStalls = 1
  FixEntryRace = TRUE
  BugNoDrain = FALSE
  BugNoDeferred = FALSE
  BugCloseKeepsConn = FALSE
  QueueCtx = FALSE
  MaskE1 = FALSE
INVARIANTS TypeOK OwnReplies ErrorAfterBreak ClosingAfterClose SyncExclusive ProtocolOk NoHang
CHECK_DEADLOCK FALSE
