SPECIFICATION SSpec
CONSTANTS
  FocusAll = FALSE
  Callers = {1, 2}
  MaxCalls = 2
  MaxTotal = 3
  Kinds = {"do", "multi"}
  PushKinds = {"invalidate"}
  MaxPush = 1
  MaxCancel = 1
  MaxCut = 0
  UseHold = TRUE
  InvalOn = TRUE
  Eager = TRUE
  Gen = TRUE
  BugOffByOne = FALSE
  BugRecycle = FALSE
  BugSplitBatch = FALSE
  BugFutureReply = FALSE
  BugUnsubFirstOnly = FALSE
  BugSkipMsg = FALSE
  BugNoLossNil = FALSE
  BugSkipInval = FALSE
  Dedicated = FALSE
  BugNoTrackingOff = FALSE
  CacheChoices = {TRUE}
  BugLossNilNeedsCache = FALSE
  BugUnsubWrongSub = FALSE
VIEW GenView
INVARIANTS TypeOK PrintScript
CHECK_DEADLOCK FALSE
