SPECIFICATION SSpec
CONSTANTS
  FocusAll = FALSE
  Callers = {1, 2}
  MaxCalls = 2
  MaxTotal = 2
  Kinds = {"do"}
  PushKinds = {"invalidate", "flush"}
  MaxPush = 2
  MaxCancel = 1
  MaxCut = 1
  UseHold = FALSE
  InvalOn = TRUE
  Eager = TRUE
  Gen = FALSE
  BugOffByOne = FALSE
  BugRecycle = FALSE
  BugSplitBatch = FALSE
  BugFutureReply = FALSE
  BugUnsubFirstOnly = FALSE
  BugSkipMsg = FALSE
  BugNoLossNil = FALSE
  BugSkipInval = TRUE
  Dedicated = FALSE
  BugNoTrackingOff = FALSE
  CacheChoices = {TRUE}
  BugLossNilNeedsCache = FALSE
  BugUnsubWrongSub = FALSE
VIEW MCView
INVARIANTS TypeOK InvalidationLog
CHECK_DEADLOCK FALSE
