------------------------------- MODULE HookSeq -------------------------------
(* Life cycle of the channels handed out by DedicatedClient.SetPubSubHooks / SetOnInvalidations (C26: "channels
   returned by SetPubSubHooks are closed exactly once"; C27 for the invalidation hook) over whole call SEQUENCES on one
   dedicated client: set, replace, clear, before and after the first command, message / invalidation pushes in
   between, Close, release.

   Two layers in one module:

   * the REQUIREMENT (what the caller may rely on): `want` = the hooks asked for last (zero after a clear), `wantCh` =
     the one channel that is still open (0: none).  A call that installs non-zero hooks returns a new channel and ends
     the previous one; a clear returns nil and ends the previous one; release ends it; Close ends it with at most one
     error value.  A message push on the session's connection goes to want.msg, an invalidation push to want.inv.

   * the STRUCTURE of the two implementations: dedicatedSingleClient (client.go; the wire is there from the start, every
     call goes to pipe.SetPubSubHooks) and dedicatedClusterClient (cluster.go; Lazy = TRUE: no wire until the first
     command; hooks set before are PARKED in c.pshks together with the channel given to the caller; acquire() moves
     them to the wire and forwards the wire's channel into the parked one; SetPubSubHooks / release / Close end a
     parked channel themselves).  closes[k] counts close() calls on the caller's k-th channel - a second one is a
     panic in Go.

   The invariants tie the layers together (a refinement check in miniature): InstalledIsWanted, OpenIsWanted,
   NoDoubleClose, AllClosedAtEnd.  BugKeepParked is the plausible slip of losing `c.pshks = nil` on the clear path.
   With Emit = TRUE every finished behaviour is printed as a CASE record: the op sequence and, per op, what the
   REQUIREMENT layer predicts (returned nil / channel number, receiver of a probe, set of channels that must be open
   afterwards, channels that may carry one value).  harness/cmd/pipedrv -modes hookseq replays the records on dedicated
   clients of the single and of the cluster client. *)
EXTENDS Integers, Sequences, FiniteSets, TLC, Json

CONSTANTS MaxOps,          \* calls before the ending (Close?, release)
          MaxProbes,       \* of which pushes
          LazyChoices,     \* {FALSE}: wire from the start (single), {TRUE}: wire at the first command (cluster), or both
          Emit,
          BugKeepParked,   \* a clear before the first command closes the parked channel but keeps the pointer
          BugNoCloseOnReplace  \* replacing hooks does not close the previous channel

VARIABLES lazy, bound, mark, closed,     \* closed: Close() was called
          want, wantCh,                  \* requirement layer
          parkPtr, parkHooks,            \* c.pshks (0 = nil): the caller's channel it holds, the hooks it would install
          wireHooks, wireCh,             \* hooks installed on the connection; caller's channel that ends when they go
          closes, mayVal,                \* per caller channel: close() calls; may carry one error value
          nops, nprobes, hist
vars == <<lazy, bound, mark, closed, want, wantCh, parkPtr, parkHooks, wireHooks, wireCh, closes, mayVal, nops, nprobes, hist>>

Zero == [msg |-> 0, inv |-> 0]
IsZero(h) == h.msg = 0 /\ h.inv = 0
NCh == Len(closes)

Init == /\ lazy \in LazyChoices /\ bound = ~lazy /\ mark = FALSE /\ closed = FALSE
        /\ want = Zero /\ wantCh = 0
        /\ parkPtr = 0 /\ parkHooks = Zero /\ wireHooks = Zero /\ wireCh = 0
        /\ closes = <<>> /\ mayVal = <<>> /\ nops = 0 /\ nprobes = 0 /\ hist = <<>>

\* close() on caller channel k (0: nothing); cs is the closes vector to update
CloseOn(cs, k) == IF k = 0 THEN cs ELSE [cs EXCEPT ![k] = @ + 1]
OpenSet(cs) == {k \in 1..Len(cs) : cs[k] = 0}
Log(rec) == hist' = Append(hist, rec)

\* SetPubSubHooks(h) with the hooks h the implementation computed; g = generation (= number of this call)
\* returns the caller's new channel number (0 = nil)
SetImpl(h) ==
  LET k == NCh + 1
      cs0 == IF lazy THEN CloseOn(closes, parkPtr) ELSE closes              \* cluster: if p := c.pshks; p != nil { close(p.close) }
      ptr0 == IF lazy /\ ~(BugKeepParked /\ ~bound /\ IsZero(h)) THEN 0 ELSE parkPtr
  IN IF bound
     THEN \* wire.SetPubSubHooks(h): swap, close the old channel, a new one unless h is zero
          LET cs1 == IF BugNoCloseOnReplace /\ ~IsZero(h) THEN cs0 ELSE CloseOn(cs0, wireCh) IN
          /\ wireHooks' = h /\ parkPtr' = ptr0 /\ UNCHANGED parkHooks
          /\ IF IsZero(h) THEN /\ wireCh' = 0 /\ closes' = cs1 /\ UNCHANGED mayVal
                          ELSE /\ wireCh' = k /\ closes' = Append(cs1, 0) /\ mayVal' = Append(mayVal, FALSE)
     ELSE \* no wire yet: park
          /\ UNCHANGED <<wireHooks, wireCh>>
          /\ IF IsZero(h) THEN /\ parkPtr' = ptr0 /\ closes' = cs0 /\ UNCHANGED <<mayVal, parkHooks>>
                          ELSE /\ parkPtr' = k /\ parkHooks' = h /\ closes' = Append(cs0, 0) /\ mayVal' = Append(mayVal, FALSE)

Room == ~mark /\ ~closed /\ nops < MaxOps
Count == nops' = nops + 1

OSet == /\ Room /\ Count
        /\ LET h == [msg |-> nops + 1, inv |-> 0] IN
           /\ SetImpl(h) /\ want' = h /\ wantCh' = NCh + 1
           /\ Log([op |-> "set", gen |-> nops + 1, ch |-> NCh + 1, to |-> 0, open |-> {NCh + 1}])
        /\ UNCHANGED <<lazy, bound, mark, closed, nprobes>>
\* SetOnInvalidations(fn): the hooks in force plus fn
OSetInv == /\ Room /\ Count
           /\ LET base == IF bound THEN wireHooks ELSE IF parkPtr # 0 THEN parkHooks ELSE Zero   \* GetPubSubHooks / c.pshks.hooks
                  h == [base EXCEPT !.inv = nops + 1]
              IN /\ SetImpl(h) /\ want' = [want EXCEPT !.inv = nops + 1] /\ wantCh' = NCh + 1
                 /\ Log([op |-> "setinv", gen |-> nops + 1, ch |-> NCh + 1, to |-> 0, open |-> {NCh + 1}])
           /\ UNCHANGED <<lazy, bound, mark, closed, nprobes>>
OClear == /\ Room /\ Count
          /\ SetImpl(Zero) /\ want' = Zero /\ wantCh' = 0
          /\ Log([op |-> "clear", gen |-> 0, ch |-> 0, to |-> 0, open |-> {}])
          /\ UNCHANGED <<lazy, bound, mark, closed, nprobes>>
\* acquire(): the first command binds the wire and moves parked hooks to it (their channel now ends with the wire's)
Bind == IF bound THEN UNCHANGED <<bound, parkPtr, parkHooks, wireHooks, wireCh>>
        ELSE /\ bound' = TRUE /\ parkPtr' = 0 /\ UNCHANGED parkHooks
             /\ IF parkPtr # 0 THEN wireHooks' = parkHooks /\ wireCh' = parkPtr
                               ELSE UNCHANGED <<wireHooks, wireCh>>
OCmd == /\ Room /\ Count /\ Bind
        /\ Log([op |-> "cmd", gen |-> 0, ch |-> 0, to |-> 0, open |-> IF wantCh = 0 THEN {} ELSE {wantCh}])
        /\ UNCHANGED <<lazy, mark, closed, want, wantCh, closes, mayVal, nprobes>>
\* a push on the session's connection (the probe sends a command first, so the wire is bound)
OProbe(kind) == /\ Room /\ Count /\ nprobes < MaxProbes /\ Bind /\ nprobes' = nprobes + 1
                /\ Log([op |-> kind, gen |-> 0, ch |-> 0, to |-> IF kind = "msg" THEN want.msg ELSE want.inv,
                        open |-> IF wantCh = 0 THEN {} ELSE {wantCh}])
                /\ UNCHANGED <<lazy, mark, closed, want, wantCh, closes, mayVal>>
\* DedicatedClient.Close(): a parked channel gets ErrClosing and is closed; a bound wire is closed, its hooks channel
\* gets the error and is closed (or is closed without a value by the release that follows - both are allowed)
OClose == /\ ~mark /\ ~closed /\ closed' = TRUE
          /\ closes' = CloseOn(CloseOn(closes, IF lazy THEN parkPtr ELSE 0), IF bound THEN wireCh ELSE 0)
          /\ mayVal' = [k \in 1..NCh |-> mayVal[k] \/ (lazy /\ k = parkPtr) \/ (bound /\ k = wireCh)]
          /\ parkPtr' = 0 /\ wireCh' = 0 /\ wireHooks' = Zero
          /\ want' = Zero /\ wantCh' = 0
          /\ Log([op |-> "close", gen |-> 0, ch |-> 0, to |-> 0, open |-> {}])
          /\ UNCHANGED <<lazy, bound, mark, parkHooks, nops, nprobes>>
\* release(): parked channel closed, the wire goes back through mux.Store (SetPubSubHooks({}) ends its channel)
ORelease == /\ ~mark /\ mark' = TRUE
            /\ closes' = CloseOn(CloseOn(closes, IF lazy THEN parkPtr ELSE 0), IF bound THEN wireCh ELSE 0)
            /\ parkPtr' = 0 /\ wireCh' = 0 /\ wireHooks' = Zero
            /\ want' = Zero /\ wantCh' = 0
            /\ Log([op |-> "release", gen |-> 0, ch |-> 0, to |-> 0, open |-> {}])
            /\ UNCHANGED <<lazy, bound, closed, parkHooks, mayVal, nops, nprobes>>

Next == OSet \/ OSetInv \/ OClear \/ OCmd \/ OProbe("msg") \/ OProbe("inv") \/ OClose \/ ORelease
Spec == Init /\ [][Next]_vars

\* ---- properties
TypeOK == /\ Len(closes) = Len(mayVal) /\ parkPtr \in 0..NCh /\ wireCh \in 0..NCh /\ wantCh \in 0..NCh
\* C26: a channel is never closed twice (panic)
NoDoubleClose == \A k \in 1..NCh : closes[k] <= 1
\* C26: exactly the channel of the hooks in force is open: replaced, cleared and released hooks end theirs
OpenIsWanted == OpenSet(closes) = (IF wantCh = 0 THEN {} ELSE {wantCh})
\* C26/C27: what is installed on the connection (or waits to be installed) is what the caller asked for last
Installed == IF bound THEN wireHooks ELSE IF parkPtr # 0 THEN parkHooks ELSE Zero
InstalledIsWanted == Installed = want
\* C26: once the session is over every channel has been closed (exactly once)
AllClosedAtEnd == mark => \A k \in 1..NCh : closes[k] = 1
\* nothing stays parked once the wire is there or the session is over
NoStaleParked == (mark \/ (lazy /\ bound)) => parkPtr = 0

EmitCase == (Emit /\ mark) =>
              PrintT(<<"CASE", ToJson([lazy |-> lazy, ops |-> hist, nch |-> NCh,
                                       mayval |-> {k \in 1..NCh : mayVal[k]}])>>)
=============================================================================
