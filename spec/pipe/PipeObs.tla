------------------------------- MODULE PipeObs -------------------------------
(* The OBSERVABLE specification of the auto-pipelined rueidis connection (pipe.go, pubsub.go, mux.go, client.go,
   internal/cmds) as seen from outside.  Its actions are exactly the alphabet of the traces that the driver
   harness/cmd/pipedrv records: what the callers do (Call, Cancel, Ret, the Receive / invalidation / hook
   callbacks) and what the fake server sees and sends (SConn, SRecv, SExec, SRep, SPush, SCut/SClose) plus the
   environment controls of the driver (Hold, Release, CloseBegin, Quiesce).  Every action only RECORDS; it has no
   guard about the client's behaviour.  The properties are the invariants below:

     C01  OwnRepliesInOrder  NoReplyFromFuture  BatchContiguousOnWire  NoSpuriousError  AllReturnedAtQuiesce
     C33  ArgvImmutable
     C26  PubSubOrder  ReceiveReturn  ReceiveEndsByItself  HookOrder  HookClosedOnce
     C27  InvalidationLog  LossNilOnce  TrackingOffOnRelease

   The module is used twice: PipeScenario.tla drives the alphabet with a small abstract client and environment
   (exhaustive model checking, negative configurations, scenario generation) and PipeTrace.tla drives it with the
   events recorded from the real client (trace validation).  The order of a recorded trace is a linear extension of
   happens-before only (Call is logged before the call, Ret after it returned, server events under the dispatcher
   mutex), so no invariant may demand more than that: they say WHAT is returned, never how soon.

   Wire model.  A reply frame answers the oldest received command that expects a reply (Redis answers in order);
   SUBSCRIBE-type commands expect none (their confirmations are push frames).  A command is identified on the wire
   by the unique id the driver embeds in its argv ("" for protocol commands the client adds by itself: CLIENT
   CACHING YES, MULTI, PTTL, EXEC, PING ...).  The expected wire form of a call is a function of its kind (Wire). *)
EXTENDS Integers, Sequences, FiniteSets, TLC

CONSTANT FocusAll  \* TRUE: the invariants quantify over the whole state (model checking)
                   \* FALSE: only over what the last event touched (trace validation; same verdict, linear cost)

VARIABLES calls,   \* call id -> record (kind, wire form, status, results, Receive bookkeeping)
          built,   \* command id -> [c, j, argv]: the argv the caller built (command j of the wire form of call c)
          conns,   \* connection id -> record (recvd, reps, out, released, lost, invalidation cursor ...)
          where,   \* command id -> [conn, pos]: first reception on the wire
          sessv,   \* dedicated session id -> record (connection, hooks, cursors)
          glob,    \* [closing, quiesced, bad, invalOn]: client Close begun / driver quiesced / broken callback matches /
                   \* the client was created with an OnInvalidations callback
          last     \* what the last event touched (focus of the invariants in trace validation)
vars == <<calls, built, conns, where, sessv, glob, last>>

-----------------------------------------------------------------------------
(* ---- protocol knowledge *)
NoReplyCmds == {"SUBSCRIBE", "PSUBSCRIBE", "SSUBSCRIBE", "UNSUBSCRIBE", "PUNSUBSCRIBE", "SUNSUBSCRIBE"}
SubCmds     == {"SUBSCRIBE", "PSUBSCRIBE", "SSUBSCRIBE"}
ExpectsReply(argv) == argv[1] \notin NoReplyCmds
\* commands the client may send without the caller having built them
ProtocolCmds == {"HELLO", "AUTH", "CLIENT", "SELECT", "READONLY", "PING", "MULTI", "EXEC", "PTTL", "DISCARD", "ECHO",
                 "INFO", "QUIT", "UNSUBSCRIBE", "PUNSUBSCRIBE", "SUNSUBSCRIBE"}
MsgKinds == {"message", "pmessage", "smessage"}
MsgKindOf(cmd)   == CASE cmd = "SUBSCRIBE" -> "message" [] cmd = "PSUBSCRIBE" -> "pmessage" [] OTHER -> "smessage"
UnsubKindOf(cmd) == CASE cmd = "SUBSCRIBE" -> "unsubscribe" [] cmd = "PSUBSCRIBE" -> "punsubscribe" [] OTHER -> "sunsubscribe"

W(id, argv) == [id |-> id, argv |-> argv]
OptIn == W("", <<"CLIENT", "CACHING", "YES">>)
RECURSIVE Flat(_)
Flat(ss) == IF ss = <<>> THEN <<>> ELSE Head(ss) \o Flat(Tail(ss))
\* the wire form of a call (pipe.go DoCache / DoMultiCache / doCacheMGet wrap cacheable commands)
Wire(kind, cmds) ==
  CASE kind = "cache"  -> Flat([i \in 1..Len(cmds) |->
                                  <<OptIn, W("", <<"MULTI">>), W("", <<"PTTL", cmds[i].argv[2]>>), cmds[i], W("", <<"EXEC">>)>>])
    [] kind = "static" -> Flat([i \in 1..Len(cmds) |-> <<OptIn, cmds[i]>>])
    [] kind = "mget"   -> <<OptIn, W("", <<"MULTI">>)>>
                          \o [i \in 1..(Len(cmds[1].argv) - 1) |-> W("", <<"PTTL", cmds[1].argv[i + 1]>>)]
                          \o <<cmds[1], W("", <<"EXEC">>)>>
    \* pipe.go writes a PING behind every (P|S)UNSUBSCRIBE and hands its reply to the caller (rueidis pull 691)
    [] kind = "unsub"  -> <<cmds[1], W("", <<"PING">>)>>
    [] OTHER -> cmds
\* result i of a call is (derived from) the reply to this wire command
ResWire(kind, i, w) == CASE kind = "cache" -> 5 * i [] kind = "static" -> 2 * i [] kind = "mget" -> Len(w)
                         [] kind = "unsub" -> 2 [] OTHER -> i
\* ... namely the last element of the EXEC reply for the MULTI/EXEC wrapped kinds
ResIsLastElem(kind) == kind \in {"cache", "mget"}
NRes(kind, cmds) == IF kind = "mget" THEN 1 ELSE Len(cmds)

IsClientErr(v) == Len(v) > 0 /\ SubSeq(v, 1, 1) = "!"   \* "!ctx" "!closing" "!other:..." : no reply, a client side error
Max(a, b) == IF a > b THEN a ELSE b

-----------------------------------------------------------------------------
(* ---- records *)
EmptyConn == [recvd |-> <<>>,   \* [id, argv, ro]: ro = ordinal among the reply-expecting commands (0: expects none)
              nro   |-> 0,
              reps  |-> <<>>,   \* [val, elems, frame] in reply order
              out   |-> <<>>,   \* every frame in wire order: [t ("rep"/"push"), kind, chan, val]
              rel   |-> -1,     \* number of frames released to the client while the driver holds replies (-1: no hold)
              lost  |-> FALSE,
              seen  |-> 0,      \* highest frame the log proves the client's reader had consumed (a Receive callback reported it)
              icur  |-> 0,      \* frame of the last invalidation push handed to the OnInvalidations callback
              lossnil |-> 0,    \* number of connection-loss nils handed to the callback
              sess  |-> 0,      \* dedicated session whose commands were received last (0: shared)
              needOff |-> 0,    \* session that installed an invalidation hook and has not been switched off yet
              needUnsub |-> 0,  \* session that subscribed and has not been unsubscribed yet
              offViol |-> FALSE]
NoSess == [conn |-> 0, hooked |-> FALSE, inval |-> FALSE, hcur |-> 0, hicur |-> 0,
           regs |-> 0,       \* channels handed out by SetPubSubHooks / SetOnInvalidations (each replaces the previous one)
           closedN |-> 0,    \* ... of which observed closed
           closedErrs |-> 0, \* ... of which carried an error
           badVals |-> FALSE,\* a channel delivered more than one value
           released |-> FALSE, hlossnil |-> 0]
Touch(ev, cs, rs, all) == [ev |-> ev, calls |-> cs, recv |-> rs, all |-> all]

ObsInit == /\ calls = <<>> /\ built = <<>> /\ conns = <<>> /\ where = <<>> /\ sessv = <<>>
           /\ glob = [closing |-> FALSE, quiesced |-> FALSE, bad |-> {}, invalOn |-> FALSE]
           /\ last = Touch("Init", {}, {}, FALSE)

Sess(s) == IF s \in DOMAIN sessv THEN sessv[s] ELSE NoSess
Released(k) == IF conns[k].rel < 0 THEN Len(conns[k].out) ELSE conns[k].rel

(* ---- Receive bookkeeping *)
SubCmd(c)   == calls[c].wire[1].argv[1]
SubChans(c) == {calls[c].wire[1].argv[i] : i \in 2..Len(calls[c].wire[1].argv)}
SubConn(c)  == IF calls[c].wire[1].id \in DOMAIN where THEN where[calls[c].wire[1].id].conn ELSE 0
Base(c, k)  == IF k \in DOMAIN calls[c].base THEN calls[c].base[k] ELSE 0
\* The reader of the client lags behind the server: frames sent before a Receive was called may still be unread, and the
\* Receive registers with the client at once.  Only frames the log PROVES consumed before the Call (some callback had
\* reported them) are certainly not for the new Receive; MBase is that bound (<= Base).
MBase(c, k) == IF k \in DOMAIN calls[c].mbase THEN calls[c].mbase[k] ELSE 0
Eligible(c, k, f) == LET fr == conns[k].out[f] IN
                     fr.t = "push" /\ fr.kind = MsgKindOf(SubCmd(c)) /\ fr.chan \in SubChans(c)
EndsSub(c, k, f)  == LET fr == conns[k].out[f] IN
                     fr.t = "push" /\ fr.kind = UnsubKindOf(SubCmd(c)) /\ fr.chan \in SubChans(c)
\* frame f is what the next callback of Receive c must deliver: the next message push for its channels, nothing
\* skipped since the previous callback (or since its SUBSCRIBE was executed: must), and the subscription not ended
NextFor(c, k, f, msg) ==
  LET lo == IF calls[c].got = <<>> THEN MBase(c, k) ELSE calls[c].got[Len(calls[c].got)]
      nogapfrom == IF calls[c].got = <<>> THEN Max(calls[c].must, Base(c, k)) ELSE lo
  IN /\ f > lo /\ Eligible(c, k, f) /\ conns[k].out[f].val = msg
     /\ \A g \in (nogapfrom + 1)..(f - 1) : ~Eligible(c, k, g)
     /\ \A g \in (Max(calls[c].must, Base(c, k)) + 1)..(f - 1) : ~EndsSub(c, k, g)

-----------------------------------------------------------------------------
(* ---- driver events *)
Call(c, kind, s, cmds) ==
  LET w == Wire(kind, cmds) IN
  /\ c \notin DOMAIN calls
  /\ \A j \in 1..Len(w) : w[j].id # "" => w[j].id \notin DOMAIN built
  /\ calls' = calls @@ (c :> [kind |-> kind, sess |-> s, wire |-> w, nres |-> NRes(kind, cmds), st |-> "open",
                              canc |-> FALSE, late |-> FALSE, res |-> <<>>,
                              base |-> [k \in DOMAIN conns |-> Len(conns[k].out)],
                              mbase |-> [k \in DOMAIN conns |-> conns[k].seen], must |-> 0, got |-> <<>>])
  /\ built' = built @@ [id \in {w[j].id : j \in {j \in 1..Len(w) : w[j].id # ""}} |->
                          LET j == CHOOSE j \in 1..Len(w) : w[j].id = id IN [c |-> c, j |-> j, argv |-> w[j].argv]]
  /\ last' = Touch("Call", {}, {}, FALSE)
  /\ UNCHANGED <<conns, where, sessv, glob>>

\* the context of call c is about to be ended.  late: the driver did so only because the call had not returned long
\* after everything that should end it had happened (cleanup of a Receive that nobody else ended)
Cancel(c, late) == /\ c \in DOMAIN calls
             /\ calls' = [calls EXCEPT ![c].canc = TRUE, ![c].late = late]
             /\ last' = Touch("Cancel", {c}, {}, FALSE)
             /\ UNCHANGED <<built, conns, where, sessv, glob>>

Ret(c, res) == /\ c \in DOMAIN calls /\ calls[c].st = "open"
               /\ calls' = [calls EXCEPT ![c].st = "returned", ![c].res = res]
               /\ last' = Touch("Ret", {c}, {}, FALSE)
               /\ UNCHANGED <<built, conns, where, sessv, glob>>

\* the callback of Receive c was invoked with msg
RecvCb(c, msg) ==
  /\ c \in DOMAIN calls
  /\ LET k == SubConn(c)
         fs == IF k = 0 \/ calls[c].st # "open" THEN {} ELSE {f \in 1..Len(conns[k].out) : NextFor(c, k, f, msg)}
         f == IF fs = {} THEN 0 ELSE CHOOSE f \in fs : TRUE
     IN /\ calls' = [calls EXCEPT ![c].got = Append(@, f)]
        /\ conns' = IF f # 0 /\ f > conns[k].seen THEN [conns EXCEPT ![k].seen = f] ELSE conns
  /\ last' = Touch("RecvCb", {c}, {}, FALSE)
  /\ UNCHANGED <<built, where, sessv, glob>>

\* the OnInvalidations callback of the client option was invoked with keys ("nil" = flush or connection loss);
\* it does not say for which connection: TLC chooses
NextInval(k, from) == LET fs == {f \in (from + 1)..Len(conns[k].out) : conns[k].out[f].t = "push" /\ conns[k].out[f].kind = "invalidate"}
                      IN IF fs = {} THEN 0 ELSE CHOOSE f \in fs : \A g \in fs : f <= g
InvalCb(keys) ==
  LET byPush == {k \in DOMAIN conns : conns[k].lossnil = 0 /\ NextInval(k, conns[k].icur) # 0
                                      /\ conns[k].out[NextInval(k, conns[k].icur)].val = keys}
      byLoss == IF keys = "nil" THEN {k \in DOMAIN conns : conns[k].lossnil = 0 /\ (conns[k].lost \/ glob.closing)} ELSE {}
  IN /\ \/ \E k \in byPush : conns' = [conns EXCEPT ![k].icur = NextInval(k, conns[k].icur)] /\ UNCHANGED glob
        \/ \E k \in byLoss : conns' = [conns EXCEPT ![k].lossnil = 1] /\ UNCHANGED glob
        \/ byPush = {} /\ byLoss = {} /\ glob' = [glob EXCEPT !.bad = @ \cup {"inval"}] /\ UNCHANGED conns
     /\ last' = Touch("InvalCb", {}, {}, FALSE)
     /\ UNCHANGED <<calls, built, where, sessv>>

\* a dedicated session installed PubSubHooks (msgs: OnMessage set, inval: SetOnInvalidations)
HookSet(s, inval) ==
  LET o == Sess(s)
      k == o.conn
      n == IF k = 0 THEN 0 ELSE Len(conns[k].out)
  IN /\ sessv' = (s :> [o EXCEPT !.hooked = TRUE, !.regs = @ + 1, !.inval = (o.inval \/ inval),
                                 !.hcur = IF o.hooked THEN o.hcur ELSE n, !.hicur = IF o.inval THEN o.hicur ELSE n]) @@ sessv
     /\ conns' = IF inval /\ k # 0 THEN [conns EXCEPT ![k].needOff = s] ELSE conns
     /\ last' = Touch("HookSet", {}, {}, FALSE)
     /\ UNCHANGED <<calls, built, where, glob>>

\* OnMessage of session s: every message push of its connection, in wire order, nothing skipped
HookMsg(s, msg) ==
  LET o == Sess(s)
      k == o.conn
      fs == IF k = 0 THEN {} ELSE {f \in (o.hcur + 1)..Len(conns[k].out) : conns[k].out[f].t = "push" /\ conns[k].out[f].kind \in MsgKinds}
      f == IF fs = {} THEN 0 ELSE CHOOSE f \in fs : \A g \in fs : f <= g
      okm == f # 0 /\ conns[k].out[f].val = msg
  IN /\ sessv' = (s :> [o EXCEPT !.hcur = IF f = 0 THEN @ ELSE f]) @@ sessv
     /\ glob' = IF okm THEN glob ELSE [glob EXCEPT !.bad = @ \cup {"hookmsg"}]
     /\ last' = Touch("HookMsg", {}, {}, FALSE)
     /\ UNCHANGED <<calls, built, conns, where>>

\* the SetOnInvalidations callback of session s
HookInval(s, keys) ==
  LET o == Sess(s)
      k == o.conn
      f == IF k = 0 THEN 0 ELSE NextInval(k, o.hicur)
      byPush == f # 0 /\ conns[k].out[f].val = keys /\ o.hlossnil = 0
      byLoss == keys = "nil" /\ o.hlossnil = 0 /\ k # 0 /\ (conns[k].lost \/ glob.closing)
  IN /\ sessv' = (s :> (IF byPush THEN [o EXCEPT !.hicur = f] ELSE IF byLoss THEN [o EXCEPT !.hlossnil = 1] ELSE o)) @@ sessv
     /\ glob' = IF byPush \/ byLoss THEN glob ELSE [glob EXCEPT !.bad = @ \cup {"hookinval"}]
     /\ last' = Touch("HookInval", {}, {}, FALSE)
     /\ UNCHANGED <<calls, built, conns, where>>

\* one of the channels returned by SetPubSubHooks / SetOnInvalidations was observed closed after nvals values
HookClosed(s, nvals) ==
  /\ sessv' = (s :> [Sess(s) EXCEPT !.closedN = @ + 1, !.closedErrs = @ + (IF nvals > 0 THEN 1 ELSE 0),
                                    !.badVals = @ \/ nvals > 1]) @@ sessv
  /\ last' = Touch("HookClosed", {}, {}, FALSE)
  /\ UNCHANGED <<calls, built, conns, where, glob>>

\* release() of the dedicated session returned
DedReleased(s) ==
  /\ sessv' = (s :> [Sess(s) EXCEPT !.released = TRUE]) @@ sessv
  /\ last' = Touch("DedReleased", {}, {}, FALSE)
  /\ UNCHANGED <<calls, built, conns, where, glob>>

Hold(k, on) == /\ k \in DOMAIN conns
               /\ conns' = [conns EXCEPT ![k].rel = IF on THEN Len(conns[k].out) ELSE -1]
               /\ last' = Touch("Hold", {}, {}, FALSE)
               /\ UNCHANGED <<calls, built, where, sessv, glob>>
Release(k, n) == /\ k \in DOMAIN conns /\ conns[k].rel >= 0
                 /\ conns' = [conns EXCEPT ![k].rel = IF @ + n > Len(conns[k].out) THEN Len(conns[k].out) ELSE @ + n]
                 /\ last' = Touch("Release", {}, {}, FALSE)
                 /\ UNCHANGED <<calls, built, where, sessv, glob>>

\* the run starts: was the client created with the OnInvalidations option?
Start(invalOn) == /\ glob' = [glob EXCEPT !.invalOn = invalOn]
                  /\ last' = Touch("Start", {}, {}, FALSE)
                  /\ UNCHANGED <<calls, built, conns, where, sessv>>
CloseBegin == /\ glob' = [glob EXCEPT !.closing = TRUE]
              /\ last' = Touch("CloseBegin", {}, {}, FALSE)
              /\ UNCHANGED <<calls, built, conns, where, sessv>>
\* the driver has ended or released everything it started and waited for the client to settle
Quiesce == /\ glob' = [glob EXCEPT !.quiesced = TRUE]
           /\ last' = Touch("Quiesce", {}, {}, TRUE)
           /\ UNCHANGED <<calls, built, conns, where, sessv>>

-----------------------------------------------------------------------------
(* ---- server events *)
SConn(k) == /\ k \notin DOMAIN conns
            /\ conns' = conns @@ (k :> EmptyConn)
            /\ last' = Touch("SConn", {}, {}, FALSE)
            /\ UNCHANGED <<calls, built, where, sessv, glob>>

SRecv(k, id, argv) ==
  /\ k \in DOMAIN conns
  /\ LET er == ExpectsReply(argv)
         ro == conns[k].nro + (IF er THEN 1 ELSE 0)
         p  == Len(conns[k].recvd) + 1
         c  == IF id \in DOMAIN built THEN built[id].c ELSE 0
         s  == IF c = 0 THEN conns[k].sess ELSE calls[c].sess   \* id-less commands belong to the current session
         first == s # 0 /\ Sess(s).conn = 0
         \* a command of another session (or of the shared client) arrives while the previous dedicated session has
         \* not been cleaned up: tracking still on / still subscribed
         dirty == c # 0 /\ ((conns[k].needOff # 0 /\ conns[k].needOff # s) \/ (conns[k].needUnsub # 0 /\ conns[k].needUnsub # s))
     IN /\ conns' = [conns EXCEPT ![k].recvd = Append(@, [id |-> id, argv |-> argv, ro |-> IF er THEN ro ELSE 0]),
                                  ![k].nro = ro,
                                  ![k].sess = IF c = 0 THEN @ ELSE s,
                                  ![k].needOff = IF argv = <<"CLIENT", "TRACKING", "OFF">> THEN 0
                                                 ELSE IF c # 0 /\ s # 0 /\ Sess(s).inval THEN s ELSE @,
                                  ![k].needUnsub = IF argv \in {<<"UNSUBSCRIBE">>, <<"PUNSUBSCRIBE">>, <<"SUNSUBSCRIBE">>} THEN 0
                                                   ELSE IF s # 0 /\ c # 0 /\ argv[1] \in SubCmds THEN s ELSE @,
                                  ![k].offViol = @ \/ dirty]
        /\ where' = IF id # "" /\ id \notin DOMAIN where THEN where @@ (id :> [conn |-> k, pos |-> p]) ELSE where
        /\ sessv' = IF first THEN (s :> [Sess(s) EXCEPT !.conn = k, !.hcur = Len(conns[k].out), !.hicur = Len(conns[k].out)]) @@ sessv
                    ELSE sessv
        /\ calls' = IF c # 0 /\ calls[c].kind = "sub" /\ built[id].j = 1 /\ id \notin DOMAIN where
                    THEN [calls EXCEPT ![c].must = Len(conns[k].out)] ELSE calls
        /\ last' = Touch("SRecv", IF c = 0 THEN {} ELSE {c}, {<<k, p>>}, FALSE)
  /\ UNCHANGED <<built, glob>>

SExec(k) == /\ last' = Touch("SExec", {}, {}, FALSE) /\ UNCHANGED <<calls, built, conns, where, sessv, glob>>

SRep(k, val, elems) ==
  /\ k \in DOMAIN conns
  /\ conns' = [conns EXCEPT ![k].reps = Append(@, [val |-> val, elems |-> elems, frame |-> Len(conns[k].out) + 1]),
                            ![k].out = Append(@, [t |-> "rep", kind |-> "", chan |-> "", val |-> val])]
  /\ last' = Touch("SRep", {}, {}, FALSE)
  /\ UNCHANGED <<calls, built, where, sessv, glob>>

SPush(k, kind, chan, val) ==
  /\ k \in DOMAIN conns
  /\ conns' = [conns EXCEPT ![k].out = Append(@, [t |-> "push", kind |-> kind, chan |-> chan, val |-> val])]
  /\ last' = Touch("SPush", {}, {}, FALSE)
  /\ UNCHANGED <<calls, built, where, sessv, glob>>

\* SCut / SClose: the connection ended
SLost(k) == /\ k \in DOMAIN conns
            /\ conns' = [conns EXCEPT ![k].lost = TRUE]
            /\ last' = Touch("SLost", {}, {}, FALSE)
            /\ UNCHANGED <<calls, built, where, sessv, glob>>

-----------------------------------------------------------------------------
(* ---- focus *)
All == FocusAll \/ last.all
FCalls == IF All THEN DOMAIN calls ELSE last.calls
FRecv  == IF All THEN UNION {{<<k, p>> : p \in 1..Len(conns[k].recvd)} : k \in DOMAIN conns} ELSE last.recv
Returned(c) == calls[c].st = "returned"
\* A context error needs an ended context: the call's own, or - observed behaviour of mux._pipe, which lets concurrent
\* callers share ONE connection attempt made with the FIRST caller's context - the context of another call that ended
\* earlier (the waiting callers then get that attempt's error, which wraps the other caller's context error).
CtxCause(c) == calls[c].canc \/ \E d \in DOMAIN calls : d # c /\ calls[d].canc
AnyLost == \E k \in DOMAIN conns : conns[k].lost

(* ---- where a call sits on the wire: by its first received id-bearing command (the anchor) *)
Anchors(c) == {j \in 1..Len(calls[c].wire) : calls[c].wire[j].id # "" /\ calls[c].wire[j].id \in DOMAIN where}
Anchor(c)  == CHOOSE j \in Anchors(c) : \A j2 \in Anchors(c) : j <= j2
CallConn(c)  == where[calls[c].wire[Anchor(c)].id].conn
CallStart(c) == where[calls[c].wire[Anchor(c)].id].pos - Anchor(c) + 1
\* the reply (a reps record) to wire command j of call c, or NoRep (frame 0)
NoRep == [val |-> "none", elems |-> <<>>, frame |-> 0]
ReplyTo(c, j) ==
  IF Anchors(c) = {} THEN NoRep
  ELSE LET k == CallConn(c)
           p == CallStart(c) + j - 1
       IN IF p < 1 \/ p > Len(conns[k].recvd) THEN NoRep
          ELSE LET e == conns[k].recvd[p] IN
               IF e.argv # calls[c].wire[j].argv \/ e.ro = 0 \/ e.ro > Len(conns[k].reps) THEN NoRep
               ELSE conns[k].reps[e.ro]
ResultFrom(kind, r) == IF ResIsLastElem(kind) THEN (IF r.elems = <<>> THEN "none" ELSE r.elems[Len(r.elems)]) ELSE r.val

-----------------------------------------------------------------------------
(* ---- C01 *)
\* a call none of whose commands carries an id (an UNSUBSCRIBE issued by the driver) cannot be located on the wire
HasIds(c) == \E j \in 1..Len(calls[c].wire) : calls[c].wire[j].id # ""
\* every returned non-error result i of call c is the server's reply to command i of c
OwnRepliesInOrder ==
  \A c \in FCalls : (Returned(c) /\ calls[c].kind # "sub" /\ HasIds(c)) =>
    /\ Len(calls[c].res) = calls[c].nres
    /\ \A i \in 1..Len(calls[c].res) : ~IsClientErr(calls[c].res[i]) =>
         LET j == ResWire(calls[c].kind, i, calls[c].wire)
             r == ReplyTo(c, j)
         IN IF ExpectsReply(calls[c].wire[j].argv)
            THEN r.frame # 0 /\ calls[c].res[i] = ResultFrom(calls[c].kind, r)
            ELSE calls[c].res[i] = ""    \* (P|S)SUBSCRIBE / UNSUBSCRIBE through Do: acknowledged by pushes, empty message
\* ... and that reply had been sent (and released by the driver) when the call returned
NoReplyFromFuture ==
  \A c \in FCalls : (Returned(c) /\ calls[c].kind # "sub" /\ HasIds(c)) =>
    \A i \in 1..Len(calls[c].res) : ~IsClientErr(calls[c].res[i]) =>
         LET r == ReplyTo(c, ResWire(calls[c].kind, i, calls[c].wire)) IN
         r.frame # 0 => r.frame <= Released(CallConn(c))
\* as far as received, the commands of one call are contiguous and in order on one connection
BatchContiguousOnWire ==
  \A c \in FCalls : Anchors(c) # {} =>
    LET k == CallConn(c)
        s == CallStart(c)
        w == calls[c].wire
    IN /\ s >= 1
       /\ \A j \in 1..Len(w) : (s + j - 1 <= Len(conns[k].recvd)) => conns[k].recvd[s + j - 1].argv = w[j].argv
       /\ \A j \in Anchors(c) : where[w[j].id] = [conn |-> k, pos |-> s + j - 1]
\* a client side error needs a cause
NoSpuriousError ==
  \A c \in FCalls : (Returned(c) /\ calls[c].kind # "sub") =>
    \A i \in 1..Len(calls[c].res) :
       LET v == calls[c].res[i] IN
       IsClientErr(v) => CASE v = "!ctx" -> CtxCause(c)
                           [] v = "!closing" -> glob.closing
                           [] OTHER -> AnyLost \/ glob.closing
\* nothing is lost: once the driver has released everything and waited, every call has returned
AllReturnedAtQuiesce == glob.quiesced => \A c \in DOMAIN calls : Returned(c)

(* ---- C33 *)
\* the argv the server receives for a command is the argv the caller built, once; everything else is protocol
ArgvImmutable ==
  \A kp \in FRecv :
    LET e == conns[kp[1]].recvd[kp[2]] IN
    IF e.id # "" THEN /\ e.id \in DOMAIN built /\ built[e.id].argv = e.argv
                      /\ where[e.id] = [conn |-> kp[1], pos |-> kp[2]]
    ELSE e.argv[1] \in ProtocolCmds

(* ---- C26 *)
\* every callback of a Receive delivered the next message push for its channels (0 = no such frame)
PubSubOrder == \A c \in FCalls : \A n \in 1..Len(calls[c].got) : calls[c].got[n] # 0
\* the return value of Receive has its documented cause; nil means: ended by an unsubscribe push for one of its
\* channels, everything before that push delivered
ReceiveReturn ==
  \A c \in FCalls : (Returned(c) /\ calls[c].kind = "sub") =>
    LET v == calls[c].res[1]
        k == SubConn(c)
    IN CASE v = "nil" ->
              /\ k # 0
              /\ \E u \in (Base(c, k) + 1)..Len(conns[k].out) :
                    /\ EndsSub(c, k, u)
                    \* the first such push after the SUBSCRIBE was executed ends the subscription, not a later one
                    /\ \A g \in (Max(calls[c].must, Base(c, k)) + 1)..(u - 1) : ~EndsSub(c, k, g)
                    /\ IF calls[c].got = <<>>
                       THEN \A g \in (Max(calls[c].must, Base(c, k)) + 1)..(u - 1) : ~Eligible(c, k, g)
                       ELSE LET lo == calls[c].got[Len(calls[c].got)] IN
                            u > lo /\ \A g \in (lo + 1)..(u - 1) : ~Eligible(c, k, g)
         [] v = "!ctx" -> calls[c].canc \/ (k = 0 /\ CtxCause(c))   \* (without a connection: the shared attempt, see CtxCause)
         [] v = "!closing" -> glob.closing
         [] OTHER -> glob.closing \/ (IF k = 0 THEN AnyLost ELSE conns[k].lost)
\* a Receive whose subscription was ended by an unsubscribe push returns by itself: the driver never has to end it
ReceiveEndsByItself ==
  \A c \in FCalls : (calls[c].kind = "sub" /\ calls[c].late) =>
    LET k == SubConn(c) IN
    k = 0 \/ ~\E u \in (Max(calls[c].must, Base(c, k)) + 1)..Len(conns[k].out) : EndsSub(c, k, u)
HookOrder == "hookmsg" \notin glob.bad
\* every channel of SetPubSubHooks is closed exactly once (a second close panics in Go: the driver reports the
\* crash), carries at most one error and only when the connection was lost or the client closed; replaced channels
\* are closed, and so is the last one once the session is released or its connection lost
HookClosedOnce ==
  \A s \in DOMAIN sessv :
    LET o == sessv[s]
        gone == o.conn # 0 /\ conns[o.conn].lost
    IN /\ o.closedN <= o.regs /\ ~o.badVals /\ o.closedErrs <= 1
       /\ o.closedErrs = 1 => (glob.closing \/ gone)
       /\ glob.quiesced => o.closedN >= o.regs - 1
       /\ (glob.quiesced /\ (o.released \/ gone)) => o.closedN = o.regs

(* ---- C27 *)
\* every invalidation callback is the next invalidation push of some connection (nil for a flush) or the single nil
\* of a lost connection
InvalidationLog == "inval" \notin glob.bad /\ "hookinval" \notin glob.bad
\* after the driver quiesced: open connections have delivered every invalidation push, lost ones exactly one nil -
\* to the callback of the client option, and to the SetOnInvalidations hook of a dedicated session that still held the
\* connection when it was lost (whatever the cache configuration of the client: the nil is the caller's only notice
\* that invalidations may have been missed)
LossNilOnce ==
  /\ (glob.quiesced /\ glob.invalOn /\ ~glob.closing) =>
       \A k \in DOMAIN conns : IF conns[k].lost THEN conns[k].lossnil = 1
                               ELSE conns[k].lossnil = 0 /\ NextInval(k, conns[k].icur) = 0
  /\ (glob.quiesced /\ ~glob.closing) =>
       \A s \in DOMAIN sessv :
          LET o == sessv[s] IN
          (o.inval /\ o.conn # 0 /\ conns[o.conn].lost /\ ~o.released) => o.hlossnil = 1
\* a dedicated session that installed an invalidation hook (or subscribed) is switched off before its connection
\* serves anybody else, and at the latest when release() has returned
TrackingOffOnRelease ==
  /\ \A k \in DOMAIN conns : ~conns[k].offViol
  /\ \A s \in DOMAIN sessv : (sessv[s].released /\ sessv[s].conn # 0 /\ ~conns[sessv[s].conn].lost) =>
        conns[sessv[s].conn].needOff # s

TypeOK == /\ \A c \in DOMAIN calls : calls[c].st \in {"open", "returned"} /\ calls[c].canc \in BOOLEAN
          /\ \A k \in DOMAIN conns : conns[k].rel >= -1 /\ conns[k].rel <= Len(conns[k].out) /\ conns[k].lossnil \in 0..1
          /\ \A id \in DOMAIN where : where[id].conn \in DOMAIN conns
=============================================================================
