SPECIFICATION FairSpec
CONSTANTS
  Sub = {1, 2}
  Chan = {"a", "b"}
  Topic <- TopicDef
  BufCap = 1
  MaxMsgs = 2
  MaxUnsubs = 1
  MaxCloses = 1
  BugNoDrainer = FALSE
  BugCloseKeepsMap = FALSE
  BugCntDecr = FALSE
PROPERTIES ReaderProgress CancelFinishes ClosedEndsReceive
CHECK_DEADLOCK FALSE
