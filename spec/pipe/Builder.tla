------------------------------- MODULE Builder -------------------------------
(* C33 (a): what argv a built command must have.  This is a GENERATION specification (level: exploration): it
   transcribes the formatting rules of the property - command tokens, then the caller's arguments in call order;
   integers in base 10; floats in plain (non-exponent) shortest form; durations and times in the unit the option
   names, truncated - for the free-form builder Arbitrary (any interleaving of Keys / Args segments) and a fixed list
   of typed builders with numeric, duration and time options, over boundary values.  Every case TLC enumerates is
   printed with the token sequence the rules predict; harness/cmd/pipedrv -mode builder builds the same command
   with the real builders and compares cmd.Commands().

   Number domains (TLC integers are 32 bit, the arguments are int64 / float64 / time.Duration / time.Time):
   - an int64 is given by its canonical decimal literal; the rule "base 10" makes the literal itself the token;
   - a float is m * 10^e with integer m, e (only values exactly representable as float64 are listed); the rule
     "plain shortest form" is computed here digit by digit (Dec);
   - a duration is ms milliseconds + us microseconds; a time is sec seconds + ms milliseconds after the epoch. *)
EXTENDS Integers, Sequences, TLC, Json

VARIABLE cs   \* the case

Int64s == {"0", "1", "-1", "42", "9223372036854775807", "-9223372036854775808", "1000000000000"}
SmallInts == {"0", "-1", "9223372036854775807"}
Strs == {"", "k", "a b", "x{y}z"}

\* ---- floats: m * 10^e
Floats == {[m |-> 0, e |-> 0], [m |-> 1, e |-> 0], [m |-> -1, e |-> 0], [m |-> 15, e |-> -1], [m |-> -25, e |-> -2],
           [m |-> 1, e |-> 21], [m |-> 12345675, e |-> -2], [m |-> 5, e |-> -1], [m |-> 3, e |-> 3], [m |-> 1, e |-> -10],
           \* exactly representable as float32 (multiples of 128 below 2^31, 2^24 + 2): their shortest float32 text is shorter
           \* than their float64 text - the argument is a float64 and must be written as one
           [m |-> 1700000128, e |-> 0], [m |-> -2147483520, e |-> 0], [m |-> 16777218, e |-> 0]}
Digits(n) == ToString(n)                       \* n >= 0
RECURSIVE Zeros(_)
Zeros(n) == IF n <= 0 THEN "" ELSE "0" \o Zeros(n - 1)
StrLen(s) == Len(s)
\* plain decimal notation of m * 10^e without exponent, trailing zeros of the fraction removed
RECURSIVE StripZ(_)
StripZ(s) == IF Len(s) > 0 /\ SubSeq(s, Len(s), Len(s)) = "0" THEN StripZ(SubSeq(s, 1, Len(s) - 1)) ELSE s
Dec(f) ==
  LET neg == f.m < 0
      a == IF neg THEN -f.m ELSE f.m
      d == Digits(a)
      body == IF a = 0 THEN "0"
              ELSE IF f.e >= 0 THEN d \o Zeros(f.e)
              ELSE LET k == -f.e IN     \* k fractional digits
                   IF Len(d) > k
                   THEN LET ip == SubSeq(d, 1, Len(d) - k)
                            fp == StripZ(SubSeq(d, Len(d) - k + 1, Len(d)))
                        IN IF fp = "" THEN ip ELSE ip \o "." \o fp
                   ELSE LET fp == StripZ(Zeros(k - Len(d)) \o d) IN "0." \o fp
  IN IF neg THEN "-" \o body ELSE body

\* ---- durations and times
Durs == {[ms |-> 0, us |-> 0], [ms |-> 0, us |-> 999], [ms |-> 1, us |-> 0], [ms |-> 999, us |-> 999], [ms |-> 1000, us |-> 0],
         [ms |-> 1500, us |-> 1], [ms |-> 86400000, us |-> 0], [ms |-> 2147483, us |-> 647]}
Secs(d) == ToString(d.ms \div 1000)           \* EX: whole seconds, truncated
Millis(d) == ToString(d.ms)                   \* PX: whole milliseconds, truncated
Times == {[sec |-> 0, ms |-> 0], [sec |-> 1, ms |-> 999], [sec |-> 2000000, ms |-> 1], [sec |-> 1999999, ms |-> 500]}
UnixS(t) == ToString(t.sec)
UnixMs(t) == ToString(t.sec * 1000 + t.ms)

NoF == [m |-> 0, e |-> 0]
NoD == [ms |-> 0, us |-> 0]
NoT == [sec |-> 0, ms |-> 0]
Case(b, s, n, f, d, t, path, expect) == [b |-> b, s |-> s, n |-> n, f |-> f, d |-> d, t |-> t, path |-> path, expect |-> expect]

\* ---- Arbitrary: tokens, then any sequence of Keys(...) / Args(...) segments, in call order
Seg(kind, l) == [kind |-> kind, l |-> l]
Lists == {<<>>, <<"k">>, <<"", "a b">>, <<"x{y}z", "k", "k">>}
Segs == {Seg(kind, l) : kind \in {"K", "A"}, l \in Lists}
Paths == {<<>>} \cup {<<a>> : a \in Segs} \cup {<<a, b>> : a \in Segs, b \in Segs}
         \cup {<<Seg("K", <<"k">>), b, c>> : b \in Segs, c \in {Seg("A", <<"v">>), Seg("K", <<"", "z">>)}}
RECURSIVE FlatP(_)
FlatP(p) == IF p = <<>> THEN <<>> ELSE Head(p).l \o FlatP(Tail(p))
Tokens == {<<"PING">>, <<"CLIENT", "SETNAME">>, <<"x y">>}
ArbitraryCases == {Case("ARBITRARY", tk, <<>>, NoF, NoD, NoT, p, tk \o FlatP(p)) : tk \in Tokens, p \in Paths}

\* ---- typed builders
TypedCases ==
  {Case("SET_EXSECONDS", <<k, v>>, <<n>>, NoF, NoD, NoT, <<>>, <<"SET", k, v, "EX", n>>) : k \in {"k", ""}, v \in {"v", "a b"}, n \in Int64s}
  \cup {Case("SET_PXMILLISECONDS", <<"k", "v">>, <<n>>, NoF, NoD, NoT, <<>>, <<"SET", "k", "v", "PX", n>>) : n \in Int64s}
  \cup {Case("SET_EXATTIMESTAMP", <<"k", "v">>, <<n>>, NoF, NoD, NoT, <<>>, <<"SET", "k", "v", "EXAT", n>>) : n \in Int64s}
  \cup {Case("SET_PXATMS", <<"k", "v">>, <<n>>, NoF, NoD, NoT, <<>>, <<"SET", "k", "v", "PXAT", n>>) : n \in Int64s}
  \cup {Case("SET_EX", <<"k", v>>, <<>>, NoF, d, NoT, <<>>, <<"SET", "k", v, "EX", Secs(d)>>) : v \in Strs, d \in Durs}
  \cup {Case("SET_PX", <<"k", "v">>, <<>>, NoF, d, NoT, <<>>, <<"SET", "k", "v", "PX", Millis(d)>>) : d \in Durs}
  \cup {Case("SET_NX_EX", <<"k", "v">>, <<>>, NoF, d, NoT, <<>>, <<"SET", "k", "v", "NX", "EX", Secs(d)>>) : d \in Durs}
  \cup {Case("SET_EXAT", <<"k", "v">>, <<>>, NoF, NoD, t, <<>>, <<"SET", "k", "v", "EXAT", UnixS(t)>>) : t \in Times}
  \cup {Case("SET_PXAT", <<"k", "v">>, <<>>, NoF, NoD, t, <<>>, <<"SET", "k", "v", "PXAT", UnixMs(t)>>) : t \in Times}
  \cup {Case("GETEX_EX", <<"k">>, <<>>, NoF, d, NoT, <<>>, <<"GETEX", "k", "EX", Secs(d)>>) : d \in Durs}
  \cup {Case("GETEX_PXAT", <<"k">>, <<>>, NoF, NoD, t, <<>>, <<"GETEX", "k", "PXAT", UnixMs(t)>>) : t \in Times}
  \cup {Case("SETEX", <<k, v>>, <<n>>, NoF, NoD, NoT, <<>>, <<"SETEX", k, n, v>>) : k \in {"k"}, v \in Strs, n \in Int64s}
  \cup {Case("PSETEX", <<"k", "v">>, <<n>>, NoF, NoD, NoT, <<>>, <<"PSETEX", "k", n, "v">>) : n \in Int64s}
  \cup {Case("EXPIRE", <<k>>, <<n>>, NoF, NoD, NoT, <<>>, <<"EXPIRE", k, n>>) : k \in Strs, n \in Int64s}
  \cup {Case("EXPIRE_NX", <<"k">>, <<n>>, NoF, NoD, NoT, <<>>, <<"EXPIRE", "k", n, "NX">>) : n \in Int64s}
  \cup {Case("PEXPIRE", <<"k">>, <<n>>, NoF, NoD, NoT, <<>>, <<"PEXPIRE", "k", n>>) : n \in Int64s}
  \cup {Case("EXPIREAT", <<"k">>, <<n>>, NoF, NoD, NoT, <<>>, <<"EXPIREAT", "k", n>>) : n \in Int64s}
  \cup {Case("PEXPIREAT", <<"k">>, <<n>>, NoF, NoD, NoT, <<>>, <<"PEXPIREAT", "k", n>>) : n \in Int64s}
  \cup {Case("INCRBY", <<"k">>, <<n>>, NoF, NoD, NoT, <<>>, <<"INCRBY", "k", n>>) : n \in Int64s}
  \cup {Case("INCRBYFLOAT", <<k>>, <<>>, f, NoD, NoT, <<>>, <<"INCRBYFLOAT", k, Dec(f)>>) : k \in {"k", "a b"}, f \in Floats}
  \cup {Case("HINCRBYFLOAT", <<"k", "fld">>, <<>>, f, NoD, NoT, <<>>, <<"HINCRBYFLOAT", "k", "fld", Dec(f)>>) : f \in Floats}
  \cup {Case("ZADD", <<"z", mem>>, <<>>, f, NoD, NoT, <<>>, <<"ZADD", "z", Dec(f), mem>>) : mem \in Strs, f \in Floats}
  \cup {Case("ZADD2", <<"z", "m1", "m2">>, <<>>, f, NoD, NoT, <<>>, <<"ZADD", "z", Dec(f), "m1", Dec([m |-> 15, e |-> -1]), "m2">>) : f \in Floats}
  \* the hand-written iterator variants of internal/cmds/iter.go build the same argv as the plain variants
  \cup {Case("ZADD_ITER", <<"z", "m1", "m2">>, <<>>, f, NoD, NoT, <<>>, <<"ZADD", "z", Dec(f), "m1", Dec([m |-> 15, e |-> -1]), "m2">>) : f \in Floats}
  \cup {Case("HSET_ITER", <<"h", f1, v1>>, <<>>, NoF, NoD, NoT, <<>>, <<"HSET", "h", f1, v1>>) : f1 \in Strs, v1 \in Strs}
  \cup {Case("HMSET_ITER", <<"h", f1, v1>>, <<>>, NoF, NoD, NoT, <<>>, <<"HMSET", "h", f1, v1>>) : f1 \in Strs, v1 \in Strs}
  \cup {Case("XADD_ITER", <<"s", id, "f", v>>, <<>>, NoF, NoD, NoT, <<>>, <<"XADD", "s", id, "f", v>>) : id \in {"*", "1-1"}, v \in Strs}
  \cup {Case("GETRANGE", <<"k">>, <<a, b>>, NoF, NoD, NoT, <<>>, <<"GETRANGE", "k", a, b>>) : a \in Int64s, b \in SmallInts}
  \cup {Case("LRANGE", <<"k">>, <<a, b>>, NoF, NoD, NoT, <<>>, <<"LRANGE", "k", a, b>>) : a \in SmallInts, b \in Int64s}
  \cup {Case("SETRANGE", <<"k", v>>, <<n>>, NoF, NoD, NoT, <<>>, <<"SETRANGE", "k", n, v>>) : v \in Strs, n \in SmallInts}
  \cup {Case("XADD", <<"s", id, "f", v>>, <<>>, NoF, NoD, NoT, <<>>, <<"XADD", "s", id, "f", v>>) : id \in {"*", "1-1"}, v \in Strs}
  \cup {Case("XADD_MAXLEN", <<"s", th, "*", "f", "v">>, <<n>>, NoF, NoD, NoT, <<>>,
             <<"XADD", "s", "MAXLEN", "~", th, "LIMIT", n, "*", "f", "v">>) : th \in {"0", "1000"}, n \in Int64s}

Cases == ArbitraryCases \cup TypedCases

Init == cs \in Cases
Next == UNCHANGED cs
Spec == Init /\ [][Next]_cs
Emit == PrintT(<<"CASE", ToJson(cs)>>)
=============================================================================
