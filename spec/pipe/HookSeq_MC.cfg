SPECIFICATION Spec
CONSTANTS
  MaxOps = 4
  MaxProbes = 2
  LazyChoices = {TRUE, FALSE}
  Emit = FALSE
  BugKeepParked = FALSE
  BugNoCloseOnReplace = FALSE
INVARIANTS TypeOK NoDoubleClose OpenIsWanted InstalledIsWanted AllClosedAtEnd NoStaleParked
CHECK_DEADLOCK FALSE
