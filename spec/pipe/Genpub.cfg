SPECIFICATION SSpec
CONSTANTS
  FocusAll = FALSE
  Callers = {1, 2}
  MaxCalls = 2
  MaxTotal = 3
  Kinds = {"sub", "do"}
  PushKinds = {"message", "unsubscribe"}
  MaxPush = 3
  MaxCancel = 1
  MaxCut = 0
  UseHold = FALSE
  InvalOn = FALSE
  Eager = TRUE
  Gen = TRUE
  BugOffByOne = FALSE
  BugRecycle = FALSE
  BugSplitBatch = FALSE
  BugFutureReply = FALSE
  BugUnsubFirstOnly = FALSE
  BugSkipMsg = FALSE
  BugNoLossNil = FALSE
  BugSkipInval = FALSE
  Dedicated = FALSE
  BugNoTrackingOff = FALSE
  CacheChoices = {TRUE}
  BugLossNilNeedsCache = FALSE
  BugUnsubWrongSub = FALSE
VIEW GenView
INVARIANTS TypeOK PrintScript
CHECK_DEADLOCK FALSE
