SPECIFICATION Spec
INVARIANT Emit
CHECK_DEADLOCK FALSE
