SPECIFICATION Spec
CONSTANTS
  MaxOps = 4
  MaxProbes = 2
  LazyChoices = {TRUE, FALSE}
  Emit = TRUE
  BugKeepParked = FALSE
  BugNoCloseOnReplace = FALSE
INVARIANTS TypeOK EmitCase
CHECK_DEADLOCK FALSE
