SPECIFICATION Spec
CONSTANTS
  Sub = {1, 2, 3}
  Chan = {"a", "b"}
  Topic <- TopicDef
  BufCap = 1
  MaxMsgs = 1
  MaxUnsubs = 1
  MaxCloses = 1
  BugNoDrainer = FALSE
  BugCloseKeepsMap = FALSE
  BugCntDecr = TRUE
INVARIANTS LiveSubscribersRegistered
CHECK_DEADLOCK FALSE
