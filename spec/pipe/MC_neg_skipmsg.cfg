SPECIFICATION SSpec
CONSTANTS
  FocusAll = FALSE
  Callers = {1, 2}
  MaxCalls = 2
  MaxTotal = 3
  Kinds = {"sub", "do"}
  PushKinds = {"message", "unsubscribe"}
  MaxPush = 3
  MaxCancel = 1
  MaxCut = 0
  UseHold = FALSE
  InvalOn = FALSE
  Eager = TRUE
  Gen = FALSE
  BugOffByOne = FALSE
  BugRecycle = FALSE
  BugSplitBatch = FALSE
  BugFutureReply = FALSE
  BugUnsubFirstOnly = FALSE
  BugSkipMsg = TRUE
  BugNoLossNil = FALSE
  BugSkipInval = FALSE
  Dedicated = FALSE
  BugNoTrackingOff = FALSE
  CacheChoices = {TRUE}
  BugLossNilNeedsCache = FALSE
  BugUnsubWrongSub = FALSE
VIEW MCView
INVARIANTS TypeOK PubSubOrder
CHECK_DEADLOCK FALSE
