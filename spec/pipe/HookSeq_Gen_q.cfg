SPECIFICATION Spec
CONSTANTS
  MaxOps = 3
  MaxProbes = 2
  LazyChoices = {TRUE, FALSE}
  Emit = TRUE
  BugKeepParked = FALSE
  BugNoCloseOnReplace = FALSE
INVARIANTS TypeOK EmitCase
CHECK_DEADLOCK FALSE
