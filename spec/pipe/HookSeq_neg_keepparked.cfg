SPECIFICATION Spec
CONSTANTS
  MaxOps = 4
  MaxProbes = 1
  LazyChoices = {TRUE}
  Emit = FALSE
  BugKeepParked = TRUE
  BugNoCloseOnReplace = FALSE
INVARIANTS TypeOK NoDoubleClose
CHECK_DEADLOCK FALSE
