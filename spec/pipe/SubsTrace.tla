----------------------------- MODULE SubsTrace -----------------------------
(* Trace validation of the real subscription registry (pubsub.go) against Subs.tla.  Hook events are emitted inside
   the registry's lock regions (subs.sub, subs.cancel, subs.unsub, subs.close.locked under the write lock;
   subs.pub.begin/send/end under the read lock, which only the single reader goroutine takes); the driver adds what a
   Receive loop observes (Recv, RecvClosed, CtxDone, SubNil) and brackets every call of the reader (PubCall /
   UnsubCall before the call; PubSkip / UnsubSkip after a call during which no hook fired, i.e. the lock-free fast
   path was taken).  subs.sub carries the id the implementation gave the subscription, subs.cancel the id its cancel
   function removes.

   Silent: the channel send inside Publish (confirmed by subs.pub.send afterwards), the start of the drainer goroutine
   and its receives, the decision to take the fast path (somewhere between PubCall and PubSkip: it is explained when at
   that moment nobody was registered for the channel), and a receive whose Recv record is still to come although the
   reader has already completed a send that needed the slot (the receiver was descheduled between `<-ch` and its log
   line; `pre` remembers the message until the Recv record confirms it).
   Message ids are assigned at subs.pub.begin, so they are consecutive like the specification's. *)
EXTENDS MCSubs, Json, IOUtils
VARIABLES l,
          rcall,   \* the reader's call in progress: [st |-> "none" | "calling" | "skipped", c |-> channel]
          pre      \* subscriber -> message it has taken from its channel but not yet reported (0: none)
TraceLog == ndJsonDeserialize(IOEnv.VERIF_TRACE)
Ev == TraceLog[l]
Is(e) == l <= Len(TraceLog) /\ TraceLog[l].ev = e
Step == l' = l + 1
NoCall == [st |-> "none", c |-> ""]
Keep == UNCHANGED <<rcall, pre>>
TraceInit == Init /\ l = 1 /\ rcall = NoCall /\ pre = [s \in Sub |-> 0] /\ TLCSet(1, 1)
Reset == /\ Is("RESET") /\ Step /\ rcall' = NoCall /\ pre' = [s \in Sub |-> 0]
         /\ sub' = NoIds /\ reg' = [c \in Chan |-> NoIds] /\ cnt' = 0 /\ idOf' = [s \in Sub |-> 0] /\ open' = TRUE
         /\ buf' = [s \in Sub |-> <<>>] /\ chClosed' = [s \in Sub |-> FALSE] /\ closes' = [s \in Sub |-> 0]
         /\ rd' = 0 /\ wr' = 0
         /\ rpc' = "idle" /\ rmsg' = 0 /\ rchan' = (CHOOSE c \in Chan : TRUE) /\ rleft' = {}
         /\ spc' = [s \in Sub |-> "new"] /\ drain' = [s \in Sub |-> FALSE] /\ got' = [s \in Sub |-> <<>>]
         /\ nmsg' = 0 /\ nunsub' = 0 /\ nclose' = 0 /\ sent' = [s \in Sub |-> <<>>]
\* Silent steps are taken just in time, i.e. only when the record at hand cannot be explained without them (delaying
\* them changes nothing the invariants look at, and keeps the validation linear in the length of the trace):
\*   - the reader's send to s, when s reports the message before the reader's own subs.pub.send line;
\*   - a receive by s / by the drainer of s / the start of that drainer, when the reader reports a send to s although
\*     s's buffer is full in the specification's state;
\*   - the start of the drainer when subs.cancel arrives.
DrainAll(s) == /\ drain[s] /\ buf[s] # <<>> /\ buf' = [buf EXCEPT ![s] = <<>>]
               /\ UNCHANGED <<sub, reg, cnt, idOf, open, chClosed, closes, rd, wr, rpc, rmsg, rchan, rleft, spc, drain, got, nmsg, nunsub, nclose, sent>>
PreRecv(s) == /\ pre[s] = 0 /\ pre' = [pre EXCEPT ![s] = Head(buf[s])] /\ RecvMsg(s)
Full(s) == rpc = "pub" /\ s \in rleft /\ Len(buf[s]) = BufCap
Silent ==
  /\ UNCHANGED <<l, rcall>>
  /\ \/ Is("Recv") /\ pre[Ev.s] = 0 /\ buf[Ev.s] = <<>> /\ rpc = "pub" /\ rmsg = Ev.m /\ PubSendTo(Ev.s) /\ UNCHANGED pre
     \/ Is("subs.pub.send") /\ Full(Ev.s) /\ drain[Ev.s] /\ DrainAll(Ev.s) /\ UNCHANGED pre
     \/ Is("subs.pub.send") /\ Full(Ev.s) /\ ~drain[Ev.s] /\ spc[Ev.s] = "cancel" /\ StartDrainer(Ev.s) /\ UNCHANGED pre
     \/ Is("subs.pub.send") /\ Full(Ev.s) /\ ~drain[Ev.s] /\ spc[Ev.s] = "recv" /\ PreRecv(Ev.s)
     \/ Is("subs.cancel") /\ spc[Ev.s] = "cancel" /\ StartDrainer(Ev.s) /\ UNCHANGED pre
TraceNext ==
    \/ Reset
    \/ Is("subs.sub") /\ Step /\ Keep /\ open /\ SubscribeWith(Ev.s, Ev.id)
    \/ Is("SubNil") /\ Step /\ Keep /\ ~open /\ Subscribe(Ev.s)
    \/ Is("Recv") /\ Step /\ UNCHANGED rcall
          /\ IF pre[Ev.s] # 0
             THEN pre[Ev.s] = Ev.m /\ pre' = [pre EXCEPT ![Ev.s] = 0] /\ UNCHANGED vars
             ELSE buf[Ev.s] # <<>> /\ Head(buf[Ev.s]) = Ev.m /\ RecvMsg(Ev.s) /\ UNCHANGED pre
    \/ Is("RecvClosed") /\ Step /\ Keep /\ pre[Ev.s] = 0 /\ RecvClosed(Ev.s)
    \/ Is("CtxDone") /\ Step /\ Keep /\ pre[Ev.s] = 0 /\ CtxDone(Ev.s)
    \/ Is("subs.cancel") /\ Step /\ Keep /\ Ev.id = idOf[Ev.s] /\ CancelLocked(Ev.s)
    \* ---- the reader: every call is announced; it either reaches its lock region or reports that it took the fast path
    \/ (Is("PubCall") \/ Is("UnsubCall")) /\ Step /\ rcall.st = "none" /\ rcall' = [st |-> "calling", c |-> Ev.c] /\ UNCHANGED <<vars, pre>>
    \/ UNCHANGED <<l, vars, pre>> /\ rcall.st = "calling" /\ RegEmpty(rcall.c) /\ rcall' = [rcall EXCEPT !.st = "skipped"]
    \/ (Is("PubSkip") \/ Is("UnsubSkip")) /\ Step /\ rcall.st = "skipped" /\ rcall' = NoCall /\ UNCHANGED <<vars, pre>>
    \/ Is("subs.pub.begin") /\ Step /\ rcall.st = "calling" /\ rcall.c = Ev.c /\ rcall' = NoCall /\ UNCHANGED pre
          /\ Ev.m = nmsg + 1 /\ PubBegin(Ev.c)
    \* logged by the reader after its send completed: the send happens here, unless the receiver's Recv line came first
    \/ Is("subs.pub.send") /\ Step /\ Keep /\ rpc = "pub"
          /\ IF Ev.s \in rleft THEN PubSendTo(Ev.s)
             ELSE Len(sent[Ev.s]) > 0 /\ sent[Ev.s][Len(sent[Ev.s])] = rmsg /\ UNCHANGED vars
    \/ Is("subs.pub.end") /\ Step /\ Keep /\ PubEnd
    \/ Is("subs.unsub") /\ Step /\ rcall.st = "calling" /\ rcall.c = Ev.c /\ rcall' = NoCall /\ UNCHANGED pre /\ Unsub(Ev.c)
    \/ Is("subs.close.locked") /\ Step /\ Keep /\ CloseLocked
    \/ Is("subs.close.done") /\ Step /\ Keep /\ CloseChans
    \/ Silent
TraceSpec == TraceInit /\ [][TraceNext]_<<vars, l, rcall, pre>>
HighWater == TLCSet(1, IF l > TLCGet(1) THEN l ELSE TLCGet(1))
TraceAccepted == \/ TLCGet(1) = Len(TraceLog) + 1
                 \/ PrintT(<<"REJECTED-AT", TLCGet(1), TraceLog[TLCGet(1)]>>) /\ FALSE
=============================================================================
