----------------------------- MODULE SubsTrace -----------------------------
(* Trace validation of the real subscription registry (pubsub.go) against Subs.tla.  Hook events are emitted inside
   the registry's lock regions (subs.sub, subs.cancel, subs.unsub, subs.close.locked under the write lock;
   subs.pub.begin/send/end under the read lock, which only the single reader goroutine takes); the driver adds what a
   Receive loop observes (Recv, RecvClosed, CtxDone, SubNil).  Silent: the channel send inside Publish (confirmed by
   subs.pub.send afterwards), the start of the drainer goroutine and its receives.  Message ids are assigned at subs.pub.begin, so they are consecutive like the specification's. *)
EXTENDS MCSubs, Json, IOUtils
VARIABLE l
TraceLog == ndJsonDeserialize(IOEnv.VERIF_TRACE)
Ev == TraceLog[l]
Is(e) == l <= Len(TraceLog) /\ TraceLog[l].ev = e
Step == l' = l + 1
TraceInit == Init /\ l = 1 /\ TLCSet(1, 1)
Reset == /\ Is("RESET") /\ Step
         /\ reg' = [c \in Chan |-> {}] /\ open' = TRUE /\ alive' = {}
         /\ buf' = [s \in Sub |-> <<>>] /\ chClosed' = [s \in Sub |-> FALSE] /\ closes' = [s \in Sub |-> 0]
         /\ rd' = 0 /\ wr' = 0
         /\ rpc' = "idle" /\ rmsg' = 0 /\ rchan' = (CHOOSE c \in Chan : TRUE) /\ rleft' = {}
         /\ spc' = [s \in Sub |-> "new"] /\ drain' = [s \in Sub |-> FALSE] /\ got' = [s \in Sub |-> <<>>]
         /\ nmsg' = 0 /\ nunsub' = 0 /\ nclose' = 0 /\ sent' = [s \in Sub |-> <<>>]
\* the drainer empties the buffer (any number of receives in one silent step)
DrainAll(s) == /\ drain[s] /\ buf[s] # <<>> /\ buf' = [buf EXCEPT ![s] = <<>>]
               /\ UNCHANGED <<reg, open, alive, chClosed, closes, rd, wr, rpc, rmsg, rchan, rleft, spc, drain, got, nmsg, nunsub, nclose, sent>>
TraceNext ==
    \/ Reset
    \/ Is("subs.sub") /\ Step /\ open /\ Subscribe(Ev.s)
    \/ Is("SubNil") /\ Step /\ ~open /\ Subscribe(Ev.s)
    \/ Is("Recv") /\ Step /\ buf[Ev.s] # <<>> /\ Head(buf[Ev.s]) = Ev.m /\ RecvMsg(Ev.s)
    \/ Is("RecvClosed") /\ Step /\ RecvClosed(Ev.s)
    \/ Is("CtxDone") /\ Step /\ CtxDone(Ev.s)
    \/ Is("subs.cancel") /\ Step /\ CancelLocked(Ev.s)
    \/ Is("subs.pub.begin") /\ Step /\ Ev.m = nmsg + 1 /\ PubBegin(Ev.c)
    \* logged by the reader after its send completed; the receiver may have logged its Recv first, so the send itself
    \* is a silent step and this line only confirms it
    \/ Is("subs.pub.send") /\ Step /\ rpc = "pub" /\ Ev.s \notin rleft /\ Len(sent[Ev.s]) > 0
           /\ sent[Ev.s][Len(sent[Ev.s])] = rmsg /\ UNCHANGED vars
    \/ Is("subs.pub.end") /\ Step /\ PubEnd
    \/ Is("subs.unsub") /\ Step /\ Unsub(Ev.c)
    \/ Is("subs.close.locked") /\ Step /\ CloseLocked
    \/ Is("subs.close.done") /\ Step /\ CloseChans
    \/ (UNCHANGED l /\ (PubSend \/ \E s \in Sub : StartDrainer(s) \/ DrainAll(s)))
TraceSpec == TraceInit /\ [][TraceNext]_<<vars, l>>
HighWater == TLCSet(1, IF l > TLCGet(1) THEN l ELSE TLCGet(1))
TraceAccepted == \/ TLCGet(1) = Len(TraceLog) + 1
                 \/ PrintT(<<"REJECTED-AT", TLCGet(1), TraceLog[TLCGet(1)]>>) /\ FALSE
=============================================================================
