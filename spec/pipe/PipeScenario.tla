----------------------------- MODULE PipeScenario -----------------------------
(* A small exhaustive model over the alphabet of PipeObs.tla: an abstract environment (callers, one fake-server
   connection that answers in order, pushes, reply hold/release, cancellation, a cut) and an ABSTRACT CLIENT that
   behaves the way pipe.go is meant to: it sends the commands of one call contiguously, reads frames in wire order,
   hands the n-th reply to the n-th command it wrote, treats push frames on the side (Receive callbacks,
   invalidation callback), lets a cancelled call return the context error while its replies are drained.
   TLC checks that every invariant of PipeObs holds for this client under every interleaving (so the invariants do
   not over-constrain a correct pipeline), that each Bug* constant - a plausible defect of the real code - violates
   the invariant that is supposed to catch it (non-vacuity), and with Gen = TRUE prints the controllable part of
   every behaviour (who calls what, when a reply is released, where a push is inserted, when a context is
   cancelled, when the connection is cut) as a CASE record: the scenario scripts that harness/cmd/pipedrv
   executes against the real client.

   Identification: caller p's n-th call has id 10*p + n; its commands have ids "<call>.<i>"; the server's reply to
   a command is "v:<id>", so that a misrouted reply is visible. *)
EXTENDS PipeObs, Json

CONSTANTS Callers,      \* set of caller numbers (1..9)
          MaxCalls,     \* calls per caller
          MaxTotal,     \* calls in total
          Kinds,        \* subset of {"do", "multi", "cache", "sub", "subown"} (sub: Receive of an own channel and the shared
                        \* channel "sh"; subown: Receive of an own channel only)
          PushKinds,    \* subset of {"invalidate", "flush", "message", "unsubscribe", "unsubown", "msgown"}: pushes the environment
                        \* may insert (message / unsubscribe: on "sh"; msgown / unsubown: on the own channel of one caller's
                        \* current Receive)
          MaxPush, MaxCancel, MaxCut,
          UseHold,      \* the driver holds replies and releases them one by one
          InvalOn,      \* client created with OnInvalidations
          Eager,        \* environment moves only when client and server have nothing to do (scenario generation)
          Gen,          \* print the script at the end of every behaviour
          BugOffByOne,        \* the reader hands a push frame to the oldest pending command (replies shift by one)
          BugRecycle,         \* a cancelled call's command is recycled before it is written: other argv on the wire
          BugSplitBatch,      \* the writer interleaves the commands of two calls
          BugFutureReply,     \* a call returns a value the server has not released yet
          BugUnsubFirstOnly,  \* an unsubscribe push ends only the first subscriber of the channel
          BugSkipMsg,         \* the second message is not handed to a subscriber that already got the first
          BugNoLossNil,       \* the invalidation callback is not called with nil when the connection is lost
          BugSkipInval,       \* invalidation pushes for flushes are not handed to the callback
          Dedicated,          \* caller 1 works through a dedicated session with SetOnInvalidations / OnMessage hooks
          BugNoTrackingOff,   \* releasing the dedicated session does not send CLIENT TRACKING OFF
          CacheChoices,       \* {TRUE}: client-side cache enabled; {TRUE, FALSE}: also runs with DisableCache (tracking is then
                              \* turned on by hand, the invalidation pushes and the callbacks are the same)
          BugLossNilNeedsCache, \* the nil at connection loss is only delivered when the connection owns a cache
          BugUnsubWrongSub    \* an unsubscribe push ends the youngest listening Receive instead of the subscribers of its channel
                              \* (what a re-used subscription id does in pubsub.go)

VARIABLE mc   \* abstract client / server / environment bookkeeping (not part of the observable state)
svars == <<vars, mc>>

K == 1   \* the one connection
Cid(p, n) == 10 * p + n
CmdId(c, i) == ToString(c) \o "." \o ToString(i)
CmdsOf(c, kind) ==
  CASE kind = "do"    -> <<W(CmdId(c, 1), <<"VTAG", CmdId(c, 1)>>)>>
    [] kind = "multi" -> <<W(CmdId(c, 1), <<"VTAG", CmdId(c, 1)>>), W(CmdId(c, 2), <<"VTAG", CmdId(c, 2)>>)>>
    [] kind = "cache" -> <<W(CmdId(c, 1), <<"GET", "k:" \o CmdId(c, 1)>>)>>
    [] kind = "subown" -> <<W(CmdId(c, 1), <<"SUBSCRIBE", "u:" \o CmdId(c, 1)>>)>>
    [] OTHER          -> <<W(CmdId(c, 1), <<"SUBSCRIBE", "u:" \o CmdId(c, 1), "sh">>)>>

SInit ==
  /\ calls = <<>> /\ built = <<>> /\ where = <<>> /\ sessv = <<>>
  /\ conns = <<>>
  /\ glob = [closing |-> FALSE, quiesced |-> FALSE, bad |-> {}, invalOn |-> FALSE]
  /\ last = Touch("Init", {}, {}, FALSE)
  /\ \E cacheOn \in CacheChoices :
     mc = [cache |-> cacheOn,
           ncalls |-> [p \in Callers |-> 0],
           cur  |-> [c |-> 0, j |-> 0],      \* batch the abstract writer is in the middle of
           wpos |-> <<>>,                    \* call -> position of its first command on the wire
           todo |-> <<>>,                    \* what the server still owes, in order: [t, p] / [t, kind, chan, val]
           rd   |-> 0,                       \* frames consumed by the abstract reader
           slots |-> <<>>,                   \* replies as the reader matched them: the n-th goes to the n-th command
           reg  |-> {}, active |-> {}, ended |-> {},   \* Receive calls: registered / confirmed / ended by unsubscribe
           pend |-> <<>>,                    \* Receive call -> frames not yet handed to its callback
           ipend |-> <<>>,                   \* invalidation payloads not yet handed to the callback
           schans |-> {},                    \* channels the server has the connection subscribed to
           lossnil |-> FALSE,
           boot |-> 0,                       \* Start, SConn, Hold done
           sess |-> "none",                  \* dedicated session of caller 1: none / open / releasing / released
           relq |-> <<>>,                    \* commands mux.Store still has to send for the released session
           hpend |-> <<>>,                   \* frames not yet handed to the session's hooks
           npush |-> 0, ncancel |-> 0, ncut |-> 0, script |-> <<>>]

CallsOf(p) == {c \in DOMAIN calls : c \div 10 = p}
Open(c) == calls[c].st = "open"
Cut == K \in DOMAIN conns /\ conns[K].lost
Booted == mc.boot = 3
IsSub(c) == calls[c].kind = "sub"
Sc(op, p, kind) == [op |-> op, p |-> p, kind |-> kind]

-----------------------------------------------------------------------------
(* ---- the server: answers in order *)
ReplyValue(p) ==
  LET e == conns[K].recvd[p] IN
  IF e.argv[1] = "EXEC" THEN [val |-> "[exec]", elems |-> <<":-1", "v:" \o conns[K].recvd[p - 1].id>>]
  ELSE IF e.id # "" /\ e.argv[1] = "GET" THEN [val |-> "+QUEUED", elems |-> <<>>]
  ELSE IF e.id # "" THEN [val |-> "v:" \o e.id, elems |-> <<>>]
  ELSE [val |-> "+OK", elems |-> <<>>]

ServeEn == Booted /\ mc.todo # <<>> /\ ~Cut
Serve ==
  /\ ServeEn
  /\ LET h == Head(mc.todo) IN
     /\ IF h.t = "rep" THEN SRep(K, ReplyValue(h.p).val, ReplyValue(h.p).elems)
                       ELSE SPush(K, h.kind, h.chan, h.val)
     /\ mc' = [mc EXCEPT !.todo = Tail(@), !.schans = IF h.t = "push" /\ h.kind = "subscribe" THEN @ \cup {h.chan} ELSE @]

(* ---- the abstract client: writer *)
\* the next command the writer puts on the wire: continues the current batch, or starts the batch of any call that
\* has not been sent (a Receive call registers first)
Sendable(c) == c \notin DOMAIN mc.wpos /\ (IsSub(c) => c \in mc.reg) /\ (Open(c) \/ calls[c].canc)
SendEn == ~Cut /\ (mc.cur.c # 0 \/ mc.relq # <<>> \/ \E c \in DOMAIN calls : Sendable(c))
None == [c |-> 0, j |-> 0]
SendCmd(c, j, cont) ==   \* cont: the batch to go on with afterwards (BugSplitBatch), else None
  LET w == calls[c].wire[j]
      recycled == BugRecycle /\ calls[c].canc /\ w.id # ""
      argv == IF recycled THEN <<"VTAG", "recycled">> ELSE w.argv
      p == Len(conns[K].recvd) + 1
      owed == IF ExpectsReply(argv) THEN <<[t |-> "rep", p |-> p, kind |-> "", chan |-> "", val |-> ""]>>
              ELSE [i \in 1..(Len(argv) - 1) |-> [t |-> "push", p |-> 0, kind |-> "subscribe", chan |-> argv[i + 1], val |-> ":" \o ToString(i)]]
  IN /\ SRecv(K, w.id, argv)
     /\ mc' = [mc EXCEPT !.cur = IF cont.c # 0 THEN cont ELSE IF j = Len(calls[c].wire) THEN None ELSE [c |-> c, j |-> j],
                         !.wpos = IF j = 1 THEN @ @@ (c :> p) ELSE @,
                         !.todo = @ \o owed]
Send ==
  /\ SendEn
  /\ \/ mc.cur.c # 0 /\ SendCmd(mc.cur.c, mc.cur.j + 1, None)
     \/ mc.cur.c = 0 /\ \E c \in DOMAIN calls : Sendable(c) /\ SendCmd(c, 1, None)
     \/ mc.cur.c = 0 /\ mc.relq # <<>> /\ (\A c \in DOMAIN calls : ~Sendable(c))
           /\ SRecv(K, "", Head(mc.relq))
           /\ mc' = [mc EXCEPT !.relq = Tail(@),
                               !.todo = Append(@, [t |-> "rep", p |-> Len(conns[K].recvd) + 1, kind |-> "", chan |-> "", val |-> ""])]
     \* (BugSplitBatch) a single command of another call cuts into the current batch
     \/ BugSplitBatch /\ mc.cur.c # 0 /\ \E c \in DOMAIN calls : Sendable(c) /\ Len(calls[c].wire) = 1 /\ SendCmd(c, 1, mc.cur)

RegEn == \E c \in DOMAIN calls : IsSub(c) /\ Open(c) /\ c \notin mc.reg /\ c \notin DOMAIN mc.wpos
Reg == /\ \E c \in DOMAIN calls : IsSub(c) /\ Open(c) /\ c \notin mc.reg /\ c \notin DOMAIN mc.wpos
                                  /\ mc' = [mc EXCEPT !.reg = @ \cup {c}]
       /\ UNCHANGED vars

(* ---- the abstract client: reader *)
ReadEn == ~Cut /\ mc.rd < Released(K)
Listening(c) == c \in mc.reg /\ c \notin mc.ended /\ Open(c)
Read ==
  /\ ReadEn
  /\ LET f == mc.rd + 1
         fr == conns[K].out[f]
         asReply == fr.t = "rep" \/ (BugOffByOne /\ fr.t = "push" /\ fr.kind \in {"invalidate", "message"})
         rec == IF fr.t = "rep" THEN LET r == CHOOSE r \in 1..Len(conns[K].reps) : conns[K].reps[r].frame = f IN
                                     [val |-> fr.val, elems |-> conns[K].reps[r].elems, frame |-> f]
                ELSE [val |-> fr.val, elems |-> <<>>, frame |-> f]
         subsOf == {c \in DOMAIN calls : IsSub(c) /\ Listening(c) /\ fr.chan \in SubChans(c)}
         deliverTo == IF BugSkipMsg /\ fr.val = "|sh|m2" THEN {c \in subsOf : Len(mc.pend[c]) + Len(calls[c].got) = 0} ELSE subsOf
         listening == {c \in DOMAIN calls : IsSub(c) /\ Listening(c)}
         endTo == IF BugUnsubFirstOnly /\ subsOf # {} THEN {CHOOSE c \in subsOf : \A d \in subsOf : c <= d}
                  ELSE IF BugUnsubWrongSub /\ listening \cap DOMAIN mc.wpos # {}
                       THEN LET ls == listening \cap DOMAIN mc.wpos IN {CHOOSE c \in ls : \A d \in ls : mc.wpos[c] >= mc.wpos[d]}
                  ELSE subsOf
     IN mc' = [mc EXCEPT
          !.rd = f,
          !.slots = IF asReply THEN Append(@, rec) ELSE @,
          !.pend = IF fr.t = "push" /\ fr.kind = "message" THEN [c \in DOMAIN @ |-> IF c \in deliverTo THEN Append(@[c], f) ELSE @[c]] ELSE @,
          !.ended = IF fr.t = "push" /\ fr.kind = "unsubscribe" THEN @ \cup endTo ELSE @,
          !.active = IF fr.t = "push" /\ fr.kind = "subscribe"
                     THEN @ \cup {c \in DOMAIN calls : IsSub(c) /\ calls[c].wire[1].argv[2] = fr.chan} ELSE @,
          !.hpend = IF fr.t = "push" /\ fr.kind \in {"invalidate", "message"} /\ mc.sess \in {"open", "releasing"} THEN Append(@, f) ELSE @,
          !.ipend = IF fr.t = "push" /\ fr.kind = "invalidate" /\ InvalOn /\ ~(BugSkipInval /\ fr.val = "nil") THEN Append(@, fr.val) ELSE @]
  /\ UNCHANGED vars

CbEn(c) == IsSub(c) /\ Open(c) /\ c \in mc.active /\ c \in DOMAIN mc.pend /\ mc.pend[c] # <<>>
Cb == \E c \in DOMAIN calls : /\ CbEn(c)
                              /\ RecvCb(c, conns[K].out[Head(mc.pend[c])].val)
                              /\ mc' = [mc EXCEPT !.pend[c] = Tail(@)]

\* pipe._background at connection loss: one nil for the option callback and one for the session hook - with or without a cache
LossNilOK == ~BugNoLossNil /\ (BugLossNilNeedsCache => mc.cache)
InvalEn == mc.ipend # <<>> \/ (Cut /\ InvalOn /\ ~mc.lossnil /\ LossNilOK)
Inval == \/ mc.ipend # <<>> /\ InvalCb(Head(mc.ipend)) /\ mc' = [mc EXCEPT !.ipend = Tail(@)]
         \/ mc.ipend = <<>> /\ Cut /\ InvalOn /\ ~mc.lossnil /\ LossNilOK /\ InvalCb("nil") /\ mc' = [mc EXCEPT !.lossnil = TRUE]

HookEn == mc.hpend # <<>>
Hook == /\ HookEn
        /\ LET fr == conns[K].out[Head(mc.hpend)] IN
           IF fr.kind = "message" THEN HookMsg(1, fr.val) ELSE HookInval(1, fr.val)
        /\ mc' = [mc EXCEPT !.hpend = Tail(@)]
\* mux.Store: hooks reset (channel closed), CLIENT TRACKING OFF sent and answered, then release() returns
RelEn == mc.sess = "releasing" /\ mc.relq = <<>> /\ mc.hpend = <<>> /\ mc.rd = Len(conns[K].out)
Rel == /\ RelEn
       /\ IF Sess(1).closedN < Sess(1).regs THEN HookClosed(1, 0) /\ UNCHANGED mc
          ELSE DedReleased(1) /\ mc' = [mc EXCEPT !.sess = "released"]

\* the connection of the open session is lost: its hook channels get the error and are closed, the invalidation hook gets
\* one nil, the session is over (its release has nothing left to clean)
HookLossEn == Dedicated /\ Cut /\ mc.sess \in {"open", "releasing"} /\ mc.hpend = <<>> /\ \A c \in CallsOf(1) : ~Open(c)
HookLoss == /\ HookLossEn
            /\ IF Sess(1).closedN < Sess(1).regs THEN HookClosed(1, 1) /\ UNCHANGED mc
               ELSE IF Sess(1).inval /\ Sess(1).conn # 0 /\ Sess(1).hlossnil = 0 /\ LossNilOK THEN HookInval(1, "nil") /\ UNCHANGED mc
               ELSE mc' = [mc EXCEPT !.sess = "lost", !.relq = <<>>] /\ UNCHANGED vars

(* ---- the abstract client: results *)
\* the slot (n-th reply read) of wire command j of call c
SlotOf(c, j) == conns[K].recvd[mc.wpos[c] + j - 1].ro
HaveSlot(c, j) == c \in DOMAIN mc.wpos /\ mc.wpos[c] + j - 1 <= Len(conns[K].recvd)
                  /\ SlotOf(c, j) # 0 /\ SlotOf(c, j) <= Len(mc.slots)
Complete(c) == \A i \in 1..calls[c].nres : HaveSlot(c, ResWire(calls[c].kind, i, calls[c].wire))
ResultOf(c, i) ==
  LET j == ResWire(calls[c].kind, i, calls[c].wire) IN
  IF HaveSlot(c, j) THEN ResultFrom(calls[c].kind, mc.slots[SlotOf(c, j)]) ELSE IF calls[c].canc THEN "!ctx" ELSE "!other:cut"
\* (BugFutureReply) the value the server will send, taken before it was released
FutureOf(c, i) ==
  LET j == ResWire(calls[c].kind, i, calls[c].wire) IN
  IF c \in DOMAIN mc.wpos /\ mc.wpos[c] + j - 1 <= Len(conns[K].recvd) /\ SlotOf(c, j) # 0 /\ SlotOf(c, j) <= Len(conns[K].reps)
  THEN ResultFrom(calls[c].kind, conns[K].reps[SlotOf(c, j)]) ELSE "!other:cut"
RetEn(c) == Open(c) /\ IF IsSub(c)
                       THEN calls[c].canc \/ (Cut /\ mc.pend[c] = <<>>) \/ (c \in mc.active /\ c \in mc.ended /\ mc.pend[c] = <<>>)
                       ELSE Complete(c) \/ calls[c].canc \/ Cut
                            \/ (BugFutureReply /\ \A i \in 1..calls[c].nres : ~IsClientErr(FutureOf(c, i)))
RetC(c) ==
  /\ RetEn(c)
  /\ IF IsSub(c)
     THEN \/ calls[c].canc /\ Ret(c, <<"!ctx">>)
          \/ c \in mc.active /\ c \in mc.ended /\ mc.pend[c] = <<>> /\ Ret(c, <<"nil">>)
          \/ Cut /\ c \in DOMAIN mc.pend /\ mc.pend[c] = <<>> /\ Ret(c, <<"!other:cut">>)
     ELSE \/ (Complete(c) \/ Cut) /\ Ret(c, [i \in 1..calls[c].nres |-> ResultOf(c, i)])
          \/ calls[c].canc /\ Ret(c, [i \in 1..calls[c].nres |-> "!ctx"])
          \/ BugFutureReply /\ (\A i \in 1..calls[c].nres : ~IsClientErr(FutureOf(c, i)))
                            /\ Ret(c, [i \in 1..calls[c].nres |-> FutureOf(c, i)])
  /\ mc' = [mc EXCEPT !.reg = @ \ {c}]
RetAny == \E c \in DOMAIN calls : RetC(c)

\* does client or server have something to do by itself?
Internal == ServeEn \/ SendEn \/ RegEn \/ ReadEn \/ InvalEn \/ HookEn \/ RelEn \/ HookLossEn \/ \E c \in DOMAIN calls : CbEn(c) \/ RetEn(c)
EnvMay == ~glob.quiesced /\ (Eager => ~Internal)

-----------------------------------------------------------------------------
(* ---- the environment (the controllable events: the scenario script) *)
ECall == \E p \in Callers, kind \in Kinds :
           /\ ~Cut /\ mc.ncalls[p] < MaxCalls /\ Cardinality(DOMAIN calls) < MaxTotal /\ \A c \in CallsOf(p) : ~Open(c)
           \* a dedicated connection is exclusive: while the session of caller 1 is open nobody else uses it
           /\ (Dedicated /\ p = 1) => mc.sess = "open"
           /\ (Dedicated /\ p # 1) => mc.sess = "released"
           /\ (kind = "cache" => mc.cache)       \* without the cache DoCache is a plain Do
           /\ LET c == Cid(p, mc.ncalls[p] + 1) IN
              /\ Call(c, IF kind = "subown" THEN "sub" ELSE kind, IF Dedicated /\ p = 1 THEN 1 ELSE 0, CmdsOf(c, kind))
              /\ mc' = [mc EXCEPT !.ncalls[p] = @ + 1, !.script = Append(@, Sc("call", p, kind)),
                                  !.pend = IF kind \in {"sub", "subown"} THEN @ @@ (c :> <<>>) ELSE @]
ECancel == \E c \in DOMAIN calls :
             /\ Open(c) /\ ~calls[c].canc /\ mc.ncancel < MaxCancel
             /\ Cancel(c, FALSE)
             /\ mc' = [mc EXCEPT !.ncancel = @ + 1, !.script = Append(@, Sc("cancel", c \div 10, ""))]
\* the own channel of the Receive that caller p currently runs ("" : none, or not subscribed on the server)
OwnChan(p) == LET cs == {c \in CallsOf(p) : IsSub(c) /\ Open(c)} IN
              IF cs = {} THEN "" ELSE LET c == CHOOSE c \in cs : TRUE IN
                                    IF calls[c].wire[1].argv[2] \in mc.schans THEN calls[c].wire[1].argv[2] ELSE ""
EPush == \E kind \in PushKinds, p \in Callers :
           /\ ~Cut /\ mc.npush < MaxPush
           /\ (kind \notin {"unsubown", "msgown"} => p = CHOOSE q \in Callers : TRUE)     \* only these are about one caller
           /\ (kind \in {"unsubown", "msgown"} => OwnChan(p) # "")
           /\ (kind \in {"message", "unsubscribe"} => ("sh" \in mc.schans \/ (Dedicated /\ kind = "message")))
           \* pushes reach a dedicated connection only after the session has used it
           /\ Dedicated => (mc.sess = "open" /\ Sess(1).conn = K)
           /\ LET n == ToString(mc.npush + 1)
                  fr == CASE kind = "invalidate"  -> [t |-> "push", p |-> 0, kind |-> "invalidate", chan |-> "", val |-> "k" \o n]
                          [] kind = "flush"       -> [t |-> "push", p |-> 0, kind |-> "invalidate", chan |-> "", val |-> "nil"]
                          [] kind = "message"     -> [t |-> "push", p |-> 0, kind |-> "message", chan |-> "sh", val |-> "|sh|m" \o n]
                          [] kind = "unsubown"    -> [t |-> "push", p |-> 0, kind |-> "unsubscribe", chan |-> OwnChan(p), val |-> ":0"]
                          [] kind = "msgown"      -> [t |-> "push", p |-> 0, kind |-> "message", chan |-> OwnChan(p),
                                                      val |-> "|" \o OwnChan(p) \o "|m" \o n]
                          [] OTHER                -> [t |-> "push", p |-> 0, kind |-> "unsubscribe", chan |-> "sh", val |-> ":0"]
              IN mc' = [mc EXCEPT !.npush = @ + 1, !.todo = Append(@, fr),
                                  !.script = Append(@, Sc("push", IF kind \in {"unsubown", "msgown"} THEN p ELSE 0, kind)),
                                  !.schans = IF kind \in {"unsubscribe", "unsubown"} THEN @ \ {fr.chan} ELSE @]
           /\ UNCHANGED vars
ERelease == /\ UseHold /\ conns[K].rel < Len(conns[K].out)
            /\ Release(K, 1)
            /\ mc' = [mc EXCEPT !.script = Append(@, Sc("release", 0, ""))]
ECut == /\ ~Cut /\ mc.ncut < MaxCut /\ DOMAIN calls # {}
        /\ SLost(K)
        /\ mc' = [mc EXCEPT !.ncut = @ + 1, !.script = Append(@, Sc("cut", 0, "")), !.todo = <<>>]
ESessOpen == /\ Dedicated /\ mc.sess = "none"
             /\ HookSet(1, TRUE)
             /\ mc' = [mc EXCEPT !.sess = "open", !.script = Append(@, Sc("sessopen", 1, ""))]
ESessRelease == /\ Dedicated /\ mc.sess = "open" /\ mc.ncalls[1] > 0 /\ \A c \in CallsOf(1) : ~Open(c)
                /\ mc' = [mc EXCEPT !.sess = "releasing", !.script = Append(@, Sc("sessrelease", 1, "")),
                                    !.relq = IF BugNoTrackingOff THEN <<>> ELSE <<<<"CLIENT", "TRACKING", "OFF">>>>]
                /\ UNCHANGED vars
\* the first steps of every run: Start, the connection, the reply hold
Boot == /\ mc.boot < 3
        /\ CASE mc.boot = 0 -> Start(InvalOn)
             [] mc.boot = 1 -> SConn(K)
             [] OTHER -> IF UseHold THEN Hold(K, TRUE) ELSE UNCHANGED vars
        /\ mc' = [mc EXCEPT !.boot = @ + 1,
                            !.script = IF mc.boot = 0 /\ ~mc.cache THEN Append(@, Sc("opt", 0, "nocache")) ELSE @]
EClose == /\ glob.quiesced /\ ~glob.closing /\ CloseBegin /\ UNCHANGED mc
\* the driver ends what it started (every Receive still listening gets cancelled by an ECancel or ended by an
\* unsubscribe before), releases everything, waits until nothing moves and declares the run quiescent
EQuiesce == /\ ~glob.quiesced /\ ~Internal /\ mc.sess \in {"none", "released", "lost"}
            /\ Cut \/ \A p \in Callers : mc.ncalls[p] > 0
            /\ conns[K].rel < 0 \/ conns[K].rel = Len(conns[K].out) \/ Cut
            /\ \A c \in DOMAIN calls : (IsSub(c) /\ Open(c)) =>
                  SubConn(c) = K /\ \E u \in (calls[c].must + 1)..Len(conns[K].out) : EndsSub(c, K, u)
            /\ Quiesce
            /\ UNCHANGED mc

\* the fake server answers under its dispatcher mutex: whatever it owes is sent before anything else happens
SNext == \/ Boot
         \/ Booted /\ Serve
         \/ Booted /\ ~ServeEn /\ (\/ Send \/ Reg \/ Read \/ Cb \/ Inval \/ Hook \/ Rel \/ HookLoss \/ RetAny \/ EQuiesce \/ EClose
                                   \/ ~glob.quiesced /\ ECancel          \* a context may end at any moment
                                   \/ EnvMay /\ (ECall \/ EPush \/ ERelease \/ ECut \/ ESessOpen \/ ESessRelease))
SSpec == SInit /\ [][SNext]_svars

\* model checking view: without the script (the focus record stays: with FocusAll = FALSE the invariants look at it)
MCView == <<calls, built, conns, where, sessv, glob, last, [mc EXCEPT !.script = <<>>]>>
GenView == <<calls, built, conns, where, sessv, glob, last, mc>>

\* scenario generation: the script of every quiesced behaviour
PrintScript == (Gen /\ glob.quiesced) => PrintT(<<"CASE", ToJson([script |-> mc.script])>>)
=============================================================================
