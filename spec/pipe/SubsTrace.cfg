SPECIFICATION TraceSpec
CONSTANTS
  Sub = {1, 2, 3, 4, 5, 6}
  Chan = {"a", "b"}
  Topic <- TopicDef
  BufCap = 16
  MaxMsgs = 100000
  MaxUnsubs = 100000
  MaxCloses = 1
  BugNoDrainer = FALSE
  BugCloseKeepsMap = FALSE
INVARIANTS NoDoubleClose NoSendOnClosed InOrder OnlyOwnTopics RegistryConsistent
CONSTRAINT HighWater
POSTCONDITION TraceAccepted
CHECK_DEADLOCK FALSE
