SPECIFICATION TraceSpec
CONSTANTS
  Sub = {1, 2, 3, 4, 5, 6, 7, 8, 9, 10, 11, 12}
  Chan = {"a", "b"}
  Topic <- TopicDef
  BufCap = 16
  MaxMsgs = 100000
  MaxUnsubs = 100000
  MaxCloses = 1
  BugNoDrainer = FALSE
  BugCloseKeepsMap = FALSE
  BugCntDecr = FALSE
INVARIANTS LiveSubscribersRegistered NoDoubleClose NoSendOnClosed InOrder OnlyOwnTopics RegistryConsistent
CONSTRAINT HighWater
POSTCONDITION TraceAccepted
CHECK_DEADLOCK FALSE
