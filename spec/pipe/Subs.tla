------------------------------- MODULE Subs -------------------------------
(* pubsub.go of redis/rueidis: the registry that fans Pub/Sub pushes out to the Receive calls of one connection
   (part of C26, and of C04 for Receive callers at connection loss).

   One reader goroutine (pipe._backgroundRead via handlePush, then pipe._background at connection loss) calls Publish,
   Unsubscribe and Close; any number of caller goroutines call Subscribe and, when their Receive ends, the cancel
   function.  The registry is guarded by an RWMutex; Publish sends into the subscribers' buffered channels (capacity
   BufCap; 16 in the code) while holding the read lock, so it can block on a full buffer with the lock held.  The
   cancel function first starts a drainer goroutine on its channel and only then takes the write lock; without the
   drainer, cancel and a blocked Publish would deadlock (BugNoDrainer).  Close clears the registry under the lock and
   closes the channels after releasing it (BugCloseKeepsMap: registry not cleared, so a later cancel closes again).

   One action per lock region / channel operation. *)
EXTENDS Integers, Sequences, FiniteSets, TLC

CONSTANTS Sub,          \* subscriber (Receive call) ids
          Chan,         \* channel names
          Topic,        \* Topic[s] \subseteq Chan: what subscriber s subscribes to
          BufCap, MaxMsgs, MaxUnsubs, MaxCloses,
          BugNoDrainer, BugCloseKeepsMap

VARIABLES reg,        \* reg[c]: set of subscribers registered for channel c;  the registry is "closed" when open = FALSE
          open, alive,  \* alive: ids in s.sub
          buf, chClosed, closes,   \* per subscriber: channel buffer, closed flag, number of close() calls on it
          rd, wr,       \* RWMutex: rd = number of read holders (only the reader goroutine takes it), wr = write holder (0 none)
          rpc, rmsg, rchan, rleft, \* reader goroutine: pc, message being published, its channel, subscribers still to send to
          spc, drain, got,  \* subscribers: pc, drainer started, messages the user callback received
          nmsg, nunsub, nclose, sent   \* budgets; sent[s]: messages the reader put into s's channel
vars == <<reg, open, alive, buf, chClosed, closes, rd, wr, rpc, rmsg, rchan, rleft, spc, drain, got, nmsg, nunsub, nclose, sent>>
READER == -1

Init == /\ reg = [c \in Chan |-> {}] /\ open = TRUE /\ alive = {}
        /\ buf = [s \in Sub |-> <<>>] /\ chClosed = [s \in Sub |-> FALSE] /\ closes = [s \in Sub |-> 0]
        /\ rd = 0 /\ wr = 0
        /\ rpc = "idle" /\ rmsg = 0 /\ rchan = (CHOOSE c \in Chan : TRUE) /\ rleft = {}
        /\ spc = [s \in Sub |-> "new"] /\ drain = [s \in Sub |-> FALSE] /\ got = [s \in Sub |-> <<>>]
        /\ nmsg = 0 /\ nunsub = 0 /\ nclose = 0 /\ sent = [s \in Sub |-> <<>>]

CloseCh(S) == /\ chClosed' = [s \in Sub |-> IF s \in S THEN TRUE ELSE chClosed[s]]
              /\ closes' = [s \in Sub |-> IF s \in S THEN closes[s] + 1 ELSE closes[s]]

\* ---- callers
\* Subscribe: Lock; if registry open: make channel, register for every topic; Unlock
Subscribe(s) == /\ spc[s] = "new" /\ wr = 0 /\ rd = 0
                /\ IF open THEN /\ reg' = [c \in Chan |-> IF c \in Topic[s] THEN reg[c] \cup {s} ELSE reg[c]]
                                /\ alive' = alive \cup {s} /\ spc' = [spc EXCEPT ![s] = "recv"]
                           ELSE /\ UNCHANGED <<reg, alive>> /\ spc' = [spc EXCEPT ![s] = "done"]   \* ch == nil
                /\ UNCHANGED <<open, buf, chClosed, closes, rd, wr, rpc, rmsg, rchan, rleft, drain, got, nmsg, nunsub, nclose, sent>>
\* Receive's loop: msg, ok := <-ch
RecvMsg(s) == /\ spc[s] = "recv" /\ buf[s] # <<>>
              /\ got' = [got EXCEPT ![s] = Append(@, Head(buf[s]))] /\ buf' = [buf EXCEPT ![s] = Tail(@)]
              /\ UNCHANGED <<reg, open, alive, chClosed, closes, rd, wr, rpc, rmsg, rchan, rleft, spc, drain, nmsg, nunsub, nclose, sent>>
\* the channel was closed (unsubscribe / connection loss) and drained: Receive ends and runs the deferred cancel
RecvClosed(s) == /\ spc[s] = "recv" /\ buf[s] = <<>> /\ chClosed[s]
                 /\ spc' = [spc EXCEPT ![s] = "cancel"]
                 /\ UNCHANGED <<reg, open, alive, buf, chClosed, closes, rd, wr, rpc, rmsg, rchan, rleft, drain, got, nmsg, nunsub, nclose, sent>>
\* the caller's context ended: Receive ends and runs the deferred cancel
CtxDone(s) == /\ spc[s] = "recv" /\ spc' = [spc EXCEPT ![s] = "cancel"]
              /\ UNCHANGED <<reg, open, alive, buf, chClosed, closes, rd, wr, rpc, rmsg, rchan, rleft, drain, got, nmsg, nunsub, nclose, sent>>
\* cancel(): go func(){ for range ch {} }()
StartDrainer(s) == /\ spc[s] = "cancel" /\ spc' = [spc EXCEPT ![s] = "cancelLock"]
                   /\ drain' = [drain EXCEPT ![s] = ~BugNoDrainer]
                   /\ UNCHANGED <<reg, open, alive, buf, chClosed, closes, rd, wr, rpc, rmsg, rchan, rleft, got, nmsg, nunsub, nclose, sent>>
Drain(s) == /\ drain[s] /\ buf[s] # <<>> /\ buf' = [buf EXCEPT ![s] = Tail(@)]
            /\ UNCHANGED <<reg, open, alive, chClosed, closes, rd, wr, rpc, rmsg, rchan, rleft, spc, drain, got, nmsg, nunsub, nclose, sent>>
\* cancel(): Lock; if s.chs != nil { remove(id) }; Unlock
CancelLocked(s) == /\ spc[s] = "cancelLock" /\ wr = 0 /\ rd = 0
                   /\ IF open /\ s \in alive
                      THEN /\ reg' = [c \in Chan |-> reg[c] \ {s}] /\ alive' = alive \ {s} /\ CloseCh({s})
                      ELSE UNCHANGED <<reg, alive, chClosed, closes>>
                   /\ spc' = [spc EXCEPT ![s] = "done"]
                   /\ UNCHANGED <<open, buf, rd, wr, rpc, rmsg, rchan, rleft, drain, got, nmsg, nunsub, nclose, sent>>

\* ---- the reader goroutine
\* Publish(channel, msg): RLock; for each subscriber of the channel: sb.ch <- msg (may block); RUnlock
PubBegin(c) == /\ rpc = "idle" /\ nmsg < MaxMsgs /\ wr = 0
               /\ nmsg' = nmsg + 1 /\ rmsg' = nmsg + 1 /\ rchan' = c
               /\ rd' = rd + 1 /\ rleft' = reg[c] /\ rpc' = "pub"
               /\ UNCHANGED <<reg, open, alive, buf, chClosed, closes, wr, spc, drain, got, nunsub, nclose, sent>>
PubSend == /\ rpc = "pub" /\ rleft # {}
           /\ \E s \in rleft : /\ Len(buf[s]) < BufCap
                               /\ buf' = [buf EXCEPT ![s] = Append(@, rmsg)]
                               /\ sent' = [sent EXCEPT ![s] = Append(@, rmsg)]
                               /\ rleft' = rleft \ {s}
           /\ UNCHANGED <<reg, open, alive, chClosed, closes, rd, wr, rpc, rmsg, rchan, spc, drain, got, nmsg, nunsub, nclose>>
PubEnd == /\ rpc = "pub" /\ rleft = {} /\ rd' = rd - 1 /\ rpc' = "idle"
          /\ UNCHANGED <<reg, open, alive, buf, chClosed, closes, wr, rmsg, rchan, rleft, spc, drain, got, nmsg, nunsub, nclose, sent>>
\* Unsubscribe(channel): Lock; remove every subscriber of the channel (all its topics, close its channel); Unlock
Unsub(c) == /\ rpc = "idle" /\ nunsub < MaxUnsubs /\ wr = 0 /\ rd = 0 /\ open
            /\ nunsub' = nunsub + 1
            /\ reg' = [d \in Chan |-> IF d = c THEN {} ELSE reg[d] \ reg[c]]
            /\ alive' = alive \ reg[c] /\ CloseCh(reg[c])
            /\ UNCHANGED <<open, buf, rd, wr, rpc, rmsg, rchan, rleft, spc, drain, got, nmsg, nclose, sent>>
\* Close(): Lock; take the subscriber map, clear the registry; Unlock ...
CloseLocked == /\ rpc = "idle" /\ nclose < MaxCloses /\ wr = 0 /\ rd = 0 /\ open
               /\ nclose' = nclose + 1
               /\ open' = BugCloseKeepsMap /\ rleft' = alive
               /\ IF BugCloseKeepsMap THEN UNCHANGED <<reg, alive>> ELSE reg' = [c \in Chan |-> {}] /\ alive' = {}
               /\ rpc' = "closing"
               /\ UNCHANGED <<buf, chClosed, closes, rd, wr, rmsg, rchan, spc, drain, got, nmsg, nunsub, sent>>
\* ... then close every channel, outside the lock
CloseChans == /\ rpc = "closing" /\ CloseCh(rleft) /\ rleft' = {} /\ rpc' = "idle"
              /\ UNCHANGED <<reg, open, alive, buf, rd, wr, rmsg, rchan, spc, drain, got, nmsg, nunsub, nclose, sent>>

Next == \/ \E s \in Sub : Subscribe(s) \/ RecvMsg(s) \/ RecvClosed(s) \/ CtxDone(s) \/ StartDrainer(s) \/ Drain(s) \/ CancelLocked(s)
        \/ \E c \in Chan : PubBegin(c) \/ Unsub(c)
        \/ PubSend \/ PubEnd \/ CloseLocked \/ CloseChans
Spec == Init /\ [][Next]_vars
\* fairness of everything except the choices to publish, unsubscribe, close and to end a context
FairSpec == Spec /\ WF_vars(PubSend \/ PubEnd \/ CloseChans)
                 /\ \A s \in Sub : WF_vars(Subscribe(s) \/ RecvMsg(s) \/ RecvClosed(s) \/ StartDrainer(s) \/ Drain(s) \/ CancelLocked(s))

\* ---- properties
\* a channel is closed exactly once (a second close panics)
NoDoubleClose == \A s \in Sub : closes[s] <= 1
\* nothing is ever sent on a closed channel (panic): the reader only sends to registered subscribers
NoSendOnClosed == \A s \in Sub : (rpc = "pub" /\ s \in rleft) => ~chClosed[s]
\* what the callback saw is a prefix of what was put into its channel: in order, no duplicates, nothing foreign
IsPrefix(a, b) == Len(a) <= Len(b) /\ \A i \in 1..Len(a) : a[i] = b[i]
InOrder == \A s \in Sub : IsPrefix(got[s], sent[s])
\* a subscriber only gets messages of its topics -- sent[] is filled from reg[rchan] only, checked on the registry:
OnlyOwnTopics == \A c \in Chan : \A s \in reg[c] : c \in Topic[s]
RegistryConsistent == \A c \in Chan : reg[c] \subseteq alive
\* the reader goroutine is never stuck for good: a blocked Publish is released (by the receiver or the drainer)
ReaderProgress == (rpc = "pub") ~> (rpc = "idle")
\* every Receive that started to cancel finishes, and every Receive ends after Close
CancelFinishes == \A s \in Sub : (spc[s] = "cancel") ~> (spc[s] = "done")
ClosedEndsReceive == \A s \in Sub : (spc[s] = "recv" /\ ~open /\ rpc = "idle") ~> (spc[s] # "recv")
NoDeadlock == (\A s \in Sub : spc[s] = "done") \/ ENABLED Next \/ (rpc = "idle" /\ \A s \in Sub : spc[s] \in {"done", "recv"})
=============================================================================
