------------------------------- MODULE Subs -------------------------------
(* pubsub.go of redis/rueidis: the registry that fans Pub/Sub pushes out to the Receive calls of one connection
   (part of C26, and of C04 for Receive callers at connection loss).

   One reader goroutine (pipe._backgroundRead via handlePush, then pipe._background at connection loss) calls Publish,
   Unsubscribe and Close; any number of caller goroutines call Subscribe and, when their Receive ends, the cancel
   function.  The registry is guarded by an RWMutex; Publish sends into the subscribers' buffered channels (capacity
   BufCap; 16 in the code) while holding the read lock, so it can block on a full buffer with the lock held.  The
   cancel function first starts a drainer goroutine on its channel and only then takes the write lock; without the
   drainer, cancel and a blocked Publish would deadlock (BugNoDrainer).  Close clears the registry under the lock and
   closes the channels after releasing it (BugCloseKeepsMap: registry not cleared, so a later cancel closes again).

   Subscription ids.  The registry is keyed by an id taken from the counter s.cnt (atomic.AddUint64 in Subscribe):
   s.sub maps id -> subscription, s.chs[channel].sub maps id -> subscription per channel; cancel and Unsubscribe
   remove BY ID (s.remove(id) unregisters whatever subscription is stored under the id, closes its channel and frees
   the id).  The same counter is the "anybody subscribed at all?" flag of the lock-free fast path of Publish, Confirm
   and Unsubscribe (cnt = 0: return at once).  Both uses rely on the counter never going down; BugCntDecr lets remove
   give the id back ("one subscriber less"), after which a live subscription and a new one share an id.

   One action per lock region / channel operation. *)
EXTENDS Integers, Sequences, FiniteSets, TLC

CONSTANTS Sub,          \* subscriber (Receive call) ids
          Chan,         \* channel names
          Topic,        \* Topic[s] \subseteq Chan: what subscriber s subscribes to
          BufCap, MaxMsgs, MaxUnsubs, MaxCloses,
          BugNoDrainer, BugCloseKeepsMap,
          BugCntDecr    \* remove() decrements the counter that also generates the subscription ids

VARIABLES sub,          \* s.sub: id -> subscriber (0: free)
          reg,          \* s.chs: channel -> (id -> subscriber, 0: none)
          cnt,          \* s.cnt
          idOf,         \* the id a subscriber was given (captured by its cancel function); 0: none yet
          open,         \* the registry is "closed" (s.chs = nil) when open = FALSE
          buf, chClosed, closes,   \* per subscriber: channel buffer, closed flag, number of close() calls on it
          rd, wr,       \* RWMutex: rd = number of read holders (only the reader goroutine takes it), wr = write holder (0 none)
          rpc, rmsg, rchan, rleft, \* reader goroutine: pc, message being published, its channel, subscribers still to send to
          spc, drain, got,  \* subscribers: pc, drainer started, messages the user callback received
          nmsg, nunsub, nclose, sent    \* budgets; sent[s]: messages the reader put into s's channel
vars == <<sub, reg, cnt, idOf, open, buf, chClosed, closes, rd, wr, rpc, rmsg, rchan, rleft, spc, drain, got, nmsg, nunsub, nclose, sent>>
READER == -1

Ids == 1..Cardinality(Sub)
NoIds == [i \in Ids |-> 0]
Entries(f) == {i \in Ids : f[i] # 0}
SubsOf(c) == {reg[c][i] : i \in Entries(reg[c])}       \* whom Publish(c) sends to
RegEmpty(c) == Entries(reg[c]) = {}
alive == {sub[i] : i \in Entries(sub)}                  \* the values of s.sub

Init == /\ sub = NoIds /\ reg = [c \in Chan |-> NoIds] /\ cnt = 0 /\ idOf = [s \in Sub |-> 0] /\ open = TRUE
        /\ buf = [s \in Sub |-> <<>>] /\ chClosed = [s \in Sub |-> FALSE] /\ closes = [s \in Sub |-> 0]
        /\ rd = 0 /\ wr = 0
        /\ rpc = "idle" /\ rmsg = 0 /\ rchan = (CHOOSE c \in Chan : TRUE) /\ rleft = {}
        /\ spc = [s \in Sub |-> "new"] /\ drain = [s \in Sub |-> FALSE] /\ got = [s \in Sub |-> <<>>]
        /\ nmsg = 0 /\ nunsub = 0 /\ nclose = 0 /\ sent = [s \in Sub |-> <<>>]

CloseCh(S) == /\ chClosed' = [s \in Sub |-> IF s \in S THEN TRUE ELSE chClosed[s]]
              /\ closes' = [s \in Sub |-> IF s \in S THEN closes[s] + 1 ELSE closes[s]]

\* s.remove(id) for every id of I inside one lock region: the subscription stored under the id - whichever it is - is
\* taken out of the channel maps of its own topics (under that id), its channel is closed, the id is freed
Hit(I) == I \cap Entries(sub)
Removed(I) == {sub[i] : i \in Hit(I)}
RegAfter(I) == [c \in Chan |-> [i \in Ids |-> IF i \in Hit(I) /\ c \in Topic[sub[i]] THEN 0 ELSE reg[c][i]]]
SubAfter(I) == [i \in Ids |-> IF i \in Hit(I) THEN 0 ELSE sub[i]]
CntAfter(I) == IF BugCntDecr THEN cnt - Cardinality(Hit(I)) ELSE cnt

\* ---- callers
\* Subscribe: id := cnt + 1 (atomic add); Lock; if registry open: make channel, store it under the id, register it under the
\* id for every topic; Unlock.  (SubscribeWith: trace validation passes the id the implementation used.)
SubscribeWith(s, id) ==
  /\ spc[s] = "new" /\ wr = 0 /\ rd = 0 /\ id \in Ids
  /\ cnt' = cnt + 1
  /\ IF open THEN /\ sub' = [sub EXCEPT ![id] = s]
                  /\ reg' = [c \in Chan |-> IF c \in Topic[s] THEN [reg[c] EXCEPT ![id] = s] ELSE reg[c]]
                  /\ idOf' = [idOf EXCEPT ![s] = id] /\ spc' = [spc EXCEPT ![s] = "recv"]
             ELSE /\ UNCHANGED <<sub, reg, idOf>> /\ spc' = [spc EXCEPT ![s] = "done"]   \* ch == nil
  /\ UNCHANGED <<open, buf, chClosed, closes, rd, wr, rpc, rmsg, rchan, rleft, drain, got, nmsg, nunsub, nclose, sent>>
Subscribe(s) == SubscribeWith(s, cnt + 1)
\* Receive's loop: msg, ok := <-ch
RecvMsg(s) == /\ spc[s] = "recv" /\ buf[s] # <<>>
              /\ got' = [got EXCEPT ![s] = Append(@, Head(buf[s]))] /\ buf' = [buf EXCEPT ![s] = Tail(@)]
              /\ UNCHANGED <<sub, reg, cnt, idOf, open, chClosed, closes, rd, wr, rpc, rmsg, rchan, rleft, spc, drain, nmsg, nunsub, nclose, sent>>
\* the channel was closed (unsubscribe / connection loss) and drained: Receive ends and runs the deferred cancel
RecvClosed(s) == /\ spc[s] = "recv" /\ buf[s] = <<>> /\ chClosed[s]
                 /\ spc' = [spc EXCEPT ![s] = "cancel"]
                 /\ UNCHANGED <<sub, reg, cnt, idOf, open, buf, chClosed, closes, rd, wr, rpc, rmsg, rchan, rleft, drain, got, nmsg, nunsub, nclose, sent>>
\* the caller's context ended: Receive ends and runs the deferred cancel
CtxDone(s) == /\ spc[s] = "recv" /\ spc' = [spc EXCEPT ![s] = "cancel"]
              /\ UNCHANGED <<sub, reg, cnt, idOf, open, buf, chClosed, closes, rd, wr, rpc, rmsg, rchan, rleft, drain, got, nmsg, nunsub, nclose, sent>>
\* cancel(): go func(){ for range ch {} }()
StartDrainer(s) == /\ spc[s] = "cancel" /\ spc' = [spc EXCEPT ![s] = "cancelLock"]
                   /\ drain' = [drain EXCEPT ![s] = ~BugNoDrainer]
                   /\ UNCHANGED <<sub, reg, cnt, idOf, open, buf, chClosed, closes, rd, wr, rpc, rmsg, rchan, rleft, got, nmsg, nunsub, nclose, sent>>
Drain(s) == /\ drain[s] /\ buf[s] # <<>> /\ buf' = [buf EXCEPT ![s] = Tail(@)]
            /\ UNCHANGED <<sub, reg, cnt, idOf, open, chClosed, closes, rd, wr, rpc, rmsg, rchan, rleft, spc, drain, got, nmsg, nunsub, nclose, sent>>
\* cancel(): Lock; if s.chs != nil { remove(id) }; Unlock   - id is the one captured at Subscribe
CancelLocked(s) == /\ spc[s] = "cancelLock" /\ wr = 0 /\ rd = 0
                   /\ IF open
                      THEN LET I == {idOf[s]} IN
                           /\ reg' = RegAfter(I) /\ sub' = SubAfter(I) /\ cnt' = CntAfter(I) /\ CloseCh(Removed(I))
                      ELSE UNCHANGED <<reg, sub, cnt, chClosed, closes>>
                   /\ spc' = [spc EXCEPT ![s] = "done"]
                   /\ UNCHANGED <<idOf, open, buf, rd, wr, rpc, rmsg, rchan, rleft, drain, got, nmsg, nunsub, nclose, sent>>

\* ---- the reader goroutine
\* Publish(channel, msg): if cnt != 0 { RLock; for each subscriber of the channel: sb.ch <- msg (may block); RUnlock }
PubBegin(c) == /\ rpc = "idle" /\ nmsg < MaxMsgs /\ wr = 0 /\ cnt # 0
               /\ nmsg' = nmsg + 1 /\ rmsg' = nmsg + 1 /\ rchan' = c
               /\ rd' = rd + 1 /\ rleft' = SubsOf(c) /\ rpc' = "pub"
               /\ UNCHANGED <<sub, reg, cnt, idOf, open, buf, chClosed, closes, wr, spc, drain, got, nunsub, nclose, sent>>
PubSendTo(s) == /\ rpc = "pub" /\ s \in rleft /\ Len(buf[s]) < BufCap
                /\ buf' = [buf EXCEPT ![s] = Append(@, rmsg)]
                /\ sent' = [sent EXCEPT ![s] = Append(@, rmsg)]
                /\ rleft' = rleft \ {s}
                /\ UNCHANGED <<sub, reg, cnt, idOf, open, chClosed, closes, rd, wr, rpc, rmsg, rchan, spc, drain, got, nmsg, nunsub, nclose>>
PubSend == \E s \in rleft : PubSendTo(s)
PubEnd == /\ rpc = "pub" /\ rleft = {} /\ rd' = rd - 1 /\ rpc' = "idle"
          /\ UNCHANGED <<sub, reg, cnt, idOf, open, buf, chClosed, closes, wr, rmsg, rchan, rleft, spc, drain, got, nmsg, nunsub, nclose, sent>>
\* Unsubscribe(channel): if cnt != 0 { Lock; remove(id) for every id registered for the channel; delete(chs, channel); Unlock }
Unsub(c) == /\ rpc = "idle" /\ nunsub < MaxUnsubs /\ wr = 0 /\ rd = 0 /\ open /\ cnt # 0
            /\ nunsub' = nunsub + 1
            /\ LET I == Entries(reg[c]) IN
               /\ reg' = [RegAfter(I) EXCEPT ![c] = NoIds] /\ sub' = SubAfter(I) /\ cnt' = CntAfter(I) /\ CloseCh(Removed(I))
            /\ UNCHANGED <<idOf, open, buf, rd, wr, rpc, rmsg, rchan, rleft, spc, drain, got, nmsg, nclose, sent>>
\* Close(): Lock; take the subscriber map, clear the registry; Unlock ...
CloseLocked == /\ rpc = "idle" /\ nclose < MaxCloses /\ wr = 0 /\ rd = 0 /\ open
               /\ nclose' = nclose + 1
               /\ open' = BugCloseKeepsMap /\ rleft' = alive
               /\ IF BugCloseKeepsMap THEN UNCHANGED <<reg, sub>> ELSE reg' = [c \in Chan |-> NoIds] /\ sub' = NoIds
               /\ rpc' = "closing"
               /\ UNCHANGED <<cnt, idOf, buf, chClosed, closes, rd, wr, rmsg, rchan, spc, drain, got, nmsg, nunsub, sent>>
\* ... then close every channel, outside the lock
CloseChans == /\ rpc = "closing" /\ CloseCh(rleft) /\ rleft' = {} /\ rpc' = "idle"
              /\ UNCHANGED <<sub, reg, cnt, idOf, open, buf, rd, wr, rmsg, rchan, spc, drain, got, nmsg, nunsub, nclose, sent>>

Next == \/ \E s \in Sub : Subscribe(s) \/ RecvMsg(s) \/ RecvClosed(s) \/ CtxDone(s) \/ StartDrainer(s) \/ Drain(s) \/ CancelLocked(s)
        \/ \E c \in Chan : PubBegin(c) \/ Unsub(c)
        \/ PubSend \/ PubEnd \/ CloseLocked \/ CloseChans
Spec == Init /\ [][Next]_vars
\* fairness of everything except the choices to publish, unsubscribe, close and to end a context
FairSpec == Spec /\ WF_vars(PubSend \/ PubEnd \/ CloseChans)
                 /\ \A s \in Sub : WF_vars(Subscribe(s) \/ RecvMsg(s) \/ RecvClosed(s) \/ StartDrainer(s) \/ Drain(s) \/ CancelLocked(s))

\* ---- properties
\* a channel is closed exactly once (a second close panics)
NoDoubleClose == \A s \in Sub : closes[s] <= 1
\* nothing is ever sent on a closed channel (panic): the reader only sends to registered subscribers
NoSendOnClosed == \A s \in Sub : (rpc = "pub" /\ s \in rleft) => ~chClosed[s]
\* what the callback saw is a prefix of what was put into its channel: in order, no duplicates, nothing foreign
IsPrefix(a, b) == Len(a) <= Len(b) /\ \A i \in 1..Len(a) : a[i] = b[i]
InOrder == \A s \in Sub : IsPrefix(got[s], sent[s])
\* a subscriber only gets messages of its topics -- sent[] is filled from the channel maps only, checked on the registry:
OnlyOwnTopics == \A c \in Chan : \A i \in Entries(reg[c]) : c \in Topic[reg[c][i]]
RegistryConsistent == \A c \in Chan : \A i \in Entries(reg[c]) : sub[i] = reg[c][i]
\* a subscription that was made and whose channel has not been closed is still in the registry, under its own id, for all
\* its topics: nobody else's Subscribe, cancel or unsubscribe takes it out (ids of live subscriptions are unique)
LiveSubscribersRegistered ==
  \A s \in Sub : (idOf[s] # 0 /\ ~chClosed[s] /\ open) =>
                   /\ sub[idOf[s]] = s
                   /\ \A c \in Topic[s] : reg[c][idOf[s]] = s
\* the reader goroutine is never stuck for good: a blocked Publish is released (by the receiver or the drainer)
ReaderProgress == (rpc = "pub") ~> (rpc = "idle")
\* every Receive that started to cancel finishes, and every Receive ends after Close
CancelFinishes == \A s \in Sub : (spc[s] = "cancel") ~> (spc[s] = "done")
ClosedEndsReceive == \A s \in Sub : (spc[s] = "recv" /\ ~open /\ rpc = "idle") ~> (spc[s] # "recv")
NoDeadlock == (\A s \in Sub : spc[s] = "done") \/ ENABLED Next \/ (rpc = "idle" /\ \A s \in Sub : spc[s] \in {"done", "recv"})
=============================================================================
