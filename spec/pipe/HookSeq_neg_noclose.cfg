SPECIFICATION Spec
CONSTANTS
  MaxOps = 4
  MaxProbes = 1
  LazyChoices = {TRUE, FALSE}
  Emit = FALSE
  BugKeepParked = FALSE
  BugNoCloseOnReplace = TRUE
INVARIANTS TypeOK OpenIsWanted
CHECK_DEADLOCK FALSE
