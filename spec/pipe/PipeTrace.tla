------------------------------ MODULE PipeTrace ------------------------------
(* Trace validation for PipeObs.tla: every line of the ndjson trace that harness/cmd/pipedrv records from the REAL
   rueidis client (driver events: Call logged before the call, Ret after it returned, callbacks inside the callback;
   server events from the fake server's event sink under its dispatcher mutex; all in one log under one mutex) is
   fed to the action of the same name.  The actions only record, the invariants of PipeObs (the properties) are
   evaluated after every event - with FocusAll = FALSE on what that event touched, and on everything at Quiesce.
   The only nondeterminism is the connection an invalidation callback belongs to (TLC tries all).  Runs are
   concatenated with RESET lines.  Acceptance: the highest trace position reached (register 1) is the end of the
   trace; a record no action accepts (malformed or out-of-order log) is reported with its position.
   Every record carries the same fields: ev c conn kind sess ids cmds vals elems chan n flag. *)
EXTENDS PipeObs, Json, IOUtils

CONSTANT Props   \* names of the invariants of PipeObs to evaluate (the check of a property lists its own)
VARIABLE l
TraceLog == ndJsonDeserialize(IOEnv.VERIF_TRACE)
tvars == <<vars, l>>
Ev == TraceLog[l]
Is(e) == l <= Len(TraceLog) /\ TraceLog[l].ev = e
Step == l' = l + 1

TraceInit == ObsInit /\ l = 1 /\ TLCSet(1, 1)

Reset == /\ Is("RESET") /\ Step
         /\ calls' = <<>> /\ built' = <<>> /\ conns' = <<>> /\ where' = <<>> /\ sessv' = <<>>
         /\ glob' = [closing |-> FALSE, quiesced |-> FALSE, bad |-> {}, invalOn |-> FALSE]
         /\ last' = Touch("Init", {}, {}, FALSE)

CmdsOfEv == [i \in 1..Len(Ev.ids) |-> W(Ev.ids[i], Ev.cmds[i])]
FrameOK(k) == k \in DOMAIN conns /\ Ev.n = Len(conns[k].out) + 1   \* the server's frame number agrees with the log

TraceNext ==
  \/ Reset
  \/ Is("Start")       /\ Step /\ Start(Ev.flag)
  \/ Is("Call")        /\ Step /\ Call(Ev.c, Ev.kind, Ev.sess, CmdsOfEv)
  \/ Is("Cancel")      /\ Step /\ Cancel(Ev.c, Ev.flag)
  \/ Is("Ret")         /\ Step /\ Ret(Ev.c, Ev.vals)
  \/ Is("RecvCb")      /\ Step /\ RecvCb(Ev.c, Ev.vals[1])
  \/ Is("InvalCb")     /\ Step /\ InvalCb(Ev.vals[1])
  \/ Is("HookSet")     /\ Step /\ HookSet(Ev.sess, Ev.flag)
  \/ Is("HookMsg")     /\ Step /\ HookMsg(Ev.sess, Ev.vals[1])
  \/ Is("HookInval")   /\ Step /\ HookInval(Ev.sess, Ev.vals[1])
  \/ Is("HookClosed")  /\ Step /\ HookClosed(Ev.sess, Ev.n)
  \/ Is("DedReleased") /\ Step /\ DedReleased(Ev.sess)
  \/ Is("Hold")        /\ Step /\ Hold(Ev.conn, Ev.flag)
  \/ Is("Release")     /\ Step /\ Release(Ev.conn, Ev.n)
  \/ Is("CloseBegin")  /\ Step /\ CloseBegin
  \/ Is("Quiesce")     /\ Step /\ Quiesce
  \/ Is("SConn")       /\ Step /\ SConn(Ev.conn)
  \/ Is("SRecv")       /\ Step /\ SRecv(Ev.conn, Ev.ids[1], Ev.cmds[1])
  \/ Is("SExec")       /\ Step /\ SExec(Ev.conn)
  \/ Is("SRep")        /\ Step /\ FrameOK(Ev.conn) /\ SRep(Ev.conn, Ev.vals[1], Ev.elems)
  \/ Is("SPush")       /\ Step /\ FrameOK(Ev.conn) /\ SPush(Ev.conn, Ev.kind, Ev.chan, Ev.vals[1])
  \/ (Is("SCut") \/ Is("SClose")) /\ Step /\ SLost(Ev.conn)

TraceSpec == TraceInit /\ [][TraceNext]_tvars

\* high-water mark of the trace position (needs -workers 1)
HighWater == TLCSet(1, IF l > TLCGet(1) THEN l ELSE TLCGet(1))
TraceAccepted == \/ TLCGet(1) = Len(TraceLog) + 1
                 \/ PrintT(<<"REJECTED-AT", TLCGet(1), TraceLog[TLCGet(1)]>>) /\ FALSE
\* The properties.  A violated invariant is not reported through TLC's INVARIANT mechanism (TLC would print the whole
\* behaviour, i.e. every state since the first line of the file) but through this constraint: it prints the names
\* and the offending record and stops exploring, so that the trace is not accepted.
Holds(n) == CASE n = "OwnRepliesInOrder" -> OwnRepliesInOrder
              [] n = "NoReplyFromFuture" -> NoReplyFromFuture
              [] n = "BatchContiguousOnWire" -> BatchContiguousOnWire
              [] n = "NoSpuriousError" -> NoSpuriousError
              [] n = "AllReturnedAtQuiesce" -> AllReturnedAtQuiesce
              [] n = "ArgvImmutable" -> ArgvImmutable
              [] n = "PubSubOrder" -> PubSubOrder
              [] n = "ReceiveReturn" -> ReceiveReturn
              [] n = "ReceiveEndsByItself" -> ReceiveEndsByItself
              [] n = "HookOrder" -> HookOrder
              [] n = "HookClosedOnce" -> HookClosedOnce
              [] n = "InvalidationLog" -> InvalidationLog
              [] n = "LossNilOnce" -> LossNilOnce
              [] n = "TrackingOffOnRelease" -> TrackingOffOnRelease
              [] n = "TypeOK" -> TypeOK
Healthy == LET broken == {n \in Props : ~Holds(n)} IN
           broken = {} \/ (PrintT(<<"VIOLATED", broken, l - 1, TraceLog[l - 1]>>) /\ FALSE)
\* a state that breaks a property must not advance the high-water mark (else a violation at the last record is accepted)
Explore == Healthy /\ HighWater
=============================================================================
