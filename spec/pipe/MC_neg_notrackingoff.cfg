SPECIFICATION SSpec
CONSTANTS
  FocusAll = FALSE
  Callers = {1, 2}
  MaxCalls = 2
  MaxTotal = 3
  Kinds = {"do"}
  PushKinds = {"invalidate", "message"}
  MaxPush = 2
  MaxCancel = 1
  MaxCut = 0
  UseHold = FALSE
  InvalOn = FALSE
  Eager = TRUE
  Gen = FALSE
  BugOffByOne = FALSE
  BugRecycle = FALSE
  BugSplitBatch = FALSE
  BugFutureReply = FALSE
  BugUnsubFirstOnly = FALSE
  BugSkipMsg = FALSE
  BugNoLossNil = FALSE
  BugSkipInval = FALSE
  Dedicated = TRUE
  BugNoTrackingOff = TRUE
  CacheChoices = {TRUE}
  BugLossNilNeedsCache = FALSE
  BugUnsubWrongSub = FALSE
VIEW MCView
INVARIANTS TypeOK TrackingOffOnRelease
CHECK_DEADLOCK FALSE
