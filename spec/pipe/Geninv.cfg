SPECIFICATION SSpec
CONSTANTS
  FocusAll = FALSE
  Callers = {1, 2}
  MaxCalls = 2
  MaxTotal = 3
  Kinds = {"do"}
  PushKinds = {"invalidate", "flush"}
  MaxPush = 2
  MaxCancel = 1
  MaxCut = 1
  UseHold = FALSE
  InvalOn = TRUE
  Eager = TRUE
  Gen = TRUE
  BugOffByOne = FALSE
  BugRecycle = FALSE
  BugSplitBatch = FALSE
  BugFutureReply = FALSE
  BugUnsubFirstOnly = FALSE
  BugSkipMsg = FALSE
  BugNoLossNil = FALSE
  BugSkipInval = FALSE
  Dedicated = FALSE
  BugNoTrackingOff = FALSE
  CacheChoices = {TRUE, FALSE}
  BugLossNilNeedsCache = FALSE
  BugUnsubWrongSub = FALSE
VIEW GenView
INVARIANTS TypeOK PrintScript
CHECK_DEADLOCK FALSE
