SPECIFICATION Spec
CONSTANTS
  Sub = {1, 2}
  Chan = {"a", "b"}
  Topic <- TopicDef
  BufCap = 1
  MaxMsgs = 3
  MaxUnsubs = 1
  MaxCloses = 1
  BugNoDrainer = FALSE
  BugCloseKeepsMap = TRUE
INVARIANTS NoDoubleClose NoSendOnClosed InOrder OnlyOwnTopics RegistryConsistent NoDeadlock
CHECK_DEADLOCK FALSE
