SPECIFICATION Spec
CONSTANTS
  Sub = {1, 2}
  Chan = {"a", "b"}
  Topic <- TopicDef
  BufCap = 1
  MaxMsgs = 3
  MaxUnsubs = 1
  MaxCloses = 1
  BugNoDrainer = FALSE
  BugCloseKeepsMap = TRUE
  BugCntDecr = FALSE
INVARIANTS NoDoubleClose NoSendOnClosed InOrder OnlyOwnTopics RegistryConsistent LiveSubscribersRegistered NoDeadlock
CHECK_DEADLOCK FALSE
