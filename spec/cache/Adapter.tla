------------------------------- MODULE Adapter -------------------------------
(* cache.go of redis/rueidis: NewSimpleCacheAdapter, the CacheStore built on a user supplied SimpleCache (Get/Set/Del/
   Flush keyed by key+cmd) plus a map of flights.  Same contract as Lru.tla without a size bound (property C07 at the
   level of the store object; the pending/waiter part of the contract is checked as well).

   Per identity <<k, c>> the state is the value the SimpleCache holds (st = "none" | "done", exp, sz) and the
   registration in a.flights (f = "absent" | "marker" | "pending", fexp = client expiry of a pending flight).  A marker
   is the nil entry Update and Cancel leave behind: it is how Delete finds the SimpleCache keys of a Redis key.

   Flight has two critical sections: the look-up under RLock (hit, or wait on a pending flight) and, otherwise, the
   registration of a new flight under Lock, which looks at the SimpleCache AGAIN (a value completed meanwhile is a hit)
   and at the flights map.  At most one call is parked between the two (Interleave = TRUE) while every other
   operation may run.
   BugNoRecheck = TRUE is the code before "fix: adapter.Flight must look at the SimpleCache again before it registers
   a flight": the second section re-read only the flights map, so a call parked between the sections while another
   call missed, fetched and completed the identity registered a second flight over a fresh value -- a second request,
   and (Delete skips identities with a pending flight) a value that survives the invalidation of its key and is served
   as a hit: NoFlightOverFreshValue / DeleteLeavesNoHit (found by the client-side-caching protocol family, C06).

   Oddities modelled as they are: an expired value stays in the SimpleCache until it is overwritten or deleted; Delete
   does not remove the value of an identity whose flight is pending (harmless as long as such a value is never fresh);
   Cancel leaves a marker; after Close every Flight is a miss that registers nothing.                               *)
EXTENDS Integers, Sequences, FiniteSets, TLC

CONSTANTS Keys, Cmds, Sizes, TTLs, SrvTTLs, SrvNone, MaxClock, Interleave,
          BugLaterExpiry, BugDeletePending, BugHitExpired, BugNoRecheck

VARIABLES store, closed, now, park, out
vars == <<store, closed, now, park, out>>
view == <<store, closed, now, park>>

None == [st |-> "none", exp |-> 0, sz |-> 0, f |-> "absent", fexp |-> 0]
Miss == [r |-> "miss", exp |-> 0, sz |-> 0]
Wait == [r |-> "wait", exp |-> 0, sz |-> 0]
NoPark == [ph |-> "none", items |-> <<>>, at |-> 0]
O == [op |-> "Init", items |-> <<>>, k |-> "", c |-> "", srv |-> 0, sz |-> 0, ks |-> {}, at |-> 0, res |-> <<>>,
      ph |-> "none", pxat |-> 0, ttlr |-> 0, ev |-> <<>>, dlv |-> {}]
Pairs == Keys \X Cmds
SrvSet == SrvTTLs \cup (IF SrvNone THEN {-1} ELSE {})
Item == [k : Keys, c : Cmds, ttl : TTLs]
MinOf(S) == CHOOSE x \in S : \A y \in S : x <= y

Fresh(e, t) == e.st = "done" /\ (IF BugHitExpired THEN e.exp >= t ELSE e.exp > t)
CanRun == park.ph = "none" \/ Interleave

\* second critical section: a value that is fresh by now is a hit (the caller's clock reading t is the one of the first
\* section); otherwise register a flight unless one is pending by now
Slow(it, t) ==
  LET e == store[it.k][it.c]
  IN IF closed THEN [st |-> store, res |-> Miss]
     ELSE IF ~BugNoRecheck /\ Fresh(e, t) THEN [st |-> store, res |-> [r |-> "hit", exp |-> e.exp, sz |-> e.sz]]
     ELSE IF e.f = "pending" THEN [st |-> store, res |-> Wait]
     ELSE [st |-> [store EXCEPT ![it.k][it.c].f = "pending", ![it.k][it.c].fexp = t + it.ttl], res |-> Miss]

FlightWhole(it) ==
  /\ CanRun
  /\ LET e == store[it.k][it.c]
     IN IF Fresh(e, now)
        THEN /\ out' = [O EXCEPT !.op = "Flight", !.items = <<it>>, !.at = now, !.res = <<[r |-> "hit", exp |-> e.exp, sz |-> e.sz]>>]
             /\ UNCHANGED store
        ELSE IF e.f = "pending"
        THEN /\ out' = [O EXCEPT !.op = "Flight", !.items = <<it>>, !.at = now, !.res = <<Wait>>]
             /\ UNCHANGED store
        ELSE LET s == Slow(it, now)
             IN /\ store' = s.st
                /\ out' = [O EXCEPT !.op = "Flight", !.items = <<it>>, !.at = now, !.res = <<s.res>>]
  /\ UNCHANGED <<closed, now, park>>

FlightBegin(it) ==
  /\ Interleave /\ park.ph = "none"
  /\ ~Fresh(store[it.k][it.c], now) /\ store[it.k][it.c].f # "pending"
  /\ park' = [ph |-> "slow", items |-> <<it>>, at |-> now]
  /\ out' = [O EXCEPT !.op = "FlightBegin", !.items = <<it>>, !.at = now, !.ph = "slow"]
  /\ UNCHANGED <<store, closed, now>>

FlightResume ==
  /\ park.ph = "slow"
  /\ LET s == Slow(park.items[1], park.at)
     IN /\ store' = s.st
        /\ out' = [O EXCEPT !.op = "FlightEnd", !.items = park.items, !.at = park.at, !.res = <<s.res>>]
  /\ park' = NoPark
  /\ UNCHANGED <<closed, now>>

SrvExp(srv) == IF srv < 0 THEN 0 ELSE now + srv

Update(k, c, srv, sz) ==
  /\ CanRun
  /\ LET e   == store[k][c]
         sx  == SrvExp(srv)
         upd == e.f = "pending"
         px  == IF ~upd THEN 0
                ELSE IF BugLaterExpiry THEN (IF sx = 0 \/ e.fexp > sx THEN e.fexp ELSE sx)
                ELSE (IF e.fexp < sx \/ sx = 0 THEN e.fexp ELSE sx)
     IN /\ upd \/ (sz = MinOf(Sizes) /\ srv = MinOf(SrvSet))
        /\ store' = IF upd THEN [store EXCEPT ![k][c] = [st |-> "done", exp |-> px, sz |-> sz, f |-> "marker", fexp |-> 0]] ELSE store
        /\ out' = [O EXCEPT !.op = "Update", !.k = k, !.c = c, !.srv = srv, !.sz = sz, !.at = now, !.pxat = px,
                            !.dlv = IF upd THEN {[k |-> k, c |-> c, how |-> "val"]} ELSE {}]
  /\ UNCHANGED <<closed, now, park>>

Cancel(k, c) ==
  /\ CanRun
  /\ LET pnd == store[k][c].f = "pending"
     IN /\ store' = IF pnd THEN [store EXCEPT ![k][c].f = "marker", ![k][c].fexp = 0] ELSE store
        /\ out' = [O EXCEPT !.op = "Cancel", !.k = k, !.c = c, !.at = now,
                            !.dlv = IF pnd THEN {[k |-> k, c |-> c, how |-> "err"]} ELSE {}]
  /\ UNCHANGED <<closed, now, park>>

DelEntry(e) == IF e.f = "marker" \/ (BugDeletePending /\ e.f = "pending") THEN None ELSE e
DeleteKeys(ks, op) ==
  /\ CanRun
  /\ store' = [k \in Keys |-> [c \in Cmds |-> IF k \in ks THEN DelEntry(store[k][c]) ELSE store[k][c]]]
  /\ out' = [O EXCEPT !.op = op, !.ks = ks, !.at = now]
  /\ UNCHANGED <<closed, now, park>>
Delete(ks) == DeleteKeys(ks, "Delete")
DeleteAll == DeleteKeys(Keys, "DeleteAll")

Close ==
  /\ CanRun
  /\ store' = [k \in Keys |-> [c \in Cmds |-> None]] /\ closed' = TRUE
  /\ out' = [O EXCEPT !.op = "Close", !.at = now,
                      !.dlv = {[k |-> p[1], c |-> p[2], how |-> "err"] : p \in {q \in Pairs : store[q[1]][q[2]].f = "pending"}}]
  /\ UNCHANGED <<now, park>>

Tick == /\ CanRun /\ now < MaxClock /\ now' = now + 1
        /\ out' = [O EXCEPT !.op = "Tick", !.at = now + 1]
        /\ UNCHANGED <<store, closed, park>>

Init == store = [k \in Keys |-> [c \in Cmds |-> None]] /\ closed = FALSE /\ now = 1 /\ park = NoPark /\ out = O

Next == \/ \E it \in Item : FlightWhole(it) \/ FlightBegin(it)
        \/ FlightResume
        \/ \E k \in Keys, c \in Cmds : \/ \E srv \in SrvSet, sz \in Sizes : Update(k, c, srv, sz)
                                       \/ Cancel(k, c)
        \/ \E ks \in (SUBSET Keys) \ {{}} : Delete(ks)
        \/ DeleteAll \/ Close \/ Tick
Spec == Init /\ [][Next]_vars

\* ------------------------------------------------------------------------------------------ properties
TypeOK == /\ \A p \in Pairs : LET e == store[p[1]][p[2]] IN
                /\ e.st \in {"none", "done"} /\ e.f \in {"absent", "marker", "pending"}
                /\ e.st = "none" => e.exp = 0 /\ e.sz = 0
                /\ e.f # "pending" => e.fexp = 0
          /\ closed \in BOOLEAN /\ now \in 1..MaxClock /\ park.ph \in {"none", "slow"}
\* C06 part: every cached value can be found by Delete (marker) unless a newer flight is pending for it
ValueHasRegistration == \A p \in Pairs : store[p[1]][p[2]].st = "done" => store[p[1]][p[2]].f # "absent"
ClosedIsEmpty == closed => \A p \in Pairs : store[p[1]][p[2]] = None
\* C06 part: no flight is registered over a value that can still be served (Delete would skip it); the clock of the
\* parked call is not ahead of now, so the re-check of the second section sees every value that is fresh now
NoFlightOverFreshValue == \A p \in Pairs : store[p[1]][p[2]].f = "pending" => ~Fresh(store[p[1]][p[2]], now)

IsUpdate == out'.op = "Update"
ExpiryIsMin ==
  [][(IsUpdate /\ store[out'.k][out'.c].f = "pending") =>
        LET ce == store[out'.k][out'.c].fexp
            sx == IF out'.srv < 0 THEN 0 ELSE now + out'.srv
            want == IF sx = 0 \/ ce < sx THEN ce ELSE sx
        IN out'.pxat = want /\ store'[out'.k][out'.c].exp = want /\ store'[out'.k][out'.c].st = "done"]_vars
NoHitAtOrAfterExpiry ==
  [][\A i \in 1..Len(out'.res) : out'.res[i].r = "hit" => out'.res[i].exp > out'.at]_vars
\* a value changes only by the Update that completes a flight, and disappears only by Delete / Close
ValueStable ==
  [][\A p \in Pairs : (store[p[1]][p[2]].st = "done" /\ <<store'[p[1]][p[2]].st, store'[p[1]][p[2]].exp, store'[p[1]][p[2]].sz>>
                                                       # <<"done", store[p[1]][p[2]].exp, store[p[1]][p[2]].sz>>) =>
        \/ IsUpdate /\ <<out'.k, out'.c>> = p /\ store[p[1]][p[2]].f = "pending"
        \/ out'.op \in {"Delete", "DeleteAll"} /\ p[1] \in out'.ks
        \/ out'.op \in {"Close", "Init"}]_vars
\* C06 part: after Delete / DeleteAll no value of the named keys can be served
DeleteLeavesNoHit ==
  [][out'.op \in {"Delete", "DeleteAll"} => \A k \in out'.ks : \A c \in Cmds : ~Fresh(store'[k][c], now)]_vars
PendingNeverEvicted ==
  [][\A p \in Pairs : (store[p[1]][p[2]].f = "pending" /\ store'[p[1]][p[2]].f # "pending") =>
        \/ out'.op \in {"Update", "Cancel"} /\ <<out'.k, out'.c>> = p
        \/ out'.op \in {"Close", "Init"}]_vars
WaitersGetFlightOutcome ==
  [][\A p \in Pairs : (store[p[1]][p[2]].f = "pending" /\ store'[p[1]][p[2]].f # "pending") =>
        out'.op = "Init" \/ \E d \in out'.dlv : d.k = p[1] /\ d.c = p[2]]_vars
=============================================================================
