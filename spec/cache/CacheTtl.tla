------------------------------ MODULE CacheTtl ------------------------------
(* What a reply reports about its client-side cache expiry (message.go: CachePXAT, CachePTTL, CacheTTL), property C07
   "CacheTTL, CachePTTL and CachePXAT report that same expiry".  exp is the expiry stored in the message (unix
   milliseconds, 0 = none), now the wall clock in milliseconds.

   The module is a case generator: for every difference exp - now of Deltas it prints the values the three accessors
   must return; harness/cmd/storedrv -mode ttl builds a message whose expiry is that many milliseconds away from the
   current millisecond and compares.                                                                          *)
EXTENDS Integers, Sequences, TLC, Json

VARIABLE x

PXAT(exp) == IF exp = 0 THEN -1 ELSE exp
\* remaining milliseconds, 0 once expired, -1 without expiry
PTTL(exp, now) == IF exp = 0 THEN -1 ELSE IF exp < now THEN 0 ELSE exp - now
\* remaining seconds rounded up
TTL(exp, now) == LET p == PTTL(exp, now) IN IF p > 0 THEN (p + 999) \div 1000 ELSE p

Deltas == {-86400000, -5000, -1000, -2, -1, 0, 1, 2, 500, 999, 1000, 1001, 1500, 1999, 2000, 2001, 59999, 60000, 60001,
           3599999, 3600000, 86400000}
Base == 1000000000      \* TLC integers are 32 bit; only differences matter

Cases == /\ \A d \in Deltas : PrintT(<<"CASE", ToJson([unset |-> FALSE, d |-> d, pxatd |-> PXAT(Base + d) - Base,
                                                       pttl |-> PTTL(Base + d, Base), ttl |-> TTL(Base + d, Base)])>>)
         /\ PrintT(<<"CASE", ToJson([unset |-> TRUE, d |-> 0, pxatd |-> PXAT(0), pttl |-> PTTL(0, Base), ttl |-> TTL(0, Base)])>>)

\* sanity of the definitions themselves
Consistent == \A d \in Deltas : LET e == Base + d IN
                 /\ PTTL(e, Base) >= 0
                 /\ (PTTL(e, Base) = 0) = (e <= Base)
                 /\ TTL(e, Base) * 1000 >= PTTL(e, Base) /\ (TTL(e, Base) > 0 => (TTL(e, Base) - 1) * 1000 < PTTL(e, Base))

Init == x = 0 /\ Cases
Next == x' = x
Spec == Init /\ [][Next]_x
=============================================================================
