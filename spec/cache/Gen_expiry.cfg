SPECIFICATION GenSpec
CONSTANTS
  Keys = {"a", "b"}
  Cmds = {"x"}
  Sizes = {1}
  MaxSize = 6
  TTLs = {1, 3}
  SrvTTLs = {0, 2}
  SrvNone = TRUE
  MaxClock = 3
  MoveEvery = 2
  BatchItems <- Batch2
  Interleave = TRUE
  WithGetTTL = TRUE
  BugSingleEvict = FALSE
  BugLaterExpiry = FALSE
  BugDeletePending = FALSE
  BugPurgeKeepsSize = FALSE
  BugHitExpired = FALSE
  Depth = 4
  Walks = FALSE
  KeyOrder <- NoOrd
  CmdOrder <- NoOrd
  AllowedOps = {"Flight", "Flights", "FlightBegin", "FlightsBegin", "FlightEnd", "FlightsEnd", "FlightMoved", "FlightsMoved", "Update", "Tick", "GetTTL"}
VIEW view
CONSTRAINT DepthBound
ACTION_CONSTRAINT OnlyOps Canon Emit
CHECK_DEADLOCK FALSE
