SPECIFICATION GenSpec
CONSTANTS
  Keys = {"a", "b"}
  Cmds = {"x"}
  Sizes = {1}
  MaxSize = 6
  TTLs = {0, 1, 3}
  SrvTTLs = {0, 1, 3}
  SrvNone = TRUE
  MaxClock = 4
  MoveEvery = 2
  BatchItems <- Batch2
  Interleave = TRUE
  WithGetTTL = TRUE
  BugSingleEvict = FALSE
  BugLaterExpiry = FALSE
  BugDeletePending = FALSE
  BugPurgeKeepsSize = FALSE
  BugHitExpired = FALSE
  Depth = 5
  Walks = FALSE
  KeyOrder <- NoOrd
  CmdOrder <- NoOrd
  AllowedOps = {"Flight", "Flights", "FlightBegin", "FlightsBegin", "FlightEnd", "FlightsEnd", "FlightMoved", "FlightsMoved", "Update", "Tick", "GetTTL", "Delete"}
VIEW view
CONSTRAINT DepthBound
ACTION_CONSTRAINT OnlyOps Canon Emit
CHECK_DEADLOCK FALSE
