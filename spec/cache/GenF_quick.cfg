SPECIFICATION Spec
CONSTANTS
  Stores = {"lru", "adapter"}
  Shapes1 = {"get", "hget", "eval_ro", "evalsha_ro", "fcall_ro"}
  Srv1 = {"missing", "noexp", "p0", "p1", "small", "eq", "large"}
  Shapes2 = {"get", "eval_ro", "mgetkey"}
  Srv2 = {"missing", "noexp", "p0", "small"}
  BugZeroIsNone = FALSE
  BugProbeFirstArg = FALSE
  BugMgetProbeAll = FALSE
INVARIANT TypeOK EarlierOfBoth ProbesNameKeys ProbeShape HitsStayLocal EmitDone
CHECK_DEADLOCK FALSE
