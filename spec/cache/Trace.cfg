SPECIFICATION TraceSpec
CONSTANTS
  Keys = {"a", "b", "c"}
  Cmds = {"x", "y"}
  Sizes = {1, 2, 5}
  MaxSize = 6
  TTLs = {0, 1, 3}
  SrvTTLs = {0, 2}
  SrvNone = TRUE
  MaxClock = 100000
  MoveEvery = 2
  BatchItems <- NoBatch
  Interleave = TRUE
  WithGetTTL = TRUE
  BugSingleEvict = FALSE
  BugLaterExpiry = FALSE
  BugDeletePending = FALSE
  BugPurgeKeepsSize = FALSE
  BugHitExpired = FALSE
INVARIANTS TypeOK ListMatchesStore SizeIsSumOfDone SizeWithinMax HitsFollowKeys ParkOK
PROPERTIES SizeWithinMaxAfterUpdate EvictedIsLruPrefix PendingNeverEvicted OrderPreserved ExpiryIsMin NoHitAtOrAfterExpiry ExpiryStable WaitersGetFlightOutcome
CONSTRAINT HighWater
POSTCONDITION TraceAccepted
CHECK_DEADLOCK FALSE
