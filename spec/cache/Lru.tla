-------------------------------- MODULE Lru --------------------------------
(* lru.go of redis/rueidis: the default client-side cache store of one connection (properties C10 and C07 at the
   level of the CacheStore object).

   The store is a sequential object behind one RWMutex, except that Flight / Flights consist of up to three
   critical sections: the look-up under the read lock (which already decides hits and waits), an optional
   MoveToBack of the entries whose key reached the move threshold under the write lock, and the slow path under the
   write lock for the positions the look-up missed.  Between these sections another goroutine can run any other
   operation; the model keeps at most one call parked between its sections (variable park) and lets every other
   operation, including complete Flight calls, run meanwhile (Interleave = TRUE).

   Deliberate oddities of the code that are modelled as they are:
     - Update does not move the entry: its LRU position is the one it got at the miss that created it;
     - the eviction loop of Update also runs when the updated entry was not pending, and may evict the entry just stored;
     - Close does not reset size; after Close every Flight is a miss that registers nothing;
     - the move threshold counts hits per key (shared by the key's commands) and restarts when the key disappears;
     - the single Flight only moves when the entry was not already at the back, Flights moves regardless;
     - GetTTL reads the wall clock itself (Wall), the other operations use the time passed by the caller.

   Bug* constants re-introduce plausible defects; all FALSE is the code as repaired.  BugSingleEvict = TRUE is the
   pinned commit: the eviction loop reads ele.Next() after list.Remove(ele), so it stops after one eviction.     *)
EXTENDS Integers, Sequences, FiniteSets, FiniteSetsExt, TLC

CONSTANTS Keys, Cmds,          \* cache identities are pairs <<key, cmd>> (strings)
          Sizes,               \* accounted sizes of replies, in units
          MaxSize,             \* CacheSizeEachConn, in units
          TTLs,                \* client TTLs (ticks) a caller may pass
          SrvTTLs,             \* server PTTLs (ticks, >= 0) a reply may carry
          SrvNone,             \* TRUE: a reply may also carry no expiry (PTTL -1 / -2), written srv = -1
          MaxClock,            \* the clock runs 1..MaxClock
          MoveEvery,           \* the move threshold (1024 in the code), scaled down
          BatchItems,          \* set of items usable in Flights batches ({} = no Flights)
          Interleave,          \* TRUE: other operations may run while a Flight call is parked between its sections
          WithGetTTL,
          BugSingleEvict, BugLaterExpiry, BugDeletePending, BugPurgeKeepsSize, BugHitExpired

VARIABLES store,    \* store[k][c] = [st |-> "none" | "pending" | "done", exp, sz]
          lst,      \* LRU order, front first, of pairs <<k, c>>
          size,     \* accounted size
          hits,     \* hits[k] modulo MoveEvery
          closed,
          now,      \* the clock value callers pass
          park,     \* the Flight/Flights call parked between two of its critical sections
          out       \* label, arguments and results of the last step (observation only)

vars == <<store, lst, size, hits, closed, now, park, out>>
view == <<store, lst, size, hits, closed, now, park>>     \* out only labels the step that led to a state

Wall == 1     \* what time.Now() returns inside GetTTL (a replay takes milliseconds, a tick is an hour)

None == [st |-> "none", exp |-> 0, sz |-> 0]
Miss == [r |-> "miss", exp |-> 0, sz |-> 0]
NoPark == [ph |-> "none", items |-> <<>>, single |-> TRUE, at |-> 0, mv |-> <<>>, miss |-> <<>>, res |-> <<>>]
O == [op |-> "Init", items |-> <<>>, k |-> "", c |-> "", srv |-> 0, sz |-> 0, ks |-> {}, at |-> 0, res |-> <<>>,
      ph |-> "none", pxat |-> 0, ttlr |-> 0, ev |-> <<>>, dlv |-> {}]

\* values for BatchItems (a configuration file cannot write a record)
Batch3 == {[k |-> "a", c |-> "x", ttl |-> 3], [k |-> "a", c |-> "y", ttl |-> 1], [k |-> "b", c |-> "x", ttl |-> 3]}
Batch2 == {[k |-> "a", c |-> "x", ttl |-> 1], [k |-> "b", c |-> "x", ttl |-> 3]}
NoBatch == {}

Pairs == Keys \X Cmds
SrvSet == SrvTTLs \cup (IF SrvNone THEN {-1} ELSE {})
Item == [k : Keys, c : Cmds, ttl : TTLs]
InSeq(l, p) == \E i \in 1..Len(l) : l[i] = p
Remove(l, p) == LET T(x) == x # p IN SelectSeq(l, T)
MoveBack(l, p) == IF InSeq(l, p) THEN Append(Remove(l, p), p) ELSE l
Pos(l, p) == CHOOSE i \in 1..Len(l) : l[i] = p
MinOf(S) == CHOOSE x \in S : \A y \in S : x <= y

Cur == [st |-> store, l |-> lst, sz |-> size, h |-> hits, cl |-> closed]

\* relativePTTL(now) > 0
Fresh(e, t) == IF BugHitExpired THEN e.exp >= t ELSE e.exp > t
Hitable(e, t) == e.st = "pending" \/ (e.st = "done" /\ Fresh(e, t))
ResOf(e) == IF e.st = "pending" THEN [r |-> "wait", exp |-> 0, sz |-> 0] ELSE [r |-> "hit", exp |-> e.exp, sz |-> e.sz]

\* ------------------------------------------------------------------------------------------ the three sections
\* look-up under RLock.  a = [S, mv, res, miss]
RECURSIVE ReadPhase(_, _, _, _, _)
ReadPhase(items, t, single, i, a) ==
  IF i > Len(items) THEN a
  ELSE LET it == items[i]
           p  == <<it.k, it.c>>
           e  == a.S.st[it.k][it.c]
       IN IF Hitable(e, t)
          THEN LET h2  == (a.S.h[it.k] + 1) % MoveEvery
                   mvd == h2 = 0 /\ (~single \/ a.S.l[Len(a.S.l)] # p)
                   S2  == [a.S EXCEPT !.h[it.k] = h2]
               IN ReadPhase(items, t, single, i + 1,
                            [S |-> S2, mv |-> IF mvd THEN Append(a.mv, p) ELSE a.mv,
                             res |-> Append(a.res, ResOf(e)), miss |-> a.miss])
          ELSE ReadPhase(items, t, single, i + 1,
                         [S |-> a.S, mv |-> a.mv, res |-> Append(a.res, Miss), miss |-> Append(a.miss, i)])

\* MoveToBack of the collected elements under Lock (skipped when the list is gone)
RECURSIVE MoveAll(_, _, _)
MoveAll(l, mv, i) == IF i > Len(mv) THEN l ELSE MoveAll(MoveBack(l, mv[i]), mv, i + 1)
MovePhase(S, mv) == IF S.cl THEN S ELSE [S EXCEPT !.l = MoveAll(@, mv, 1)]

\* slow path under Lock for the missed positions.  a = [S, res]
RECURSIVE SlowPhase(_, _, _, _, _)
SlowPhase(items, t, idxs, j, a) ==
  IF j > Len(idxs) \/ a.S.cl THEN a
  ELSE LET i  == idxs[j]
           it == items[i]
           p  == <<it.k, it.c>>
           e  == a.S.st[it.k][it.c]
       IN IF Hitable(e, t)
          THEN LET S2 == [a.S EXCEPT !.h[it.k] = (@ + 1) % MoveEvery, !.l = MoveBack(@, p)]
               IN SlowPhase(items, t, idxs, j + 1, [S |-> S2, res |-> [a.res EXCEPT ![i] = ResOf(e)]])
          ELSE LET l1 == IF e.st = "done" THEN Remove(a.S.l, p) ELSE a.S.l        \* expired: dropped and replaced
                   s1 == IF e.st = "done" THEN a.S.sz - e.sz ELSE a.S.sz
                   S2 == [a.S EXCEPT !.st[it.k][it.c] = [st |-> "pending", exp |-> t + it.ttl, sz |-> 0],
                                     !.l = Append(l1, p), !.sz = s1]
               IN SlowPhase(items, t, idxs, j + 1, [S |-> S2, res |-> a.res])

Read0(S, items, t, single) == ReadPhase(items, t, single, 1, [S |-> S, mv |-> <<>>, res |-> <<>>, miss |-> <<>>])

\* a hit counter lives in the key's keyCache, which is dropped with the key's last entry
NormHits(S) == [k \in Keys |-> IF \A c \in Cmds : S.st[k][c].st = "none" THEN 0 ELSE S.h[k]]
Set(S) == /\ store' = S.st /\ lst' = S.l /\ size' = S.sz /\ hits' = NormHits(S) /\ closed' = S.cl

\* elements a parked call still points at: gone when the entry was removed or replaced by a new element
SameElem(pre, post) == post.st # "none" /\ ~(pre.st = "done" /\ post.st = "pending")
FilterMv(mv, st1, st2) == LET T(p) == SameElem(st1[p[1]][p[2]], st2[p[1]][p[2]]) IN SelectSeq(mv, T)

CanRun == park.ph = "none" \/ Interleave

\* ------------------------------------------------------------------------------------------ Flight / Flights
FlightOp(single, suffix) == (IF single THEN "Flight" ELSE "Flights") \o suffix

\* a complete call (all sections back to back)
FlightWhole(items, single) ==
  /\ CanRun
  /\ LET r  == Read0(Cur, items, now, single)
         S1 == MovePhase(r.S, r.mv)
         s  == SlowPhase(items, now, r.miss, 1, [S |-> S1, res |-> r.res])
     IN /\ Set(s.S)
        /\ park' = [park EXCEPT !.mv = FilterMv(@, store, s.S.st)]
        /\ out' = [O EXCEPT !.op = FlightOp(single, ""), !.items = items, !.at = now, !.res = s.res]
  /\ UNCHANGED now

\* the call runs its look-up and stops before its next critical section
FlightBegin(items, single) ==
  /\ Interleave /\ park.ph = "none"
  /\ LET r == Read0(Cur, items, now, single)
     IN /\ r.mv # <<>> \/ r.miss # <<>>
        /\ Set(r.S)
        /\ park' = [ph |-> IF r.mv # <<>> THEN "move" ELSE "slow", items |-> items, single |-> single, at |-> now,
                    mv |-> r.mv, miss |-> r.miss, res |-> r.res]
        /\ out' = [O EXCEPT !.op = FlightOp(single, "Begin"), !.items = items, !.at = now,
                            !.ph = IF r.mv # <<>> THEN "move" ELSE "slow"]
  /\ UNCHANGED now

\* the parked call runs its next critical section; it returns unless the slow path is still to come
FlightResume ==
  /\ park.ph # "none"
  /\ IF park.ph = "move"
     THEN LET S1 == MovePhase(Cur, park.mv)
          IN /\ Set(S1)
             /\ IF park.miss = <<>>
                THEN /\ park' = NoPark
                     /\ out' = [O EXCEPT !.op = FlightOp(park.single, "End"), !.items = park.items, !.at = park.at, !.res = park.res]
                ELSE /\ park' = [park EXCEPT !.ph = "slow", !.mv = <<>>]
                     /\ out' = [O EXCEPT !.op = FlightOp(park.single, "Moved"), !.items = park.items, !.at = park.at, !.ph = "slow"]
     ELSE LET s == SlowPhase(park.items, park.at, park.miss, 1, [S |-> Cur, res |-> park.res])
          IN /\ Set(s.S)
             /\ park' = NoPark
             /\ out' = [O EXCEPT !.op = FlightOp(park.single, "End"), !.items = park.items, !.at = park.at, !.res = s.res]
  /\ UNCHANGED now

\* ------------------------------------------------------------------------------------------ Update
\* walk from the front while size > max; completed entries are removed, pending ones skipped
RECURSIVE EvictWalk(_, _, _, _, _)
EvictWalk(st, l, i, s, ev) ==
  IF i > Len(l) \/ s <= MaxSize THEN [ev |-> ev, s |-> s]
  ELSE LET p == l[i]
           e == st[p[1]][p[2]]
       IN IF e.st = "done"
          THEN IF BugSingleEvict THEN [ev |-> Append(ev, p), s |-> s - e.sz]   \* ele.Next() of a removed element is nil
               ELSE EvictWalk(st, l, i + 1, s - e.sz, Append(ev, p))
          ELSE EvictWalk(st, l, i + 1, s, ev)

\* absolute server expiry as _backgroundRead computes it when the reply arrives (0 = none)
SrvExp(srv) == IF srv < 0 THEN 0 ELSE now + srv

Update(k, c, srv, sz) ==
  /\ CanRun
  /\ LET e   == store[k][c]
         sx  == SrvExp(srv)
         upd == e.st = "pending"
         px  == IF ~upd THEN 0
                ELSE IF BugLaterExpiry THEN (IF sx = 0 \/ e.exp > sx THEN e.exp ELSE sx)
                ELSE (IF e.exp < sx \/ sx = 0 THEN e.exp ELSE sx)      \* the server TTL only shortens the client TTL
         st1 == IF upd THEN [store EXCEPT ![k][c] = [st |-> "done", exp |-> px, sz |-> sz]] ELSE store
         s1  == IF upd THEN size + sz ELSE size
         w   == IF e.st = "none" THEN [ev |-> <<>>, s |-> s1] ELSE EvictWalk(st1, lst, 1, s1, <<>>)
         evs == Range(w.ev)
         st2 == [kk \in Keys |-> [cc \in Cmds |-> IF <<kk, cc>> \in evs THEN None ELSE st1[kk][cc]]]
         T(p) == p \notin evs
     IN /\ upd \/ (sz = MinOf(Sizes) /\ srv = MinOf(SrvSet))          \* the value is ignored: one representative
        /\ Set([st |-> st2, l |-> SelectSeq(lst, T), sz |-> w.s, h |-> hits, cl |-> closed])
        /\ park' = [park EXCEPT !.mv = FilterMv(@, store, st2)]
        /\ out' = [O EXCEPT !.op = "Update", !.k = k, !.c = c, !.srv = srv, !.sz = sz, !.at = now, !.pxat = px,
                            !.ev = w.ev, !.dlv = IF upd THEN {[k |-> k, c |-> c, how |-> "val"]} ELSE {}]
  /\ UNCHANGED now

\* ------------------------------------------------------------------------------------------ Cancel, Delete, Close
Cancel(k, c) ==
  /\ CanRun
  /\ LET e   == store[k][c]
         pnd == e.st = "pending"
         st2 == IF pnd THEN [store EXCEPT ![k][c] = None] ELSE store
     IN /\ Set([st |-> st2, l |-> IF pnd THEN Remove(lst, <<k, c>>) ELSE lst, sz |-> size, h |-> hits, cl |-> closed])
        /\ park' = [park EXCEPT !.mv = FilterMv(@, store, st2)]
        /\ out' = [O EXCEPT !.op = "Cancel", !.k = k, !.c = c, !.at = now,
                            !.dlv = IF pnd THEN {[k |-> k, c |-> c, how |-> "err"]} ELSE {}]
  /\ UNCHANGED now

\* purge: completed entries of the keys go, pending ones stay
Purged(ks) == {p \in Pairs : p[1] \in ks /\ (store[p[1]][p[2]].st = "done" \/ (BugDeletePending /\ store[p[1]][p[2]].st = "pending"))}
DeleteKeys(ks, op) ==
  /\ CanRun
  /\ LET g   == Purged(ks)
         st2 == [k \in Keys |-> [c \in Cmds |-> IF <<k, c>> \in g THEN None ELSE store[k][c]]]
         T(p) == p \notin g
         freed == MapThenSumSet(LAMBDA p : store[p[1]][p[2]].sz, g)
     IN /\ Set([st |-> st2, l |-> SelectSeq(lst, T), sz |-> IF BugPurgeKeepsSize THEN size ELSE size - freed,
                h |-> hits, cl |-> closed])
        /\ park' = [park EXCEPT !.mv = FilterMv(@, store, st2)]
        /\ out' = [O EXCEPT !.op = op, !.ks = ks, !.at = now]
  /\ UNCHANGED now
Delete(ks) == DeleteKeys(ks, "Delete")
DeleteAll == DeleteKeys(Keys, "DeleteAll")      \* Delete(nil): every key of the store

Close ==
  /\ CanRun
  /\ Set([st |-> [k \in Keys |-> [c \in Cmds |-> None]], l |-> <<>>, sz |-> size, h |-> hits, cl |-> TRUE])
  /\ park' = [park EXCEPT !.mv = <<>>]
  /\ out' = [O EXCEPT !.op = "Close", !.at = now,
                      !.dlv = {[k |-> p[1], c |-> p[2], how |-> "err"] :
                                 p \in {q \in Pairs : store[q[1]][q[2]].st = "pending"}}]
  /\ UNCHANGED now

GetTTL(k, c) ==
  /\ WithGetTTL /\ CanRun
  /\ LET e == store[k][c]
         d == e.exp - Wall
     IN out' = [O EXCEPT !.op = "GetTTL", !.k = k, !.c = c, !.at = now, !.ttlr = IF e.st # "none" /\ d > 0 THEN d ELSE -2]
  /\ UNCHANGED <<store, lst, size, hits, closed, now, park>>

Tick == /\ CanRun /\ now < MaxClock /\ now' = now + 1
        /\ out' = [O EXCEPT !.op = "Tick", !.at = now + 1]
        /\ UNCHANGED <<store, lst, size, hits, closed, park>>

\* ------------------------------------------------------------------------------------------ specification
Init == /\ store = [k \in Keys |-> [c \in Cmds |-> None]] /\ lst = <<>> /\ size = 0 /\ hits = [k \in Keys |-> 0]
        /\ closed = FALSE /\ now = 1 /\ park = NoPark /\ out = O

Batches == {<<a, b>> : a \in BatchItems, b \in BatchItems}

Next == \/ \E it \in Item : FlightWhole(<<it>>, TRUE) \/ FlightBegin(<<it>>, TRUE)
        \/ \E b \in Batches : FlightWhole(b, FALSE) \/ FlightBegin(b, FALSE)
        \/ FlightResume
        \/ \E k \in Keys, c \in Cmds : \/ \E srv \in SrvSet, sz \in Sizes : Update(k, c, srv, sz)
                                       \/ Cancel(k, c)
                                       \/ GetTTL(k, c)
        \/ \E ks \in (SUBSET Keys) \ {{}} : Delete(ks)
        \/ DeleteAll \/ Close \/ Tick

Spec == Init /\ [][Next]_vars

\* ------------------------------------------------------------------------------------------ properties
Entry == [st : {"none", "pending", "done"}, exp : Nat, sz : Nat]
TypeOK == /\ store \in [Keys -> [Cmds -> Entry]]
          /\ \A p \in Pairs : LET e == store[p[1]][p[2]] IN
                 /\ e.st = "none" => e = None
                 /\ e.st = "pending" => e.sz = 0
                 /\ e.st = "done" => e.sz \in Sizes
          /\ lst \in Seq(Pairs) /\ size \in Int /\ hits \in [Keys -> 0..(MoveEvery - 1)]
          /\ closed \in BOOLEAN /\ now \in 1..MaxClock
          /\ park.ph \in {"none", "move", "slow"}

Present == {p \in Pairs : store[p[1]][p[2]].st # "none"}
DoneSet(st) == {p \in Pairs : st[p[1]][p[2]].st = "done"}
SumDone(st) == MapThenSumSet(LAMBDA p : st[p[1]][p[2]].sz, DoneSet(st))

\* the list holds exactly the registered entries, once each
ListMatchesStore == /\ Range(lst) = Present /\ Len(lst) = Cardinality(Present)
                    /\ closed => lst = <<>>
\* C10: the accounted size is the sum of the sizes of the completed entries retained
SizeIsSumOfDone == ~closed => size = SumDone(store)
\* C10: size never exceeds the bound (it only grows in Update, which evicts before it returns)
SizeWithinMax == size <= MaxSize
HitsFollowKeys == \A k \in Keys : (\A c \in Cmds : store[k][c].st = "none") => hits[k] = 0
ParkOK == /\ park.ph = "none" => park = NoPark
          /\ \A i \in 1..Len(park.mv) : store[park.mv[i][1]][park.mv[i][2]].st # "none"

IsUpdate == out'.op = "Update"
UpdP == <<out'.k, out'.c>>
\* completed entries as the eviction loop sees them: the entry being stored counts
DoneAtUpdate(p) == store[p[1]][p[2]].st = "done" \/ (p = UpdP /\ store[p[1]][p[2]].st = "pending")
EvictedNow == {p \in Pairs : DoneAtUpdate(p) /\ store'[p[1]][p[2]].st = "none"}
SizeWithinMaxAfterUpdate == [][IsUpdate => size' <= MaxSize]_vars
\* C10: what an update evicts is a prefix, in LRU order, of the completed entries, and no more than necessary
EvictedIsLruPrefix ==
  [][IsUpdate => /\ \A p \in EvictedNow : \A i \in 1..Len(lst) :
                        (i < Pos(lst, p) /\ DoneAtUpdate(lst[i])) => lst[i] \in EvictedNow
                 /\ \A p \in EvictedNow : size' + (IF p = UpdP /\ store[p[1]][p[2]].st = "pending" THEN out'.sz
                                                    ELSE store[p[1]][p[2]].sz) > MaxSize
                                          \/ \E q \in EvictedNow : q # p /\ Pos(lst, q) > Pos(lst, p)
                 /\ \A p \in Pairs : (store'[p[1]][p[2]].st # "none" /\ p # UpdP) => store'[p[1]][p[2]] = store[p[1]][p[2]]]_vars
\* C10/C06: a pending entry leaves the store only through its own Update (then evicted as completed), Cancel or Close
PendingNeverEvicted ==
  [][\A p \in Pairs : (store[p[1]][p[2]].st = "pending" /\ store'[p[1]][p[2]].st # "pending") =>
        \/ out'.op \in {"Update", "Cancel"} /\ UpdP = p
        \/ out'.op \in {"Close", "Init"}]_vars        \* "Init": a new run begins (trace validation only)
\* order changes only by moving the touched entries to the back / appending new ones / removing
OrderPreserved ==
  [][\A i, j \in 1..Len(lst) : (i < j /\ InSeq(lst', lst[i]) /\ InSeq(lst', lst[j]) /\ Pos(lst', lst[i]) > Pos(lst', lst[j])) =>
        \E n \in 1..Len(out'.items) : <<out'.items[n].k, out'.items[n].c>> = lst[i]]_vars
\* C07: the stored expiry is the earlier of the client expiry fixed at the miss and the server expiry, if there is one
ExpiryIsMin ==
  [][(IsUpdate /\ store[out'.k][out'.c].st = "pending") =>
        LET ce == store[out'.k][out'.c].exp
            sx == IF out'.srv < 0 THEN 0 ELSE now + out'.srv
            want == IF sx = 0 \/ ce < sx THEN ce ELSE sx
        IN /\ out'.pxat = want
           /\ store'[out'.k][out'.c].st = "done" => store'[out'.k][out'.c].exp = want]_vars
\* C07: a hit is returned only strictly before the expiry of the entry, and reports that expiry
NoHitAtOrAfterExpiry ==
  [][\A i \in 1..Len(out'.res) : out'.res[i].r = "hit" => out'.res[i].exp > out'.at]_vars
\* an expiry once stored never changes
ExpiryStable ==
  [][\A p \in Pairs : (store[p[1]][p[2]].st = "done" /\ store'[p[1]][p[2]].st = "done") =>
        store'[p[1]][p[2]].exp = store[p[1]][p[2]].exp]_vars
\* C09 part: whoever was told to wait gets the outcome of exactly that flight
WaitersGetFlightOutcome ==
  [][\A p \in Pairs : (store[p[1]][p[2]].st = "pending" /\ store'[p[1]][p[2]].st # "pending") =>
        out'.op = "Init" \/ \E d \in out'.dlv : d.k = p[1] /\ d.c = p[2]]_vars
=============================================================================
