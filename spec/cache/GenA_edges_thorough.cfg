SPECIFICATION GenSpec
CONSTANTS
  Keys = {"a", "b"}
  Cmds = {"x", "y"}
  Sizes = {1}
  TTLs = {1, 3}
  SrvTTLs = {0, 2}
  SrvNone = TRUE
  MaxClock = 3
  Interleave = TRUE
  BugLaterExpiry = FALSE
  BugDeletePending = FALSE
  BugHitExpired = FALSE
  BugNoRecheck = FALSE
  Depth = 5
  Walks = FALSE
  KeyOrder <- OrdAB
  CmdOrder <- OrdXY
VIEW view
CONSTRAINT DepthBound
ACTION_CONSTRAINT Canon Emit
CHECK_DEADLOCK FALSE
