------------------------------ MODULE LruTrace ------------------------------
(* Trace validation, code -> specification: every line of the ndjson file was logged by harness/cmd/storedrv after one
   call on the real lru (for a Flight call held at a verif hook: after one of its critical sections) and carries the
   arguments, the results and the complete real state converted to the specification's units.  Each line must be
   explained by the action of Lru.tla with these arguments, with equal results and an equal state after it; the
   invariants and action properties of Lru.tla are evaluated on the way.  Runs are concatenated with RESET lines.
   The specification is deterministic for given arguments, so no silent steps are needed.                       *)
EXTENDS Lru, Json, IOUtils

VARIABLE l

TraceLog == ndJsonDeserialize(IOEnv.VERIF_TRACE)
tvars == <<vars, l>>
Ev == TraceLog[l]
Is(op) == l <= Len(TraceLog) /\ TraceLog[l].op = op
Step == l' = l + 1
SeqSet(s) == {s[i] : i \in 1..Len(s)}

\* logged results and state equal the specification's
Post == /\ out'.op = Ev.op /\ out'.at = Ev.at /\ out'.res = Ev.res /\ out'.pxat = Ev.pxat /\ out'.ttlr = Ev.ttlr
        /\ store' = Ev.store /\ lst' = Ev.lst /\ size' = Ev.size /\ hits' = Ev.hits /\ closed' = Ev.closed
        /\ park'.ph = Ev.ph

TraceInit == Init /\ l = 1 /\ TLCSet(1, 1)

Reset == /\ Is("RESET") /\ Step
         /\ store' = [k \in Keys |-> [c \in Cmds |-> None]] /\ lst' = <<>> /\ size' = 0 /\ hits' = [k \in Keys |-> 0]
         /\ closed' = FALSE /\ now' = 1 /\ park' = NoPark /\ out' = O

TFlight   == (Is("Flight") \/ Is("Flights")) /\ Step /\ FlightWhole(Ev.items, Ev.op = "Flight") /\ Post
TBegin    == (Is("FlightBegin") \/ Is("FlightsBegin")) /\ Step /\ FlightBegin(Ev.items, Ev.op = "FlightBegin") /\ Post
TResume   == (Is("FlightEnd") \/ Is("FlightsEnd") \/ Is("FlightMoved") \/ Is("FlightsMoved")) /\ Step /\ FlightResume /\ Post
TUpdate   == Is("Update") /\ Step /\ Update(Ev.k, Ev.c, Ev.srv, Ev.sz) /\ Post
TCancel   == Is("Cancel") /\ Step /\ Cancel(Ev.k, Ev.c) /\ Post
TDelete   == Is("Delete") /\ Step /\ Delete(SeqSet(Ev.ks)) /\ Post
TDelAll   == Is("DeleteAll") /\ Step /\ DeleteAll /\ Post
TClose    == Is("Close") /\ Step /\ Close /\ Post
TGetTTL   == Is("GetTTL") /\ Step /\ GetTTL(Ev.k, Ev.c) /\ Post
TTick     == Is("Tick") /\ Step /\ Tick /\ Post

TraceNext == Reset \/ TFlight \/ TBegin \/ TResume \/ TUpdate \/ TCancel \/ TDelete \/ TDelAll \/ TClose \/ TGetTTL \/ TTick
TraceSpec == TraceInit /\ [][TraceNext]_tvars

HighWater == TLCSet(1, IF l > TLCGet(1) THEN l ELSE TLCGet(1))
TraceAccepted == \/ TLCGet(1) = Len(TraceLog) + 1
                 \/ PrintT(<<"REJECTED-AT", TLCGet(1), TraceLog[TLCGet(1)]>>) /\ FALSE
=============================================================================
