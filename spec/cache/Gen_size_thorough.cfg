SPECIFICATION GenSpec
CONSTANTS
  Keys = {"a", "b", "c"}
  Cmds = {"x", "y"}
  Sizes = {1, 2, 5}
  MaxSize = 6
  TTLs = {2}
  SrvTTLs = {}
  SrvNone = TRUE
  MaxClock = 1
  MoveEvery = 2
  BatchItems = {}
  Interleave = FALSE
  WithGetTTL = FALSE
  BugSingleEvict = FALSE
  BugLaterExpiry = FALSE
  BugDeletePending = FALSE
  BugPurgeKeepsSize = FALSE
  BugHitExpired = FALSE
  Depth = 6
  Walks = FALSE
  KeyOrder <- OrdABC
  CmdOrder <- OrdXY
  AllowedOps = {}
VIEW view
CONSTRAINT DepthBound
ACTION_CONSTRAINT OnlyOps Canon Emit
CHECK_DEADLOCK FALSE
