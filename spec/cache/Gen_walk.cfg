SPECIFICATION GenSpec
CONSTANTS
  Keys = {"a", "b", "c"}
  Cmds = {"x", "y"}
  Sizes = {1, 2, 5}
  MaxSize = 6
  TTLs = {1, 3}
  SrvTTLs = {0, 2}
  SrvNone = TRUE
  MaxClock = 5
  MoveEvery = 2
  BatchItems <- Batch3
  Interleave = TRUE
  WithGetTTL = TRUE
  BugSingleEvict = FALSE
  BugLaterExpiry = FALSE
  BugDeletePending = FALSE
  BugPurgeKeepsSize = FALSE
  BugHitExpired = FALSE
  Depth = 24
  Walks = TRUE
  KeyOrder <- NoOrd
  CmdOrder <- NoOrd
  AllowedOps = {}
ACTION_CONSTRAINT LateClose
INVARIANT EmitWalk
CHECK_DEADLOCK FALSE
