SPECIFICATION Spec
CONSTANTS
  Keys = {"a", "b"}
  Cmds = {"x"}
  Sizes = {2, 5}
  MaxSize = 6
  TTLs = {1}
  SrvTTLs = {}
  SrvNone = TRUE
  MaxClock = 2
  MoveEvery = 2
  BatchItems <- Batch2
  Interleave = TRUE
  WithGetTTL = FALSE
  BugSingleEvict = FALSE
  BugLaterExpiry = FALSE
  BugDeletePending = FALSE
  BugPurgeKeepsSize = FALSE
  BugHitExpired = FALSE
INVARIANTS TypeOK ListMatchesStore SizeIsSumOfDone SizeWithinMax HitsFollowKeys ParkOK
PROPERTIES SizeWithinMaxAfterUpdate EvictedIsLruPrefix PendingNeverEvicted OrderPreserved ExpiryIsMin NoHitAtOrAfterExpiry ExpiryStable WaitersGetFlightOutcome
VIEW view
CHECK_DEADLOCK FALSE
