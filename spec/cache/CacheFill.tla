------------------------------ MODULE CacheFill ------------------------------
(* C07, the part between the cache store and the server: how one DoCache / DoMultiCache call of the real client fills
   the entries it missed (pipe.go: DoCache, doCacheMGet, DoMultiCache and the client-side-caching gate of
   _backgroundRead).

   One behaviour = one call:
     Send   the client composes the wire for the items it missed: per item  CLIENT CACHING YES, MULTI, PTTL <key of the
            command>, <command>, EXEC   (static-TTL path: CLIENT CACHING YES, <command>; MGET: one PTTL per missed key,
            then the MGET rewritten to the missed keys);
     Exec   the server answers every PTTL probe from *its* key table, by the name the probe carries: -2 no such key,
            -1 no expiry, otherwise the remaining milliseconds (0 = the key is in its last millisecond);
     Fill   the reader files every reply in the store: expiry = the earlier of (clock reading of the call + client ttl)
            and (arrival + PTTL answer) when the answer is >= 0, else the client part alone.

   The requirement (EarlierOfBoth) is stated against the server state of the key the command reads, not against the
   wire: whatever the client sends, an entry whose key has p >= 0 ms left at the server is bounded by p.
   ProbesNameKeys / ProbeShape are the wire-level reasons for it.

   Deliberate oddity modelled as it is: DoMultiCache takes the static-TTL path only when *every* command of the batch
   (also those answered from the cache) is tagged ToStaticTTL; in a mixed batch the tag is stripped and the server
   TTL bounds the tagged commands too.

   The module is also the case generator of `storedrv -mode fill`: EmitDone prints every complete behaviour as one case
   (inputs, predicted wire, predicted expiry rule per item); the driver scripts the server's PTTL answers accordingly,
   compares the wire of the real client token by token and logs the observed expiries for CacheTtlObs.tla, which
   applies Eff below to the real clock readings.                                                                *)
EXTENDS Integers, Sequences, FiniteSets, TLC, Json

CONSTANTS Stores,             \* {"lru", "adapter"}: which CacheStore the client uses (two different branches of DoMultiCache)
          Shapes1, Srv1,      \* command shapes / server key states of one-item calls
          Shapes2, Srv2,      \* ... of the items of two-item batches and of MGET keys
          BugZeroIsNone,      \* negative: the reader applies a PTTL answer only when it is > 0
          BugProbeFirstArg,   \* negative: the probe names the first argument of the command instead of its key
          BugMgetProbeAll     \* negative: doCacheMGet probes the keys of the original MGET, not of the rewritten one

VARIABLES pc, inp, wire, rep, fill
vars == <<pc, inp, wire, rep, fill>>

Ttl == 10000                          \* client ttl of every item (ms); long enough that no case has to wait for it
AllShapes == {"get", "hget", "eval_ro", "evalsha_ro", "fcall_ro", "mgetkey"}
AllSrv == {"missing", "noexp", "p0", "p1", "small", "eq", "large"}
\* what the server answers to PTTL <key> in that state
Pttl(s) == CASE s = "missing" -> -2 [] s = "noexp" -> -1 [] s = "p0" -> 0 [] s = "p1" -> 1 [] s = "small" -> 40
             [] s = "eq" -> Ttl [] s = "large" -> Ttl + 5000
LongLived == {"noexp", "large"}       \* an entry filled by an earlier call is still a hit when the call under test starts
\* position of the key among the arguments (0 = the command name): <script|sha|function> 1 <key> for the read-only scripts
KeyPos(shape) == IF shape \in {"eval_ro", "evalsha_ro", "fcall_ro"} THEN 3 ELSE 1

Min2(a, b) == IF a < b THEN a ELSE b
\* The rule itself, shared with CacheTtlObs.tla: milliseconds between "some instant of the populating call" and the expiry,
\* given the client ttl and what the server says about the key (p < 0: nothing).
Eff(ttl, p) == IF p >= 0 THEN Min2(ttl, p) ELSE ttl

Item(shapes, srvs) == [shape : shapes, static : BOOLEAN, srv : srvs, cached : BOOLEAN]
OkItem(it) == it.cached => it.srv \in LongLived
MgetItems == {x \in Item({"mgetkey"}, Srv2) : OkItem(x) /\ ~x.static}
Inputs ==
  {[store |-> st, call |-> c, items |-> <<it>>] : st \in Stores, c \in {"single", "multi"},
                                                  it \in {x \in Item(Shapes1 \ {"mgetkey"}, Srv1) : ~x.cached}}
  \cup {[store |-> st, call |-> "multi", items |-> <<a, b>>] : st \in Stores,
          a \in {x \in Item(Shapes2 \ {"mgetkey"}, Srv2) : OkItem(x)},
          b \in {x \in Item(Shapes2 \ {"mgetkey"}, Srv2) : OkItem(x) /\ ~x.cached}}
  \cup {[store |-> st, call |-> "multi", items |-> <<a, b>>] : st \in Stores,
          a \in {x \in Item(Shapes2 \ {"mgetkey"}, Srv2) : ~x.cached},
          b \in {x \in Item(Shapes2 \ {"mgetkey"}, Srv2) : OkItem(x) /\ x.cached}}
  \cup {[store |-> st, call |-> "mget", items |-> <<p[1], p[2]>>] : st \in Stores,
          p \in {q \in MgetItems \X MgetItems : ~(q[1].cached /\ q[2].cached)}}

N == Len(inp.items)
Missed == {i \in 1..N : ~inp.items[i].cached}
\* all-or-nothing over the whole batch, cached items included
StaticPath == inp.call # "mget" /\ \A i \in 1..N : inp.items[i].static

Tok(t, i, a) == [t |-> t, item |-> i, arg |-> a]
ProbeArg(it) == IF BugProbeFirstArg THEN 1 ELSE KeyPos(it.shape)
Stride(i) == IF StaticPath THEN <<Tok("optin", 0, 0), Tok("cmd", i, 0)>>
             ELSE <<Tok("optin", 0, 0), Tok("multi", 0, 0), Tok("pttl", i, ProbeArg(inp.items[i])), Tok("cmd", i, 0), Tok("exec", 0, 0)>>
RECURSIVE Strides(_)
Strides(i) == IF i > N THEN <<>> ELSE (IF i \in Missed THEN Stride(i) ELSE <<>>) \o Strides(i + 1)
RECURSIVE Probes(_)
Probes(i) == IF i > N THEN <<>> ELSE (IF i \in Missed \/ BugMgetProbeAll THEN <<Tok("pttl", i, 1)>> ELSE <<>>) \o Probes(i + 1)
\* the rewritten MGET carries the missed keys only, in their original order: item = 0, arg = number of keys
MgetWire == <<Tok("optin", 0, 0), Tok("multi", 0, 0)>> \o Probes(1) \o <<Tok("mget", 0, Cardinality(Missed)), Tok("exec", 0, 0)>>
ComposeWire == IF Missed = {} THEN <<>> ELSE IF inp.call = "mget" THEN MgetWire ELSE Strides(1)

\* the server knows one key per item; any other argument of a command names no key
Answer(tok) == IF tok.arg = KeyPos(inp.items[tok.item].shape) THEN Pttl(inp.items[tok.item].srv) ELSE -2
NoProbe == -3

\* The reader pairs the answers with the replies by position.  Stride of 5: the one probe of the item.  MGET: the i-th
\* element of the EXEC reply goes with the i-th key of the rewritten MGET, i.e. the i-th missed item.
ProbeIdx(i) == {j \in 1..Len(wire) : wire[j].t = "pttl" /\ wire[j].item = i}
RankOfMissed(i) == Cardinality({j \in Missed : j <= i})
PttlToks == SelectSeq(wire, LAMBDA t : t.t = "pttl")
AnswerFor(i) == IF StaticPath THEN NoProbe
                ELSE IF inp.call = "mget" THEN Answer(PttlToks[RankOfMissed(i)])
                ELSE Answer(wire[CHOOSE j \in ProbeIdx(i) : TRUE])

Applies(p) == IF BugZeroIsNone THEN p > 0 ELSE p >= 0
FillOf(i) == IF inp.items[i].cached THEN [how |-> "hit", server |-> -1]
             ELSE IF rep[i] # NoProbe /\ Applies(rep[i]) THEN [how |-> "fill", server |-> rep[i]]
             ELSE [how |-> "fill", server |-> -1]

Init == /\ inp \in Inputs
        /\ pc = "start" /\ wire = <<>> /\ rep = <<>> /\ fill = <<>>
Send == /\ pc = "start" /\ pc' = "sent"
        /\ wire' = ComposeWire
        /\ UNCHANGED <<inp, rep, fill>>
Exec == /\ pc = "sent" /\ pc' = "executed"
        /\ rep' = [i \in 1..N |-> IF i \in Missed THEN AnswerFor(i) ELSE NoProbe]
        /\ UNCHANGED <<inp, wire, fill>>
Fill == /\ pc = "executed" /\ pc' = "done"
        /\ fill' = [i \in 1..N |-> FillOf(i)]
        /\ UNCHANGED <<inp, wire, rep>>
Next == Send \/ Exec \/ Fill
Spec == Init /\ [][Next]_vars

-----------------------------------------------------------------------------
TypeOK == /\ pc \in {"start", "sent", "executed", "done"}
          /\ \A j \in 1..Len(wire) : wire[j].t \in {"optin", "multi", "pttl", "cmd", "mget", "exec"}

\* C07 between client and server: the entry of a missed item is bounded by what the server says about the key *the
\* command reads* - unless the whole batch is on the static-TTL path, the key has no expiry, or it does not exist.
TruePttl(i) == Pttl(inp.items[i].srv)
EarlierOfBoth == pc = "done" => \A i \in Missed :
                    fill[i].server = (IF StaticPath \/ TruePttl(i) < 0 THEN -1 ELSE TruePttl(i))
\* every probe names the key of the command it goes with
ProbesNameKeys == \A j \in 1..Len(wire) : wire[j].t = "pttl" => wire[j].arg = KeyPos(inp.items[wire[j].item].shape)
\* exactly one probe per missed item off the static path, none on it, none for items answered from the cache, in item order
ProbeShape == pc # "start" =>
                 /\ \A i \in 1..N : Cardinality(ProbeIdx(i)) = (IF i \in Missed /\ ~StaticPath THEN 1 ELSE 0)
                 /\ \A a, b \in 1..Len(PttlToks) : a < b => PttlToks[a].item < PttlToks[b].item
\* nothing goes to the server when everything was cached (not generated: Inputs always has a missed item)
HitsStayLocal == pc = "done" => \A i \in 1..N : inp.items[i].cached => fill[i].how = "hit"

-----------------------------------------------------------------------------
\* case generation
TokStr(t) == IF t.t \in {"pttl"} THEN "pttl:" \o ToString(t.item) \o ":" \o ToString(t.arg)
             ELSE IF t.t = "cmd" THEN "cmd:" \o ToString(t.item)
             ELSE IF t.t = "mget" THEN "mget:" \o ToString(t.arg)
             ELSE t.t
CaseRec == [store |-> inp.store, call |-> inp.call, ttl |-> Ttl, staticpath |-> StaticPath,
            items |-> [i \in 1..N |-> [shape |-> inp.items[i].shape, static |-> inp.items[i].static, srv |-> inp.items[i].srv,
                                       cached |-> inp.items[i].cached, keypos |-> KeyPos(inp.items[i].shape),
                                       pttl |-> Pttl(inp.items[i].srv), isnil |-> inp.items[i].srv = "missing"]],
            wire |-> [j \in 1..Len(wire) |-> TokStr(wire[j])],
            fill |-> fill]
EmitDone == pc = "done" => PrintT(<<"CASE", ToJson(CaseRec)>>)
=============================================================================
