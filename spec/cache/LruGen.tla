------------------------------- MODULE LruGen -------------------------------
(* Behaviour generation for the replay driver (harness/cmd/storedrv).  hist records, for every step, the label,
   arguments and results of the step (out) and the complete abstract state the specification predicts after it.
   With the VIEW of Lru.tla (which leaves hist and out aside) TLC's breadth-first search reaches every distinct
   state once; the ACTION_CONSTRAINT Emit is evaluated on *every* transition it generates, also those that lead to
   states already seen, so in mode "edges" every transition of the bounded state graph is printed as one case:
   the inputs of the path that first reached its source state, then the transition with its prediction.
   For random walks (-simulate) the invariant EmitWalk prints the whole behaviour with the prediction after each step. *)
EXTENDS Lru, Json

CONSTANTS Depth,
          Walks,                \* TRUE for -simulate: after Depth steps the only step is Stop, whose state prints the walk
          KeyOrder, CmdOrder,   \* sequences: canonical first-touch order (<<>> = no symmetry reduction)
          AllowedOps            \* {} = every operation, otherwise only steps with these labels
VARIABLES hist, fin

\* values for KeyOrder / CmdOrder (a configuration file cannot write a tuple)
OrdABC == <<"a", "b", "c">>
OrdAB == <<"a", "b">>
OrdA == <<"a">>
OrdXY == <<"x", "y">>
OrdX == <<"x">>
NoOrd == <<>>

StateRec == [store |-> store, lst |-> lst, size |-> size, hits |-> hits, closed |-> closed, now |-> now,
             ph |-> park.ph, mv |-> park.mv]
In(o) == [op |-> o.op, items |-> o.items, k |-> o.k, c |-> o.c, srv |-> o.srv, sz |-> o.sz, ks |-> o.ks, at |-> o.at]

GenInit == Init /\ hist = <<>> /\ fin = FALSE
GenNext == IF Walks /\ Len(hist) >= Depth
           THEN ~fin /\ fin' = TRUE /\ UNCHANGED <<vars, hist>>
           ELSE Next /\ hist' = Append(hist, [o |-> out', s |-> StateRec']) /\ fin' = fin
GenSpec == GenInit /\ [][GenNext]_<<vars, hist, fin>>

DepthBound == Len(hist) <= Depth

\* Symmetry reduction for mode "edges": keys (and, per key, commands) are interchangeable, so only behaviours that
\* touch them for the first time in the canonical order are generated.
TouchedPairs(h) == UNION {{<<h[i].o.items[n].k, h[i].o.items[n].c>> : n \in 1..Len(h[i].o.items)} \cup
                          (IF h[i].o.k # "" THEN {<<h[i].o.k, h[i].o.c>>} ELSE {}) : i \in 1..Len(h)}
TouchedKeys(h) == {p[1] : p \in TouchedPairs(h)} \cup UNION {h[i].o.ks : i \in 1..Len(h)}
IsPrefixSet(S, ord) == \A i \in 1..Len(ord) : ord[i] \in S => \A j \in 1..i : ord[j] \in S
Canon == \/ KeyOrder = <<>>
         \/ /\ IsPrefixSet(TouchedKeys(hist'), KeyOrder)
            /\ \A k \in Keys : IsPrefixSet({p[2] : p \in {q \in TouchedPairs(hist') : q[1] = k}}, CmdOrder)
\* random walks: Close ends everything, keep it for the last steps
LateClose == out'.op = "Close" => Len(hist') >= Depth - 1
OnlyOps == AllowedOps = {} \/ out'.op \in AllowedOps
\* edges: ACTION_CONSTRAINT Emit (evaluated on every transition).  walks: in simulation TLC evaluates constraints and
\* invariants on every candidate successor, so the walk is printed by the invariant EmitWalk in the one state after Stop
Emit == PrintT(<<"CASE", ToJson([pre |-> [i \in 1..Len(hist) |-> In(hist[i].o)], steps |-> <<hist'[Len(hist')]>>])>>)
EmitWalk == fin => PrintT(<<"CASE", ToJson([pre |-> <<>>, steps |-> hist])>>)
=============================================================================
