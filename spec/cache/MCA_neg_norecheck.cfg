SPECIFICATION Spec
CONSTANTS
  Keys = {"a", "b"}
  Cmds = {"x"}
  Sizes = {1}
  TTLs = {1, 3}
  SrvTTLs = {0, 1, 3}
  SrvNone = TRUE
  MaxClock = 4
  Interleave = TRUE
  BugLaterExpiry = FALSE
  BugDeletePending = FALSE
  BugHitExpired = FALSE
  BugNoRecheck = TRUE
INVARIANTS TypeOK NoFlightOverFreshValue
VIEW view
CHECK_DEADLOCK FALSE
