SPECIFICATION Spec
CONSTANTS
  Keys = {"a", "b"}
  Cmds = {"x", "y"}
  Sizes = {2, 5}
  MaxSize = 6
  TTLs = {1}
  SrvTTLs = {}
  SrvNone = TRUE
  MaxClock = 1
  MoveEvery = 2
  BatchItems <- NoBatch
  Interleave = FALSE
  WithGetTTL = FALSE
  BugSingleEvict = FALSE
  BugLaterExpiry = FALSE
  BugDeletePending = TRUE
  BugPurgeKeepsSize = FALSE
  BugHitExpired = FALSE
INVARIANTS TypeOK ListMatchesStore SizeIsSumOfDone SizeWithinMax HitsFollowKeys ParkOK
PROPERTIES SizeWithinMaxAfterUpdate EvictedIsLruPrefix PendingNeverEvicted OrderPreserved ExpiryIsMin NoHitAtOrAfterExpiry ExpiryStable WaitersGetFlightOutcome
VIEW view
CHECK_DEADLOCK FALSE
