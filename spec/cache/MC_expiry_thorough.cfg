SPECIFICATION Spec
CONSTANTS
  Keys = {"a", "b"}
  Cmds = {"x"}
  Sizes = {1}
  MaxSize = 6
  TTLs = {1, 3}
  SrvTTLs = {0, 2}
  SrvNone = TRUE
  MaxClock = 3
  MoveEvery = 2
  BatchItems <- Batch2
  Interleave = TRUE
  WithGetTTL = TRUE
  BugSingleEvict = FALSE
  BugLaterExpiry = FALSE
  BugDeletePending = FALSE
  BugPurgeKeepsSize = FALSE
  BugHitExpired = FALSE
INVARIANTS TypeOK ListMatchesStore SizeIsSumOfDone SizeWithinMax HitsFollowKeys ParkOK
PROPERTIES SizeWithinMaxAfterUpdate EvictedIsLruPrefix PendingNeverEvicted OrderPreserved ExpiryIsMin NoHitAtOrAfterExpiry ExpiryStable WaitersGetFlightOutcome
VIEW view
CHECK_DEADLOCK FALSE
