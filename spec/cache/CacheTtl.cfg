SPECIFICATION Spec
INVARIANT Consistent
CHECK_DEADLOCK FALSE
