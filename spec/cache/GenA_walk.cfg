SPECIFICATION GenSpec
CONSTANTS
  Keys = {"a", "b"}
  Cmds = {"x", "y"}
  Sizes = {1}
  TTLs = {0, 1, 3}
  SrvTTLs = {0, 2}
  SrvNone = TRUE
  MaxClock = 6
  Interleave = TRUE
  BugLaterExpiry = FALSE
  BugDeletePending = FALSE
  BugHitExpired = FALSE
  BugNoRecheck = FALSE
  Depth = 24
  Walks = TRUE
  KeyOrder <- NoOrd
  CmdOrder <- NoOrd
ACTION_CONSTRAINT LateClose
INVARIANT EmitWalk
CHECK_DEADLOCK FALSE
