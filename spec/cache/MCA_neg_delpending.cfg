SPECIFICATION Spec
CONSTANTS
  Keys = {"a", "b"}
  Cmds = {"x"}
  Sizes = {1}
  TTLs = {1, 3}
  SrvTTLs = {0, 1, 3}
  SrvNone = TRUE
  MaxClock = 4
  Interleave = TRUE
  BugLaterExpiry = FALSE
  BugDeletePending = TRUE
  BugHitExpired = FALSE
  BugNoRecheck = FALSE
INVARIANTS TypeOK ValueHasRegistration ClosedIsEmpty NoFlightOverFreshValue
PROPERTIES ExpiryIsMin NoHitAtOrAfterExpiry ValueStable PendingNeverEvicted WaitersGetFlightOutcome DeleteLeavesNoHit
VIEW view
CHECK_DEADLOCK FALSE
