SPECIFICATION Spec
CONSTANTS
  Keys = {"a"}
  Cmds = {"x", "y"}
  Sizes = {1}
  MaxSize = 6
  TTLs = {0, 1, 3}
  SrvTTLs = {0, 1, 3}
  SrvNone = TRUE
  MaxClock = 4
  MoveEvery = 2
  BatchItems <- NoBatch
  Interleave = FALSE
  WithGetTTL = TRUE
  BugSingleEvict = FALSE
  BugLaterExpiry = FALSE
  BugDeletePending = FALSE
  BugPurgeKeepsSize = FALSE
  BugHitExpired = FALSE
INVARIANTS TypeOK ListMatchesStore SizeIsSumOfDone SizeWithinMax HitsFollowKeys ParkOK
PROPERTIES SizeWithinMaxAfterUpdate EvictedIsLruPrefix PendingNeverEvicted OrderPreserved ExpiryIsMin NoHitAtOrAfterExpiry ExpiryStable WaitersGetFlightOutcome
VIEW view
CHECK_DEADLOCK FALSE
