----------------------------- MODULE CacheTtlObs -----------------------------
(* C07 end to end: observations of the real client (DoCache / DoMultiCache over fakeredis, real time) are checked against
   the only bounds that are sound without knowing when exactly the client read its clock:

     the entry populated by a call made at tcall and returned at tret, with client ttl and a server key that was
     given a lifetime of srvP ms by a SET issued between tsetA and tsetB, expires at
         max(tcall + ttl-or-server-part) ... precisely:   Lower(r) <= expiry <= Upper(r)
     client part:  tcall + ttl <= . <= tret + ttl             (Flight reads the clock between call and return)
     server part:  tsetA + srvP <= . <= tsetB + srvP + (tret - tcall)   (PTTL is taken at execution, added at arrival)
     expiry = the earlier of the two; only the client part for static-TTL commands, keys without expiry, or when the
     populating reply was nil (the key had already expired at the server: PTTL -2).

   Records of `storedrv -mode fill` (mode = "scripted") come from CacheFill.tla cases: the server answered PTTL <key the
   command reads> with exactly srvP (scripted), so the server part is  tcall + srvP <= . <= tret + srvP  (the answer is
   added at arrival, which lies between call and return) and the whole rule is  tcall + Eff <= expiry <= tret + Eff  with
   Eff(ttl, srvP) of CacheFill.tla; static = "the batch went down the static-TTL path" as CacheFill predicts.

   A record is one result of one call; read records repeat the timings of the call that populated the entry (fields p...).
   Violations: the reported CachePXAT of the populating call outside [Lower, Upper]; a hit of that same entry (same
   CachePXAT) returned by a call that started at or after Upper; CachePTTL / CacheTTL not matching CachePXAT and the
   wall clock readings taken around them.                                                                      *)
EXTENDS Integers, Sequences, TLC, Json, IOUtils

\* all times are milliseconds since the start of the driver run (TLC integers are 32 bit)

VARIABLE x

Log == ndJsonDeserialize(IOEnv.VERIF_TRACE)
Slack == 2          \* ms: the server computes PTTL from its own millisecond clock reading
Min2(a, b) == IF a < b THEN a ELSE b
Max0(a) == IF a < 0 THEN 0 ELSE a
CeilS(ms) == (ms + 999) \div 1000

ClientOnly(r) == r.static \/ r.srvP < 0 \/ r.popNil
Fill == INSTANCE CacheFill WITH Stores <- {}, Shapes1 <- {}, Srv1 <- {}, Shapes2 <- {}, Srv2 <- {}, BugZeroIsNone <- FALSE,
                              BugProbeFirstArg <- FALSE, BugMgetProbeAll <- FALSE, pc <- x, inp <- x, wire <- x, rep <- x, fill <- x
Scripted(r) == r.mode = "scripted"
Lower(r) == IF Scripted(r) THEN r.ptcall + Fill!Eff(r.ttl, IF ClientOnly(r) THEN -1 ELSE r.srvP)
            ELSE IF ClientOnly(r) THEN r.ptcall + r.ttl ELSE Min2(r.ptcall + r.ttl, r.tsetA + r.srvP - Slack)
Upper(r) == IF Scripted(r) THEN r.ptret + Fill!Eff(r.ttl, IF ClientOnly(r) THEN -1 ELSE r.srvP)
            ELSE IF ClientOnly(r) THEN r.ptret + r.ttl ELSE Min2(r.ptret + r.ttl, r.tsetB + r.srvP + (r.ptret - r.ptcall) + Slack)

\* the populating call: not a hit, and it reports an expiry within the bounds
PopOK(r) == r.kind = "pop" => /\ ~r.hit
                              /\ r.pxat >= Lower(r) /\ r.pxat <= Upper(r)
\* a later call: a hit of the populated entry only if the call started before the entry can have expired
ReadOK(r) == (r.kind = "read" /\ r.hit /\ r.pxat = r.ppxat) => r.tcall < Upper(r)
\* the three accessors agree: ta..tb are clock readings around CachePTTL, tc..td around CacheTTL
AccessOK(r) == r.pxat > 0 => /\ r.pttl >= Max0(r.pxat - r.tb) /\ r.pttl <= Max0(r.pxat - r.ta)
                             /\ r.ttls >= CeilS(Max0(r.pxat - r.td)) /\ r.ttls <= CeilS(Max0(r.pxat - r.tc))
\* every cached reply carries an expiry
HasExpiry(r) == r.pxat > 0

Bad(i, why) == PrintT(<<"BAD", i, why, ToJson(Log[i])>>)
Check(i) == LET r == Log[i] IN
            /\ PopOK(r) \/ Bad(i, IF r.hit THEN "populating-call-is-hit" ELSE IF r.pxat > Upper(r) THEN "pxat-above-upper" ELSE "pxat-below-lower")
            /\ ReadOK(r) \/ Bad(i, "hit-at-or-after-expiry")
            /\ AccessOK(r) \/ Bad(i, "accessors-disagree")
            /\ HasExpiry(r) \/ Bad(i, "no-expiry-reported")
AllChecked == \A i \in 1..Len(Log) : Check(i)

Init == x = 0 /\ AllChecked /\ PrintT(<<"CHECKED", Len(Log)>>)
Next == x' = x
Spec == Init /\ [][Next]_x
=============================================================================
