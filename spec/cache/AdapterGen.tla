----------------------------- MODULE AdapterGen -----------------------------
(* Behaviour generation for the replay of the SimpleCache adapter: see LruGen.tla. *)
EXTENDS Adapter, Json

CONSTANTS Depth, Walks, KeyOrder, CmdOrder
VARIABLES hist, fin

OrdAB == <<"a", "b">>
OrdA == <<"a">>
OrdXY == <<"x", "y">>
OrdX == <<"x">>
NoOrd == <<>>

StateRec == [store |-> store, closed |-> closed, now |-> now, ph |-> park.ph]
In(o) == [op |-> o.op, items |-> o.items, k |-> o.k, c |-> o.c, srv |-> o.srv, sz |-> o.sz, ks |-> o.ks, at |-> o.at]

GenInit == Init /\ hist = <<>> /\ fin = FALSE
GenNext == IF Walks /\ Len(hist) >= Depth
           THEN ~fin /\ fin' = TRUE /\ UNCHANGED <<vars, hist>>
           ELSE Next /\ hist' = Append(hist, [o |-> out', s |-> StateRec']) /\ fin' = fin
GenSpec == GenInit /\ [][GenNext]_<<vars, hist, fin>>

DepthBound == Len(hist) <= Depth
TouchedPairs(h) == UNION {{<<h[i].o.items[n].k, h[i].o.items[n].c>> : n \in 1..Len(h[i].o.items)} \cup
                          (IF h[i].o.k # "" THEN {<<h[i].o.k, h[i].o.c>>} ELSE {}) : i \in 1..Len(h)}
TouchedKeys(h) == {p[1] : p \in TouchedPairs(h)} \cup UNION {h[i].o.ks : i \in 1..Len(h)}
IsPrefixSet(S, ord) == \A i \in 1..Len(ord) : ord[i] \in S => \A j \in 1..i : ord[j] \in S
Canon == \/ KeyOrder = <<>>
         \/ /\ IsPrefixSet(TouchedKeys(hist'), KeyOrder)
            /\ \A k \in Keys : IsPrefixSet({p[2] : p \in {q \in TouchedPairs(hist') : q[1] = k}}, CmdOrder)
LateClose == out'.op = "Close" => Len(hist') >= Depth - 1
Emit == PrintT(<<"CASE", ToJson([pre |-> [i \in 1..Len(hist) |-> In(hist[i].o)], steps |-> <<hist'[Len(hist')]>>])>>)
EmitWalk == fin => PrintT(<<"CASE", ToJson([pre |-> <<>>, steps |-> hist])>>)
=============================================================================
