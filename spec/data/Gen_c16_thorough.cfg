\* C16 thorough: longer lists and maps, more attribute sets
SPECIFICATION Spec
CONSTANTS
  Gen = "c16"
  Deep = TRUE
  Emit = TRUE
  OnlyFam = ""
  BugFirstWins = FALSE
  AllowNumericDocKeys = FALSE
  BugOkWithoutAddr = FALSE
  BugU64ViaI64 = FALSE
  BugCompKeepsRule = FALSE
INVARIANTS WellFormed Resp2Typed LastWins Unambiguous RulesTotal RedirectHasAddr NumRanges CompNeverValue EmitCase
CHECK_DEADLOCK FALSE
