SPECIFICATION Spec
CONSTANTS
  Alphabet = {123, 125, 97, 98}
  MaxLen = 4
  AllBytes = FALSE
  Emit = FALSE
  BugEmptyTag = TRUE
  BugLastBrace = FALSE
INVARIANTS TagRuleOK SlotRange TagDecides
CHECK_DEADLOCK FALSE
