\* case generation, thorough tier: mode cachewide (wide aggregates, run-length encoded)
CONSTANTS
  DefectChunkLenTotal = FALSE
  DefectMapCountKids = FALSE
  DefectNull2Empty = FALSE
  Mode = "cachewide"
  MaxNodes = 4
  MaxDepth = 3
  Emit = TRUE
  SampleN = 5000
  Thorough = TRUE
INIT Init
NEXT Next
INVARIANTS EmitCase RoundTrip PushRoundTrip MutantsRejected CmdRoundTrip Bounds
