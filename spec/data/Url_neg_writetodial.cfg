SPECIFICATION Spec
CONSTANTS
  Tier = "tiny"
  Emit = FALSE
  BugWriteToDial = TRUE
INVARIANTS NonInterference
CHECK_DEADLOCK FALSE
