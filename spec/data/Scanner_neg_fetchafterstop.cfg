SPECIFICATION Spec
CONSTANTS
  MaxLive = 1
  MaxElems = 2
  Cursors = {5, 7}
  Emit = FALSE
  BugFetchAfterStop = TRUE
  BugStopOnEmpty = FALSE
  BugIgnoreCursor = FALSE
INVARIANTS InOrder CursorChain NeverBeyondScript NoFetchAfterStop NoItemAfterStop Complete 
CHECK_DEADLOCK FALSE
