\* case generation, quick tier: oversized declared length + partially delivered body
CONSTANTS
  DefectChunkLenTotal = FALSE
  DefectMapCountKids = FALSE
  DefectNull2Empty = FALSE
  Emit = TRUE
  Thorough = FALSE
  GrowDivs = {1}
  DefectPreallocDeclared = FALSE
  DefectGrowToDeclared = FALSE
INIT Init
NEXT Next
INVARIANTS EmitCase AllocBounded TypeOK Truncated
