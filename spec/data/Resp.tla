-------------------------------- MODULE Resp --------------------------------
(***************************************************************************************************************)
(* The RESP2 / RESP3 wire grammar as TLA+ operators (properties C12, C13, C14, C17 of redis/rueidis).          *)
(*                                                                                                             *)
(*   value trees  --Encode-->  token sequences  --(Go driver: deterministic expansion)-->  bytes               *)
(*   value trees  --Expected-> the decoded tree the protocol specification demands                             *)
(*   token seqs   --Parse-->   decoded tree (reference decoder; RoundTrip: Parse(Encode(x)) = Expected(x))     *)
(*                                                                                                             *)
(* Tokens (tuples; ToJson renders them as arrays):                                                             *)
(*   <<"y", c>>   one byte: a type byte of the protocol (also the chunk marker ";" and the end marker ".")     *)
(*   <<"l", s>>   the ASCII text s (signs, "?", "t"/"f", integer texts, mutated lengths)                       *)
(*   <<"n", k>>   the decimal representation of the natural number k (a declared length or element count)      *)
(*   <<"p", P>>   payload bytes; P is a sequence of integers: 0..255 = that byte, -k = k filler bytes           *)
(*                (fillers never contain CR or LF; the driver derives them from the seed, identically on the   *)
(*                encoding and on the expectation side)                                                        *)
(*   <<"c">>      CR LF                                                                                        *)
(*   <<"x", b>>   the single raw byte b (mutations only)                                                       *)
(*   <<"t", tok, k>>  the first k bytes of the expansion of tok (mutations only: truncation inside a token)    *)
(*   <<"r", k, toks>> k repetitions of the expansion of toks (long commands, deep nesting)                     *)
(*                                                                                                             *)
(* Integers beyond 32 bits are carried as decimal strings (TLC integers are 32 bit).                           *)
(***************************************************************************************************************)
EXTENDS Integers, Sequences, FiniteSets, TLC

CONSTANTS DefectChunkLenTotal,   \* negative config: every chunk header of a streamed string declares the total length
          DefectMapCountKids,    \* negative config: a map header declares the number of elements instead of pairs
          DefectNull2Empty       \* negative config: the expectation treats RESP2 nulls as empty values

Y(c) == <<"y", c>>
L(s) == <<"l", s>>
N(k) == <<"n", k>>
P(p) == <<"p", p>>
CRLF == <<"c">>
X(b) == <<"x", b>>
Cut(tok, k) == <<"t", tok, k>>
Rep(k, toks) == <<"r", k, toks>>

LineTypes == {"+", "-", "(", ","}          \* payload up to CRLF, no CR / LF inside
BlobTypes == {"$", "=", "!"}               \* length prefixed, binary safe
AggTypes  == {"*", "~", ">", "%"}          \* aggregates; "%" holds key, value, key, value ...
TextTypes == {":", "#"}
ValueTypes == LineTypes \cup BlobTypes \cup AggTypes \cup TextTypes \cup {"_"}

----------------------------------------------------------------------------------------------------------------
(* payloads *)
PieceLen(b) == IF b >= 0 THEN 1 ELSE -b
RECURSIVE PLen(_)
PLen(p) == IF p = <<>> THEN 0 ELSE PieceLen(Head(p)) + PLen(Tail(p))
RECURSIVE Flat(_)
Flat(ss) == IF ss = <<>> THEN <<>> ELSE Head(ss) \o Flat(Tail(ss))
LineSafe(p) == \A j \in DOMAIN p : p[j] # 13 /\ p[j] # 10

----------------------------------------------------------------------------------------------------------------
(* value trees: one record shape for every node                                                               *)
(*   t type byte; f form: "p" plain, "n" RESP2 null ($-1, *-1), "s" streamed ($? ;.. ;0  or  *? ... .)         *)
(*   p payload (string types); ch chunks of a streamed string; w wire text and v canonical value (":" "#")     *)
(*   kids children; a attribute: <<>> none, <<kvs>> an attribute frame with the elements kvs                  *)
Node(t, f, p, ch, w, v, kids) == [t |-> t, f |-> f, p |-> p, ch |-> ch, w |-> w, v |-> v, kids |-> kids, a |-> <<>>]
Str(t, p)      == Node(t, "p", p, <<>>, "", "", <<>>)
StreamStr(chs) == Node("$", "s", Flat(chs), chs, "", "", <<>>)
IntV(w, v)      == Node(":", "p", <<>>, <<>>, w, v, <<>>)
Bool(w)        == Node("#", "p", <<>>, <<>>, w, IF w = "t" THEN "1" ELSE "0", <<>>)
Null3          == Node("_", "p", <<>>, <<>>, "", "", <<>>)
Null2(t)       == Node(t, "n", <<>>, <<>>, "", "", <<>>)
Agg(t, f, ks)  == Node(t, f, <<>>, <<>>, "", "", ks)
WithAttr(x, kvs) == [x EXCEPT !.a = <<kvs>>]

RECURSIVE Nodes(_), NodesSeq(_), Depth(_), DepthSeq(_)
Nodes(x) == 1 + NodesSeq(x.kids) + (IF x.a = <<>> THEN 0 ELSE NodesSeq(x.a[1]))
NodesSeq(s) == IF s = <<>> THEN 0 ELSE Nodes(Head(s)) + NodesSeq(Tail(s))
Max(a, b) == IF a > b THEN a ELSE b
Depth(x) == 1 + DepthSeq(x.kids)
DepthSeq(s) == IF s = <<>> THEN 0 ELSE Max(Depth(Head(s)), DepthSeq(Tail(s)))

(* a printable shape, used in violation signatures *)
RECURSIVE Sig(_), SigSeq(_)
Sig(x) == (IF x.a = <<>> THEN "" ELSE "|") \o x.t \o (CASE x.f = "s" -> "?" [] x.f = "n" -> "-1" [] x.w = "+5" -> "(+)" [] OTHER -> "")
          \o (IF x.t \in AggTypes /\ x.f # "n" THEN "[" \o SigSeq(x.kids) \o "]" ELSE "")
SigSeq(s) == IF s = <<>> THEN "" ELSE Sig(Head(s)) \o SigSeq(Tail(s))

----------------------------------------------------------------------------------------------------------------
(* Encode: tree -> tokens *)
RECURSIVE Encode(_), EncodeSeq(_), EncodeChunks(_, _)
EncodeSeq(s) == IF s = <<>> THEN <<>> ELSE Encode(Head(s)) \o EncodeSeq(Tail(s))
EncodeChunks(chs, total) ==
  IF chs = <<>> THEN <<Y(";"), N(0), CRLF>>
  ELSE <<Y(";"), N(IF DefectChunkLenTotal THEN total ELSE PLen(Head(chs))), CRLF, P(Head(chs)), CRLF>>
       \o EncodeChunks(Tail(chs), total)
Count(x) == IF x.t = "%" /\ ~DefectMapCountKids THEN Len(x.kids) \div 2 ELSE Len(x.kids)
Body(x) ==
  CASE x.f = "n"                     -> <<Y(x.t), L("-1"), CRLF>>
    [] x.t \in LineTypes             -> <<Y(x.t), P(x.p), CRLF>>
    [] x.t \in TextTypes             -> <<Y(x.t), L(x.w), CRLF>>
    [] x.t = "_"                     -> <<Y("_"), CRLF>>
    [] x.t \in BlobTypes /\ x.f = "p" -> <<Y(x.t), N(PLen(x.p)), CRLF, P(x.p), CRLF>>
    [] x.t \in BlobTypes /\ x.f = "s" -> <<Y(x.t), L("?"), CRLF>> \o EncodeChunks(x.ch, PLen(x.p))
    [] x.t \in AggTypes /\ x.f = "p"  -> <<Y(x.t), N(Count(x)), CRLF>> \o EncodeSeq(x.kids)
    [] x.t \in AggTypes /\ x.f = "s"  -> <<Y(x.t), L("?"), CRLF>> \o EncodeSeq(x.kids) \o <<Y("."), CRLF>>
Encode(x) == (IF x.a = <<>> THEN <<>> ELSE <<Y("|"), N(Len(x.a[1]) \div 2), CRLF>> \o EncodeSeq(x.a[1])) \o Body(x)

----------------------------------------------------------------------------------------------------------------
(* Expected: what a decoder must deliver. k: "str" (t, s), "int" (t, i), "null", "agg" (t, kids); a as in trees *)
Exp(k, t, s, i, kids, a) == [k |-> k, t |-> t, s |-> s, i |-> i, kids |-> kids, a |-> a]
ExpNull == Exp("null", "_", <<>>, "", <<>>, <<>>)
RECURSIVE Expected(_), ExpectedSeq(_)
ExpectedSeq(s) == IF s = <<>> THEN <<>> ELSE <<Expected(Head(s))>> \o ExpectedSeq(Tail(s))
Expected(x) ==
  LET a == IF x.a = <<>> THEN <<>> ELSE <<ExpectedSeq(x.a[1])>> IN
  CASE x.f = "n" -> IF DefectNull2Empty
                    THEN (IF x.t = "$" THEN Exp("str", "$", <<>>, "", <<>>, a) ELSE Exp("agg", x.t, <<>>, "", <<>>, a))
                    ELSE ExpNull                        \* RESP2 null bulk string / null array -> null
    [] x.f # "n" /\ x.t = "_" -> Exp("null", "_", <<>>, "", <<>>, a)
    [] x.f # "n" /\ x.t \in LineTypes \cup BlobTypes -> Exp("str", x.t, x.p, "", <<>>, a)   \* streamed = length-prefixed form
    [] x.f # "n" /\ x.t \in TextTypes -> Exp("int", x.t, <<>>, x.v, <<>>, a)
    [] x.f # "n" /\ x.t \in AggTypes  -> Exp("agg", x.t, <<>>, "", ExpectedSeq(x.kids), a)

(* What a streaming read (streamTo) of the reply must do: write exactly these bytes / this text, or fail.      *)
(*   "bytes" s | "text" txt | "nil" | "err" s (a Redis error reply) | "unsupported" (aggregates) | "any" (bool) *)
(*   "push": a push frame is not a reply, the streaming read goes on with the message that follows it          *)
StreamExpected(x) ==
  LET R(k, s, txt) == [k |-> k, s |-> s, txt |-> txt] IN
  CASE x.f = "n" \/ x.t = "_"                  -> R("nil", <<>>, "")
    [] x.f # "n" /\ x.t \in {"-", "!"}          -> R("err", x.p, "")
    [] x.f # "n" /\ x.t \in {"$", "=", "+", ",", "("} -> R("bytes", x.p, "")
    [] x.f # "n" /\ x.t = ":"                   -> R("text", <<>>, x.v)
    [] x.f # "n" /\ x.t = "#"                   -> R("any", <<>>, "")
    [] x.f # "n" /\ x.t = ">"                   -> R("push", <<>>, "")
    [] x.f # "n" /\ x.t \in AggTypes \ {">"}    -> R("unsupported", <<>>, "")

----------------------------------------------------------------------------------------------------------------
(* Parse: a strict reference decoder over token sequences.  Result [ok, v, pos] (pos = next unread token).     *)
Tag(s, i) == IF i >= 1 /\ i <= Len(s) THEN s[i][1] ELSE "eof"
IsY(s, i, c) == Tag(s, i) = "y" /\ s[i][2] = c
IsL(s, i, txt) == Tag(s, i) = "l" /\ s[i][2] = txt
IsN(s, i) == Tag(s, i) = "n"
IsP(s, i) == Tag(s, i) = "p"
IsC(s, i) == Tag(s, i) = "c"
Fail == [ok |-> FALSE, v |-> ExpNull, pos |-> 0, vs |-> <<>>]
Ok(v, pos) == [ok |-> TRUE, v |-> v, pos |-> pos, vs |-> <<>>]
OkSeq(vs, pos) == [ok |-> TRUE, v |-> ExpNull, pos |-> pos, vs |-> vs]
IntText(w) == \* sign and canonical value of the integer texts of this grammar
  CASE w = "-0" -> "0" [] w = "+5" -> "5" [] OTHER -> w
IsIntText(w) == w \in {"0", "1", "-1", "9", "10", "-10", "2147483647", "2147483648", "-2147483649",
                       "9223372036854775807", "-9223372036854775808", "-0", "+5"}

RECURSIVE PV(_, _), PN(_, _, _), PEnd(_, _), PChunks(_, _, _)
\* k values starting at i
PN(s, i, k) == IF k = 0 THEN OkSeq(<<>>, i)
               ELSE LET r == PV(s, i) IN
                    IF ~r.ok THEN Fail
                    ELSE LET q == PN(s, r.pos, k - 1) IN IF ~q.ok THEN Fail ELSE OkSeq(<<r.v>> \o q.vs, q.pos)
\* values up to the end marker
PEnd(s, i) == IF IsY(s, i, ".") THEN (IF IsC(s, i + 1) THEN OkSeq(<<>>, i + 2) ELSE Fail)
              ELSE LET r == PV(s, i) IN
                   IF ~r.ok THEN Fail
                   ELSE LET q == PEnd(s, r.pos) IN IF ~q.ok THEN Fail ELSE OkSeq(<<r.v>> \o q.vs, q.pos)
\* chunks of a streamed string; acc = payload so far
PChunks(s, i, acc) ==
  IF ~(IsY(s, i, ";") /\ IsN(s, i + 1) /\ IsC(s, i + 2)) THEN Fail
  ELSE IF s[i + 1][2] = 0 THEN [ok |-> TRUE, v |-> ExpNull, pos |-> i + 3, vs |-> acc]
  ELSE IF ~(IsP(s, i + 3) /\ IsC(s, i + 4)) THEN Fail
  ELSE IF PLen(s[i + 3][2]) # s[i + 1][2] THEN Fail
  ELSE PChunks(s, i + 5, acc \o s[i + 3][2])

PBody(s, i, a) == \* the value proper at i (not an attribute frame); a = attribute to attach
  IF Tag(s, i) # "y" THEN Fail ELSE
  LET c == s[i][2] IN
  CASE c \in LineTypes ->
         IF IsP(s, i + 1) /\ IsC(s, i + 2) /\ LineSafe(s[i + 1][2]) THEN Ok(Exp("str", c, s[i + 1][2], "", <<>>, a), i + 3) ELSE Fail
    [] c = ":" ->
         IF Tag(s, i + 1) = "l" /\ IsC(s, i + 2) /\ IsIntText(s[i + 1][2]) THEN Ok(Exp("int", c, <<>>, IntText(s[i + 1][2]), <<>>, a), i + 3) ELSE Fail
    [] c = "#" ->
         IF (IsL(s, i + 1, "t") \/ IsL(s, i + 1, "f")) /\ IsC(s, i + 2)
         THEN Ok(Exp("int", c, <<>>, IF s[i + 1][2] = "t" THEN "1" ELSE "0", <<>>, a), i + 3) ELSE Fail
    [] c = "_" -> IF IsC(s, i + 1) THEN Ok(Exp("null", "_", <<>>, "", <<>>, a), i + 2) ELSE Fail
    [] c \in BlobTypes ->
         IF IsL(s, i + 1, "-1") /\ IsC(s, i + 2) /\ c = "$" /\ a = <<>> THEN Ok(ExpNull, i + 3)
         ELSE IF IsL(s, i + 1, "?") /\ IsC(s, i + 2) /\ c = "$"
              THEN LET r == PChunks(s, i + 3, <<>>) IN IF r.ok THEN Ok(Exp("str", c, r.vs, "", <<>>, a), r.pos) ELSE Fail
         ELSE IF IsN(s, i + 1) /\ IsC(s, i + 2) /\ IsP(s, i + 3) /\ IsC(s, i + 4)
              THEN (IF PLen(s[i + 3][2]) = s[i + 1][2] THEN Ok(Exp("str", c, s[i + 3][2], "", <<>>, a), i + 5) ELSE Fail)
         ELSE Fail
    [] c \in AggTypes ->
         IF IsL(s, i + 1, "-1") /\ IsC(s, i + 2) /\ c = "*" /\ a = <<>> THEN Ok(ExpNull, i + 3)
         ELSE IF IsL(s, i + 1, "?") /\ IsC(s, i + 2) /\ c # ">"
              THEN LET r == PEnd(s, i + 3) IN
                   IF r.ok /\ (c = "%" => Len(r.vs) % 2 = 0) THEN Ok(Exp("agg", c, <<>>, "", r.vs, a), r.pos) ELSE Fail
         ELSE IF IsN(s, i + 1) /\ IsC(s, i + 2)
              THEN LET r == PN(s, i + 3, IF c = "%" THEN 2 * s[i + 1][2] ELSE s[i + 1][2]) IN
                   IF r.ok THEN Ok(Exp("agg", c, <<>>, "", r.vs, a), r.pos) ELSE Fail
         ELSE Fail
    [] OTHER -> Fail

PV(s, i) ==
  IF IsY(s, i, "|")
  THEN IF IsN(s, i + 1) /\ IsC(s, i + 2)
       THEN LET r == PN(s, i + 3, 2 * s[i + 1][2]) IN
            IF r.ok /\ ~IsY(s, r.pos, "|") THEN PBody(s, r.pos, <<r.vs>>) ELSE Fail
       ELSE Fail
  ELSE PBody(s, i, <<>>)

Parse(s) == LET r == PV(s, 1) IN IF r.ok /\ r.pos = Len(s) + 1 THEN r ELSE Fail

----------------------------------------------------------------------------------------------------------------
(* sizes in bytes of token expansions (needed for "declared length = what is left + 1") *)
RECURSIVE Digits(_), TokSize(_), ToksSize(_)
Digits(k) == IF k < 10 THEN 1 ELSE 1 + Digits(k \div 10)
TokSize(tok) ==
  CASE tok[1] = "y" -> 1
    [] tok[1] = "l" -> Len(tok[2])
    [] tok[1] = "n" -> Digits(tok[2])
    [] tok[1] = "p" -> PLen(tok[2])
    [] tok[1] = "c" -> 2
    [] tok[1] = "x" -> 1
    [] tok[1] = "t" -> tok[3]
    [] tok[1] = "r" -> tok[2] * ToksSize(tok[3])
ToksSize(s) == IF s = <<>> THEN 0 ELSE TokSize(Head(s)) + ToksSize(Tail(s))

----------------------------------------------------------------------------------------------------------------
(* C13: malformed input.  A mutation is [name, toks, cls]; cls "error": every decoder must fail;                *)
(* cls "any": lenient decoders may deliver some value.  In both cases: no panic, bounded allocation.            *)
Mut(name, toks, cls) == [name |-> name, toks |-> toks, cls |-> cls]
NoMut == Mut("none", <<>>, "")
Ctx(s, i) == IF Tag(s, i - 1) = "y" THEN s[i - 1][2] ELSE "?"      \* type byte in front of a length token
TokName(tok) == IF tok[1] \in {"y", "l"} THEN tok[1] \o tok[2] ELSE tok[1]
Replace(s, i, new) == SubSeq(s, 1, i - 1) \o new \o SubSeq(s, i + 1, Len(s))
InsertBefore(s, i, new) == SubSeq(s, 1, i - 1) \o new \o SubSeq(s, i, Len(s))

TruncBoundary(s) == { Mut("trunc-before:" \o TokName(s[i + 1]), SubSeq(s, 1, i), "error") : i \in 0 .. Len(s) - 1 }
TruncInside(s) ==
  UNION { { Mut("trunc-inside:" \o TokName(s[i]) \o (IF k = 1 THEN ":first" ELSE ":last"),
                SubSeq(s, 1, i - 1) \o <<Cut(s[i], k)>>, "error") : k \in {1, TokSize(s[i]) - 1} \ {0} }
          : i \in {j \in DOMAIN s : TokSize(s[j]) >= 2} }

HugeLens == {"2147483648", "4611686018427387909", "9223372036854775808", "99999999999999999999", "100000000", "3000000"}
BadLens == {"1x", "x", "", "1 1"}
LenMutations(s) ==
  UNION { LET c == Ctx(s, i)
              rest == ToksSize(SubSeq(s, i + 2, Len(s)))      \* bytes that follow the header line
          IN  { Mut("len=-5@" \o c, Replace(s, i, <<L("-5")>>), "error") }
              \cup { Mut("len=-1@" \o c, Replace(s, i, <<L("-1")>>), "any") }
              \cup (IF s[i][2] # 0 THEN { Mut("len=0@" \o c, Replace(s, i, <<N(0)>>), "any") } ELSE {})
              \cup { Mut("len=rest+1@" \o c, Replace(s, i, <<N(rest + 1)>>), "error") }
              \cup { Mut("len=" \o h \o "@" \o c, Replace(s, i, <<L(h)>>), "error") : h \in HugeLens }
              \cup (IF s[i][2] <= 3   \* 2^64 + k wraps to k in 64-bit arithmetic: lenient decoders may deliver the value
                    THEN { Mut("len=2^64+k@" \o c, Replace(s, i, <<L("1844674407370955161" \o ToString(6 + s[i][2]))>>), "any") }
                    ELSE {})
              \cup { Mut("len=nondigit:" \o b \o "@" \o c, Replace(s, i, <<L(b)>>), "error") : b \in BadLens }
          : i \in {j \in DOMAIN s : s[j][1] = "n"} }

UnknownBytes == {64, 65, 49, 0, 255, 32, 13, 10}
TypeMutations(s) ==
  UNION { LET c == s[i][2] IN
          IF c = ";" THEN { Mut("chunk-marker-replaced", Replace(s, i, <<X(64)>>), "any"),
                            Mut("chunk-marker=$", Replace(s, i, <<Y("$")>>), "any") }
          ELSE IF c = "." THEN { Mut("end-marker-replaced", Replace(s, i, <<X(64)>>), "error") }
          ELSE { Mut("unknown-type-byte:" \o ToString(b), Replace(s, i, <<X(b)>>), "error") : b \in UnknownBytes }
               \cup { Mut("chunk-terminator-as-value", InsertBefore(s, i, <<Y(";"), N(0), CRLF>>), "any"),
                      Mut("end-marker-as-value", InsertBefore(s, i, <<Y("."), CRLF>>), "any") }
          : i \in {j \in DOMAIN s : s[j][1] = "y"} }

CrlfMutations(s) ==
  UNION { { Mut("crlf-missing", Replace(s, i, <<>>), "any"),
            Mut("crlf=LF", Replace(s, i, <<X(10)>>), "any"),
            Mut("crlf=CR", Replace(s, i, <<X(13)>>), "any"),
            Mut("crlf=CRCR", Replace(s, i, <<X(13), X(13)>>), "any"),
            Mut("crlf=xy", Replace(s, i, <<X(120), X(121)>>), "any") }
          : i \in {j \in DOMAIN s : s[j][1] = "c"} }

TextMutations(s) ==
  UNION { IF Ctx(s, i) = ":"
          THEN { Mut("int=" \o w, Replace(s, i, <<L(w)>>), "error") : w \in {"abc", "", "1.5", "--1", "1 "} }
               \cup { Mut("int=" \o w, Replace(s, i, <<L(w)>>), "any") : w \in {"-", "9223372036854775808", "99999999999999999999999"} }
          ELSE IF Ctx(s, i) = "#"
          THEN { Mut("bool=" \o w, Replace(s, i, <<L(w)>>), "any") : w \in {"x", "", "tt", "T", "true"} }
          ELSE IF s[i][2] = "?"      \* the streaming marker on a type that cannot be streamed / with garbage
          THEN { Mut("stream-marker=??", Replace(s, i, <<L("??")>>), "any") }
          ELSE {}
          : i \in {j \in DOMAIN s : s[j][1] = "l"} }

(* tree level: a streamed map with an odd number of elements; a streamed aggregate / string without terminator *)
TreeMutations(x) ==
  (IF x.t = "%" /\ x.f = "s" /\ Len(x.kids) >= 2
   THEN { Mut("streamed-map-odd", Encode([x EXCEPT !.kids = SubSeq(x.kids, 1, Len(x.kids) - 1)]), "any") } ELSE {})
  \cup (IF x.t \in AggTypes /\ x.f = "p" /\ Len(x.kids) >= 1 /\ x.kids[1].f = "s" /\ x.kids[1].t \in AggTypes
        THEN { Mut("nested-stream-unterminated",
                   <<Y(x.t), N(Count(x)), CRLF, Y(x.kids[1].t), L("?"), CRLF>> \o EncodeSeq(x.kids[1].kids)
                   \o EncodeSeq(Tail(x.kids)), "any") } ELSE {})

Mutations(x) == LET s == Encode(x) IN
  TruncBoundary(s) \cup TruncInside(s) \cup LenMutations(s) \cup TypeMutations(s) \cup CrlfMutations(s)
  \cup TextMutations(s) \cup TreeMutations(x)

(* nesting depth d: d array headers "*1\r\n" around one leaf; well formed, and a decoder must survive it *)
DeepToks(d) == <<Rep(d, <<Y("*"), N(1), CRLF>>), Y(":"), L("1"), CRLF>>

----------------------------------------------------------------------------------------------------------------
(* C14: commands.  argv is given run-length encoded: a sequence of groups [rep, arg], arg a payload.           *)
Grp(rep, arg) == [rep |-> rep, arg |-> arg]
RECURSIVE ArgCount(_), EncodeGroups(_)
ArgCount(gs) == IF gs = <<>> THEN 0 ELSE Head(gs).rep + ArgCount(Tail(gs))
EncodeGroups(gs) == IF gs = <<>> THEN <<>>
                    ELSE <<Rep(Head(gs).rep, <<Y("$"), N(PLen(Head(gs).arg)), CRLF, P(Head(gs).arg), CRLF>>)>> \o EncodeGroups(Tail(gs))
EncodeCmd(gs) == <<Y("*"), N(ArgCount(gs)), CRLF>> \o EncodeGroups(gs)

(* reference decoder of one command at token i: [ok, gs, pos] *)
RECURSIVE PGroups(_, _, _)
PGroups(s, i, left) ==
  IF left = 0 THEN [ok |-> TRUE, gs |-> <<>>, pos |-> i]
  ELSE IF Tag(s, i) # "r" THEN [ok |-> FALSE, gs |-> <<>>, pos |-> 0]
  ELSE LET b == s[i][3] IN
       IF Len(b) = 5 /\ IsY(b, 1, "$") /\ IsN(b, 2) /\ IsC(b, 3) /\ IsP(b, 4) /\ IsC(b, 5) /\ b[2][2] = PLen(b[4][2]) /\ s[i][2] <= left
       THEN LET q == PGroups(s, i + 1, left - s[i][2]) IN
            IF q.ok THEN [ok |-> TRUE, gs |-> <<Grp(s[i][2], b[4][2])>> \o q.gs, pos |-> q.pos] ELSE q
       ELSE [ok |-> FALSE, gs |-> <<>>, pos |-> 0]
ParseCmd(s, i) == IF IsY(s, i, "*") /\ IsN(s, i + 1) /\ IsC(s, i + 2) THEN PGroups(s, i + 3, s[i + 1][2])
                  ELSE [ok |-> FALSE, gs |-> <<>>, pos |-> 0]
=============================================================================
