------------------------------- MODULE Selector -------------------------------
(* Property C22: the read-node selectors of helper.go follow their documented priorities.

   nodes[0] is the primary, nodes[1..] are replicas; every node has an availability zone.  Indices below are
   the 0-based indices the Go functions return; -1 means "no choice" (the client then uses the primary).

   Two layers:
   * the DOCUMENTED contract, as a set: Admissible(c) = the results the documentation allows for a call,
     Rotating(c) = the candidates consecutive calls must rotate through (the first 8 same-AZ replicas among the
     first 255 nodes: "We cap the search at 255 nodes", 8 remembered matches), hence every window of
     |Rotating| consecutive calls on an unchanged node list returns each of them exactly once;
   * a transcription of the ALGORITHM (one shared uint32 counter, modulo selection) as a tiny state machine
     `sel`, on which TLC checks, for every node list of the bound and every call sequence, that the algorithm
     meets the contract (AlwaysAdmissible, Rotates).  BugUnderflow re-introduces the defect of the pinned commit:
     `uint32(len(nodes)-startIdx)` for an empty node list.

   The driver receives (nodes, client AZ, Admissible, Rotating) per case and checks the real selectors' results
   against these sets; the exact order of rotation is not part of the contract and is not compared. *)
EXTENDS Integers, Sequences, FiniteSets, TLC, Json

CONSTANTS AZs,             \* availability zones, e.g. {"a", "b", ""}
          MaxNodes,        \* node lists of length 0..MaxNodes are enumerated exhaustively
          MaxCalls,        \* length of the call sequence on one selector (short lists)
          LongCalls,       \* length of the call sequence for the long lists
          Long,            \* TRUE: add the long node lists (254, 255, 256, 300 nodes)
          Emit,
          BugUnderflow

VARIABLES case, cnt, hist
vars == <<case, cnt, hist>>

Selectors == {"prefer", "az", "azp"}     \* PreferReplica, AZAffinity, AZAffinityReplicasAndPrimary

\* A case: selector, number of nodes n, the set `same` of indices (0-based) whose AZ equals the client's AZ,
\* and (for short lists, informative) the AZ list itself.  Long lists are given by (n, same) only.
Min(a, b) == IF a < b THEN a ELSE b

Replicas(c)     == 1..(c.n - 1)
SameAZReps(c)   == {i \in 1..(Min(c.n, 255) - 1) : i \in c.same}          \* same-AZ replicas among the first 255 nodes

Smallest(S, k) == {x \in S : Cardinality({y \in S : y < x}) < k}        \* the k smallest elements of S

\* ---------------- the documented contract
Admissible(c) ==
  CASE c.sel = "prefer" -> IF c.n > 1 THEN Replicas(c) ELSE {-1}
    [] c.sel = "az"     -> IF SameAZReps(c) # {} THEN SameAZReps(c)
                           ELSE IF c.n > 1 THEN Replicas(c) ELSE {-1}
    [] c.sel = "azp"    -> IF SameAZReps(c) # {} THEN SameAZReps(c)
                           ELSE IF c.n > 0 /\ 0 \in c.same THEN {0}
                           ELSE IF c.n > 1 THEN Replicas(c) ELSE {-1}

Rotating(c) ==
  CASE c.sel = "prefer" -> Admissible(c)
    [] OTHER            -> IF SameAZReps(c) # {} THEN Smallest(SameAZReps(c), 8) ELSE Admissible(c)

\* ---------------- the algorithm (helper.go), with its uint32 counter
\* k-th (0-based) element of a set of integers in increasing order
RECURSIVE Nth(_, _)
Nth(S, k) == LET m == CHOOSE x \in S : \A y \in S : x <= y IN IF k = 0 THEN m ELSE Nth(S \ {m}, k - 1)

\* pickAZ(nodes, clientAZ, 1, &counter): -2 stands for "no match, counter untouched"
PickAZ(c, counter) ==
  LET m == c.m8
  IN  IF c.n <= 1 \/ m = {} THEN -2 ELSE Nth(m, (counter + 1) % Cardinality(m))

\* result of one call when the shared counter holds `counter`; the second component is the new counter
Call(c, counter) ==
  CASE c.sel = "prefer" -> IF c.n > 1 THEN <<((counter + 1) % (c.n - 1)) + 1, counter + 1>> ELSE <<-1, counter>>
    [] c.sel = "az"     -> IF PickAZ(c, counter) # -2 THEN <<PickAZ(c, counter), counter + 1>>
                           ELSE IF c.n = 0 /\ BugUnderflow
                                THEN <<(counter + 1) + 1, counter + 1>>      \* count = 2^32-1: c % count = c for every reachable c
                           ELSE IF c.n - 1 > 0 THEN <<((counter + 1) % (c.n - 1)) + 1, counter + 1>>
                           ELSE <<-1, counter>>
    [] c.sel = "azp"    -> IF PickAZ(c, counter) # -2 THEN <<PickAZ(c, counter), counter + 1>>
                           ELSE IF c.n > 0 /\ 0 \in c.same THEN <<0, counter>>
                           ELSE IF c.n > 1 THEN <<((counter + 1) % (c.n - 1)) + 1, counter + 1>>
                           ELSE <<-1, counter>>

\* ---------------- case space
RECURSIVE SeqsOfLen(_, _)
SeqsOfLen(S, n) == IF n = 0 THEN {<<>>} ELSE {Append(s, x) : s \in SeqsOfLen(S, n - 1), x \in S}

ShortCases ==
  {[sel |-> s, n |-> Len(azs), azs |-> azs, client |-> cz, same |-> {i \in 0..(Len(azs) - 1) : azs[i + 1] = cz}] :
      s \in Selectors, azs \in UNION {SeqsOfLen(AZs, n) : n \in 0..MaxNodes}, cz \in AZs}

\* long lists: described by the index set of same-AZ nodes; the driver gives every other node a different AZ
LongSames(n) == { {}, {0}, {n - 1}, {0, n - 1},
                  {254} \cap (0..(n - 1)), {255} \cap (0..(n - 1)), {0, 255} \cap (0..(n - 1)), {255, n - 1} \cap (0..(n - 1)),
                  {253, 254, 255} \cap (0..(n - 1)),
                  1..9, 2..12, {3, 30, 60, 90, 120, 150, 180, 210, 240} , {1, 2, 3, 4, 5, 6, 7, 250, 253},
                  {i \in 1..(n - 1) : i % 2 = 0}, 1..(n - 1), 0..(n - 1) }
LongCases ==
  IF Long THEN UNION {{[sel |-> s, n |-> n, azs |-> <<>>, client |-> "a", same |-> sm] :
                             s \in Selectors, sm \in LongSames(n)} : n \in {254, 255, 256, 300}}
  ELSE {}

\* the contract sets are computed once per case and carried in the case record
Ext(b) == [sel |-> b.sel, n |-> b.n, azs |-> b.azs, client |-> b.client, same |-> b.same,
           adm |-> Admissible(b), rot |-> Rotating(b), m8 |-> Smallest(SameAZReps(b), 8)]
Cases == {Ext(b) : b \in ShortCases \cup LongCases}

\* ---------------- behaviour: MaxCalls consecutive calls on one selector instance with an unchanged node list
Init == case \in Cases /\ cnt = 0 /\ hist = <<>>
CallsOf(c) == IF c.n <= MaxNodes THEN MaxCalls ELSE LongCalls
DoCall == /\ Len(hist) < CallsOf(case)
          /\ LET r == Call(case, cnt) IN hist' = Append(hist, r[1]) /\ cnt' = r[2]
          /\ UNCHANGED case
Next == DoCall
Spec == Init /\ [][Next]_vars

\* ---------------- invariants
\* the contract itself is well-formed: never empty, always -1 or a valid index, priorities respected
ContractOK ==
  LET A == case.adm
  IN  /\ A = Admissible(case) /\ A # {}
      /\ \A r \in A : r = -1 \/ r \in 0..(case.n - 1)
      /\ case.rot \subseteq A /\ case.rot # {}
      /\ (case.sel # "prefer" /\ case.m8 # {} => A \subseteq case.same \ {0})
      /\ (-1 \in A <=> (case.n <= 1 /\ ~(case.sel = "azp" /\ case.n = 1 /\ 0 \in case.same)))

\* the algorithm only returns admissible results ...
AlwaysAdmissible == \A i \in 1..Len(hist) : hist[i] \in case.adm

\* ... and every window of |Rotating| consecutive calls returns every rotating candidate
Rotates ==
  LET R == case.rot  w == Cardinality(R)
  IN  \A i \in 1..(Len(hist) - w + 1) : {hist[j] : j \in i..(i + w - 1)} = R

EmitCase ==
  (Emit /\ hist = <<>>) =>
     PrintT(<<"CASE", ToJson([sel |-> case.sel, n |-> case.n, azs |-> case.azs, client |-> case.client, same |-> case.same,
                              adm |-> case.adm, rot |-> case.rot, calls |-> LET w == 2 * Cardinality(case.rot) + 2 IN IF w > MaxCalls THEN w ELSE MaxCalls])>>)
=============================================================================
