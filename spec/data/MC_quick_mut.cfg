\* model self-check: every mutation of class "error" is rejected by the reference decoder
CONSTANTS
  DefectChunkLenTotal = FALSE
  DefectMapCountKids = FALSE
  DefectNull2Empty = FALSE
  Mode = "mut"
  MaxNodes = 3
  MaxDepth = 3
  Emit = FALSE
  SampleN = 1500
  Thorough = FALSE
INIT Init
NEXT Next
INVARIANTS RoundTrip PushRoundTrip MutantsRejected CmdRoundTrip Bounds
