SPECIFICATION Spec
CONSTANTS
  Names = {"GET", "HGETALL", "GETRANGE", "GETBIT", "HGET", "HMGET", "ZRANGE", "ZRANGEBYSCORE", "LRANGE", "EVAL_RO"}
  Tokens = {"HGET", "GET"}
  MaxFields = 2
  Separator = TRUE
  Emit = FALSE
INVARIANTS InjectiveLru InjectiveAdapter AdapterCoarser
CHECK_DEADLOCK FALSE
