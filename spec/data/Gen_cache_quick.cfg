\* case generation, quick tier: mode cache
CONSTANTS
  DefectChunkLenTotal = FALSE
  DefectMapCountKids = FALSE
  DefectNull2Empty = FALSE
  Mode = "cache"
  MaxNodes = 3
  MaxDepth = 3
  Emit = TRUE
  SampleN = 1500
  Thorough = FALSE
INIT Init
NEXT Next
INVARIANTS EmitCase RoundTrip PushRoundTrip MutantsRejected CmdRoundTrip Bounds
