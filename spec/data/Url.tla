------------------------------- MODULE Url -------------------------------
(* Property C44: ParseURL maps every supported component of a redis / rediss / valkey / valkeys / unix URL
   to its own option and rejects invalid values.

   Decision table.  A case chooses, for every URL component, one of a few forms (absent / valid / invalid ...);
   Text* give the URL text of each form, Expected(c) the option record (or "error") the documentation of
   ParseURL and of ClientOption promises:

     redis://<user>:<password>@<host>:<port>/<db_number>?addr=<host2>:<port2>&addr=<host3>:<port3>
     unix://<user>:<password>@</path/to/redis.sock>?db=<db_number>
     dial_timeout -> Dialer.Timeout      write_timeout -> ConnWriteTimeout     protocol=2 -> AlwaysRESP2
     client_cache=0 -> DisableCache      max_retries=0 -> DisableRetry        client_name -> ClientName
     master_set -> Sentinel.MasterSet    skip_verify -> TLSConfig.InsecureSkipVerify (TLS schemes only)
     missing host -> localhost, missing port -> 6379; rediss/valkeys -> TLSConfig with ServerName = host

   Modelled as the code has it (not promised anywhere, stated here so that the table is total): a `db` query
   parameter is honoured for every scheme and wins over the path; skip_verify is ignored without TLS; `addr`
   entries are appended after the socket path of a unix URL.

   The invariant NonInterference is the property's "no parameter overwrites another parameter's option":
   removing one query parameter from a case changes at most the option that parameter owns.
   BugWriteToDial re-introduces the defect of the pinned commit (write_timeout stored into Dialer.Timeout). *)
EXTENDS Integers, Sequences, FiniteSets, TLC, Json

CONSTANTS Tier,            \* "quick" | "thorough" | "tiny": which part of the product is enumerated
          Emit,
          BugWriteToDial

VARIABLE case
vars == <<case>>

\* ---------------- forms
Schemes  == {"redis", "rediss", "valkey", "valkeys", "unix", "http"}
\* "esc": user and password with characters that must be percent-encoded in a URL (u@1 / p:/ 1 -> "u%401", "p%3A%2F%201")
Creds    == {"none", "user", "userpass", "pass", "esc"}
Hosts    == {"none", "name", "nameport", "portonly", "v6port", "v6"}     \* non-unix
Socks    == {"sock", "nosock"}                                     \* unix: the path is the socket
Paths    == {"absent", "valid", "invalid", "extra"}                \* non-unix: /<db>

Params   == {"dial", "write", "addr", "proto", "cache", "name", "retries", "master", "skip", "db"}
Forms    == [dial    |-> {"absent", "valid", "valid2", "invalid"},
             write   |-> {"absent", "valid", "valid2", "invalid"},
             \* "mixed": an address with its own host followed by a port-only one (which takes the host of the URL, not
             \* the host of the address before it); "port": a port-only address alone
             addr    |-> {"absent", "one", "two", "mixed", "port"},
             proto   |-> {"absent", "two", "three"},
             cache   |-> {"absent", "zero", "one"},
             name    |-> {"absent", "set"},
             retries |-> {"absent", "zero", "three"},
             master  |-> {"absent", "set"},
             skip    |-> {"absent", "flag", "true", "false", "invalid"},
             db      |-> {"absent", "valid", "invalid"}]
FirstValid == [dial |-> "valid", write |-> "valid", addr |-> "two", proto |-> "two", cache |-> "zero", name |-> "set",
               retries |-> "zero", master |-> "set", skip |-> "true", db |-> "valid"]
Invalidable == {"dial", "write", "skip", "db"}

IsUnix(c) == c.scheme = "unix"
IsTLS(c)  == c.scheme \in {"rediss", "valkeys"}

\* ---------------- URL text of every form
CredText == [none |-> "", user |-> "u1@", userpass |-> "u1:p1@", pass |-> ":p1@", esc |-> "u%401:p%3A%2F%201@"]
HostText == [none |-> "", name |-> "h1", nameport |-> "h1:7001", portonly |-> ":7001", v6port |-> "[::1]:7001", v6 |-> "[::1]",
             sock |-> "", nosock |-> ""]
PathText == [absent |-> "", valid |-> "/3", invalid |-> "/x", extra |-> "/3/4"]
SockText == [sock |-> "/tmp/r.sock", nosock |-> ""]

Opt(cond, s) == IF cond THEN <<s>> ELSE <<>>

Query(c) ==
     Opt(c.dial = "valid", "dial_timeout=5s") \o Opt(c.dial = "valid2", "dial_timeout=150ms") \o Opt(c.dial = "invalid", "dial_timeout=abc")
  \o Opt(c.write = "valid", "write_timeout=7s") \o Opt(c.write = "valid2", "write_timeout=250ms") \o Opt(c.write = "invalid", "write_timeout=xyz")
  \o Opt(c.addr \in {"one", "two", "mixed"}, "addr=h2:7002") \o Opt(c.addr = "two", "addr=h3:7003")
  \o Opt(c.addr \in {"mixed", "port"}, "addr=:7004")
  \o Opt(c.proto = "two", "protocol=2") \o Opt(c.proto = "three", "protocol=3")
  \o Opt(c.cache = "zero", "client_cache=0") \o Opt(c.cache = "one", "client_cache=1")
  \o Opt(c.name = "set", "client_name=cn")
  \o Opt(c.retries = "zero", "max_retries=0") \o Opt(c.retries = "three", "max_retries=3")
  \o Opt(c.master = "set", "master_set=ms")
  \o Opt(c.skip = "flag", "skip_verify") \o Opt(c.skip = "true", "skip_verify=true") \o Opt(c.skip = "false", "skip_verify=false")
  \o Opt(c.skip = "invalid", "skip_verify=a")
  \o Opt(c.db = "valid", "db=5") \o Opt(c.db = "invalid", "db=z")

\* the driver assembles  scheme "://" authority path [ "?" query joined by "&" ]  (and may permute the query)
Parts(c) == [scheme    |-> c.scheme,
             authority |-> CredText[c.cred] \o HostText[c.host],
             path      |-> IF IsUnix(c) THEN SockText[c.host] ELSE PathText[c.path],
             query     |-> Query(c)]

\* ---------------- the documented mapping
HostName == [none |-> "localhost", name |-> "h1", nameport |-> "h1", portonly |-> "localhost", v6port |-> "::1", v6 |-> "::1"]
HostAddr == [none |-> "localhost:6379", name |-> "h1:6379", nameport |-> "h1:7001", portonly |-> "localhost:7001",
             v6port |-> "[::1]:7001", v6 |-> "[::1]:6379"]

\* the host a port-only addr entry gets: the host of the URL (bracketed when it is an IPv6 literal), else localhost
DefHost == [none |-> "localhost", name |-> "h1", nameport |-> "h1", portonly |-> "localhost", v6port |-> "[::1]", v6 |-> "[::1]",
            sock |-> "localhost", nosock |-> "localhost"]

DialMs(f)  == CASE f = "valid" -> 5000 [] f = "valid2" -> 150 [] OTHER -> 0
WriteMs(f) == CASE f = "valid" -> 7000 [] f = "valid2" -> 250 [] OTHER -> 0

IsError(c) ==
  \/ c.scheme \notin {"redis", "rediss", "valkey", "valkeys", "unix"}
  \/ ~IsUnix(c) /\ c.path \in {"invalid", "extra"}
  \/ c.db = "invalid"
  \/ c.dial = "invalid"
  \/ c.write = "invalid"
  \/ IsTLS(c) /\ c.skip = "invalid"

ErrRec == [err |-> TRUE, user |-> "", pass |-> "", addrs |-> <<>>, db |-> 0, dialMs |-> 0, writeMs |-> 0, tls |-> FALSE,
           serverName |-> "", skipVerify |-> FALSE, resp2 |-> FALSE, noCache |-> FALSE, noRetry |-> FALSE,
           clientName |-> "", masterSet |-> "", unix |-> FALSE]

Expected(c) ==
  IF IsError(c) THEN ErrRec
  ELSE [err        |-> FALSE,
        user       |-> IF c.cred \in {"user", "userpass"} THEN "u1" ELSE IF c.cred = "esc" THEN "u@1" ELSE "",
        pass       |-> IF c.cred \in {"userpass", "pass"} THEN "p1" ELSE IF c.cred = "esc" THEN "p:/ 1" ELSE "",
        addrs      |-> (IF IsUnix(c) THEN <<SockText[c.host]>> ELSE <<HostAddr[c.host]>>)
                       \o Opt(c.addr \in {"one", "two", "mixed"}, "h2:7002") \o Opt(c.addr = "two", "h3:7003")
                       \o Opt(c.addr \in {"mixed", "port"}, DefHost[c.host] \o ":7004"),
        db         |-> IF c.db = "valid" THEN 5 ELSE IF ~IsUnix(c) /\ c.path = "valid" THEN 3 ELSE 0,
        dialMs     |-> IF BugWriteToDial /\ c.write # "absent" THEN WriteMs(c.write) ELSE DialMs(c.dial),
        writeMs    |-> IF BugWriteToDial THEN 0 ELSE WriteMs(c.write),
        tls        |-> IsTLS(c),
        serverName |-> IF IsTLS(c) THEN HostName[c.host] ELSE "",
        skipVerify |-> IsTLS(c) /\ c.skip \in {"flag", "true"},
        resp2      |-> c.proto = "two",
        noCache    |-> c.cache = "zero",
        noRetry    |-> c.retries = "zero",
        clientName |-> IF c.name = "set" THEN "cn" ELSE "",
        masterSet  |-> IF c.master = "set" THEN "ms" ELSE "",
        unix       |-> IsUnix(c)]

Fields == {"user", "pass", "addrs", "db", "dialMs", "writeMs", "tls", "serverName", "skipVerify", "resp2", "noCache",
           "noRetry", "clientName", "masterSet", "unix"}
Owns == [dial |-> {"dialMs"}, write |-> {"writeMs"}, addr |-> {"addrs"}, proto |-> {"resp2"}, cache |-> {"noCache"},
         name |-> {"clientName"}, retries |-> {"noRetry"}, master |-> {"masterSet"}, skip |-> {"skipVerify"}, db |-> {"db"}]

\* ---------------- case space
NoParams == [p \in Params |-> "absent"]
Mk(scheme, cred, host, path, ps) ==
  [scheme |-> scheme, cred |-> cred, host |-> host, path |-> path,
   dial |-> ps.dial, write |-> ps.write, addr |-> ps.addr, proto |-> ps.proto, cache |-> ps.cache, name |-> ps.name,
   retries |-> ps.retries, master |-> ps.master, skip |-> ps.skip, db |-> ps.db]

\* every structural combination, no query
Structural ==
     {Mk(s, cr, h, p, NoParams) : s \in Schemes \ {"unix"}, cr \in Creds, h \in Hosts, p \in Paths}
  \cup {Mk("unix", cr, h, "absent", NoParams) : cr \in Creds, h \in Socks}

AllParamSets == [dial : Forms.dial, write : Forms.write, addr : Forms.addr, proto : Forms.proto, cache : Forms.cache,
                 name : Forms.name, retries : Forms.retries, master : Forms.master, skip : Forms.skip, db : Forms.db]

Deviating(ps) == {p \in Params : ps[p] # "absent"}
InvalidOnes(ps) == {p \in Invalidable : ps[p] = "invalid"}
OnlyFirstValidOrInvalid(ps) == \A p \in Params : ps[p] \in {"absent", FirstValid[p], "invalid"}

QuickParamSets == {ps \in AllParamSets :
                      \/ Cardinality(Deviating(ps)) <= 2                                        \* every pair of parameters, all forms
                      \/ OnlyFirstValidOrInvalid(ps) /\ Cardinality(InvalidOnes(ps)) <= 1}      \* every subset, at most one invalid

TinyParamSets == {ps \in AllParamSets : Cardinality(Deviating(ps)) <= 2 /\ OnlyFirstValidOrInvalid(ps)}

ParamSets == CASE Tier = "thorough" -> AllParamSets [] Tier = "quick" -> QuickParamSets [] OTHER -> TinyParamSets

Bases == {<<"redis", "userpass", "nameport", "valid">>, <<"rediss", "user", "nameport", "absent">>,
          <<"valkeys", "none", "none", "valid">>, <<"unix", "pass", "sock", "absent">>}

Cases == Structural \cup {Mk(b[1], b[2], b[3], b[4], ps) : b \in Bases, ps \in ParamSets}

Init == case \in Cases
Next == UNCHANGED case
Spec == Init /\ [][Next]_vars

\* ---------------- invariants
NonInterference ==
  \A p \in Params :
     LET c0 == [case EXCEPT ![p] = "absent"]
         e  == Expected(case)
         e0 == Expected(c0)
     IN  (~e.err /\ ~e0.err) => \A f \in Fields \ Owns[p] : e[f] = e0[f]

\* every valid form of a parameter is visible in the option it owns (no parameter is silently dropped)
Effective ==
  LET e == Expected(case)
  IN  ~e.err => /\ (case.dial \in {"valid", "valid2"} => e.dialMs > 0)
                /\ (case.write \in {"valid", "valid2"} => e.writeMs > 0)
                /\ (case.addr \in {"two", "mixed"} => Len(e.addrs) = 3)
                /\ (case.db = "valid" => e.db = 5)

EmitCase == Emit => PrintT(<<"CASE", ToJson([parts |-> Parts(case), exp |-> Expected(case), form |-> case])>>)
=============================================================================
