\* allocation discipline, thorough ladder / frames / lengths
CONSTANTS
  DefectChunkLenTotal = FALSE
  DefectMapCountKids = FALSE
  DefectNull2Empty = FALSE
  Emit = FALSE
  Thorough = TRUE
  GrowDivs = {1, 2, 4}
  DefectPreallocDeclared = FALSE
  DefectGrowToDeclared = FALSE
INIT Init
NEXT Next
INVARIANTS AllocBounded TypeOK Truncated
