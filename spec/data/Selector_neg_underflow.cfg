SPECIFICATION Spec
CONSTANTS
  AZs = {"a", "b"}
  MaxNodes = 2
  MaxCalls = 3
  LongCalls = 3
  Long = FALSE
  Emit = FALSE
  BugUnderflow = TRUE
INVARIANTS ContractOK AlwaysAdmissible Rotates
CHECK_DEADLOCK FALSE
