\* negative: a map accessor oracle that keeps the FIRST value of a repeated field must violate LastWins
SPECIFICATION Spec
CONSTANTS
  Gen = "c16"
  Deep = FALSE
  Emit = FALSE
  OnlyFam = "strmap"
  BugFirstWins = TRUE
  AllowNumericDocKeys = FALSE
  BugOkWithoutAddr = FALSE
  BugU64ViaI64 = FALSE
  BugCompKeepsRule = FALSE
INVARIANTS LastWins
CHECK_DEADLOCK FALSE
