\* negative: map header counts elements, not pairs -> RoundTrip must break
CONSTANTS
  DefectChunkLenTotal = FALSE
  DefectMapCountKids = TRUE
  DefectNull2Empty = FALSE
  Mode = "shapes"
  MaxNodes = 3
  MaxDepth = 3
  Emit = FALSE
  SampleN = 0
  Thorough = FALSE
INIT Init
NEXT Next
INVARIANTS RoundTrip PushRoundTrip MutantsRejected CmdRoundTrip Bounds
