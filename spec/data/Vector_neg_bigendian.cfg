SPECIFICATION Spec
CONSTANTS
  MaxVec = 1
  MaxBin = 0
  JsonDepth = 0
  Emit = FALSE
  BugBigEndian = TRUE
INVARIANTS KnownAnswers RoundTrip PackLength BytesRange 
CHECK_DEADLOCK FALSE
