SPECIFICATION Spec
CONSTANTS
  AZs = {"a", "b", ""}
  MaxNodes = 5
  MaxCalls = 0
  LongCalls = 0
  Long = TRUE
  Emit = TRUE
  BugUnderflow = FALSE
INVARIANTS ContractOK EmitCase
CHECK_DEADLOCK FALSE
