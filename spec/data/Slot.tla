------------------------------- MODULE Slot -------------------------------
(* Property C18: the key slot of a command is CRC16-XMODEM of the key's hash tag modulo 16384
   (Redis Cluster specification, "Keys distribution model" and "Hash tags").

   This module is a generation/oracle module: TLC enumerates keys (as sequences of byte values) and
   multi-key combinations and prints, for each, the slot(s) the specification predicts and whether a
   cluster builder must reject the combination.  The driver (harness/cmd/puredrv -mode slot) builds
   real commands with the cluster-mode and non-cluster builders and compares.

   Nothing of internal/cmds/slot.go is reused: the CRC is the bit-serial definition (polynomial
   0x1021, initial value 0, no reflection, no final xor) written with the Bitwise module, without a
   table; the hash-tag rule is stated twice, once as a left-to-right scan (HashPart) and once
   declaratively (IsTagOf), and TLC checks on every enumerated key that both agree (TagRuleOK).

   BugEmptyTag / BugLastBrace re-introduce two plausible defects of a hash-tag scanner; they are
   FALSE except in the negative configs. *)
EXTENDS Integers, Sequences, FiniteSets, Bitwise, TLC, Json

CONSTANTS Alphabet,        \* byte values keys are built from
          MaxLen,          \* maximal key length for the exhaustive enumeration
          AllBytes,        \* TRUE: also every single-byte key 0..255 and every key <<123, b, 125>>
          Emit,            \* TRUE: print one CASE line per state (generation runs, -workers 1)
          BugEmptyTag,     \* treat "{}" as an (empty) hash tag
          BugLastBrace     \* take the last '}' instead of the first one after the first '{'

VARIABLE case
vars == <<case>>

OPEN  == 123    \* '{'
CLOSE == 125    \* '}'

\* ---------------- CRC16-XMODEM, bit-serial
RECURSIVE ShiftXor(_, _)
ShiftXor(x, n) ==                       \* n more shift steps of the 16-bit register x
  IF x < 0 THEN x                       \* (never true: forces TLC to evaluate the lazily passed argument now,
  ELSE IF n = 0 THEN x                  \*  which keeps the evaluation stack shallow)
  ELSE LET y == (x * 2) & 65535
       IN  ShiftXor(IF (x & 32768) # 0 THEN y ^^ 4129 ELSE y, n - 1)      \* 4129 = 0x1021

CrcByte(crc, b) == ShiftXor(crc ^^ (b * 256), 8)

RECURSIVE CrcFrom(_, _, _)
CrcFrom(crc, s, i) == IF crc < 0 THEN crc           \* (never true: strict evaluation, see ShiftXor)
                      ELSE IF i > Len(s) THEN crc ELSE CrcFrom(CrcByte(crc, s[i]), s, i + 1)

Crc16(s) == CrcFrom(0, s, 1)

\* ---------------- hash tag
\* Left-to-right scan: the first '{', then the next '}' after it; the tag is used only when it is non-empty.
FirstAt(s, from, ch) ==
  LET hits == {i \in from..Len(s) : s[i] = ch}
  IN  IF hits = {} THEN 0 ELSE CHOOSE i \in hits : \A j \in hits : i <= j

LastAt(s, from, ch) ==
  LET hits == {i \in from..Len(s) : s[i] = ch}
  IN  IF hits = {} THEN 0 ELSE CHOOSE i \in hits : \A j \in hits : i >= j

HashPart(k) ==
  LET s == FirstAt(k, 1, OPEN)
  IN  IF s = 0 THEN k
      ELSE LET e == IF BugLastBrace THEN LastAt(k, s + 1, CLOSE) ELSE FirstAt(k, s + 1, CLOSE)
           IN  IF e = 0 THEN k
               ELSE IF e = s + 1 THEN (IF BugEmptyTag THEN <<>> ELSE k)
               ELSE SubSeq(k, s + 1, e - 1)

\* Declarative statement of the rule of the cluster specification: p is the tag of k iff k contains a '{',
\* there is a '}' to the right of the FIRST '{', and p is the non-empty text between that '{' and the FIRST '}' after it.
IsTagOf(p, k) ==
  \E s \in 1..Len(k), e \in 1..Len(k) :
     /\ k[s] = OPEN /\ \A j \in 1..(s - 1) : k[j] # OPEN
     /\ e > s /\ k[e] = CLOSE /\ \A j \in (s + 1)..(e - 1) : k[j] # CLOSE
     /\ e > s + 1
     /\ p = SubSeq(k, s + 1, e - 1)

HasTag(k) == \E s \in 1..Len(k), e \in 1..Len(k) :
     /\ k[s] = OPEN /\ \A j \in 1..(s - 1) : k[j] # OPEN
     /\ e > s /\ k[e] = CLOSE /\ \A j \in (s + 1)..(e - 1) : k[j] # CLOSE
     /\ e > s + 1

SlotOf(k) == Crc16(HashPart(k)) % 16384

\* ---------------- case space
\* Keys over the alphabet are enumerated by the behaviour itself (Extend appends one byte, up to MaxLen);
\* the seeds are the empty key and, with AllBytes, every single byte and every byte inside a tag.
SeedKeys == {<<>>}
     \cup (IF AllBytes THEN {<<b>> : b \in 0..255} \cup {<<OPEN, b, CLOSE>> : b \in 0..255}
                              \cup {<<97, OPEN, b, CLOSE, 98>> : b \in 0..255}
           ELSE {})

\* representative keys for multi-key commands: pairs/triples with equal and different slots
Rep == { <<97>>, <<98>>, <<OPEN, 97, CLOSE, 98>>, <<OPEN, 97, CLOSE, 97>>, <<98, OPEN, 97, CLOSE>>,
         <<97, OPEN, 98, CLOSE>>, <<OPEN, CLOSE, 97>>, <<OPEN, 97>>, <<97, CLOSE>>,
         <<OPEN, 97, CLOSE, OPEN, 98, CLOSE>>, <<OPEN, OPEN, 97, CLOSE, CLOSE>>, <<OPEN, CLOSE, OPEN, 97, CLOSE>>, <<>> }
RepSmall == { <<97>>, <<OPEN, 97, CLOSE, 98>>, <<98, OPEN, 97, CLOSE>>, <<OPEN, 98, CLOSE>>, <<OPEN, CLOSE, 97>> }

Multi == {<<a, b>> : a \in Rep, b \in Rep} \cup {<<a, b, c>> : a \in RepSmall, b \in RepSmall, c \in RepSmall}

Seeds == {[kind |-> "key", keys |-> <<k>>] : k \in SeedKeys} \cup {[kind |-> "multi", keys |-> ks] : ks \in Multi}

\* What the specification predicts for a case: the slot of every key; a cluster builder accepts the combination
\* iff all slots are equal (and then reports that slot), a non-cluster builder accepts every combination.
Slots(c) == [i \in 1..Len(c.keys) |-> SlotOf(c.keys[i])]
SameSlot(c) == \A i \in 1..Len(c.keys) : SlotOf(c.keys[i]) = SlotOf(c.keys[1])
Expected(c) == [kind |-> c.kind, keys |-> c.keys, slots |-> Slots(c), same |-> SameSlot(c)]

\* ---------------- behaviour: one state per case; keys over the alphabet grow byte by byte
OverAlphabet(k) == \A i \in 1..Len(k) : k[i] \in Alphabet
Init == case \in Seeds
Extend == /\ case.kind = "key"
          /\ Len(case.keys[1]) < MaxLen /\ OverAlphabet(case.keys[1])
          /\ \E x \in Alphabet : case' = [kind |-> "key", keys |-> <<Append(case.keys[1], x)>>]
Next == Extend
Spec == Init /\ [][Next]_vars

\* ---------------- invariants

\* "123456789" -> 0x31C3 (the check value of CRC-16/XMODEM); the empty string -> 0; "a" -> 0x7C87
CrcKnown == /\ Crc16(<<49, 50, 51, 52, 53, 54, 55, 56, 57>>) = 12739
            /\ Crc16(<<>>) = 0
            /\ Crc16(<<97>>) = 31879

\* (CrcKnown and SpecExamples are constant formulas: they are listed as invariants of the positive configs only)
\* examples of the cluster specification: {user1000}.following / {user1000}.followers hash "user1000";
\* foo{}{bar} hashes the whole key; foo{{bar}}zap hashes "{bar"; foo{bar}{zap} hashes "bar"
SpecExamples ==
  LET u == <<117, 115, 101, 114>>  f == <<102, 111, 111>>  b == <<98, 97, 114>>  z == <<122, 97, 112>>
  IN  /\ HashPart(<<OPEN>> \o u \o <<CLOSE, 46, 102>>) = u
      /\ HashPart(f \o <<OPEN, CLOSE, OPEN>> \o b \o <<CLOSE>>) = f \o <<OPEN, CLOSE, OPEN>> \o b \o <<CLOSE>>
      /\ HashPart(f \o <<OPEN, OPEN>> \o b \o <<CLOSE, CLOSE>> \o z) = <<OPEN>> \o b
      /\ HashPart(f \o <<OPEN>> \o b \o <<CLOSE, OPEN>> \o z \o <<CLOSE>>) = b

\* the scan and the declarative rule agree on every enumerated key
TagRuleOK == \A i \in 1..Len(case.keys) :
               LET k == case.keys[i]  p == HashPart(k)
               IN  IF HasTag(k) THEN IsTagOf(p, k) ELSE p = k

SlotRange == \A i \in 1..Len(case.keys) : SlotOf(case.keys[i]) \in 0..16383

\* keys with the same tag share a slot whatever surrounds the tag
TagDecides == \A i, j \in 1..Len(case.keys) :
                HashPart(case.keys[i]) = HashPart(case.keys[j]) => SlotOf(case.keys[i]) = SlotOf(case.keys[j])

EmitCase == Emit => PrintT(<<"CASE", ToJson(Expected(case))>>)
=============================================================================
